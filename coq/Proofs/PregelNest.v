(* Proofs/PregelNest.v — nested graphs in the engine model (C01, "a graph used as a node behaves like the
   same graph compiled alone"): a run at a node path is the run at the root, relocated; a sub-graph node is
   the function [run sub]; independence of the nesting fuel. These lemmas hold for every mode (Pregel, DAG,
   eager): they only use that the log is written, never read, and that node identity is the path. *)
From Eino Require Import Base.Util Model.Graph Proofs.PregelBase Proofs.Pregel Proofs.PregelRun.
From Coq Require Import Lia Permutation.
Open Scope N_scope.

Section Nest.
  Variable V : Type.
  Variable St : Type.
  Variable ops : vops V.

  Notation loopstate := (loopstate V St).
  Notation outcome := (outcome V).
  Notation log := (log V).

  (* ================= failures carry at least one error ================= *)
  Section FailNonempty.
    Variable exec : St -> path -> V -> res V * St.
    Variable sub : nat -> path -> V -> St -> outcome * St.
    Variable sched : nat -> list key -> nat.

    Lemma step_fail_nonempty : forall p g (ls : loopstate) es l s,
      step V St ops exec sub sched p g ls = Finish (Fail es l) s -> es <> [].
    Proof.
      intros p g ls es l s H. unfold step in H.
      destruct (step_limit_hit g (ls_step V St ls)); [inversion H; discriminate|].
      destruct (submit V St ops exec sub p g (ls_next V St ls) (ls_st V St ls)) as [[results sublog] s'].
      destruct (wait_tasks V sched g (ls_step V St ls) (ls_running V St ls ++ results)) as [completed running'].
      destruct (task_errors V completed) as [|e0 es0]; [|inversion H; discriminate].
      destruct completed as [|c0 cs0]; [inversion H; discriminate|].
      destruct (calc_next V ops g (ls_chans V St ls) (task_outputs V (c0 :: cs0))) as [[cs' ready]|e|];
        [|inversion H; discriminate|inversion H; discriminate].
      destruct (alookup kEND ready); inversion H.
    Qed.

    Lemma iterate_fail_nonempty : forall p g fuel (ls : loopstate) es l s,
      iterate V St ops exec sub sched p g fuel ls = (Fail es l, s) -> es <> [].
    Proof.
      intros p g fuel. induction fuel as [|f IH]; intros ls es l s H; simpl in H.
      - inversion H. discriminate.
      - destruct (step V St ops exec sub sched p g ls) as [ls'|o s'] eqn:E.
        + eapply IH. exact H.
        + inversion H; subst. eapply step_fail_nonempty. exact E.
    Qed.

    Lemma run_flat_fail_nonempty : forall p g x s es l s',
      run_flat V St ops exec sub sched p g x s = (Fail es l, s') -> es <> [].
    Proof.
      intros p g x s es l s' H. unfold run_flat in H.
      destruct (init_chans V g) as [cs0|e|]; [|inversion H; discriminate|inversion H; discriminate].
      destruct (calc_next V ops g cs0 [(kSTART, x)]) as [[cs1 ready]|e|];
        [|inversion H; discriminate|inversion H; discriminate].
      destruct (alookup kEND ready); [inversion H|].
      eapply iterate_fail_nonempty. exact H.
    Qed.
  End FailNonempty.

  (* the sub-graph runner [run_nest] hands to [run_flat] *)
  Definition nest_sub (exec : St -> path -> V -> res V * St) (sched : nat -> list key -> nat)
             (f : nat) (F : forest) : nat -> path -> V -> St -> outcome * St :=
    fun i p' v s' => match nth_error F i with
                     | Some g' => run_nest V St ops exec sched f F p' g' v s'
                     | None => (Fail [mkerr eUnknownNode] [], s')
                     end.

  Lemma run_nest_S : forall exec sched f F p g x s,
    run_nest V St ops exec sched (S f) F p g x s =
    run_flat V St ops exec (nest_sub exec sched f F) sched p g x s.
  Proof. reflexivity. Qed.

  Lemma run_nest_fail_nonempty : forall exec sched f F p g x s es l s',
    run_nest V St ops exec sched f F p g x s = (Fail es l, s') -> es <> [].
  Proof.
    intros exec sched f F p g x s es l s' H. destruct f as [|f].
    - simpl in H. inversion H. discriminate.
    - rewrite run_nest_S in H. eapply run_flat_fail_nonempty. exact H.
  Qed.

  Lemma nest_sub_fail_nonempty : forall exec sched f F,
    sub_fail_nonempty V St (nest_sub exec sched f F).
  Proof.
    intros exec sched f F i p v s es l s' H. unfold nest_sub in H.
    destruct (nth_error F i) as [g'|].
    - eapply run_nest_fail_nonempty. exact H.
    - inversion H. discriminate.
  Qed.

  (* ================= relocation: a run at path p0 ++ p is the run at p, moved ================= *)
  Definition reloc_event (p0 : path) (e : event V) : event V := (p0 ++ fst e, snd e).
  Definition reloc_entry (p0 : path) (le : logentry V) : logentry V := (p0 ++ fst le, map (reloc_event p0) (snd le)).
  Definition reloc_log (p0 : path) (l : log) : log := map (reloc_entry p0) l.
  Definition reloc_outcome (p0 : path) (o : outcome) : outcome :=
    match o with Done v l => Done v (reloc_log p0 l) | Fail es l => Fail es (reloc_log p0 l) end.
  Definition reloc (p0 : path) (r : outcome * St) : outcome * St := (reloc_outcome p0 (fst r), snd r).

  Definition reloc_ls (p0 : path) (ls : loopstate) : loopstate :=
    {| ls_step := ls_step V St ls; ls_chans := ls_chans V St ls; ls_next := ls_next V St ls;
       ls_running := ls_running V St ls; ls_st := ls_st V St ls; ls_log := reloc_log p0 (ls_log V St ls) |}.

  Definition sub_indices (g : graph) (i : nat) : Prop := exists n, In n (g_nodes g) /\ n_kind n = KSub i.

  Lemma reloc_log_app : forall p0 l1 l2, reloc_log p0 (l1 ++ l2) = reloc_log p0 l1 ++ reloc_log p0 l2.
  Proof. intros. unfold reloc_log. apply map_app. Qed.

  Section Sim.
    Variable p0 : path.
    Variable exec exec' : St -> path -> V -> res V * St.
    Variable sub sub' : nat -> path -> V -> St -> outcome * St.
    Variable sched : nat -> list key -> nat.
    Variable g : graph.
    Hypothesis exec_rel : forall s q v, exec' s q v = exec s (p0 ++ q) v.
    Hypothesis sub_rel : forall i q v s, sub_indices g i -> sub i (p0 ++ q) v s = reloc p0 (sub' i q v s).

    Lemma run_task_sim : forall p n v s,
      In n (g_nodes g) ->
      run_task V St ops exec sub (p0 ++ p) n v s =
      let '(r, l, s') := run_task V St ops exec' sub' p n v s in (r, reloc_log p0 l, s').
    Proof.
      intros p n v s Hin. unfold run_task. destruct (n_kind n) as [| |i] eqn:K.
      - rewrite exec_rel. rewrite <- app_assoc.
        destruct (exec s (p0 ++ p ++ [n_key n]) v) as [r s']. reflexivity.
      - reflexivity.
      - rewrite <- app_assoc. rewrite sub_rel by (exists n; split; assumption).
        destruct (sub' i (p ++ [n_key n]) v s) as [[r l|es l] s']; reflexivity.
    Qed.

    Lemma submit_sim : forall p tasks s,
      submit V St ops exec sub (p0 ++ p) g tasks s =
      let '(rs, l, s') := submit V St ops exec' sub' p g tasks s in (rs, reloc_log p0 l, s').
    Proof.
      intros p tasks. induction tasks as [|[k v] tasks IH]; intros s; simpl.
      - reflexivity.
      - destruct (find_node g k) as [n|] eqn:Hf.
        + destruct (find_node_some _ _ _ Hf) as [Hin _].
          rewrite (run_task_sim p n v s Hin).
          destruct (run_task V St ops exec' sub' p n v s) as [[r l1] s1].
          rewrite IH. destruct (submit V St ops exec' sub' p g tasks s1) as [[rs l2] s2].
          rewrite reloc_log_app. reflexivity.
        + rewrite IH. destruct (submit V St ops exec' sub' p g tasks s) as [[rs l2] s2]. reflexivity.
    Qed.

    Lemma step_entry_reloc : forall p tasks,
      step_entry V (p0 ++ p) tasks = reloc_entry p0 (step_entry V p tasks).
    Proof.
      intros p tasks. unfold step_entry, reloc_entry. simpl. f_equal.
      rewrite map_map. apply map_ext. intros [k v]. unfold reloc_event. simpl. rewrite app_assoc. reflexivity.
    Qed.

    Definition reloc_sr (sr : step_result V St) : step_result V St :=
      match sr with
      | Continue ls => Continue (reloc_ls p0 ls)
      | Finish o s => Finish (reloc_outcome p0 o) s
      end.

    Lemma step_sim : forall p (ls : loopstate),
      step V St ops exec sub sched (p0 ++ p) g (reloc_ls p0 ls) =
      reloc_sr (step V St ops exec' sub' sched p g ls).
    Proof.
      intros p ls. unfold step. simpl.
      destruct (step_limit_hit g (ls_step V St ls)); [reflexivity|].
      rewrite submit_sim.
      destruct (submit V St ops exec' sub' p g (ls_next V St ls) (ls_st V St ls)) as [[results sublog] s'].
      destruct (wait_tasks V sched g (ls_step V St ls) (ls_running V St ls ++ results)) as [completed running'].
      assert (Hlog : reloc_log p0 (ls_log V St ls) ++
                     match ls_next V St ls with [] => [] | _ :: _ => [step_entry V (p0 ++ p) (ls_next V St ls)] end ++
                     reloc_log p0 sublog =
                     reloc_log p0 (ls_log V St ls ++
                       match ls_next V St ls with [] => [] | _ :: _ => [step_entry V p (ls_next V St ls)] end ++ sublog)).
      { rewrite !reloc_log_app. f_equal. f_equal.
        destruct (ls_next V St ls); [reflexivity|]. rewrite step_entry_reloc. reflexivity. }
      rewrite Hlog.
      destruct (task_errors V completed); [|reflexivity].
      destruct completed; [reflexivity|].
      destruct (calc_next V ops g (ls_chans V St ls) (task_outputs V (p1 :: completed))) as [[cs' ready]|e|];
        [|reflexivity|reflexivity].
      destruct (alookup kEND ready); reflexivity.
    Qed.

    Lemma iterate_sim : forall p fuel (ls : loopstate),
      iterate V St ops exec sub sched (p0 ++ p) g fuel (reloc_ls p0 ls) =
      reloc p0 (iterate V St ops exec' sub' sched p g fuel ls).
    Proof.
      intros p fuel. induction fuel as [|f IH]; intros ls; simpl.
      - reflexivity.
      - rewrite step_sim. destruct (step V St ops exec' sub' sched p g ls) as [ls'|o s]; simpl.
        + apply IH.
        + reflexivity.
    Qed.

    Lemma run_flat_sim : forall p x s,
      run_flat V St ops exec sub sched (p0 ++ p) g x s =
      reloc p0 (run_flat V St ops exec' sub' sched p g x s).
    Proof.
      intros p x s. unfold run_flat.
      assert (Hm : [run_marker V (p0 ++ p)] = reloc_log p0 [run_marker V p]).
      { unfold run_marker, reloc_log, reloc_entry. simpl. reflexivity. }
      destruct (init_chans V g) as [cs0|e|]; [|unfold reloc; simpl; rewrite Hm; reflexivity
                                              |unfold reloc; simpl; rewrite Hm; reflexivity].
      destruct (calc_next V ops g cs0 [(kSTART, x)]) as [[cs1 ready]|e|];
        [|unfold reloc; simpl; rewrite Hm; reflexivity|unfold reloc; simpl; rewrite Hm; reflexivity].
      destruct (alookup kEND ready); [unfold reloc; simpl; rewrite Hm; reflexivity|].
      rewrite <- iterate_sim. f_equal.
    Qed.
  End Sim.

  (* the whole nested run *)
  Theorem run_nest_reloc : forall exec exec' sched p0,
    (forall s q v, exec' s q v = exec s (p0 ++ q) v) ->
    forall f F p g x s,
      run_nest V St ops exec sched f F (p0 ++ p) g x s =
      reloc p0 (run_nest V St ops exec' sched f F p g x s).
  Proof.
    intros exec exec' sched p0 Hex f. induction f as [|f IH]; intros F p g x s.
    - reflexivity.
    - rewrite !run_nest_S. apply run_flat_sim; [exact Hex|].
      intros i q v s0 _. unfold nest_sub. destruct (nth_error F i) as [g'|]; [apply IH|reflexivity].
  Qed.

  Definition exec_at (exec : St -> path -> V -> res V * St) (p0 : path) : St -> path -> V -> res V * St :=
    fun s q v => exec s (p0 ++ q) v.

  (* a graph run at a node path = the same graph run alone (at the root), its lambdas being the ones found
     at that path; only the recorded paths differ, by the prefix *)
  Corollary run_nest_at_path : forall exec sched f F p0 g x s,
    run_nest V St ops exec sched f F p0 g x s =
    reloc p0 (run_nest V St ops (exec_at exec p0) sched f F [] g x s).
  Proof.
    intros. rewrite <- (app_nil_r p0) at 1. apply run_nest_reloc. intros; reflexivity.
  Qed.

  (* ---------- subgraph_is_function ---------- *)
  Theorem subgraph_node_is_run : forall exec sched f F p n i g' v s,
    n_kind n = KSub i -> nth_error F i = Some g' ->
    run_task V St ops exec (nest_sub exec sched f F) p n v s =
    match run_nest V St ops (exec_at exec (p ++ [n_key n])) sched f F [] g' v s with
    | (Done r l, s') => (TOk (wrap_out V ops n r), reloc_log (p ++ [n_key n]) l, s')
    | (Fail es l, s') => (TErr (map (err_prefix (n_key n)) es), reloc_log (p ++ [n_key n]) l, s')
    end.
  Proof.
    intros exec sched f F p n i g' v s Hk Hg. unfold run_task. rewrite Hk. unfold nest_sub. rewrite Hg.
    rewrite run_nest_at_path.
    destruct (run_nest V St ops (exec_at exec (p ++ [n_key n])) sched f F [] g' v s) as [[r l|es l] s']; reflexivity.
  Qed.

  (* every entry a nested run writes lies at or below its own path *)
  Lemma reloc_log_paths : forall p0 (l : log), Forall (fun le => exists r, fst le = p0 ++ r) (reloc_log p0 l).
  Proof.
    intros p0 l. unfold reloc_log. apply Forall_forall. intros le Hin. apply in_map_iff in Hin.
    destruct Hin as [le' [<- _]]. exists (fst le'). reflexivity.
  Qed.

  Lemma run_nest_log_below : forall exec sched f F p g x s,
    Forall (fun le => exists r, fst le = p ++ r) (outcome_log V (fst (run_nest V St ops exec sched f F p g x s))).
  Proof.
    intros. rewrite run_nest_at_path.
    destruct (run_nest V St ops (exec_at exec p) sched f F [] g x s) as [[r l|es l] s']; simpl; apply reloc_log_paths.
  Qed.

  (* ================= congruence in the sub-graph runner; nesting fuel ================= *)
  Lemma reloc_event_nil : forall e, reloc_event [] e = e.
  Proof. intros [q v]. reflexivity. Qed.
  Lemma reloc_log_nil : forall l, reloc_log [] l = l.
  Proof.
    intros l. unfold reloc_log. induction l as [|[q evs] l IH]; simpl; [reflexivity|]. rewrite IH.
    unfold reloc_entry. simpl. f_equal. f_equal. induction evs as [|e evs IHe]; simpl; [reflexivity|].
    rewrite reloc_event_nil, IHe. reflexivity.
  Qed.
  Lemma reloc_nil : forall r, reloc [] r = r.
  Proof. intros [[v l|es l] s]; unfold reloc; simpl; rewrite reloc_log_nil; reflexivity. Qed.

  (* run_flat only consults the runner at indices of its own sub-graph nodes *)
  Lemma run_flat_sub_ext : forall exec sub sub' sched g,
    (forall i q v s, sub_indices g i -> sub i q v s = sub' i q v s) ->
    forall p x s, run_flat V St ops exec sub sched p g x s = run_flat V St ops exec sub' sched p g x s.
  Proof.
    intros exec sub sub' sched g H p x s.
    pose proof (run_flat_sim [] exec exec sub sub' sched g (fun _ _ _ => eq_refl)) as Hs.
    simpl in Hs. rewrite Hs; [apply reloc_nil|].
    intros i q v s0 Hi. rewrite reloc_nil. apply H. exact Hi.
  Qed.

  (* forests as the harness builds them: a sub-graph node refers to a strictly larger index *)
  Definition well_nested (F : forest) : Prop :=
    forall j g i, nth_error F j = Some g -> sub_indices g i -> (j < i)%nat /\ (i < List.length F)%nat.

  (* with enough fuel for the graphs below index j, more fuel changes nothing *)
  Theorem run_nest_fuel_indep : forall exec sched F,
    well_nested F ->
    forall f1 f2 j g p x s,
      nth_error F j = Some g ->
      (List.length F - j <= f1)%nat -> (List.length F - j <= f2)%nat ->
      run_nest V St ops exec sched f1 F p g x s = run_nest V St ops exec sched f2 F p g x s.
  Proof.
    intros exec sched F Hw f1. induction f1 as [|f1 IH]; intros f2 j g p x s Hj H1 H2.
    - exfalso. assert (j < List.length F)%nat by (apply nth_error_Some; rewrite Hj; discriminate). lia.
    - destruct f2 as [|f2].
      + exfalso. assert (j < List.length F)%nat by (apply nth_error_Some; rewrite Hj; discriminate). lia.
      + rewrite !run_nest_S. apply run_flat_sub_ext.
        intros i q v s0 Hi. unfold nest_sub. destruct (nth_error F i) as [g'|] eqn:Hg'; [|reflexivity].
        destruct (Hw _ _ _ Hj Hi) as [Hlt Hlen].
        apply (IH f2 i); [exact Hg'|lia|lia].
  Qed.

  (* [run] gives the root enough fuel *)
  Corollary run_fuel_enough : forall exec sched F g x s f,
    well_nested F -> nth_error F O = Some g -> (List.length F <= f)%nat ->
    run V St ops exec sched F x s = run_nest V St ops exec sched f F [] g x s.
  Proof.
    intros exec sched F g x s f Hw Hg Hf. unfold run. destruct F as [|g0 F']; [discriminate|].
    simpl in Hg. inversion Hg; subst g0.
    apply (run_nest_fuel_indep exec sched (g :: F') Hw _ _ O); [reflexivity|simpl; lia|simpl in *; lia].
  Qed.
End Nest.
