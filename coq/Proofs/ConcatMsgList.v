(* Proofs/ConcatMsgList.v — re-chunking invariance of concatMessageArray and of
   concatStreamReader[[]*Message] (Model/ConcatMsg.v: concat_msg_arrays, msglist_stream):
   position-wise, a column with no message stays nil, a column with one message keeps it
   unmerged, a column with several goes through ConcatMessages (Proofs/ConcatMsg.v). *)
From Eino Require Import Base.Util Model.Concat Model.ConcatMsg.
From Eino Require Import Proofs.Concat Proofs.ConcatRechunk Proofs.ConcatMsg.

Section User.
Context {U : UserFn} {L : UserLaw}.

Definition cell (ma : list (option msg)) (i : nat) : list msg :=
  match nth_error ma i with Some (Some m) => [m] | _ => [] end.

Lemma column_cons i ma mas : column i (ma :: mas) = cell ma i ++ column i mas.
Proof. reflexivity. Qed.

Lemma column_app i a b : column i (a ++ b) = column i a ++ column i b.
Proof. unfold column. apply flat_map_app. Qed.

Lemma Forall2_length' {A B} (R : A -> B -> Prop) l r : Forall2 R l r -> List.length l = List.length r.
Proof. induction 1; cbn; congruence. Qed.

Lemma Forall2_nth_seq {B} (R : nat -> B -> Prop) r : forall s n,
  Forall2 R (seq s n) r -> forall i, i < n -> exists b, nth_error r i = Some b /\ R (s + i) b.
Proof.
  induction r as [|b r IH]; intros s n H i Hi.
  - inversion H as [Hs|]. destruct n; [lia|discriminate].
  - destruct n as [|n]; [lia|]. cbn [seq] in H. inversion H as [|? ? ? ? Hb Hr]; subst.
    destruct i as [|i].
    + exists b. split; [reflexivity|]. rewrite Nat.add_0_r. exact Hb.
    + destruct (IH (S s) n Hr i) as [b' [Hn Hb']]; [lia|]. exists b'. split; [exact Hn|].
      replace (s + S i) with (S s + i) by lia. exact Hb'.
Qed.

(* one column: concat (concat! (col xs) :: col ys) ~ concat (col xs ++ col ys) *)
Lemma column_rechunk cx cy ci :
  concat_column cx = Ok ci ->
  req (concat_column ((match ci with Some m => [m] | None => [] end) ++ cy)) (concat_column (cx ++ cy)).
Proof.
  destruct cx as [|m1 [|m2 s]]; cbn [concat_column]; intros H.
  - inversion H; subst. apply req_refl.
  - inversion H; subst. apply req_refl.
  - pose proof (msgs_rechunk (map Some (m1 :: m2 :: s)) (map Some cy)) as R.
    unfold msgs_rechunk_stmt in R.
    destruct (concat_msgs (map Some (m1 :: m2 :: s))) as [cm| |] eqn:E; cbn [res_map] in H; try discriminate.
    inversion H; subst ci. destruct cy as [|y cy].
    + rewrite !app_nil_r. cbn [app concat_column]. rewrite E. reflexivity.
    + cbn [app concat_column]. rewrite <- map_app in R. cbn [map app] in *.
      apply req_res_map. exact R.
Qed.

Lemma column_fails cx cy : fails (concat_column cx) -> fails (concat_column (cx ++ cy)).
Proof.
  destruct cx as [|m1 [|m2 s]]; cbn [concat_column]; unfold fails at 1; cbn [is_ok]; try discriminate.
  intros H. pose proof (msgs_rechunk (map Some (m1 :: m2 :: s)) (map Some cy)) as R.
  unfold msgs_rechunk_stmt in R. rewrite <- map_app in R.
  cbn [app concat_column]. apply fails_res_map.
  destruct (concat_msgs (map Some (m1 :: m2 :: s))); cbn in H; [discriminate|exact R|exact R].
Qed.

Definition lens_ok (n : nat) (mas : list (list (option msg))) : bool :=
  forallb (fun ma => Nat.eqb (List.length ma) n) mas.

Lemma arrays_unfold ma0 mas :
  concat_msg_arrays (ma0 :: mas) =
  if lens_ok (List.length ma0) (ma0 :: mas)
  then res_mapM (fun i => concat_column (column i (ma0 :: mas))) (seq 0 (List.length ma0))
  else Err E_LEN.
Proof. reflexivity. Qed.

(* concatMessageArray (the function the registry calls): any non-empty prefix *)
Theorem msg_arrays_rechunk xs ys : xs <> [] -> rechunk_ok concat_msg_arrays xs ys.
Proof.
  intros Hne. destruct xs as [|ma0 xs]; [congruence|]. clear Hne.
  unfold rechunk_ok. cbn [app]. rewrite !arrays_unfold.
  set (n := List.length ma0).
  assert (Hsplit : lens_ok n (ma0 :: xs ++ ys) = lens_ok n (ma0 :: xs) && lens_ok n ys).
  { unfold lens_ok. change (ma0 :: xs ++ ys) with ((ma0 :: xs) ++ ys). apply forallb_app. }
  rewrite Hsplit. destruct (lens_ok n (ma0 :: xs)) eqn:Lx; cbn [andb]; [|reflexivity].
  destruct (res_mapM _ (seq 0 n)) as [c| |] eqn:Ec.
  - (* the prefix concatenates to c *)
    apply res_mapM_Forall2 in Ec.
    assert (Hlen : List.length c = n) by (apply Forall2_length' in Ec; rewrite seq_length in Ec; congruence).
    rewrite arrays_unfold. rewrite Hlen. cbn [lens_ok forallb]. fold (lens_ok n ys).
    rewrite Hlen, Nat.eqb_refl. cbn [andb].
    destruct (lens_ok n ys); [|reflexivity].
    apply res_mapM_req. intros i Hi. apply in_seq in Hi.
    destruct (Forall2_nth_seq _ _ _ _ Ec i) as [ci [Hn Hci]]; [lia|]. cbn [Nat.add] in Hci.
    rewrite column_cons. change (ma0 :: xs ++ ys) with ((ma0 :: xs) ++ ys). rewrite column_app.
    unfold cell. rewrite Hn.
    pose proof (column_rechunk _ (column i ys) _ Hci) as R.
    destruct ci; exact R.
  - destruct (lens_ok n ys); [|reflexivity].
    assert (F : fails (res_mapM (fun i => concat_column (column i (ma0 :: xs))) (seq 0 n))) by (rewrite Ec; reflexivity).
    apply res_mapM_fails_inv in F. destruct F as [i [Hi F]].
    apply res_mapM_fails with (a := i); [exact Hi|].
    change (ma0 :: xs ++ ys) with ((ma0 :: xs) ++ ys). rewrite column_app. apply column_fails, F.
  - destruct (lens_ok n ys); [|reflexivity].
    assert (F : fails (res_mapM (fun i => concat_column (column i (ma0 :: xs))) (seq 0 n))) by (rewrite Ec; reflexivity).
    apply res_mapM_fails_inv in F. destruct F as [i [Hi F]].
    apply res_mapM_fails with (a := i); [exact Hi|].
    change (ma0 :: xs ++ ys) with ((ma0 :: xs) ++ ys). rewrite column_app. apply column_fails, F.
Qed.

(* concatMessageArray on a single list returns that list (entry by entry) *)
Lemma cell_single_column ma i : column i [ma] = cell ma i.
Proof. rewrite column_cons. cbn. apply app_nil_r. Qed.

Lemma arrays_single_from ma : forall pre,
  res_mapM (fun i => concat_column (column i [pre ++ ma])) (seq (List.length pre) (List.length ma)) = Ok ma.
Proof.
  induction ma as [|x ma IH]; intros pre; cbn [List.length seq res_mapM]; [reflexivity|].
  rewrite cell_single_column. unfold cell.
  rewrite nth_error_app2 by lia. rewrite Nat.sub_diag. cbn [nth_error].
  specialize (IH (pre ++ [x])). rewrite <- app_assoc in IH. cbn [app] in IH.
  rewrite app_length in IH. cbn [List.length] in IH. rewrite Nat.add_1_r in IH.
  destruct x as [m|]; cbn [concat_column res_bind]; rewrite IH; reflexivity.
Qed.

Lemma arrays_single ma : concat_msg_arrays [ma] = Ok ma.
Proof.
  rewrite arrays_unfold. cbn [lens_ok forallb]. rewrite Nat.eqb_refl. cbn [andb].
  exact (arrays_single_from ma []).
Qed.

(* concatStreamReader[[]*Message]: a single chunk is returned as it is *)
Theorem msglist_stream_rechunk_weak xs ys : xs <> [] -> rechunk_ok msglist_stream xs ys.
Proof.
  intros Hne. unfold rechunk_ok.
  destruct xs as [|x1 [|x2 l]]; [congruence| |].
  - cbn [msglist_stream]. apply req_refl.
  - pose proof (msg_arrays_rechunk (x1 :: x2 :: l) ys) as H. unfold rechunk_ok in H.
    change (msglist_stream (x1 :: x2 :: l)) with (concat_msg_arrays (x1 :: x2 :: l)).
    change (msglist_stream ((x1 :: x2 :: l) ++ ys)) with (concat_msg_arrays ((x1 :: x2 :: l) ++ ys)).
    destruct (concat_msg_arrays (x1 :: x2 :: l)) as [c| |] eqn:E; try (apply H; discriminate).
    destruct ys as [|y ys'].
    + rewrite app_nil_r. cbn [msglist_stream]. rewrite E. reflexivity.
    + apply H. discriminate.
Qed.

Theorem msglist_stream_rechunk xs ys : xs <> [] -> rechunk_strict msglist_stream xs ys.
Proof.
  intros Hne. apply rechunk_strict_of; auto using msglist_stream_no_panic, msglist_stream_rechunk_weak.
Qed.

End User.
