(* Proofs/StreamTrace.v — property C08: the history variables of the model are projections of
   the observable trace.

   The theorems of Props/C08.v speak about ghost logs ([h_got], [h_eof] of a reader handle,
   [s_sent] of a pipe).  Here: along every run these logs are exactly what the trace shows —
   [h_got] = the items the Recv calls on that handle returned, in order; [h_eof] = some Recv on
   it returned io.EOF; [s_sent] of a user pipe = the items whose Send returned closed=false, in
   order.  Hence every theorem about the logs is a theorem about what the calls returned. *)
From Eino Require Import Base.Util Model.Stream Proofs.Stream Proofs.StreamRel Proofs.StreamWf.
From Coq Require Import Lia.

(* ------------------------------------------------------------------ projections of a trace *)

Definition step_items (h : nat) (o : op) (b : obs) : list item :=
  match o, b with
  | ORecv h' _, BRecv (PItem x) => if Nat.eqb h h' then [x] else []
  | _, _ => []
  end.

Definition step_eof (h : nat) (o : op) (b : obs) : bool :=
  match o, b with
  | ORecv h' _, BRecv PEOF => Nat.eqb h h'
  | _, _ => false
  end.

Definition step_sent (sid : nat) (o : op) (b : obs) : list item :=
  match o, b with
  | OSend sid' x, BSend SOk => if Nat.eqb sid sid' then [x] else []
  | _, _ => []
  end.

(* the items the Recv calls on handle h returned, in order *)
Fixpoint recv_trace (h : nat) (ops : list op) (bs : list obs) : list item :=
  match ops, bs with
  | o :: ops', b :: bs' => step_items h o b ++ recv_trace h ops' bs'
  | _, _ => []
  end.

(* some Recv on handle h returned io.EOF *)
Fixpoint eof_trace (h : nat) (ops : list op) (bs : list obs) : bool :=
  match ops, bs with
  | o :: ops', b :: bs' => step_eof h o b || eof_trace h ops' bs'
  | _, _ => false
  end.

(* the items whose Send on pipe sid returned closed = false, in order *)
Fixpoint sent_trace (sid : nat) (ops : list op) (bs : list obs) : list item :=
  match ops, bs with
  | o :: ops', b :: bs' => step_sent sid o b ++ sent_trace sid ops' bs'
  | _, _ => []
  end.

(* ------------------------------------------------------------------ handle tables *)

(* logs kept, handles only added, new handles have empty logs *)
Definition hl_ext (hs hs' : list handle) : Prop :=
  (forall h H, nth_error hs h = Some H ->
     exists H', nth_error hs' h = Some H' /\ h_got H' = h_got H /\ h_eof H' = h_eof H)
  /\ (forall h H', nth_error hs h = None -> nth_error hs' h = Some H' -> h_got H' = [] /\ h_eof H' = false).

Lemma hl_ext_refl : forall hs, hl_ext hs hs.
Proof. intros hs. split; [eauto | intros h H' A B; congruence]. Qed.

Lemma hl_ext_trans : forall a b c, hl_ext a b -> hl_ext b c -> hl_ext a c.
Proof.
  intros a b c [A1 A2] [B1 B2]. split.
  - intros h H Hn. destruct (A1 _ _ Hn) as (H1 & Hn1 & G1 & E1). destruct (B1 _ _ Hn1) as (H2 & Hn2 & G2 & E2).
    exists H2. split; auto. split; congruence.
  - intros h H' Hn Hc. destruct (nth_error b h) as [H1|] eqn:Eb.
    + destruct (A2 _ _ Hn Eb) as [G1 E1]. destruct (B1 _ _ Eb) as (H2 & Hn2 & G2 & E2).
      rewrite Hc in Hn2. inversion Hn2; subst. split; congruence.
    + eapply B2; eauto.
Qed.

Lemma hl_ext_upd_same : forall hs h H H', nth_error hs h = Some H ->
  h_got H' = h_got H -> h_eof H' = h_eof H -> hl_ext hs (upd hs h H').
Proof.
  intros hs h H H' Hn G E. split.
  - intros h0 H0 Hn0. destruct (Nat.eq_dec h h0) as [<-|Hne].
    + exists H'. rewrite nth_error_upd_eq by (apply nth_error_Some; congruence). split; auto. split; congruence.
    + exists H0. rewrite nth_error_upd_neq by exact Hne. auto.
  - intros h0 H0 Hn0 Hc. destruct (Nat.eq_dec h h0) as [<-|Hne]; [congruence|].
    rewrite nth_error_upd_neq in Hc by exact Hne. congruence.
Qed.

Lemma hl_ext_consume : forall G h, hl_ext (st_handles G) (st_handles (consume G h)).
Proof.
  intros G h. unfold consume. destruct (nth_error (st_handles G) h) as [H|] eqn:E; [|apply hl_ext_refl].
  simpl. eapply hl_ext_upd_same; eauto.
Qed.

Lemma hl_ext_consume_all : forall hs G, hl_ext (st_handles G) (st_handles (consume_all G hs)).
Proof.
  induction hs as [|h r IH]; intros G; simpl; [apply hl_ext_refl|].
  eapply hl_ext_trans; [apply hl_ext_consume | apply IH].
Qed.

Lemma hl_ext_app : forall hs news, Forall (fun H => h_got H = [] /\ h_eof H = false) news -> hl_ext hs (hs ++ news).
Proof.
  intros hs news Hf. split.
  - intros h H Hn. exists H. rewrite nth_error_app1 by (apply nth_error_Some; congruence). auto.
  - intros h H' Hn Hc. apply nth_error_None in Hn. rewrite nth_error_app2 in Hc by exact Hn.
    apply nth_error_In in Hc. rewrite Forall_forall in Hf. apply Hf. exact Hc.
Qed.

Lemma fresh_repeat : forall t n, Forall (fun H => h_got H = [] /\ h_eof H = false) (repeat (mkH t true false [] false) n).
Proof. intros. apply Forall_repeat. simpl. auto. Qed.

Lemma fresh_map : forall (f : nat -> rd) l,
  Forall (fun H => h_got H = [] /\ h_eof H = false) (map (fun i => mkH (f i) true false [] false) l).
Proof. intros f l. apply Forall_forall. intros H Hin. apply in_map_iff in Hin. destruct Hin as (i & <- & _). simpl. auto. Qed.

(* ------------------------------------------------------------------ one step *)

Definition hstep (hs hs' : list handle) (o : op) (b : obs) : Prop :=
  (forall h H, nth_error hs h = Some H ->
     exists H', nth_error hs' h = Some H' /\ h_got H' = h_got H ++ step_items h o b
                /\ h_eof H' = (h_eof H || step_eof h o b)%bool)
  /\ (forall h H', nth_error hs h = None -> nth_error hs' h = Some H' ->
        h_got H' = [] /\ h_eof H' = false /\ step_items h o b = [] /\ step_eof h o b = false).

Lemma hstep_of_ext : forall hs hs' o b, hl_ext hs hs' ->
  (forall h, step_items h o b = []) -> (forall h, step_eof h o b = false) -> hstep hs hs' o b.
Proof.
  intros hs hs' o b [A1 A2] Hi He. split.
  - intros h H Hn. destruct (A1 _ _ Hn) as (H' & Hn' & G & E). exists H'. split; auto.
    rewrite Hi, He, app_nil_r, Bool.orb_false_r. auto.
  - intros h H' Hn Hc. destruct (A2 _ _ Hn Hc). auto.
Qed.

Lemma do_op_hstep : forall fuel G o b G', do_op fuel G o = (b, G') -> hstep (st_handles G) (st_handles G') o b.
Proof.
  intros fuel G o b G' H.
  destruct o as [cap | xs | h n | hs | h f | sid x | sid | h ch | h | k ch]; simpl in H.
  - inversion H; subst. apply hstep_of_ext; auto. simpl. apply hl_ext_app. repeat constructor.
  - inversion H; subst. apply hstep_of_ext; auto. simpl. apply hl_ext_app. repeat constructor.
  - apply hstep_of_ext; auto.
    destruct (live_rd G h) as [t|] eqn:El; [|inversion H; subst; apply hl_ext_refl].
    destruct (Nat.ltb n 2); [inversion H; subst; apply hl_ext_refl|].
    destruct t; inversion H; subst; clear H; simpl;
      (eapply hl_ext_trans; [apply hl_ext_consume | apply hl_ext_app; first [apply fresh_repeat | apply fresh_map]]).
  - apply hstep_of_ext; auto.
    destruct hs as [|h0 [|h1 hs']]; [inversion H; subst; apply hl_ext_refl| |].
    { destruct (live_rd G h0); inversion H; subst; apply hl_ext_refl. }
    destruct (negb (nodupb (h0 :: h1 :: hs'))); [inversion H; subst; apply hl_ext_refl|].
    destruct (live_rds G (h0 :: h1 :: hs')) as [ts|] eqn:El; [|inversion H; subst; apply hl_ext_refl].
    destruct (merge_collect _ _ ts [] []) as [[[st1 fw1] ss] arr] eqn:Em.
    destruct ss as [|s0 ss']; destruct arr as [|a0 arr']; inversion H; subst; clear H; simpl;
      (eapply hl_ext_trans; [apply (hl_ext_consume_all (h0 :: h1 :: hs')) | apply hl_ext_app; repeat constructor]).
  - apply hstep_of_ext; auto.
    destruct (live_rd G h) as [t|] eqn:El; [|inversion H; subst; apply hl_ext_refl].
    inversion H; subst. simpl. eapply hl_ext_trans; [apply hl_ext_consume | apply hl_ext_app; repeat constructor].
  - apply hstep_of_ext; auto.
    destruct (nth_error (streams (st_store G)) sid) as [s|] eqn:Es; [|inversion H; subst; apply hl_ext_refl].
    destruct (negb (s_user s)); [inversion H; subst; apply hl_ext_refl|].
    destruct (stream_send s x) as [r s'] eqn:E. inversion H; subst. apply hl_ext_refl.
  - apply hstep_of_ext; auto.
    destruct (nth_error (streams (st_store G)) sid) as [s|] eqn:Es; [|inversion H; subst; apply hl_ext_refl].
    destruct (negb (s_user s)); [inversion H; subst; apply hl_ext_refl|].
    destruct (stream_close_send s) as [r s'] eqn:E. inversion H; subst. apply hl_ext_refl.
  - (* Recv *)
    destruct (nth_error (st_handles G) h) as [Hh|] eqn:Eh.
    2:{ inversion H; subst. apply hstep_of_ext; auto. apply hl_ext_refl. }
    destruct (negb (h_live Hh)).
    { inversion H; subst. apply hstep_of_ext; auto. apply hl_ext_refl. }
    destruct (recv fuel (st_store G) (h_rd Hh) ch) as [[[r st1] t1] ch1] eqn:Er.
    inversion H; subst; clear H. simpl. split.
    + intros h0 H0 Hn0. destruct (Nat.eq_dec h h0) as [<-|Hne].
      * rewrite Hn0 in Eh. inversion Eh; subst Hh.
        eexists. rewrite nth_error_upd_eq by (apply nth_error_Some; congruence). split; [reflexivity|].
        simpl. rewrite Nat.eqb_refl. destruct r as [x| | | |]; simpl; rewrite ?app_nil_r, ?Bool.orb_false_r, ?Bool.orb_true_r; auto.
      * exists H0. rewrite nth_error_upd_neq by exact Hne. split; auto.
        assert (Hf : Nat.eqb h0 h = false) by (apply Nat.eqb_neq; auto).
        unfold step_items, step_eof. rewrite Hf.
        destruct r as [x| | | |]; simpl; rewrite ?app_nil_r, ?Bool.orb_false_r; auto.
    + intros h0 H0 Hn0 Hc. destruct (Nat.eq_dec h h0) as [<-|Hne]; [congruence|].
      rewrite nth_error_upd_neq in Hc by exact Hne. congruence.
  - (* Close *)
    apply hstep_of_ext; auto.
    destruct (nth_error (st_handles G) h) as [Hh|] eqn:Eh; [|inversion H; subst; apply hl_ext_refl].
    destruct (negb (h_live Hh)); [inversion H; subst; apply hl_ext_refl|].
    destruct (close_rd fuel (st_store G) (h_rd Hh)) as [r st1] eqn:Er.
    inversion H; subst. simpl. eapply hl_ext_upd_same; eauto.
  - (* forwarder steps never touch the handle table *)
    apply hstep_of_ext; auto.
    assert (X : st_handles G' = st_handles G); [|rewrite X; apply hl_ext_refl].
    destruct (nth_error (st_fwds G) k) as [F|] eqn:EF; [|inversion H; subst; auto].
    destruct (f_st F) as [|x| |].
    + destruct (recv fuel (st_store G) (f_src F) ch) as [[[r st1] src1] ch1] eqn:Er.
      destruct r; try (inversion H; subst; reflexivity).
      destruct (nth_error (streams st1) (f_dst F)) as [d|] eqn:Ed; [|inversion H; subst; auto].
      destruct (stream_close_send d) as [r0 d'] eqn:Ec. inversion H; subst. reflexivity.
    + destruct (nth_error (streams (st_store G)) (f_dst F)) as [d|] eqn:Ed; [|inversion H; subst; auto].
      destruct (stream_send d x) as [r d'] eqn:Es.
      destruct r; try (inversion H; subst; auto; fail).
      destruct (stream_close_send d) as [r0 d''] eqn:Ec. inversion H; subst. reflexivity.
    + destruct (close_rd fuel (st_store G) (f_src F)) as [r st1] eqn:Er. inversion H; subst. reflexivity.
    + inversion H; subst; auto.
Qed.

(* ------------------------------------------------------------------ runs *)

Lemma run_hlog : forall fuel ops G bs G', run fuel G ops = (bs, G') ->
  (forall h H, nth_error (st_handles G) h = Some H ->
     exists H', nth_error (st_handles G') h = Some H' /\ h_got H' = h_got H ++ recv_trace h ops bs
                /\ h_eof H' = (h_eof H || eof_trace h ops bs)%bool)
  /\ (forall h H', nth_error (st_handles G) h = None -> nth_error (st_handles G') h = Some H' ->
        h_got H' = recv_trace h ops bs /\ h_eof H' = eof_trace h ops bs).
Proof.
  intros fuel. induction ops as [|o r IH]; intros G bs G' H; simpl in H.
  - inversion H; subst. split.
    + intros h H0 Hn. exists H0. simpl. rewrite app_nil_r, Bool.orb_false_r. auto.
    + intros h H' A B. congruence.
  - destruct (do_op fuel G o) as [b G1] eqn:E1. destruct (run fuel G1 r) as [bs2 G2] eqn:E2.
    inversion H; subst; clear H. destruct (do_op_hstep _ _ _ _ _ E1) as [S1 S2]. destruct (IH _ _ _ E2) as [R1 R2].
    split.
    + intros h H0 Hn. destruct (S1 _ _ Hn) as (H1 & Hn1 & G1' & E1'). destruct (R1 _ _ Hn1) as (H2 & Hn2 & G2' & E2').
      exists H2. split; auto. simpl. rewrite G2', G1', E2', E1', app_assoc, Bool.orb_assoc. auto.
    + intros h H' Hn Hc. simpl. destruct (nth_error (st_handles G1) h) as [H1|] eqn:Eh1.
      * destruct (S2 _ _ Hn Eh1) as (A & B & C & D). destruct (R1 _ _ Eh1) as (H2 & Hn2 & G2' & E2').
        rewrite Hc in Hn2. inversion Hn2; subst H2. rewrite G2', E2', A, B, C, D. auto.
      * destruct (R2 _ _ Eh1 Hc) as [A B].
        assert (C : step_items h o b = [] /\ step_eof h o b = false).
        { (* a Recv on a handle that does not exist is refused *)
          destruct o as [cap | xs | h1 n | hs | h1 f | sid x | sid | h1 ch | h1 | k ch]; simpl; auto.
          destruct (Nat.eq_dec h h1) as [<-|Hne].
          - simpl in E1. rewrite Hn in E1. inversion E1; subst. auto.
          - assert (Hf : Nat.eqb h h1 = false) by (apply Nat.eqb_neq; auto).
            unfold step_items, step_eof. rewrite Hf. destruct b as [| |[]| | |]; auto. }
        destruct C as [C D]. rewrite C, D. auto.
Qed.

(* h_got / h_eof of every handle = what the Recv calls on it returned *)
Lemma run_recv_log_is_trace : forall fuel ops bs G, run fuel init_state ops = (bs, G) ->
  forall h H, nth_error (st_handles G) h = Some H ->
    h_got H = recv_trace h ops bs /\ h_eof H = eof_trace h ops bs.
Proof.
  intros fuel ops bs G Hrun h H Hn. destruct (run_hlog _ _ _ _ _ Hrun) as [_ R2].
  apply (R2 h H); auto. simpl. destruct h; reflexivity.
Qed.

(* ------------------------------------------------------------------ what a pipe accepted *)

(* forwarders never write into a user pipe *)
Definition fdst_internal (G : state) : Prop :=
  forall F, In F (st_fwds G) -> forall s, nth_error (streams (st_store G)) (f_dst F) = Some s -> s_user s = false.

Lemma wf_fdst_internal : forall G, wf G -> fdst_internal G.
Proof.
  intros G (_ & _ & _ & Hf & _) F HF s Hs. rewrite Forall_forall in Hf. specialize (Hf F HF).
  destruct Hf as (s0 & Hs0 & Hu). congruence.
Qed.

(* streams kept (user flag, and for user pipes the sent log), streams only added, a new user
   pipe has accepted nothing *)
Definition sl_ext (ss ss' : list stream) : Prop :=
  (forall sid s, nth_error ss sid = Some s ->
     exists s', nth_error ss' sid = Some s' /\ s_user s' = s_user s /\ (s_user s = true -> s_sent s' = s_sent s))
  /\ (forall sid s', nth_error ss sid = None -> nth_error ss' sid = Some s' -> s_user s' = true -> s_sent s' = []).

Lemma sl_ext_refl : forall ss, sl_ext ss ss.
Proof. intros ss. split; [eauto | intros sid s' A B; congruence]. Qed.

Lemma sl_ext_trans : forall a b c, sl_ext a b -> sl_ext b c -> sl_ext a c.
Proof.
  intros a b c [A1 A2] [B1 B2]. split.
  - intros sid s Hn. destruct (A1 _ _ Hn) as (s1 & Hn1 & U1 & E1). destruct (B1 _ _ Hn1) as (s2 & Hn2 & U2 & E2).
    exists s2. split; auto. split; [congruence|]. intros Hu. rewrite E2 by congruence. auto.
  - intros sid s' Hn Hc Hu. destruct (nth_error b sid) as [s1|] eqn:Eb.
    + destruct (B1 _ _ Eb) as (s2 & Hn2 & U2 & E2). rewrite Hc in Hn2. inversion Hn2; subst s2.
      rewrite E2 by congruence. apply (A2 _ _ Hn Eb). congruence.
    + eapply B2; eauto.
Qed.

Lemma sl_ext_Forall2 : forall (R : stream -> stream -> Prop) ss ss',
  (forall s s', R s s' -> s_user s' = s_user s /\ s_sent s' = s_sent s) -> Forall2 R ss ss' -> sl_ext ss ss'.
Proof.
  intros R ss ss' HR HF. split.
  - intros sid s Hn. destruct (Forall2_nth _ _ _ _ _ _ HF Hn) as (s' & Hn' & Hr). destruct (HR _ _ Hr). eauto.
  - intros sid s' Hn Hc. apply nth_error_None in Hn. rewrite (Forall2_length' _ _ _ _ HF) in Hn.
    apply nth_error_None in Hn. congruence.
Qed.

Lemma sl_ext_store_rel : forall st st', store_rel st st' -> sl_ext (streams st) (streams st').
Proof. intros st st' [H _]. eapply sl_ext_Forall2; [|exact H]. intros s s' (_ & _ & _ & A & B). auto. Qed.

Lemma sl_ext_cstore_rel : forall st st', cstore_rel st st' -> sl_ext (streams st) (streams st').
Proof. intros st st' [H _]. eapply sl_ext_Forall2; [|exact H]. intros s s' (_ & _ & _ & A & B & _). auto. Qed.

Lemma sl_ext_app : forall ss news, Forall (fun s => s_user s = true -> s_sent s = []) news -> sl_ext ss (ss ++ news).
Proof.
  intros ss news Hf. split.
  - intros sid s Hn. exists s. rewrite nth_error_app1 by (apply nth_error_Some; congruence). auto.
  - intros sid s' Hn Hc. apply nth_error_None in Hn. rewrite nth_error_app2 in Hc by exact Hn.
    apply nth_error_In in Hc. rewrite Forall_forall in Hf. apply Hf. exact Hc.
Qed.

Lemma sl_ext_upd : forall ss sid s s', nth_error ss sid = Some s ->
  s_user s' = s_user s -> (s_user s = true -> s_sent s' = s_sent s) -> sl_ext ss (upd ss sid s').
Proof.
  intros ss sid s s' Hn U E. split.
  - intros sid0 s0 Hn0. destruct (Nat.eq_dec sid sid0) as [<-|Hne].
    + exists s'. rewrite nth_error_upd_eq by (apply nth_error_Some; congruence).
      rewrite Hn in Hn0. inversion Hn0; subst. auto.
    + exists s0. rewrite nth_error_upd_neq by exact Hne. auto.
  - intros sid0 s0 Hn0 Hc. destruct (Nat.eq_dec sid sid0) as [<-|Hne]; [congruence|].
    rewrite nth_error_upd_neq in Hc by exact Hne. congruence.
Qed.

Definition sstep (ss ss' : list stream) (o : op) (b : obs) : Prop :=
  (forall sid s, nth_error ss sid = Some s ->
     exists s', nth_error ss' sid = Some s' /\ s_user s' = s_user s
                /\ (s_user s = true -> s_sent s' = s_sent s ++ step_sent sid o b))
  /\ (forall sid s', nth_error ss sid = None -> nth_error ss' sid = Some s' -> s_user s' = true ->
        s_sent s' = [] /\ step_sent sid o b = []).

Lemma sstep_of_ext : forall ss ss' o b, sl_ext ss ss' -> (forall sid, step_sent sid o b = []) -> sstep ss ss' o b.
Proof.
  intros ss ss' o b [A1 A2] Hs. split.
  - intros sid s Hn. destruct (A1 _ _ Hn) as (s' & Hn' & U & E). exists s'. split; auto. split; auto.
    intros Hu. rewrite Hs, app_nil_r. auto.
  - intros sid s' Hn Hc Hu. split; auto. eapply A2; eauto.
Qed.

Lemma stream_close_send_sent : forall s r s', stream_close_send s = (r, s') -> s_user s' = s_user s /\ s_sent s' = s_sent s.
Proof. intros s r s'. unfold stream_close_send. destruct (s_sclosed s); intros H; inversion H; subst; auto. Qed.

Lemma new5_fresh : forall k, Forall (fun s => s_user s = true -> s_sent s = []) (repeat (new_stream 5 false) k).
Proof. intros k. apply Forall_repeat. simpl. auto. Qed.

Lemma do_op_sstep : forall fuel G o b G', do_op fuel G o = (b, G') -> wf G ->
  sstep (streams (st_store G)) (streams (st_store G')) o b.
Proof.
  intros fuel G o b G' H Hwf.
  destruct o as [cap | xs | h n | hs | h f | sid x | sid | h ch | h | k ch]; simpl in H.
  - inversion H; subst. apply sstep_of_ext; auto. simpl. apply sl_ext_app. repeat constructor.
  - inversion H; subst. apply sstep_of_ext; auto. apply sl_ext_refl.
  - apply sstep_of_ext; auto.
    destruct (live_rd G h) as [t|] eqn:El; [|inversion H; subst; apply sl_ext_refl].
    destruct (Nat.ltb n 2); [inversion H; subst; apply sl_ext_refl|].
    destruct t; inversion H; subst; clear H; simpl; rewrite ?consume_store; apply sl_ext_refl.
  - apply sstep_of_ext; auto.
    destruct hs as [|h0 [|h1 hs']]; [inversion H; subst; apply sl_ext_refl| |].
    { destruct (live_rd G h0); inversion H; subst; apply sl_ext_refl. }
    destruct (negb (nodupb (h0 :: h1 :: hs'))); [inversion H; subst; apply sl_ext_refl|].
    destruct (live_rds G (h0 :: h1 :: hs')) as [ts|] eqn:El; [|inversion H; subst; apply sl_ext_refl].
    rewrite consume_all_store, consume_all_fwds in H.
    destruct (merge_collect _ _ ts [] []) as [[[st1 fw1] ss] arr] eqn:Em.
    destruct (merge_collect_spec _ _ _ _ _ _ _ _ _ Em) as (_ & k & S1 & _).
    assert (X : sl_ext (streams (st_store G)) (streams st1)) by (rewrite S1; apply sl_ext_app; apply new5_fresh).
    destruct ss as [|s0 ss']; destruct arr as [|a0 arr']; inversion H; subst; clear H; simpl; auto;
      (eapply sl_ext_trans; [exact X | apply sl_ext_app; repeat constructor; simpl; discriminate]).
  - apply sstep_of_ext; auto.
    destruct (live_rd G h) as [t|] eqn:El; [|inversion H; subst; apply sl_ext_refl].
    inversion H; subst. simpl. rewrite consume_store. apply sl_ext_refl.
  - (* Send *)
    destruct (nth_error (streams (st_store G)) sid) as [s|] eqn:Es.
    2:{ inversion H; subst. apply sstep_of_ext; auto. apply sl_ext_refl. }
    destruct (s_user s) eqn:Eu; simpl in H.
    2:{ inversion H; subst. apply sstep_of_ext; auto. apply sl_ext_refl. }
    destruct (stream_send s x) as [r s'] eqn:E. inversion H; subst; clear H. simpl.
    pose proof (stream_send_user _ _ _ _ E) as U. split.
    + intros sid0 s0 Hn0. destruct (Nat.eq_dec sid sid0) as [<-|Hne].
      * rewrite Hn0 in Es. inversion Es; subst s0. exists s'.
        rewrite nth_error_upd_eq by (apply nth_error_Some; congruence). split; auto. split; auto.
        intros _. unfold step_sent. rewrite Nat.eqb_refl.
        destruct (stream_send_sent _ _ _ _ E) as [[-> E2]|[Hr ->]]; auto.
        destruct r; try (rewrite app_nil_r; reflexivity). congruence.
      * exists s0. rewrite nth_error_upd_neq by exact Hne. split; auto. split; auto.
        intros _. unfold step_sent. assert (Hf : Nat.eqb sid0 sid = false) by (apply Nat.eqb_neq; auto).
        rewrite Hf. destruct r; rewrite app_nil_r; reflexivity.
    + intros sid0 s0 Hn0 Hc. destruct (Nat.eq_dec sid sid0) as [<-|Hne]; [congruence|].
      rewrite nth_error_upd_neq in Hc by exact Hne. congruence.
  - apply sstep_of_ext; auto.
    destruct (nth_error (streams (st_store G)) sid) as [s|] eqn:Es; [|inversion H; subst; apply sl_ext_refl].
    destruct (negb (s_user s)); [inversion H; subst; apply sl_ext_refl|].
    destruct (stream_close_send s) as [r s'] eqn:E. inversion H; subst. simpl.
    destruct (stream_close_send_sent _ _ _ E). eapply sl_ext_upd; eauto.
  - apply sstep_of_ext; auto.
    destruct (nth_error (st_handles G) h) as [Hh|] eqn:Eh; [|inversion H; subst; apply sl_ext_refl].
    destruct (negb (h_live Hh)); [inversion H; subst; apply sl_ext_refl|].
    destruct (recv fuel (st_store G) (h_rd Hh) ch) as [[[r st1] t1] ch1] eqn:Er.
    inversion H; subst. simpl. apply recv_Recv in Er. apply sl_ext_store_rel. apply (Recv_static _ _ _ _ _ Er).
  - apply sstep_of_ext; auto.
    destruct (nth_error (st_handles G) h) as [Hh|] eqn:Eh; [|inversion H; subst; apply sl_ext_refl].
    destruct (negb (h_live Hh)); [inversion H; subst; apply sl_ext_refl|].
    destruct (close_rd fuel (st_store G) (h_rd Hh)) as [r st1] eqn:Er.
    inversion H; subst. simpl. apply close_Close in Er. apply sl_ext_cstore_rel. eapply Close_static; eauto.
  - (* forwarder steps write into internal streams only *)
    apply sstep_of_ext; auto.
    destruct (nth_error (st_fwds G) k) as [F|] eqn:EF; [|inversion H; subst; apply sl_ext_refl].
    pose proof (wf_fdst_internal _ Hwf F (nth_error_In _ _ EF)) as Hint.
    destruct (f_st F) as [|x| |].
    + destruct (recv fuel (st_store G) (f_src F) ch) as [[[r st1] src1] ch1] eqn:Er.
      apply recv_Recv in Er. pose proof (sl_ext_store_rel _ _ (proj1 (Recv_static _ _ _ _ _ Er))) as X.
      destruct r; try (inversion H; subst; exact X).
      destruct (nth_error (streams st1) (f_dst F)) as [d|] eqn:Ed; [|inversion H; subst; apply sl_ext_refl].
      destruct (stream_close_send d) as [r0 d'] eqn:Ec. inversion H; subst. simpl.
      destruct (stream_close_send_sent _ _ _ Ec). eapply sl_ext_trans; [exact X|]. eapply sl_ext_upd; eauto.
    + destruct (nth_error (streams (st_store G)) (f_dst F)) as [d|] eqn:Ed; [|inversion H; subst; apply sl_ext_refl].
      specialize (Hint d eq_refl).
      destruct (stream_send d x) as [r d'] eqn:Es.
      destruct r; try (inversion H; subst; apply sl_ext_refl; fail).
      * inversion H; subst. simpl. eapply sl_ext_upd; eauto; [eapply stream_send_user; eauto | congruence].
      * destruct (stream_close_send d) as [r0 d''] eqn:Ec. inversion H; subst. simpl.
        destruct (stream_close_send_sent _ _ _ Ec). eapply sl_ext_upd; eauto.
    + destruct (close_rd fuel (st_store G) (f_src F)) as [r st1] eqn:Er.
      inversion H; subst. simpl. apply close_Close in Er. apply sl_ext_cstore_rel. eapply Close_static; eauto.
    + inversion H; subst. apply sl_ext_refl.
Qed.

Lemma run_slog : forall fuel ops G bs G', run fuel G ops = (bs, G') -> wf G ->
  (forall sid s, nth_error (streams (st_store G)) sid = Some s ->
     exists s', nth_error (streams (st_store G')) sid = Some s' /\ s_user s' = s_user s
                /\ (s_user s = true -> s_sent s' = s_sent s ++ sent_trace sid ops bs))
  /\ (forall sid s', nth_error (streams (st_store G)) sid = None -> nth_error (streams (st_store G')) sid = Some s' ->
        s_user s' = true -> s_sent s' = sent_trace sid ops bs).
Proof.
  intros fuel. induction ops as [|o r IH]; intros G bs G' H Hwf; simpl in H.
  - inversion H; subst. split.
    + intros sid s Hn. exists s. simpl. rewrite app_nil_r. auto.
    + intros sid s' A B. congruence.
  - destruct (do_op fuel G o) as [b G1] eqn:E1. destruct (run fuel G1 r) as [bs2 G2] eqn:E2.
    inversion H; subst; clear H. destruct (do_op_sstep _ _ _ _ _ E1 Hwf) as [S1 S2].
    destruct (IH _ _ _ E2 (do_op_wf _ _ _ _ _ E1 Hwf)) as [R1 R2]. split.
    + intros sid s Hn. destruct (S1 _ _ Hn) as (s1 & Hn1 & U1 & X1). destruct (R1 _ _ Hn1) as (s2 & Hn2 & U2 & X2).
      exists s2. split; auto. split; [congruence|]. intros Hu. simpl. rewrite X2 by congruence. rewrite X1 by exact Hu.
      rewrite app_assoc. reflexivity.
    + intros sid s' Hn Hc Hu. simpl. destruct (nth_error (streams (st_store G1)) sid) as [s1|] eqn:Es1.
      * destruct (R1 _ _ Es1) as (s2 & Hn2 & U2 & X2). rewrite Hc in Hn2. inversion Hn2; subst s2.
        assert (Hu1 : s_user s1 = true) by congruence.
        destruct (S2 _ _ Hn Es1 Hu1) as [A B]. rewrite X2 by exact Hu1. rewrite A, B. reflexivity.
      * rewrite (R2 _ _ Es1 Hc Hu).
        assert (C : step_sent sid o b = []).
        { destruct o as [cap | xs | h1 n | hs | h1 f | sid1 x | sid1 | h1 ch | h1 | k ch]; simpl; auto.
          destruct (Nat.eq_dec sid sid1) as [<-|Hne].
          - simpl in E1. rewrite Hn in E1. inversion E1; subst. reflexivity.
          - unfold step_sent. assert (Hf : Nat.eqb sid sid1 = false) by (apply Nat.eqb_neq; auto).
            rewrite Hf. destruct b as [|[]| | | |]; auto. }
        rewrite C. reflexivity.
Qed.

(* s_sent of every user pipe = the items whose Send returned closed = false, in order *)
Lemma run_sent_log_is_trace : forall fuel ops bs G, run fuel init_state ops = (bs, G) ->
  forall sid s, nth_error (streams (st_store G)) sid = Some s -> s_user s = true ->
    s_sent s = sent_trace sid ops bs.
Proof.
  intros fuel ops bs G Hrun sid s Hn Hu. destruct (run_slog _ _ _ _ _ Hrun init_wf) as [_ R2].
  apply (R2 sid s); auto. simpl. destruct sid; reflexivity.
Qed.
