(* Proofs/Ser.v — lemmas about Model/Ser.v: the encoder / decoder round trip on the typed
   value universe, by structural induction over the nested value type with the pointer
   count as the generalised invariant. *)
From Coq Require Import List Bool Arith NArith ZArith String Ascii Lia.
From Eino Require Import Base.Util Base.Universe Model.Ser.
Import ListNotations.
Local Open Scope bool_scope.

(* ------------------------------------------------------------------ monad plumbing *)
Lemma bind_ok {A B} (r : res A) (f : A -> res B) (b : B) :
  res_bind r f = Ok b -> exists a, r = Ok a /\ f a = Ok b.
Proof. destruct r; simpl; intro H; try discriminate H. eauto. Qed.

Lemma bind_Ok_l {A B} (a : A) (f : A -> res B) : res_bind (Ok a) f = f a.
Proof. reflexivity. Qed.

Ltac bind_inv H :=
  let a := fresh "a" in
  let Ha := fresh "Ha" in
  apply bind_ok in H; destruct H as [a [Ha H]].

Lemma mapM_nil {A B} (f : A -> res B) : mapM f [] = Ok [].
Proof. reflexivity. Qed.
Lemma mapM_cons {A B} (f : A -> res B) a l :
  mapM f (a :: l) = (do b <- f a; do bs <- mapM f l; Ok (b :: bs)).
Proof. reflexivity. Qed.

Lemma mapM_rel {A B C} (f : A -> res B) (g : B -> res C) (R : C -> A -> Prop) :
  forall l bs,
    Forall (fun a => forall b, f a = Ok b -> exists c, g b = Ok c /\ R c a) l ->
    mapM f l = Ok bs ->
    exists cs, mapM g bs = Ok cs /\ Forall2 R cs l.
Proof.
  induction l as [|a l IH]; intros bs HF H.
  - rewrite mapM_nil in H. inversion H. subst. exists []. split; [reflexivity|constructor].
  - rewrite mapM_cons in H. bind_inv H. bind_inv H. inversion H; subst. clear H.
    inversion HF as [|? ? Ha1 HF']; subst.
    destruct (Ha1 _ Ha) as [c [Hc HR]].
    destruct (IH _ HF' Ha0) as [cs [Hcs HRs]].
    exists (c :: cs). split; [|constructor; assumption].
    rewrite mapM_cons, Hc. simpl. rewrite Hcs. reflexivity.
Qed.

(* ------------------------------------------------------------------ the registry *)
Lemma rm_lookup_in : forall reg t k, rm_lookup reg t = Some k -> In k (map fst reg).
Proof.
  induction reg as [|[k0 t0] r IH]; simpl; intros t k H; [discriminate H|].
  destruct (ty_eqb t t0).
  - inversion H. now left.
  - right. eapply IH; eauto.
Qed.

Lemma reg_consistent : forall reg, NoDup (map fst reg) ->
  forall t k, rm_lookup reg t = Some k -> m_lookup reg k = Some t.
Proof.
  induction reg as [|[k0 t0] r IH]; simpl; intros ND t k H; [discriminate H|].
  inversion ND as [|? ? Hnin ND']; subst.
  destruct (ty_eqb t t0) eqn:E.
  - inversion H; subst. apply ty_eqb_eq in E. subst. now rewrite String.eqb_refl.
  - assert (Hin := rm_lookup_in _ _ _ H).
    destruct (String.eqb k k0) eqn:Ek.
    + apply String.eqb_eq in Ek. subst. contradiction.
    + now apply IH.
Qed.

(* ------------------------------------------------------------------ small facts *)
Lemma alist_get_nodup {A} : forall (l : list (string * A)) f a,
  NoDup (map fst l) -> In (f, a) l -> alist_get f l = Some a.
Proof.
  induction l as [|[g b] l IH]; simpl; intros f a ND Hin; [contradiction|].
  inversion ND as [|? ? Hnin ND']; subst.
  destruct Hin as [Heq|Hin].
  - inversion Heq; subst. now rewrite String.eqb_refl.
  - destruct (String.eqb f g) eqn:E.
    + apply String.eqb_eq in E. subst. exfalso. apply Hnin.
      change g with (fst (g, a)). now apply in_map.
    + now apply IH.
Qed.

Lemma has_name_in : forall f ds, In f (map fst ds) -> has_name f ds = true.
Proof.
  induction ds as [|[g t] ds IH]; simpl; intro H; [contradiction|].
  destruct H as [H|H].
  - subst. now rewrite String.eqb_refl.
  - rewrite (IH H). apply orb_true_r.
Qed.

Lemma key_shape : forall env a, wt env a = true -> is_basic_ty (ty_of a) = true ->
  (exists b l, a = VBase b l /\ lit_in_base b l = true) \/
  (exists n b l, a = VNamed n b l /\ lit_in_base b l = true).
Proof.
  intros env a Hwt Hb. destruct a; simpl in *; try discriminate Hb.
  - left. eauto.
  - right. eauto.
  - apply andb_true_iff in Hwt. destruct Hwt as [Hi _]. destruct it; discriminate.
Qed.

Lemma iface_not_eqb : forall a b, is_iface a = false -> is_iface b = true -> ty_eqb a b = false.
Proof.
  intros a b Ha Hb. destruct (ty_eqb a b) eqn:E; [|reflexivity].
  apply ty_eqb_eq in E. subst. congruence.
Qed.

Definition safe (v : val) : Prop := Forall (fun bl => jsafe (snd bl) = true) (lits_of v).

Section Roundtrip.
  Variables J JK : Type.
  Variable jenc : base -> lit -> res J.
  Variable jdec : base -> J -> res lit.
  Variable kenc : base -> lit -> res JK.
  Variable kdec : base -> JK -> res lit.
  Variable reg : registry.
  Variable env : senv.

  (* the JSON layer round-trips on in-range literals with valid UTF-8 *)
  Hypothesis jrt : forall b l j,
    lit_in_base b l = true -> jsafe l = true -> jenc b l = Ok j -> jdec b j = Ok l.
  Hypothesis krt : forall b l j,
    lit_in_base b l = true -> jsafe l = true -> kenc b l = Ok j -> kdec b j = Ok l.
  (* registry names are unique; struct field names are unique *)
  Hypothesis reg_names : NoDup (map fst reg).
  Hypothesis env_names : forall n ds, struct_fields env n = Some ds -> NoDup (map fst ds).

  Notation ENC := (enc_at J JK jenc kenc fixed reg).
  Notation DEC := (dec J JK jdec kdec fixed reg env).
  Notation HOLE := (hole J JK env DEC).
  Notation IS := (istruct J JK).

  (* ---- defining equations *)
  Lemma enc_base : forall pn b l,
    ENC pn (VBase b l) = (do key <- lookup_name reg (TBase b); do j <- jenc b l; Ok (Some (IBasic pn key j))).
  Proof. reflexivity. Qed.
  Lemma enc_named : forall pn n b l,
    ENC pn (VNamed n b l) = (do key <- lookup_name reg (TNamed n b); do j <- jenc b l; Ok (Some (IBasic pn key j))).
  Proof. reflexivity. Qed.
  Lemma enc_struct : forall pn n fs,
    ENC pn (VStruct n fs) =
    (do key <- lookup_name reg (TStruct n);
     do fields <- mapM (fun fv => do i <- ENC 0 (snd fv); Ok (fst fv, i)) fs;
     Ok (Some (IStruct pn key fields))).
  Proof. reflexivity. Qed.
  Lemma enc_nil : forall pn t,
    ENC pn (VNilPtr t) =
    (do key <- lookup_name reg (snd (strip_ptr t));
     Ok (Some (INull (S pn + fst (strip_ptr t)) pn key))).
  Proof. reflexivity. Qed.
  Lemma enc_ptr : forall pn w, ENC pn (VPtr w) = ENC (S pn) w.
  Proof. reflexivity. Qed.
  Lemma enc_slice : forall pn t o,
    ENC pn (VSlice t o) =
    (do ek <- elem_key reg t;
     do elems <- match o with None => Ok [] | Some es => mapM (ENC 0) es end;
     Ok (Some (ISlice pn (fst ek) (snd ek) elems false None))).
  Proof. reflexivity. Qed.
  Lemma enc_array : forall pn t es,
    ENC pn (VArray t es) =
    (do ek <- elem_key reg t;
     do elems <- mapM (ENC 0) es;
     Ok (Some (ISlice pn (fst ek) (snd ek) elems true None))).
  Proof. reflexivity. Qed.
  Lemma enc_map : forall pn k t o,
    ENC pn (VMap k t o) =
    (do kk <- elem_key reg k;
     do vk <- elem_key reg t;
     do entries <- match o with
                   | None => Ok []
                   | Some kvs => mapM (fun kv => do i <- ENC 0 (snd kv);
                                                 do jk <- enc_key JK kenc (fst kv); Ok (jk, i)) kvs
                   end;
     Ok (Some (IMap pn (fst kk) (snd kk) (fst vk) (snd vk) entries None))).
  Proof. reflexivity. Qed.
  Lemma enc_iface0 : forall it o,
    ENC 0 (VIface it o) = match o with None => Ok None | Some w => ENC 0 w end.
  Proof. reflexivity. Qed.
  Lemma enc_def : forall pn d w,
    ENC pn (VDef d w) =
    (if negb (Nat.eqb pn 0) && match rm_lookup reg (TDef d (ty_of w)) with None => true | Some _ => false end
     then Err E_UNKNOWN_TYPE
     else do oi <- ENC pn w; Ok (set_ct J JK (rm_lookup reg (TDef d (ty_of w))) oi)).
  Proof. reflexivity. Qed.

  Lemma dec_null : forall pn nn key,
    DEC (INull pn nn key) =
    (do t <- lookup_ty reg key;
     do z <- zero (zero_fuel env) env (add_ptr (pn - Nat.min nn pn) t);
     Ok (wrap_ptr (Nat.min nn pn) z)).
  Proof. reflexivity. Qed.
  Lemma dec_basic : forall pn key j,
    DEC (IBasic pn key j) =
    (do t <- lookup_ty reg key;
     match t with
     | TBase b => do l <- jdec b j; Ok (wrap_ptr pn (VBase b l))
     | TNamed n b => do l <- jdec b j; Ok (wrap_ptr pn (VNamed n b l))
     | _ => Err E_UNMODELLED
     end).
  Proof. reflexivity. Qed.
  Lemma dec_struct : forall pn key fields,
    DEC (IStruct pn key fields) =
    (do t <- lookup_ty reg key;
     match t with
     | TStruct n =>
         match struct_fields env n with
         | None => Err E_NOSTRUCT
         | Some ds =>
             do decoded <- mapM (fun fi => do o <- dec_opt J JK DEC (snd fi); Ok (fst fi, o)) fields;
             if forallb (fun fo => has_name (fst fo) ds) decoded
             then do fs <- build_fields env ds decoded; Ok (wrap_ptr pn (VStruct n fs))
             else Err E_FIELD
         end
     | _ => match fields with
            | [] => do z <- zero (zero_fuel env) env t; Ok (wrap_ptr pn z)
            | _ => Panic
            end
     end).
  Proof. reflexivity. Qed.
  Lemma dec_map : forall pn kpn kname vpn vname entries ct,
    DEC (IMap pn kpn kname vpn vname entries ct) =
    (do kt0 <- lookup_ty reg kname;
     do vt0 <- lookup_ty reg vname;
     do c <- container_ty reg ct (TMap (add_ptr kpn kt0) (add_ptr vpn vt0));
     do kvs <- mapM (fun e => do k <- dec_key JK kdec env (add_ptr kpn kt0) (fst e);
                              do v <- HOLE (add_ptr vpn vt0) (snd e);
                              Ok (k, v)) entries;
     Ok (wrap_ptr pn (as_ty c (VMap (add_ptr kpn kt0) (add_ptr vpn vt0) (Some kvs))))).
  Proof. reflexivity. Qed.
  Lemma dec_slice : forall pn epn ename elems ct,
    DEC (ISlice pn epn ename elems false ct) =
    (do et0 <- lookup_ty reg ename;
     do c <- container_ty reg ct (TSlice (add_ptr epn et0));
     do es <- mapM (HOLE (add_ptr epn et0)) elems;
     Ok (wrap_ptr pn (as_ty c (VSlice (add_ptr epn et0) (match es with [] => None | _ => Some es end))))).
  Proof. reflexivity. Qed.
  Lemma dec_array : forall pn epn ename elems ct,
    DEC (ISlice pn epn ename elems true ct) =
    (do et0 <- lookup_ty reg ename;
     do c <- container_ty reg ct (TArray (List.length elems) (add_ptr epn et0));
     do es <- mapM (HOLE (add_ptr epn et0)) elems;
     Ok (wrap_ptr pn (as_ty c (VArray (add_ptr epn et0) es)))).
  Proof. reflexivity. Qed.

  (* ---- registry lookups invert *)
  Lemma lookup_name_inv : forall t k, lookup_name reg t = Ok k -> lookup_ty reg k = Ok t.
  Proof.
    unfold lookup_name, lookup_ty. intros t k H.
    destruct (rm_lookup reg t) as [k'|] eqn:E; inversion H; subst.
    now rewrite (reg_consistent reg reg_names _ _ E).
  Qed.
  Lemma elem_key_inv : forall t kk, elem_key reg t = Ok kk ->
    exists t0, lookup_ty reg (snd kk) = Ok t0 /\ add_ptr (fst kk) t0 = t.
  Proof.
    unfold elem_key. intros t kk H. bind_inv H. inversion H; subst. simpl.
    exists (snd (strip_ptr t)). split; [now apply lookup_name_inv | apply strip_ptr_add].
  Qed.

  (* ---- the invariant *)
  Definition known (t : ty) : Prop := rm_lookup reg t <> None.
  (* a value as Marshal / an interface position / a pointer sees it: the dynamic type is all
     there is.  A value of an unregistered defined container type at pointer depth 0 is
     excluded (finding F-C12g); behind a pointer the encoder refuses it. *)
  Definition concP (v : val) : Prop :=
    forall pn oi, (pn = 0%nat -> Forall known (def_ty v)) -> ENC pn v = Ok oi ->
      exists i v', oi = Some i /\ DEC i = Ok (wrap_ptr pn v') /\ v' ≅ v /\ ty_of v' = ty_of v.
  Definition holeP (v : val) : Prop :=
    forall oi, ENC 0 v = Ok oi ->
      exists v', HOLE (ty_of v) oi = Ok v' /\ v' ≅ v /\ ty_of v' = ty_of v.
  (* containers, rebuilt with whatever type [container_ty] yields *)
  Definition contP (v : val) : Prop :=
    forall pn oi ct c, ENC pn v = Ok oi -> container_ty reg ct (ty_of v) = Ok c ->
      exists i v', oi = Some i /\ set_cti J JK None i = i /\
                   DEC (set_cti J JK ct i) = Ok (wrap_ptr pn (as_ty c v')) /\ v' ≅ v /\ ty_of v' = ty_of v.
  Definition P (v : val) : Prop :=
    wt env v = true -> safe v -> Forall known (boxed_defs v) ->
    (is_iface (ty_of v) = false -> concP v) /\ holeP v /\ (is_cont_ty (ty_of v) = true -> contP v).

  Lemma as_ty_cont : forall c v, is_cont_ty c = true -> as_ty c v = v.
  Proof. intros c v H. destruct c; try discriminate H; reflexivity. Qed.

  Lemma conc_hole : forall v, Forall known (def_ty v) -> concP v -> holeP v.
  Proof.
    intros v Hk HC oi H. destruct (HC 0%nat oi (fun _ => Hk) H) as [i [v' [Hoi [Hd [Hv Ht]]]]]. subst oi.
    exists v'. split; [|split; assumption].
    unfold hole, dec_opt. simpl in Hd. rewrite Hd. simpl. unfold assign.
    rewrite Ht, ty_eqb_refl. reflexivity.
  Qed.

  Lemma cont_conc : forall v, is_cont_ty (ty_of v) = true -> contP v -> concP v.
  Proof.
    intros v Hc HC pn oi _ H.
    destruct (HC pn oi None (ty_of v) H eq_refl) as [i [v' [Hoi [Hn [Hd [Hv Ht]]]]]].
    exists i, v'. rewrite Hn in Hd. rewrite (as_ty_cont _ _ Hc) in Hd. auto.
  Qed.

  (* values that are neither containers nor of a defined container type *)
  Lemma P_conc : forall v, is_iface (ty_of v) = false -> is_cont_ty (ty_of v) = false -> def_ty v = [] ->
    (wt env v = true -> safe v -> Forall known (boxed_defs v) -> concP v) -> P v.
  Proof.
    intros v Hi Hc Hd H Hwt Hs Hb. split; [|split].
    - intros _. now apply H.
    - apply conc_hole; [rewrite Hd; constructor | now apply H].
    - intro Hc'. congruence.
  Qed.
  Lemma P_cont : forall v, is_cont_ty (ty_of v) = true -> def_ty v = [] ->
    (wt env v = true -> safe v -> Forall known (boxed_defs v) -> contP v) -> P v.
  Proof.
    intros v Hc Hd H Hwt Hs Hb. assert (HC := H Hwt Hs Hb). split; [|split].
    - intros _. now apply cont_conc.
    - apply conc_hole; [rewrite Hd; constructor | now apply cont_conc].
    - intros _. exact HC.
  Qed.

  (* ---- map keys: the plain JSON of a key-shaped value is read back as that value *)
  Lemma mapM_length {A B} (f : A -> res B) : forall l bs, mapM f l = Ok bs -> List.length bs = List.length l.
  Proof.
    induction l as [|a l IH]; intros bs H.
    - rewrite mapM_nil in H. now inversion H.
    - rewrite mapM_cons in H. bind_inv H. bind_inv H. inversion H; subst. simpl. f_equal. now apply IH.
  Qed.
  Lemma Forall2_eq {A} : forall (l m : list A), Forall2 eq l m -> l = m.
  Proof. induction 1; congruence. Qed.
  Lemma safe_flat : forall (A : Type) (f : A -> val) (l : list A),
    Forall (fun bl => jsafe (snd bl) = true) (flat_map (fun a => lits_of (f a)) l) ->
    Forall (fun a => safe (f a)) l.
  Proof. intros A f l H. apply Forall_flat_map in H. exact H. Qed.

  Lemma dec_kfields_nil : forall (d : ty -> kjson JK -> res val), dec_kfields d [] [] = Ok [].
  Proof. reflexivity. Qed.
  Lemma dec_kfields_cons : forall (d : ty -> kjson JK -> res val) f j l g ft ds,
    dec_kfields d ((f, j) :: l) ((g, ft) :: ds) =
    (if String.eqb f g then do v <- d ft j; do r <- dec_kfields d l ds; Ok ((f, v) :: r) else Err 3%N).
  Proof. reflexivity. Qed.

  Lemma key_rt : forall a, wt env a = true -> kval a = true -> safe a ->
    forall kj, enc_key JK kenc a = Ok kj -> dec_key JK kdec env (ty_of a) kj = Ok a.
  Proof.
    induction a using val_ind'; intros Hwt Hkv Hs kj He; simpl in Hkv; try discriminate Hkv.
    - (* VBase *) simpl in He. bind_inv He. inversion He; subst. clear He. simpl.
      assert (Hj : jsafe l = true) by (inversion Hs; assumption).
      simpl in Hwt. now rewrite (krt _ _ _ Hwt Hj Ha).
    - (* VNamed *) simpl in He. bind_inv He. inversion He; subst. clear He. simpl.
      assert (Hj : jsafe l = true) by (inversion Hs; assumption).
      simpl in Hwt. now rewrite (krt _ _ _ Hwt Hj Ha).
    - (* VStruct *)
      rename H into IH.
      simpl in He. bind_inv He. inversion He; subst. clear He. simpl.
      rewrite wt_struct in Hwt. destruct (struct_fields env n) as [ds|]; [|discriminate Hwt].
      assert (Hss : Forall (fun fv => safe (snd fv)) fs).
      { unfold safe in Hs. simpl in Hs. now apply (safe_flat _ (fun fv : string * val => snd fv)). }
      assert (Hd : dec_kfields (fun ft j => dec_key JK kdec env ft j) a ds = Ok fs).
      { clear Hs. revert ds a Hwt Ha. induction fs as [|[f w] fs IHfs]; intros ds l Hwt Ha.
        - rewrite mapM_nil in Ha. inversion Ha; subst. destruct ds as [|[g t] ds]; [reflexivity|simpl in Hwt; discriminate Hwt].
        - destruct ds as [|[g t] ds]; [discriminate Hwt|].
          simpl in Hwt. repeat (apply andb_true_iff in Hwt; destruct Hwt as [Hwt ?]).
          apply String.eqb_eq in Hwt. apply ty_eqb_eq in H0. subst g t.
          rewrite mapM_cons in Ha. simpl in Ha. bind_inv Ha. bind_inv Ha0. inversion Ha0; subst. clear Ha0.
          bind_inv Ha. inversion Ha; subst. clear Ha.
          inversion IH as [|? ? IHw IH']; subst. inversion Hss as [|? ? Hsw Hss']; subst.
          simpl in Hkv. apply andb_true_iff in Hkv. destruct Hkv as [Hkw Hkv]. simpl in *.
          rewrite String.eqb_refl.
          rewrite (IHw H1 Hkw Hsw _ Ha1). simpl.
          rewrite (IHfs IH' Hkv Hss' ds a H Ha0). reflexivity. }
      rewrite Hd. reflexivity.
    - (* VArray *)
      rename H into IH.
      simpl in He. bind_inv He. inversion He; subst. clear He. simpl.
      rewrite (mapM_length _ _ _ Ha), Nat.eqb_refl.
      rewrite wt_array in Hwt. apply andb_true_iff in Hwt. destruct Hwt as [_ Hwt].
      assert (Hss : Forall safe es).
      { unfold safe in Hs. simpl in Hs. apply Forall_flat_map in Hs. exact Hs. }
      assert (Hd : mapM (dec_key JK kdec env t) a = Ok es).
      { clear Hs. revert a Ha. induction es as [|e es IHes]; intros l Ha.
        - rewrite mapM_nil in Ha. now inversion Ha.
        - rewrite mapM_cons in Ha. bind_inv Ha. bind_inv Ha. inversion Ha; subst. clear Ha.
          simpl in Hwt. repeat (apply andb_true_iff in Hwt; destruct Hwt as [Hwt ?]).
          apply ty_eqb_eq in H0. subst t.
          inversion IH as [|? ? IHe IH']; subst. inversion Hss as [|? ? Hse Hss']; subst.
          simpl in Hkv. apply andb_true_iff in Hkv. destruct Hkv as [Hke Hkv].
          rewrite mapM_cons, (IHe Hwt Hke Hse _ Ha0). simpl.
          rewrite (IHes IH' H Hkv Hss' _ Ha1). reflexivity. }
      rewrite Hd. reflexivity.
  Qed.

  (* ---- containers *)
  Lemma elems_rt : forall t es,
    Forall P es -> elems_wt env t es = true -> Forall safe es -> Forall (fun e => Forall known (boxed_defs e)) es ->
    forall elems, mapM (ENC 0) es = Ok elems ->
      exists es', mapM (HOLE t) elems = Ok es' /\ Forall2 veq es' es.
  Proof.
    intros t es HP Hwt Hs Hb elems H.
    eapply mapM_rel; [|exact H].
    clear elems H. induction es as [|e es IH]; constructor.
    - intros oi He. simpl in Hwt. apply andb_true_iff in Hwt. destruct Hwt as [Hwt _].
      apply andb_true_iff in Hwt. destruct Hwt as [Hw Ht]. apply ty_eqb_eq in Ht. subst t.
      inversion HP; subst. inversion Hs; subst. inversion Hb; subst.
      destruct (H1 Hw H3 H5) as [_ [Hh _]]. destruct (Hh oi He) as [v' [Hd [Hv _]]].
      exists v'. split; assumption.
    - simpl in Hwt. apply andb_true_iff in Hwt. destruct Hwt as [_ Hwt].
      inversion HP; subst. inversion Hs; subst. inversion Hb; subst. now apply IH.
  Qed.

  Lemma entries_rt : forall k t kvs,
    Forall (fun kv => P (fst kv) /\ P (snd kv)) kvs ->
    Forall (fun kv => kval (fst kv) = true) kvs -> entries_wt env k t kvs = true ->
    Forall (fun kv => safe (fst kv) /\ safe (snd kv)) kvs ->
    Forall (fun kv => Forall known (boxed_defs (snd kv))) kvs ->
    forall entries,
      mapM (fun kv => do i <- ENC 0 (snd kv); do jk <- enc_key JK kenc (fst kv); Ok (jk, i)) kvs = Ok entries ->
      exists kvs',
        mapM (fun e => do k' <- dec_key JK kdec env k (fst e); do v <- HOLE t (snd e); Ok (k', v)) entries = Ok kvs'
        /\ Forall2 (fun a b => veq (fst a) (fst b) /\ veq (snd a) (snd b)) kvs' kvs.
  Proof.
    intros k t kvs HP Hk Hwt Hs Hbd entries H.
    eapply mapM_rel; [|exact H].
    clear entries H. induction kvs as [|[a b] kvs IH]; constructor.
    - intros e He. simpl in He.
      apply bind_ok in He. destruct He as [i [Hi He]].
      apply bind_ok in He. destruct He as [jk [Hjk He]].
      inversion He. subst e. clear He. simpl.
      simpl in Hwt. repeat (apply andb_true_iff in Hwt; destruct Hwt as [Hwt ?]).
      rename H into Hrest. rename H0 into Htb. rename H1 into Hwb. rename H2 into Hta. rename Hwt into Hwa.
      apply ty_eqb_eq in Hta. apply ty_eqb_eq in Htb.
      inversion HP as [|? ? [HPa HPb] HP']. inversion Hs as [|? ? [Hsa Hsb] Hs'].
      inversion Hbd as [|? ? Hbb Hbd'].
      simpl in HPa, HPb, Hsa, Hsb, Hbb.
      (* the value *)
      destruct (HPb Hwb Hsb Hbb) as [_ [Hh _]]. destruct (Hh _ Hi) as [v' [Hd [Hv _]]].
      rewrite Htb in Hd.
      (* the key *)
      inversion Hk as [|? ? Hka Hk']. simpl in Hka.
      rewrite <- Hta. rewrite (key_rt a Hwa Hka Hsa _ Hjk). simpl. rewrite Hd. simpl.
      eexists. split; [reflexivity|]. simpl. split; [apply veq_refl | assumption].
    - simpl in Hwt. repeat (apply andb_true_iff in Hwt; destruct Hwt as [Hwt ?]).
      inversion HP; subst. inversion Hs; subst. inversion Hbd; subst. inversion Hk; subst. now apply IH.
  Qed.

  (* ---- structs: every field is encoded, decoded under its name and put back *)
  Definition fieldQ (fv : string * val) (fo : string * option val) : Prop :=
    fst fo = fst fv /\
    exists v', place env (ty_of (snd fv)) (snd fo) = Ok v' /\ v' ≅ snd fv /\ ty_of v' = ty_of (snd fv).

  Lemma fields_dec : forall fs,
    Forall (fun fv => P (snd fv)) fs ->
    Forall (fun fv => wt env (snd fv) = true) fs ->
    Forall (fun fv => safe (snd fv)) fs ->
    Forall (fun fv => Forall known (boxed_defs (snd fv))) fs ->
    forall fields,
      mapM (fun fv => do i <- ENC 0 (snd fv); Ok (fst fv, i)) fs = Ok fields ->
      exists decoded,
        mapM (fun fi => do o <- dec_opt J JK DEC (snd fi); Ok (fst fi, o)) fields = Ok decoded
        /\ Forall2 (fun fo fv => fieldQ fv fo) decoded fs.
  Proof.
    intros fs HP Hwt Hs Hb fields H.
    eapply mapM_rel; [|exact H].
    clear fields H. induction fs as [|[f w] fs IH]; constructor.
    - intros fi He. simpl in He. bind_inv He. inversion He; subst. clear He. simpl.
      inversion HP; subst. inversion Hwt; subst. inversion Hs; subst. inversion Hb; subst. simpl in *.
      destruct (H1 H3 H5 H7) as [_ [Hh _]]. destruct (Hh _ Ha) as [v' [Hd [Hv Ht]]].
      unfold hole in Hd. bind_inv Hd. rewrite Ha0. simpl.
      eexists. split; [reflexivity|]. unfold fieldQ. simpl. split; [reflexivity|]. eauto.
    - inversion HP; subst. inversion Hwt; subst. inversion Hs; subst. inversion Hb; subst. now apply IH.
  Qed.

  Lemma fields_wt_facts : forall ds fs, fields_wt env ds fs = true ->
    map fst fs = map fst ds /\
    Forall (fun fv => wt env (snd fv) = true) fs /\
    Forall2 (fun d fv => fst d = fst fv /\ ty_of (snd fv) = snd d) ds fs.
  Proof.
    induction ds as [|[f t] ds IH]; intros [|[g w] fs] H; simpl in H; try discriminate H.
    - repeat split; constructor.
    - repeat (apply andb_true_iff in H; destruct H as [H ?]).
      apply String.eqb_eq in H. apply ty_eqb_eq in H1. subst.
      destruct (IH _ H0) as [Hn [Hw HF]]. simpl. repeat split.
      + now rewrite Hn.
      + constructor; assumption.
      + constructor; [split; reflexivity | assumption].
  Qed.

  Lemma build_ok : forall (decoded : list (string * option val)) ds fs dsuf,
    (forall fo, In fo dsuf -> alist_get (fst fo) decoded = Some (snd fo)) ->
    Forall2 (fun d fv => fst d = fst fv /\ ty_of (snd fv) = snd d) ds fs ->
    Forall2 (fun fo fv => fieldQ fv fo) dsuf fs ->
    exists fs', build_fields env ds decoded = Ok fs' /\
                Forall2 (fun fv gv => fst fv = fst gv /\ veq (snd fv) (snd gv)) fs' fs.
  Proof.
    intros decoded. unfold build_fields.
    induction ds as [|[f t] ds IH]; intros fs dsuf Hget H1 H2.
    - inversion H1; subst. exists []. split; [reflexivity|constructor].
    - inversion H1 as [|? fv ? fs0 [Hf Ht] H1']; subst.
      inversion H2 as [|fo ? dsuf0 ? [Hn [v' [Hp [Hv Hty]]]] H2']; subst.
      simpl in Hf, Ht.
      destruct (IH fs0 dsuf0) as [fs' [Hb HF]]; auto.
      { intros fo' Hin. apply Hget. now right. }
      exists ((f, v') :: fs'). split.
      + rewrite mapM_cons. simpl.
        assert (Hg : alist_get f decoded = Some (snd fo)).
        { rewrite Hf, <- Hn. apply Hget. now left. }
        rewrite Hg. rewrite <- Ht. rewrite Hp. simpl. rewrite Hb. reflexivity.
      + constructor; [|assumption]. simpl. split; assumption.
  Qed.

  Lemma Forall_flat_map_inv {A B} (Q : B -> Prop) (f : A -> list B) : forall l,
    Forall Q (flat_map f l) -> Forall (fun a => Forall Q (f a)) l.
  Proof. intros l H. apply Forall_flat_map in H. exact H. Qed.

  Lemma container_ty_inv : forall ct t c, container_ty reg ct t = Ok c ->
    is_cont_ty t = true -> c = t \/ exists d, c = TDef d t.
  Proof.
    intros ct t c H Hc. destruct ct as [k|]; simpl in H; [|inversion H; now left].
    bind_inv H. unfold assignable_to in H.
    destruct (ty_eqb t a) eqn:E.
    - simpl in H. inversion H; subst. apply ty_eqb_eq in E. now left.
    - simpl in H. destruct a; try discriminate H.
      destruct (ty_eqb a t) eqn:E2; [|discriminate H]. inversion H; subst.
      apply ty_eqb_eq in E2. subst. right. eauto.
  Qed.

  (* ---- main induction *)
  Lemma roundtrip_all : forall v, P v.
  Proof.
    induction v using val_ind'.
    - (* VBase *)
      apply P_conc; try reflexivity. intros Hwt Hs _ pn oi _ H. simpl in Hwt.
      rewrite enc_base in H. bind_inv H. bind_inv H. inversion H; subst. clear H.
      assert (Hj : jsafe l = true) by (inversion Hs; assumption).
      exists (IBasic pn a a0), (VBase b l). split; [reflexivity|]. split; [|split; [constructor|reflexivity]].
      rewrite dec_basic, (lookup_name_inv _ _ Ha). simpl. rewrite (jrt _ _ _ Hwt Hj Ha0). reflexivity.
    - (* VNamed *)
      apply P_conc; try reflexivity. intros Hwt Hs _ pn oi _ H. simpl in Hwt.
      rewrite enc_named in H. bind_inv H. bind_inv H. inversion H; subst. clear H.
      assert (Hj : jsafe l = true) by (inversion Hs; assumption).
      exists (IBasic pn a a0), (VNamed n b l). split; [reflexivity|]. split; [|split; [constructor|reflexivity]].
      rewrite dec_basic, (lookup_name_inv _ _ Ha). simpl. rewrite (jrt _ _ _ Hwt Hj Ha0). reflexivity.
    - (* VStruct *)
      apply P_conc; try reflexivity. intros Hwt Hs Hbd pn oi _ H0.
      rewrite wt_struct in Hwt. destruct (struct_fields env n) as [ds|] eqn:Eds; [|discriminate Hwt].
      destruct (fields_wt_facts _ _ Hwt) as [Hnames [Hwts Hdf]].
      rewrite enc_struct in H0. bind_inv H0. bind_inv H0. inversion H0; subst. clear H0.
      assert (Hss : Forall (fun fv => safe (snd fv)) fs).
      { unfold safe in Hs. simpl in Hs. apply Forall_flat_map in Hs. exact Hs. }
      assert (Hbs : Forall (fun fv => Forall known (boxed_defs (snd fv))) fs).
      { simpl in Hbd. apply Forall_flat_map in Hbd. exact Hbd. }
      destruct (fields_dec fs H Hwts Hss Hbs _ Ha0) as [decoded [Hdec HQ]].
      assert (Hdn : map fst decoded = map fst ds).
      { rewrite <- Hnames. clear -HQ. induction HQ as [|fo fv ? ? [Hn _] _ IH]; simpl; [reflexivity|].
        now rewrite Hn, IH. }
      assert (ND : NoDup (map fst decoded)) by (rewrite Hdn; eapply env_names; eauto).
      destruct (build_ok decoded ds fs decoded) as [fs' [Hb HF]]; auto.
      { intros [f o] Hin. simpl. now apply alist_get_nodup. }
      exists (IStruct pn a a0), (VStruct n fs'). split; [reflexivity|].
      split; [|split; [constructor; exact HF | reflexivity]].
      rewrite dec_struct, (lookup_name_inv _ _ Ha). simpl. rewrite Eds, Hdec. simpl.
      assert (Hall : forallb (fun fo => has_name (fst fo) ds) decoded = true).
      { apply forallb_forall. intros fo Hin. apply has_name_in. rewrite <- Hdn. now apply in_map. }
      rewrite Hall, Hb. reflexivity.
    - (* VNilPtr *)
      apply P_conc; try reflexivity. intros Hwt Hs _ pn oi _ H.
      rewrite enc_nil in H. bind_inv H. inversion H; subst. clear H.
      eexists _, (VNilPtr t). split; [reflexivity|]. split; [|split; [constructor|reflexivity]].
      rewrite dec_null, (lookup_name_inv _ _ Ha), bind_Ok_l.
      assert (E1 : Nat.min pn (S (pn + fst (strip_ptr t))) = pn) by lia.
      rewrite E1.
      replace (S (pn + fst (strip_ptr t)) - pn)%nat with (S (fst (strip_ptr t))) by lia.
      simpl. rewrite strip_ptr_add. reflexivity.
    - (* VPtr *)
      apply P_conc; try reflexivity. intros Hwt Hs Hbd pn oi _ H. simpl in Hwt.
      apply andb_true_iff in Hwt. destruct Hwt as [Hni Hwt]. apply negb_true_iff in Hni.
      rewrite enc_ptr in H. simpl in Hbd.
      destruct (IHv Hwt Hs Hbd) as [HC _].
      destruct (HC Hni (S pn) _ ltac:(discriminate) H) as [i [v' [Hoi [Hd [Hv Ht]]]]].
      exists i, (VPtr v'). split; [assumption|]. split; [|split].
      + rewrite Hd. simpl. now rewrite wrap_ptr_shift.
      + now constructor.
      + simpl. now rewrite Ht.
    - (* VSlice nil *)
      apply P_cont; try reflexivity. intros Hwt Hs _ pn oi ct c H Hc.
      rewrite enc_slice in H. bind_inv H. simpl in H. inversion H; subst. clear H.
      destruct (elem_key_inv _ _ Ha) as [t0 [Hl Ht]].
      eexists _, (VSlice t None). split; [reflexivity|]. split; [reflexivity|].
      split; [|split; [apply veq_refl|reflexivity]].
      simpl set_cti. rewrite dec_slice, Hl. simpl. rewrite Ht. simpl in Hc. rewrite Hc. reflexivity.
    - (* VSlice *)
      apply P_cont; try reflexivity. intros Hwt Hs Hbd pn oi ct c H0 Hc.
      rewrite wt_slice in Hwt. apply andb_true_iff in Hwt. destruct Hwt as [_ Hwt].
      rewrite enc_slice in H0. bind_inv H0. bind_inv H0. inversion H0; subst. clear H0.
      destruct (elem_key_inv _ _ Ha) as [t0 [Hl Ht]].
      assert (Hss : Forall safe es).
      { unfold safe in Hs. simpl in Hs. apply Forall_flat_map in Hs. exact Hs. }
      assert (Hbs : Forall (fun e => Forall known (boxed_defs e)) es).
      { simpl in Hbd. apply Forall_flat_map in Hbd. exact Hbd. }
      destruct (elems_rt t es H Hwt Hss Hbs _ Ha0) as [es' [Hd HF]].
      eexists _, (VSlice t (match es' with [] => None | _ => Some es' end)).
      split; [reflexivity|]. split; [reflexivity|]. split; [|split; [|reflexivity]].
      + simpl set_cti. rewrite dec_slice, Hl. simpl. rewrite Ht. simpl in Hc. rewrite Hc. simpl.
        rewrite Hd. reflexivity.
      + constructor. destruct es'; simpl; exact HF.
    - (* VMap nil *)
      apply P_cont; try reflexivity. intros Hwt Hs _ pn oi ct c H Hc.
      rewrite enc_map in H. bind_inv H. bind_inv H. simpl in H. inversion H; subst. clear H.
      destruct (elem_key_inv _ _ Ha) as [k0 [Hlk Hk]].
      destruct (elem_key_inv _ _ Ha0) as [t0 [Hlt Ht]].
      eexists _, (VMap k t (Some [])). split; [reflexivity|]. split; [reflexivity|].
      split; [|split; [|reflexivity]].
      + simpl set_cti. rewrite dec_map, Hlk. simpl. rewrite Hlt. simpl. rewrite Hk, Ht.
        simpl in Hc. rewrite Hc. reflexivity.
      + constructor. simpl. constructor.
    - (* VMap *)
      apply P_cont; try reflexivity. intros Hwt Hs Hbd pn oi ct c H0 Hc.
      rewrite wt_map in Hwt. apply andb_true_iff in Hwt. destruct Hwt as [Hwt Hew].
      apply andb_true_iff in Hwt. destruct Hwt as [Hkt _].
      apply andb_true_iff in Hew. destruct Hew as [Hew Hkn].
      assert (Hkvs : Forall (fun kv => kval (fst kv) = true) kvs).
      { unfold keys_nodup in Hkn. apply andb_true_iff in Hkn. destruct Hkn as [Hkn _].
        rewrite forallb_forall in Hkn. apply Forall_forall. exact Hkn. }
      rewrite enc_map in H0. bind_inv H0. bind_inv H0. bind_inv H0. inversion H0; subst. clear H0.
      destruct (elem_key_inv _ _ Ha) as [k0 [Hlk Hk]].
      destruct (elem_key_inv _ _ Ha0) as [t0 [Hlt Ht]].
      assert (Hss : Forall (fun kv => safe (fst kv) /\ safe (snd kv)) kvs).
      { unfold safe in Hs. simpl in Hs. apply Forall_flat_map in Hs.
        eapply Forall_impl; [|exact Hs]. intros kv Hkv. apply Forall_app in Hkv. exact Hkv. }
      assert (Hbs : Forall (fun kv => Forall known (boxed_defs (snd kv))) kvs).
      { simpl in Hbd. apply Forall_flat_map in Hbd.
        eapply Forall_impl; [|exact Hbd]. intros kv Hkv. apply Forall_app in Hkv. apply Hkv. }
      destruct (entries_rt k t kvs H Hkvs Hew Hss Hbs _ Ha1) as [kvs' [Hd HF]].
      eexists _, (VMap k t (Some kvs')). split; [reflexivity|]. split; [reflexivity|].
      split; [|split; [|reflexivity]].
      + simpl set_cti. rewrite dec_map, Hlk. simpl. rewrite Hlt. simpl. rewrite Hk, Ht.
        simpl in Hc. rewrite Hc. simpl. rewrite Hd. reflexivity.
      + constructor. simpl. exact HF.
    - (* VIface nil *)
      intros Hwt Hs _. simpl in Hwt. apply andb_true_iff in Hwt. destruct Hwt as [Hi _].
      split; [simpl; congruence|]. split; [|destruct it; discriminate].
      intros oi H. rewrite enc_iface0 in H. inversion H; subst. simpl.
      exists (VIface it None). split; [|split; [constructor|reflexivity]].
      unfold hole, dec_opt. rewrite bind_Ok_l. unfold place. now apply zero_iface.
    - (* VIface *)
      intros Hwt Hs Hbd. simpl in Hwt. apply andb_true_iff in Hwt. destruct Hwt as [Hi Hwt].
      apply andb_true_iff in Hwt. destruct Hwt as [Hni Hwt]. apply negb_true_iff in Hni.
      split; [simpl; congruence|]. split; [|destruct it; discriminate].
      intros oi H. rewrite enc_iface0 in H.
      simpl in Hbd. apply Forall_app in Hbd. destruct Hbd as [Hdt Hbd].
      destruct (IHv Hwt Hs Hbd) as [HC _].
      destruct (HC Hni _ _ (fun _ => Hdt) H) as [i [v' [Hoi [Hd [Hv Ht]]]]]. subst oi.
      exists (VIface it (Some v')). split; [|split; [now constructor|reflexivity]].
      unfold hole, dec_opt. simpl in Hd. rewrite Hd. simpl. unfold assign.
      rewrite Ht. rewrite (iface_not_eqb _ _ Hni Hi). rewrite Hi, Hni. reflexivity.
    - (* VArray *)
      apply P_cont; try reflexivity. intros Hwt Hs Hbd pn oi ct c H0 Hc.
      rewrite wt_array in Hwt. apply andb_true_iff in Hwt. destruct Hwt as [_ Hwt].
      rewrite enc_array in H0. bind_inv H0. bind_inv H0. inversion H0; subst. clear H0.
      destruct (elem_key_inv _ _ Ha) as [t0 [Hl Ht]].
      assert (Hss : Forall safe es).
      { unfold safe in Hs. simpl in Hs. apply Forall_flat_map in Hs. exact Hs. }
      assert (Hbs : Forall (fun e => Forall known (boxed_defs e)) es).
      { simpl in Hbd. apply Forall_flat_map in Hbd. exact Hbd. }
      destruct (elems_rt t es H Hwt Hss Hbs _ Ha0) as [es' [Hd HF]].
      assert (Hlen1 : List.length a0 = List.length es).
      { clear -Ha0. revert a0 Ha0. induction es as [|e es IH]; intros a0 Ha0.
        - rewrite mapM_nil in Ha0. now inversion Ha0.
        - rewrite mapM_cons in Ha0. bind_inv Ha0. bind_inv Ha0. inversion Ha0; subst. simpl. f_equal. now apply IH. }
      assert (Hlen2 : List.length es' = List.length es) by (eapply Forall2_len; eauto).
      eexists _, (VArray t es').
      split; [reflexivity|]. split; [reflexivity|]. split; [|split].
      + simpl set_cti. rewrite dec_array, Hl. simpl. rewrite Ht, Hlen1. simpl in Hc. rewrite Hc. simpl.
        rewrite Hd. reflexivity.
      + constructor. exact HF.
      + simpl. now rewrite Hlen2.
    - (* VDef *)
      intros Hwt Hs Hbd. simpl in Hwt. apply andb_true_iff in Hwt. destruct Hwt as [Hct Hwt].
      simpl in Hbd. unfold safe in Hs. simpl in Hs.
      destruct (IHv Hwt Hs Hbd) as [_ [_ HK]]. specialize (HK Hct).
      assert (Hne : ty_eqb (ty_of v) (TDef d (ty_of v)) = false).
      { destruct (ty_of v); try discriminate Hct; reflexivity. }
      (* what the encoder does with a registered / an unregistered defined type at depth 0 *)
      assert (Hreg : forall k pn oi, rm_lookup reg (TDef d (ty_of v)) = Some k -> ENC pn (VDef d v) = Ok oi ->
                exists i v', oi = Some i /\ DEC i = Ok (wrap_ptr pn (VDef d v')) /\ v' ≅ v /\ ty_of v' = ty_of v).
      { intros k pn oi Hk H. rewrite enc_def, Hk, andb_false_r in H. bind_inv H. inversion H; subst. clear H.
        assert (Hcty : container_ty reg (Some k) (ty_of v) = Ok (TDef d (ty_of v))).
        { simpl. unfold lookup_ty. rewrite (reg_consistent reg reg_names _ _ Hk). simpl.
          unfold assignable_to. rewrite Hne, ty_eqb_refl. reflexivity. }
        destruct (HK pn a (Some k) _ Ha Hcty) as [i [v' [Hoi [_ [Hd [Hv Ht]]]]]]. subst a.
        exists (set_cti J JK (Some k) i), v'. split; [reflexivity|]. split; [exact Hd|]. split; assumption. }
      split; [|split].
      + (* concP *)
        intros _ pn oi Hk H. simpl in Hk.
        destruct (rm_lookup reg (TDef d (ty_of v))) as [k|] eqn:Ek.
        * destruct (Hreg k pn oi eq_refl H) as [i [v' [Hoi [Hd [Hv Ht]]]]].
          exists i, (VDef d v'). split; [exact Hoi|]. split; [exact Hd|]. split; [now constructor|].
          simpl. now rewrite Ht.
        * destruct pn as [|pn].
          -- exfalso. specialize (Hk eq_refl). inversion Hk as [|? ? Hk1 _]; subst. now apply Hk1.
          -- rewrite enc_def, Ek in H. simpl in H. discriminate H.
      + (* holeP *)
        intros oi H.
        destruct (rm_lookup reg (TDef d (ty_of v))) as [k|] eqn:Ek.
        * destruct (Hreg k 0%nat oi eq_refl H) as [i [v' [Hoi [Hd [Hv Ht]]]]]. subst oi.
          exists (VDef d v'). split; [|split; [now constructor | simpl; now rewrite Ht]].
          unfold hole, dec_opt. simpl in Hd. rewrite Hd. simpl. unfold assign. simpl.
          rewrite Ht, N.eqb_refl, ty_eqb_refl. reflexivity.
        * rewrite enc_def, Ek in H. simpl in H. bind_inv H. inversion H; subst. clear H.
          destruct (HK 0%nat a None (ty_of v) Ha eq_refl) as [i [v' [Hoi [Hn [Hd [Hv Ht]]]]]]. subst a.
          rewrite Hn in Hd. rewrite (as_ty_cont _ _ Hct) in Hd. simpl in Hd.
          exists (VDef d v'). split; [|split; [now constructor | simpl; now rewrite Ht]].
          unfold hole, dec_opt.
          assert (Es : set_ct J JK None (Some i) = Some i) by (simpl; now rewrite Hn).
          rewrite Es, Hd. simpl. unfold assign. simpl. rewrite Ht, Hne. simpl.
          rewrite ty_eqb_refl. reflexivity.
      + intro Hc. discriminate Hc.
  Qed.

  (* ---- the statements used by Props/C12.v *)
  Definition defs_ok (v : val) : Prop := Forall known (def_ty v ++ boxed_defs v).

  Lemma enc_dec_roundtrip_lemma : forall v oi,
    wt env v = true -> is_iface (ty_of v) = false -> safe v -> defs_ok v ->
    marshal J JK jenc kenc fixed reg v = Ok oi ->
    exists v', unmarshal J JK jdec kdec fixed reg env oi = Ok v' /\ v' ≅ v /\ dyn_ty v' = dyn_ty v.
  Proof.
    intros v oi Hwt Hi Hs Hdo H. unfold marshal in H.
    apply Forall_app in Hdo. destruct Hdo as [Hdt Hbd].
    destruct (roundtrip_all v Hwt Hs Hbd) as [HC _].
    destruct (HC Hi _ _ (fun _ => Hdt) H) as [i [v' [Hoi [Hd [Hv Ht]]]]]. subst oi.
    exists v'. split; [exact Hd|]. split; [exact Hv|].
    clear HC Hd H Hs.
    destruct Hv; simpl in *; try congruence; rewrite Hi in Hwt; discriminate Hwt.
  Qed.

  (* a value in a typed position (field, element, map value; interface-typed or not): what
     the decoder puts into the position is equivalent and has the position's static type.
     Here an unregistered defined container type is fine: the position restores the name. *)
  Lemma position_roundtrip_lemma : forall v oi,
    wt env v = true -> safe v -> Forall known (boxed_defs v) ->
    enc_at J JK jenc kenc fixed reg 0 v = Ok oi ->
    exists v', HOLE (ty_of v) oi = Ok v' /\ v' ≅ v /\ ty_of v' = ty_of v.
  Proof.
    intros v oi Hwt Hs Hb H. destruct (roundtrip_all v Hwt Hs Hb) as [_ [Hh _]]. now apply Hh.
  Qed.
End Roundtrip.
