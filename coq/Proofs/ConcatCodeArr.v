(* Proofs/ConcatCodeArr.v — the reference statement-by-statement translation of schema.concatMessageArray
   (Model/ConcatCodeRef.v gen_concatMessageArray, generic in the chunk type) computes the position-wise
   concatenation: every list must have the length of the first, position i collects the non-nil
   entries at i in arrival order, none = nil, one = itself, several = the concatenation function;
   for messages this is [concat_msg_arrays] (Model/ConcatMsg.v). *)
From Eino Require Import Base.Util Model.ConcatTable Model.Concat Model.ConcatMsg Model.ConcatStream
  Model.ConcatGenLib Model.ConcatCodeRef Proofs.ConcatCodeRef.

Lemma res_mapM_map_gen {A B C} (f : B -> res C) (g : A -> B) l : res_mapM f (map g l) = res_mapM (fun a => f (g a)) l.
Proof. induction l as [|a l IH]; cbn; [reflexivity|]. now rewrite IH. Qed.

Section Arr.
Variable X : Type.
Variable zero : X.
Variable ci : list X -> res X.
Variable is_nil_x : X -> bool.

Definition col_x (i : nat) (mas : list (list X)) : list X :=
  flat_map (fun ma => match nth_error ma i with Some x => if is_nil_x x then [] else [x] | None => [] end) mas.

Definition col_concat (s : list X) : res X :=
  match s with [] => Ok zero | [x] => Ok x | _ => ci s end.

Definition spec_array (mas : list (list X)) : res (list X) :=
  match mas with
  | [] => Panic
  | ma0 :: _ =>
      let n := List.length ma0 in
      if forallb (fun ma => Nat.eqb (List.length ma) n) mas
      then res_mapM (fun i => col_concat (col_x i mas)) (seq 0 n)
      else Err E_LEN
  end.

(* ---------------------------------------------------------------- the collecting loops *)

Definition upd (sx : list X * X) : list X := if is_nil_x (snd sx) then fst sx else fst sx ++ [snd sx].

Lemma g_set_mid (pre : list (list X)) z r x : g_set (pre ++ z :: r) (List.length pre) x = Ok (pre ++ x :: r).
Proof. unfold g_set. now rewrite list_set_mid. Qed.

Lemma g_set_mid_x (pre : list X) z r x : g_set (pre ++ z :: r) (List.length pre) x = Ok (pre ++ x :: r).
Proof. unfold g_set. now rewrite list_set_mid. Qed.

Lemma g_nth_mid {A} (pre : list A) z r : g_nth (pre ++ z :: r) (List.length pre) = Ok z.
Proof. unfold g_nth. rewrite nth_error_app2 by lia. now rewrite Nat.sub_diag. Qed.

Lemma innerA (ma : list X) : forall (S2 : list (list X)) (ma2 : list X) done ma1,
  ma = ma1 ++ ma2 -> List.length ma1 = List.length done -> List.length S2 = List.length ma2 ->
  cfold (R := list X) (fun slicesToConcat i =>
            cdo (g_nth ma i) (fun m =>
            cbind (if (negb (is_nil_x m)) then (cdo (g_nth slicesToConcat i) (fun x_3 =>
cdo (g_set slicesToConcat i (x_3 ++ [m])) (fun slicesToConcat =>
              Next slicesToConcat)))
              else (Next slicesToConcat)) (fun slicesToConcat =>
            Next slicesToConcat)))
     (seq (List.length done) (List.length S2)) (done ++ S2)
  = Next (done ++ map upd (combine S2 ma2)).
Proof.
  induction S2 as [|s S2 IH]; intros ma2 done ma1 Hma Hl1 Hl2.
  - reflexivity.
  - destruct ma2 as [|x ma2]; [discriminate|]. cbn [List.length seq cfold combine map].
    assert (Hx : g_nth ma (List.length done) = Ok x) by (rewrite Hma, <- Hl1; apply g_nth_mid).
    rewrite Hx. cbn [cdo]. unfold upd at 1. cbn [fst snd].
    assert (Hnext : forall v, cbind (Next (R := list X) (done ++ v :: S2))
        (cfold (fun slicesToConcat i =>
            cdo (g_nth ma i) (fun m =>
            cbind (if (negb (is_nil_x m)) then (cdo (g_nth slicesToConcat i) (fun x_3 =>
cdo (g_set slicesToConcat i (x_3 ++ [m])) (fun slicesToConcat =>
              Next slicesToConcat)))
              else (Next slicesToConcat)) (fun slicesToConcat =>
            Next slicesToConcat))) (seq (S (List.length done)) (List.length S2)))
        = Next (done ++ v :: map upd (combine S2 ma2))).
    { intros v. cbn [cbind].
      specialize (IH ma2 (done ++ [v]) (ma1 ++ [x])). rewrite !app_length in IH. cbn [List.length] in IH.
      rewrite !Nat.add_1_r, <- !app_assoc in IH. cbn [app] in IH. apply IH; [exact Hma|lia|].
      cbn [List.length] in Hl2. lia. }
    destruct (is_nil_x x); cbn [negb cbind].
    + apply Hnext.
    + rewrite g_nth_mid. cbn [cdo]. rewrite g_set_mid. cbn [cdo cbind]. apply Hnext.
Qed.

Definition zip_step (S : list (list X)) (ma : list X) : list (list X) := map upd (combine S ma).

Lemma zip_step_length S ma : List.length ma = List.length S -> List.length (zip_step S ma) = List.length S.
Proof. intros H. unfold zip_step. rewrite map_length, combine_length. lia. Qed.

Lemma outerA (n k : nat) (Hk : k = n) : forall (mas : list (list X)) (S : list (list X)), List.length S = n ->
  cfold (R := list X) (fun slicesToConcat ma =>
        if (negb (Nat.eqb (List.length ma) n)) then (Return (Err E_LEN))
        else cbind (cfold (fun slicesToConcat i =>
            cdo (g_nth ma i) (fun m =>
            cbind (if (negb (is_nil_x m)) then (cdo (g_nth slicesToConcat i) (fun x_3 =>
cdo (g_set slicesToConcat i (x_3 ++ [m])) (fun slicesToConcat =>
              Next slicesToConcat)))
              else (Next slicesToConcat)) (fun slicesToConcat =>
            Next slicesToConcat)))
          (seq 0 k) slicesToConcat) (fun slicesToConcat =>
        Next slicesToConcat))
      mas S
  = if forallb (fun ma => Nat.eqb (List.length ma) n) mas then Next (fold_left zip_step mas S) else Return (Err E_LEN).
Proof.
  subst k. induction mas as [|ma mas IH]; intros S HS; cbn [cfold forallb fold_left]; [reflexivity|].
  destruct (Nat.eqb (List.length ma) n) eqn:E; cbn [negb andb]; [|reflexivity].
  apply Nat.eqb_eq in E.
  pose proof (innerA ma S ma [] [] eq_refl eq_refl) as Hi. cbn [List.length app] in Hi.
  rewrite HS in Hi. rewrite Hi by lia. cbn [cbind]. fold (zip_step S ma).
  apply IH. rewrite zip_step_length; lia.
Qed.

(* position i of the collected slices *)
Lemma nth_error_combine {A B} (l1 : list A) (l2 : list B) i :
  nth_error (combine l1 l2) i =
  match nth_error l1 i, nth_error l2 i with Some a, Some b => Some (a, b) | _, _ => None end.
Proof.
  revert l2 i. induction l1 as [|a l1 IH]; intros l2 i; [now destruct i|].
  destruct l2 as [|b l2]; [destruct i; cbn; [reflexivity|]; now destruct (nth_error l1 i)|].
  destruct i; cbn; [reflexivity|apply IH].
Qed.

Lemma fold_nth : forall (mas : list (list X)) (S : list (list X)) i s,
  (forall ma, In ma mas -> List.length ma = List.length S) ->
  nth_error S i = Some s -> nth_error (fold_left zip_step mas S) i = Some (s ++ col_x i mas).
Proof.
  induction mas as [|ma mas IH]; intros S i s Hlen Hs; cbn [fold_left col_x flat_map].
  - now rewrite app_nil_r.
  - assert (Hma : List.length ma = List.length S) by (apply Hlen; now left).
    assert (Hi : i < List.length ma) by (rewrite Hma; apply nth_error_Some; congruence).
    destruct (nth_error ma i) as [x|] eqn:Ex; [|apply nth_error_None in Ex; lia].
    rewrite (IH (zip_step S ma) i (upd (s, x))).
    + f_equal. unfold upd. cbn [fst snd]. destruct (is_nil_x x); [reflexivity|now rewrite <- app_assoc].
    + intros ma' Hin. rewrite zip_step_length by exact Hma. apply Hlen. now right.
    + unfold zip_step. rewrite nth_error_map, nth_error_combine, Hs, Ex. reflexivity.
Qed.

Lemma list_by_index {A} (f : nat -> A) : forall (l : list A) k,
  (forall i x, nth_error l i = Some x -> x = f (k + i)) -> l = map f (seq k (List.length l)).
Proof.
  induction l as [|a l IH]; intros k H; [reflexivity|]. cbn [List.length seq map]. f_equal.
  - rewrite (H 0 a eq_refl). now rewrite Nat.add_0_r.
  - apply IH. intros i x Hx. rewrite (H (S i) x Hx). f_equal. lia.
Qed.

Lemma fold_length : forall (mas : list (list X)) (S : list (list X)),
  (forall ma, In ma mas -> List.length ma = List.length S) -> List.length (fold_left zip_step mas S) = List.length S.
Proof.
  induction mas as [|ma mas IH]; intros S H; cbn [fold_left]; [reflexivity|].
  assert (Hma : List.length ma = List.length S) by (apply H; now left).
  rewrite IH; [apply zip_step_length, Hma|]. intros ma' Hin. rewrite zip_step_length by exact Hma. apply H. now right.
Qed.

Lemma slices_are_columns n (mas : list (list X)) :
  (forall ma, In ma mas -> List.length ma = n) ->
  fold_left zip_step mas (repeat (@nil X) n) = map (fun i => col_x i mas) (seq 0 n).
Proof.
  intros H.
  assert (Hl : forall ma, In ma mas -> List.length ma = List.length (repeat (@nil X) n)) by (intros; rewrite repeat_length; auto).
  pose proof (fold_length mas _ Hl) as HL. rewrite repeat_length in HL.
  rewrite <- HL at 2. apply list_by_index. intros i x Hx. cbn [Nat.add].
  assert (Hi : i < n) by (rewrite <- HL; apply nth_error_Some; congruence).
  assert (Hr : nth_error (repeat (@nil X) n) i = Some []) by (rewrite nth_error_repeat; auto).
  rewrite (fold_nth mas _ i [] Hl Hr) in Hx. now inversion Hx.
Qed.

(* ---------------------------------------------------------------- the concatenating loop *)

Lemma loopB : forall (sl : list (list X)) (done : list X),
  cfold (R := list X) (fun ret '(i, slice) =>
        cbind (if (Nat.eqb (List.length slice) 0) then (cdo (g_set ret i zero) (fun ret =>
          Next ret))
          else (cbind (if (Nat.eqb (List.length slice) 1) then (cdo (g_nth slice 0) (fun x_4 =>
cdo (g_set ret i x_4) (fun ret =>
            Next ret)))
            else (cdo (ci slice) (fun cm =>
            cdo (g_set ret i cm) (fun ret =>
            Next ret)))) (fun ret =>
          Next ret))) (fun ret =>
        Next ret))
     (combine (seq (List.length done) (List.length sl)) sl) (done ++ repeat zero (List.length sl))
  = match res_mapM col_concat sl with
    | Ok r => Next (done ++ r)
    | Err e => Return (Err e)
    | Panic => Return Panic
    end.
Proof.
  induction sl as [|s sl IH]; intros done; cbn [List.length seq combine cfold repeat res_mapM].
  - reflexivity.
  - assert (Hnext : forall v,
        (cfold (R := list X) (fun ret '(i, slice) =>
        cbind (if (Nat.eqb (List.length slice) 0) then (cdo (g_set ret i zero) (fun ret =>
          Next ret))
          else (cbind (if (Nat.eqb (List.length slice) 1) then (cdo (g_nth slice 0) (fun x_4 =>
cdo (g_set ret i x_4) (fun ret =>
            Next ret)))
            else (cdo (ci slice) (fun cm =>
            cdo (g_set ret i cm) (fun ret =>
            Next ret)))) (fun ret =>
          Next ret))) (fun ret =>
        Next ret)) (combine (seq (S (List.length done)) (List.length sl)) sl) (done ++ v :: repeat zero (List.length sl)))
        = match res_mapM col_concat sl with
          | Ok r => Next (done ++ v :: r)
          | Err e => Return (Err e)
          | Panic => Return Panic
          end).
    { intros v. specialize (IH (done ++ [v])). rewrite app_length in IH. cbn [List.length] in IH.
      rewrite Nat.add_1_r, <- app_assoc in IH. cbn [app] in IH. rewrite IH.
      destruct (res_mapM col_concat sl); try reflexivity. now rewrite <- app_assoc. }
    destruct s as [|x [|y s']]; cbn [List.length Nat.eqb col_concat g_nth nth_error cdo cbind res_bind].
    + rewrite g_set_mid_x. cbn [cdo cbind]. rewrite Hnext. destruct (res_mapM col_concat sl); reflexivity.
    + rewrite g_set_mid_x. cbn [cdo cbind]. rewrite Hnext. destruct (res_mapM col_concat sl); reflexivity.
    + destruct (ci (x :: y :: s')) as [cm|e|]; cbn [cdo cbind res_bind]; try reflexivity.
      rewrite g_set_mid_x. cbn [cdo cbind]. rewrite Hnext. destruct (res_mapM col_concat sl); reflexivity.
Qed.

(* ---------------------------------------------------------------- the function *)

Theorem ref_concatMessageArray (mas : list (list X)) :
  gen_concatMessageArray X zero ci is_nil_x mas = spec_array mas.
Proof.
  unfold gen_concatMessageArray, spec_array. destruct mas as [|ma0 mas]; [reflexivity|].
  cbn [g_nth nth_error cdo]. cbv zeta.
  pose proof (outerA (List.length ma0) (List.length ma0 - 0) (Nat.sub_0_r _) (ma0 :: mas) (repeat (@nil X) (List.length ma0)) (repeat_length _ _)) as Ho.
  cbv zeta in Ho. rewrite Ho. clear Ho.
  destruct (forallb (fun ma => Nat.eqb (List.length ma) (List.length ma0)) (ma0 :: mas)) eqn:Ef; [|reflexivity].
  cbn [cbind]. rewrite slices_are_columns.
  2:{ intros ma Hin. rewrite forallb_forall in Ef. now apply Nat.eqb_eq, Ef. }
  unfold enumerate. rewrite map_length, seq_length.
  pose proof (loopB (map (fun i => col_x i (ma0 :: mas)) (seq 0 (List.length ma0))) []) as Hb.
  rewrite map_length, seq_length in Hb. cbn [List.length app] in Hb. cbv zeta in Hb. rewrite Hb. clear Hb.
  rewrite res_mapM_map_gen.
  destruct (res_mapM _ (seq 0 (List.length ma0))); reflexivity.
Qed.

End Arr.

(* ---------------------------------------------------------------- messages *)

Section Msgs.
Context {U : UserFn}.

Definition omsg_is_nil (o : option msg) : bool := match o with None => true | Some _ => false end.
Definition omsg_concat (l : list (option msg)) : res (option msg) := res_map Some (concat_msgs l).

Lemma col_x_column i mas : col_x (option msg) omsg_is_nil i mas = map Some (column i mas).
Proof.
  unfold col_x, column. induction mas as [|ma mas IH]; cbn [flat_map map]; [reflexivity|].
  rewrite map_app, IH. f_equal. destruct (nth_error ma i) as [[m|]|]; reflexivity.
Qed.

Lemma res_mapM_ext_all {A B} (f g : A -> res B) l : (forall a, f a = g a) -> res_mapM f l = res_mapM g l.
Proof. intros H. induction l as [|a l IH]; cbn; [reflexivity|]. now rewrite H, IH. Qed.

Theorem ref_concatMessageArray_msgs (mas : list (list (option msg))) :
  gen_concatMessageArray (option msg) None omsg_concat omsg_is_nil mas = concat_msg_arrays mas.
Proof.
  rewrite ref_concatMessageArray. unfold spec_array, concat_msg_arrays. destruct mas as [|ma0 mas]; [reflexivity|].
  cbv zeta. destruct (forallb _ (ma0 :: mas)); [|reflexivity].
  apply res_mapM_ext_all. intros i. rewrite col_x_column. unfold col_concat, concat_column, omsg_concat.
  destruct (column i (ma0 :: mas)) as [|m [|m' l]]; reflexivity.
Qed.

End Msgs.
