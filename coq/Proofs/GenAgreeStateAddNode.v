(* Proofs/GenAgreeStateAddNode.v — C11, translator tie: graph.addNode (compose/graph.go), translated
   statement by statement by tools/go2v (extractor "stateaddnode", Gen/StateAddNode.v), decides about the
   state exactly like [add_node_err] of Model/StateAddNode.v — for every combination of: graph declares
   state or not, the node needs state or not, has a state pre-handler / post-handler or not, whatever
   the three state types are — provided none of addNode's other checks fires (reserved / duplicate key,
   chain-only option, input / output type of the handlers: the parameter [unk]; a test of unknown meaning
   combined with one about the state would be the parameter [mix], about which nothing is assumed); and the four public
   options that attach a state handler are the model's table (which converter = which locking wrapper,
   which side, needState set).  Hence [build_err_t], which Corr/C11.v evaluates on every case and
   compares with what AddNode / Compile did, is the source's decision applied to every node. *)
From Eino Require Import Base.Util Model.StateLock Model.StateLockLTS Model.StateLockCode Model.StateLockType
  Model.StateAddNode.
From Eino Require Import Proofs.StateAddNode.
From Eino Require Gen.StateAddNode.
Open Scope N_scope.

Theorem gen_add_node_err_agrees :
  forall unk mix has_gen need_state has_pre has_post gty pre_ty post_ty,
    (forall s, unk s = false) ->
    Gen.StateAddNode.add_node_err unk mix has_gen need_state true has_pre has_post gty pre_ty post_ty =
    Model.StateAddNode.add_node_err has_gen need_state has_pre has_post gty pre_ty post_ty.
Proof.
  intros unk mix has_gen need_state has_pre has_post gty pre_ty post_ty Hu.
  unfold Gen.StateAddNode.add_node_err, Model.StateAddNode.add_node_err. cbv zeta. rewrite ?Hu.
  destruct has_gen, need_state, has_pre, has_post, (N.eqb gty pre_ty), (N.eqb gty post_ty); reflexivity.
Qed.

Theorem gen_handler_options_agree : Gen.StateAddNode.handler_options = Model.StateAddNode.handler_options.
Proof. reflexivity. Qed.

(* the program-level verdict of the model is the source's decision on every node *)
Theorem gen_build_err_is_source_decision : forall unk mix f gty nty,
  (forall s, unk s = false) ->
  build_err_t f gty nty =
  existsb (fun gg => let '(gi, g) := gg in
             existsb (fun a => Gen.StateAddNode.add_node_err unk mix (g_state g) (n_pre a || n_post a) true (n_pre a) (n_post a)
                                 (gty_of gty gi) (t_pre nty a) (t_post nty a)) (g_nodes g)) (graphs_of f).
Proof.
  intros unk mix f gty nty Hu. rewrite build_err_t_is_add_node. unfold build_err_nodes.
  apply existsb_ext_in. intros [gi g] _. apply existsb_ext_in. intros a _.
  unfold node_err. now rewrite gen_add_node_err_agrees.
Qed.

(* non-vacuity: the generated function refuses a handler on a graph without state and a handler for
   another state type, accepts a matching one and a node without handlers *)
Example gen_add_node_err_cases :
  let nounk := fun _ : string => false in
  Gen.StateAddNode.add_node_err nounk nounk false true true true false 0 0 0 = true /\
  Gen.StateAddNode.add_node_err nounk nounk true true true true false 1 0 0 = true /\
  Gen.StateAddNode.add_node_err nounk nounk true true true true true 1 1 1 = false /\
  Gen.StateAddNode.add_node_err nounk nounk true false true false false 1 0 0 = false.
Proof. repeat split; reflexivity. Qed.
