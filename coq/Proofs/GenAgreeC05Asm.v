(* Proofs/GenAgreeC05Asm.v — property C05, translator tie of the checkpoint ASSEMBLY: what tools/go2v (extractor
   "cpasm") re-reads from runner.handleInterrupt / runner.handleInterruptWithSubGraphAndRerunNodes of
   compose/graph_run.go on every run (Gen/CheckpointAssembly.v) IS [plain_interrupt] / [rerun_interrupt] of
   Model/RunLoop.v:

     gen_plain_assembly_agrees, gen_rerun_assembly_agree   the translated handlers equal the model's reading of them
                                                           (Model/CheckpointAsmLib.v: model_plain, model_rerun), for
                                                           all arguments;
     plain_assembly_is_plain_interrupt,
     rerun_assembly_is_rerun_interrupt                     and that reading, called with what
                                                           resolveInterruptCompletedTasks hands over for the collected
                                                           results rs of a step (rerun nodes, nested interrupts, the
                                                           tasks with their outputs), is the model's checkpoint and
                                                           interrupt info: which task is folded into the channels,
                                                           which stays pending with which input, which skips its
                                                           pre-handler, which nested checkpoint is kept under which key;
     gen_resolve_task_agrees, resolve_tasks_is_model        resolveInterruptCompletedTasks over the collected results of a step
                                                           = first failure, or (subints, reruns, afters) of the model;
     gen_interrupt_dest_agrees, gen_tail_agrees,
     gen_call_sites_agree                                  where the checkpoint goes, and what run calls the handlers with.

   An edit of one of the handlers that changes its meaning makes a theorem here stop compiling even when no
   generated case reaches the difference. *)
From Eino Require Import Base.Util Model.RunLoop Model.CheckpointAsmLib.
From Eino Require Gen.CheckpointAssembly.
Open Scope N_scope.

Lemma map_pair_id_c05 : forall {A B} (l : list (A * B)), map (fun t => (fst t, snd t)) l = l.
Proof. intros A B l; induction l as [|[a b] l IH]; simpl; [reflexivity| rewrite IH; reflexivity]. Qed.

Lemma if_same_ph_c05 : forall {V} (ph : bool -> V) (b : bool), (if b then ph true else ph false) = ph b.
Proof. intros V ph []; reflexivity. Qed.

(* ---------------------------------------------------------------- translated = the model's reading *)
Theorem gen_plain_assembly_agrees : forall V CS GS SCP SINFO isnil (own : option GS) hb ha (next : list (atask V)) (cs : CS),
  Gen.CheckpointAssembly.plain_assembly V CS GS SCP SINFO isnil own hb ha next cs = model_plain own hb ha next cs.
Proof.
  intros. first [ reflexivity |
  unfold Gen.CheckpointAssembly.plain_assembly, model_plain, puts, set_puts; simpl;
  rewrite ?app_nil_r; reflexivity ].
Qed.

Theorem gen_rerun_assembly_agrees : forall V CS GS SCP SINFO isnil fold ph isStream (own : option GS) rr
    (subs : list (N * (SCP * SINFO))) ha (completed : list (atask V)) hb pending (cs : CS),
  Gen.CheckpointAssembly.rerun_assembly V CS GS SCP SINFO isnil fold ph isStream own rr subs ha completed hb pending cs
  = model_rerun fold ph isStream own rr subs ha completed hb pending cs.
Proof.
  intros. first [ reflexivity |
  unfold Gen.CheckpointAssembly.rerun_assembly, model_rerun, puts, set_puts, asm_mem; simpl;
  destruct isStream; simpl; destruct (fold cs _); try reflexivity;
  rewrite ?app_nil_r, <- ?app_assoc; reflexivity ].
Qed.

Theorem gen_interrupt_dest_agrees : forall isSubGraph hasID,
  Gen.CheckpointAssembly.interrupt_dest isSubGraph hasID = model_dest isSubGraph hasID.
Proof. intros [] []; reflexivity. Qed.

(* resolveInterruptCompletedTasks, one collected task: what is recorded where, when the loop ends *)
Theorem gen_resolve_task_agrees : forall V SCP SINFO after_cfg (t : N * @texec V SCP SINFO),
  Gen.CheckpointAssembly.resolve_task V SCP SINFO after_cfg t = model_resolve_task after_cfg t.
Proof.
  intros V SCP SINFO after_cfg [k x]. first [ reflexivity |
  unfold Gen.CheckpointAssembly.resolve_task, model_resolve_task, asm_mem; destruct x; simpl;
  try destruct (memN k after_cfg); reflexivity ].
Qed.

(* what follows the assembly (conversion of the checkpointed streams; to the parent / the store / nowhere) *)
Theorem gen_tail_agrees : Gen.CheckpointAssembly.assembly_tail = model_tail.
Proof. reflexivity. Qed.

(* what runner.run hands to the two handlers, call by call, by origin of the values (Model/CheckpointAsmLib.v):
   [decide] / [edecide] / [init_gen] of Model/RunLoop.v call plain_interrupt / rerun_interrupt with exactly these *)
Theorem gen_call_sites_agree : Gen.CheckpointAssembly.call_sites = model_call_sites.
Proof. reflexivity. Qed.

(* ---------------------------------------------------------------- the model's reading = the model *)
Section Link.
  Context {V CS GS SCP SINFO : Type}.
  Notation texec := (@texec V SCP SINFO).
  Implicit Types rs R l : list (N * texec).

  Lemma ptasks_inputs : forall pout (pending : list (N * V)),
    map (fun t => (tk_key t, tk_in t)) (ptasks pout pending) = pending.
  Proof. intros pout pending. unfold ptasks. rewrite map_map. simpl. apply map_pair_id_c05. Qed.

  (* handleInterrupt called with the tasks [pending] (created, not started: whatever their output field holds) *)
  Theorem plain_assembly_is_plain_interrupt : forall isnil pout (cs : CS) (gs : GS) (pending : list (N * V)) hb ha,
    Some (Gen.CheckpointAssembly.plain_assembly V CS GS SCP SINFO isnil (Some gs) hb ha (ptasks pout pending) cs)
    = of_sres (@plain_interrupt V CS GS SCP SINFO cs gs pending hb ha).
  Proof. intros. rewrite gen_plain_assembly_agrees. unfold model_plain. rewrite ptasks_inputs. reflexivity. Qed.

  Lemma subints_keys : forall R k, ~ In k (map fst R) -> nlist_get k (subints R) = None.
  Proof.
    induction R as [|[k' x] R IH]; intros k Hni; simpl in *; [reflexivity|].
    assert (Hne : N.eqb k k' = false) by (apply N.eqb_neq; intro; subst; apply Hni; left; reflexivity).
    assert (Ht : nlist_get k (subints R) = None) by (apply IH; intro; apply Hni; right; assumption).
    destruct x; simpl; try rewrite Hne; exact Ht.
  Qed.

  Lemma reruns_keys : forall R k, ~ In k (map fst R) -> memN k (reruns R) = false.
  Proof.
    induction R as [|[k' x] R IH]; intros k Hni; simpl in *; [reflexivity|].
    assert (Hne : N.eqb k k' = false) by (apply N.eqb_neq; intro; subst; apply Hni; left; reflexivity).
    assert (Ht : memN k (reruns R) = false) by (apply IH; intro; apply Hni; right; assumption).
    destruct x; simpl; try exact Ht. unfold memN in *; simpl. rewrite Hne. exact Ht.
  Qed.

  Lemma subints_at : forall R k x, NoDup (map fst R) -> In (k, x) R ->
    nlist_get k (subints R) = match x with TSub c i => Some (c, i) | _ => None end.
  Proof.
    induction R as [|[k' x'] R IH]; intros k x Hnd Hin; simpl in *; [contradiction|].
    inversion Hnd as [|a b Hni Hnd']; subst.
    destruct Hin as [E|Hin].
    - inversion E; subst. destruct x; simpl; try (apply subints_keys; assumption).
      rewrite N.eqb_refl. reflexivity.
    - assert (Hne : N.eqb k k' = false).
      { apply N.eqb_neq; intro; subst. apply Hni. change k' with (fst (k', x)). apply in_map. assumption. }
      destruct x'; simpl; try rewrite Hne; apply IH; assumption.
  Qed.

  Lemma reruns_at : forall R k x, NoDup (map fst R) -> In (k, x) R ->
    memN k (reruns R) = match x with TRerun => true | _ => false end.
  Proof.
    induction R as [|[k' x'] R IH]; intros k x Hnd Hin; simpl in *; [contradiction|].
    inversion Hnd as [|a b Hni Hnd']; subst.
    destruct Hin as [E|Hin].
    - inversion E; subst. destruct x; simpl; try (apply reruns_keys; assumption).
      unfold memN; simpl. rewrite N.eqb_refl. reflexivity.
    - assert (Hne : N.eqb k k' = false).
      { apply N.eqb_neq; intro; subst. apply Hni. change k' with (fst (k', x)). apply in_map. assumption. }
      destruct x'; simpl; try (apply IH; assumption).
      unfold memN in *; simpl. rewrite Hne. apply IH; assumption.
  Qed.

  Lemma no_fail_in : forall R k e, first_fail R = None -> ~ In (k, TFail e) R.
  Proof.
    unfold first_fail. induction R as [|[k' x] R IH]; intros k e H Hin; simpl in *; [assumption|].
    destruct Hin as [E|Hin].
    - inversion E; subst. simpl in H. discriminate.
    - destruct x; simpl in H; try discriminate; apply (IH k e); assumption.
  Qed.

  (* the loop over the collected results rs of a step is the model's reading of them: the first failure, or the
     nested interrupts, the nodes asking for a rerun and the interrupt-after nodes among the completed ones *)
  Lemma resolve_run_model : forall (after_cfg : list N) rs (a : racc SCP SINFO),
    resolve_run (model_resolve_task after_cfg) rs a =
    match first_fail rs with
    | Some e => inl e
    | None => inr (mk_racc (ra_subs a ++ subints rs) (ra_rerun a ++ reruns rs)
                           (ra_after a ++ @afters V SCP SINFO after_cfg rs))
    end.
  Proof.
    intros after_cfg rs. unfold first_fail, afters, outs.
    induction rs as [|[k x] rs IH]; intros a; simpl.
    - rewrite !app_nil_r. destruct a; reflexivity.
    - unfold model_resolve_task at 1; simpl. destruct x; simpl; try reflexivity.
      + rewrite IH. destruct (flat_map _ rs); [|reflexivity].
        destruct (memN k after_cfg); simpl; unfold set_puts; simpl; rewrite <- ?app_assoc; reflexivity.
      + rewrite IH. destruct (flat_map _ rs); [|reflexivity].
        unfold set_puts; simpl; rewrite <- ?app_assoc; reflexivity.
      + rewrite IH. destruct (flat_map _ rs); [|reflexivity].
        unfold puts; simpl; rewrite <- ?app_assoc; reflexivity.
  Qed.

  Theorem resolve_tasks_is_model : forall (after_cfg : list N) rs,
    resolve_run (Gen.CheckpointAssembly.resolve_task V SCP SINFO after_cfg) rs (mk_racc [] [] []) =
    match first_fail rs with
    | Some e => inl e
    | None => inr (mk_racc (subints rs) (reruns rs) (@afters V SCP SINFO after_cfg rs))
    end.
  Proof.
    intros after_cfg rs.
    assert (E : forall l a, resolve_run (Gen.CheckpointAssembly.resolve_task V SCP SINFO after_cfg) l a
                            = resolve_run (model_resolve_task after_cfg) l a).
    { induction l as [|t l IH]; intros a; simpl; [reflexivity|].
      rewrite gen_resolve_task_agrees. destruct (model_resolve_task after_cfg t); [apply IH | reflexivity]. }
    rewrite E, resolve_run_model. reflexivity.
  Qed.

  Variable zero : V.
  Variables cin onone : N -> V.
  Variable R : list (N * texec).
  Hypothesis Hnd : NoDup (map fst R).
  Hypothesis Hff : first_fail R = None.

  Let is_sub := fun t : atask V => m_has (tk_key t) (subints R).
  Let is_rerun := fun t : atask V => negb (m_has (tk_key t) (subints R)) && memN (tk_key t) (reruns R).
  Let is_other := fun t : atask V => negb (m_has (tk_key t) (subints R)) && negb (memN (tk_key t) (reruns R)).

  (* one collected result of the step, classified by the handler's tests *)
  Lemma classify_one : forall k x, In (k, x) R ->
    let t := mk_atask k (cin k) (match x with TDone o => o | _ => onone k end) in
    match x with
    | TDone _ => is_sub t = false /\ is_rerun t = false /\ is_other t = true
    | TRerun => is_sub t = false /\ is_rerun t = true /\ is_other t = false
    | TSub _ _ => is_sub t = true /\ is_rerun t = false /\ is_other t = false
    | TFail _ => False
    end.
  Proof.
    intros k x Hin t. unfold is_sub, is_rerun, is_other, m_has, t; simpl.
    rewrite (subints_at R k x Hnd Hin), (reruns_at R k x Hnd Hin).
    destruct x; simpl; auto. apply (no_fail_in R k e Hff Hin).
  Qed.

  Lemma asm_lists : forall l, incl l R ->
    outs_of (filter is_other (ctasks cin onone l)) = outs l /\
    map tk_key (filter is_sub (ctasks cin onone l)) = map fst (subcps l) /\
    map tk_key (filter is_rerun (ctasks cin onone l)) = reruns l /\
    flat_map (fun t => m_sel (tk_key t) (subints R) sub_cp) (filter is_sub (ctasks cin onone l)) = subcps l /\
    flat_map (fun t => m_sel (tk_key t) (subints R) sub_info) (filter is_sub (ctasks cin onone l)) = subinfos l.
  Proof.
    induction l as [|[k x] l IH]; intros Hincl; [repeat split; reflexivity|].
    assert (Hin : In (k, x) R) by (apply Hincl; left; reflexivity).
    destruct IH as (I1 & I2 & I3 & I4 & I5); [intros y Hy; apply Hincl; right; exact Hy|].
    pose proof (classify_one k x Hin) as Hc. pose proof (subints_at R k x Hnd Hin) as Hs.
    unfold ctasks, outs_of, outs, subcps, reruns, subinfos in *. simpl in *.
    destruct x; simpl in *; try contradiction; destruct Hc as (C1 & C2 & C3); rewrite C1, C2, C3; simpl;
      rewrite ?I1, ?I2, ?I3, ?I4, ?I5;
      unfold m_sel; simpl; rewrite ?Hs; simpl; unfold sub_cp, sub_info; simpl;
      repeat split; reflexivity.
  Qed.

  Lemma map_const_key : forall {A B} (z : V) (f : A -> N) (g : B -> N) (l1 : list A) (l2 : list B),
    map f l1 = map g l2 -> map (fun t => (f t, z)) l1 = map (fun t => (g t, z)) l2.
  Proof.
    intros A B z f g l1; induction l1 as [|a l1 IH]; intros [|b l2] H; simpl in *; try discriminate; try reflexivity.
    inversion H as [[H1 H2]]. rewrite H1. f_equal. apply IH; assumption.
  Qed.

  (* handleInterruptWithSubGraphAndRerunNodes, called with what resolveInterruptCompletedTasks hands over for the
     collected results R of a step (distinct nodes, none failed), in a call of paradigm isStream whose placeholder
     input is the model's zero *)
  Theorem rerun_assembly_is_rerun_interrupt :
    forall (isnil : V -> bool) (fold : CS -> list (N * V) -> res CS) (ph : bool -> V) (isStream : bool) (cs : CS) (gs : GS)
           pout (pending : list (N * V)) hb ha,
    ph isStream = zero ->
    Some (Gen.CheckpointAssembly.rerun_assembly V CS GS SCP SINFO isnil fold ph isStream (Some gs)
            (reruns R) (subints R) ha (ctasks cin onone R) hb (ptasks pout pending) cs)
    = of_sres (@rerun_interrupt V CS GS SCP SINFO zero fold cs gs R (outs R) pending hb ha).
  Proof.
    intros isnil fold ph isStream cs gs pout pending hb ha Hph.
    rewrite gen_rerun_assembly_agrees.
    destruct (asm_lists R (incl_refl R)) as (I1 & I2 & I3 & I4 & I5).
    unfold model_rerun, rerun_interrupt.
    fold is_sub. fold is_rerun. fold is_other.
    rewrite I1. destruct (fold cs (outs R)) as [cs1|e|]; simpl; try reflexivity.
    rewrite I2, I4, I5, Hph, ptasks_inputs.
    rewrite (map_const_key zero tk_key fst _ _ I2).
    replace (map (fun t : atask V => (tk_key t, zero)) (filter is_rerun (ctasks cin onone R)))
      with (map (fun k : N => (k, zero)) (reruns R))
      by (rewrite <- I3, map_map; reflexivity).
    reflexivity.
  Qed.

  (* the batch loop's decision on the collected results of a step, when a node asked for a rerun or a nested graph
     interrupted (call site 2 of Model/CheckpointAsmLib.v: everything collected, nothing pending, no before nodes):
     the translated classification loop followed by the translated handler *)
  Theorem decide_rerun_is_translated :
    forall (fold : CS -> list (N * V) -> res CS) (getr : CS -> res (CS * list (N * V))) (before_cfg after_cfg : list N)
           (isnil : V -> bool) (ph : bool -> V) (isStream : bool) (cs : CS) (gs1 : GS) pout,
    ph isStream = zero ->
    negb (is_nil (subcps R) && is_nil (reruns R)) = true ->
    exists a,
      resolve_run (Gen.CheckpointAssembly.resolve_task V SCP SINFO after_cfg) R (mk_racc [] [] []) = inr a /\
      of_sres (@decide V CS GS SCP SINFO zero fold getr before_cfg after_cfg cs gs1 R)
      = Some (Gen.CheckpointAssembly.rerun_assembly V CS GS SCP SINFO isnil fold ph isStream (Some gs1)
                (ra_rerun a) (ra_subs a) (ra_after a) (ctasks cin onone R) [] (ptasks pout []) cs).
  Proof.
    intros fold getr before_cfg after_cfg isnil ph isStream cs gs1 pout Hph Hne.
    eexists. split.
    - rewrite resolve_tasks_is_model, Hff. reflexivity.
    - simpl. unfold decide. rewrite Hff, Hne.
      symmetry. apply (rerun_assembly_is_rerun_interrupt isnil fold ph isStream cs gs1 pout [] [] _ Hph).
  Qed.
End Link.

(* non-vacuity: a step whose collected results are a completed node (2), a node asking for a rerun (3) and a nested
   graph that interrupted (4), while node 6 was already created: 2 is folded into the channels, 6 stays pending with
   its input, 4 and 3 become pending with the placeholder, only 4 skips its pre-handler and keeps its nested checkpoint *)
Example rerun_assembly_hypotheses_hold :
  let R : list (N * @texec N N N) := [(2, TDone 7); (3, TRerun); (4, TSub 9 8)] in
  NoDup (map fst R) /\ first_fail R = None /\
  Gen.CheckpointAssembly.rerun_assembly N (list (N * N)) N N N (fun _ => false) (fun cs l => Ok (cs ++ l)) (fun _ => 0) true (Some 5)
      (reruns R) (subints R) [2] (ctasks (fun _ => 11) (fun _ => 12) R) [] (ptasks (fun _ => 13) [(6, 1)]) []
  = AInterrupted (mk_ainfo (Some 5) [] [2] [3] [(4, 8)])
                 (mk_acp [(2, 7)] [(6, 1); (4, 0); (3, 0)] (Some 5) [4] [(4, 9)]).
Proof.
  simpl. split; [|split; [reflexivity|]].
  - repeat constructor; simpl; intuition discriminate.
  - first [ reflexivity | vm_compute; reflexivity ].
Qed.

Print Assumptions gen_plain_assembly_agrees.
Print Assumptions gen_rerun_assembly_agrees.
Print Assumptions gen_interrupt_dest_agrees.
Print Assumptions gen_resolve_task_agrees.
Print Assumptions resolve_tasks_is_model.
Print Assumptions gen_tail_agrees.
Print Assumptions gen_call_sites_agree.
Print Assumptions plain_assembly_is_plain_interrupt.
Print Assumptions rerun_assembly_is_rerun_interrupt.
Print Assumptions decide_rerun_is_translated.
