(* Proofs/OptionsHosted.v — property C16: a call from inside a node of another running graph
   (or with handlers already in the context) reports what the direct call reports, with the
   context's handlers in front of every node's own. *)
From Eino Require Import Base.Util Model.Options Model.OptionsSpec Model.OptionsHosted Proofs.Options.

Lemma res_flat_mapM_map {A B C} (f f' : A -> res (list B)) (h : B -> C) (g : A -> res (list C)) (l : list A) :
  (forall a, In a l -> g a = res_map (map h) (f a)) ->
  res_flat_mapM g l = res_map (map h) (res_flat_mapM f l).
Proof.
  intros H. unfold res_flat_mapM.
  assert (E : res_mapM g l = res_map (map (map h)) (res_mapM f l)).
  { induction l as [|a l IH]; [reflexivity|]. simpl.
    rewrite (H a (or_introl eq_refl)). destruct (f a) as [b|e|]; simpl; try reflexivity.
    rewrite IH by (intros x Hx; apply H; right; exact Hx).
    destruct (res_mapM f l); reflexivity. }
  rewrite E. destruct (res_mapM f l) as [ls|e|]; simpl; try reflexivity.
  rewrite concat_map. reflexivity.
Qed.

Lemma run_graph_inherit fuel : forall F gi pre hh inh opts,
  run_graph fuel F gi pre (hh ++ inh) opts = res_map (map (inherit hh)) (run_graph fuel F gi pre inh opts).
Proof.
  induction fuel as [|f IH]; intros F gi pre hh inh opts; [reflexivity|].
  rewrite !run_graph_S. destruct (nth_error F gi) as [g|]; [|reflexivity].
  destruct (validate (S f) F gi opts) as [m|e|]; simpl; try reflexivity.
  apply (res_flat_mapM_map (node_run f F pre inh opts m) (node_run f F pre inh opts m)).
  intros nd _. unfold node_run.
  destruct (n_runs nd); simpl; [|reflexivity].
  destruct (n_kind nd) as [ty|gj].
  - destruct (convert_items ty (om_get (n_key nd) m)); simpl; try reflexivity.
    unfold inherit; simpl. destruct (n_cb nd); rewrite <- ?app_assoc; reflexivity.
  - destruct (convert_opts (om_get (n_key nd) m)) as [os|e|]; simpl; try reflexivity.
    rewrite <- app_assoc. rewrite IH.
    destruct (run_graph f F gj (pre ++ [n_key nd]) (inh ++ node_handlers (n_key nd) opts) os); simpl; try reflexivity.
Qed.

(* the hosted call = the direct call, every callback manager with the context's handlers in front *)
Lemma hosted_is_direct F hh opts :
  run_hosted F hh opts = res_map (map (inherit hh)) (run_call F opts).
Proof.
  unfold run_hosted, run_call. rewrite run_graph_inherit.
  destruct (run_graph (S (List.length F)) F 0 [] (graph_handlers opts) opts); reflexivity.
Qed.

Lemma hosted_fresh_context F opts : run_hosted F [] opts = run_call F opts.
Proof.
  rewrite hosted_is_direct. destruct (run_call F opts) as [rs|e|]; simpl; try reflexivity.
  f_equal. rewrite <- (map_id rs) at 2. apply map_ext. intros [p its [hs|]]; reflexivity.
Qed.

(* nothing but handlers comes out of the context: the option values every component receives,
   the set of reports and the failure of the call are those of the direct call *)
Lemma hosted_items F hh opts rs :
  run_hosted F hh opts = Ok rs ->
  exists rs0, run_call F opts = Ok rs0 /\
    map r_path rs = map r_path rs0 /\ map r_items rs = map r_items rs0 /\
    map r_fired rs = map (fun r => match r_fired r with Some hs => Some (hh ++ hs) | None => None end) rs0.
Proof.
  rewrite hosted_is_direct. destruct (run_call F opts) as [rs0|e|]; simpl; try discriminate.
  intros H; inversion H; subst. exists rs0. split; [reflexivity|].
  rewrite !map_map. repeat split; apply map_ext; intros r; reflexivity.
Qed.

Lemma hosted_fails_iff F hh opts :
  (exists e, run_hosted F hh opts = Err e) <-> (exists e, run_call F opts = Err e).
Proof.
  rewrite hosted_is_direct. destruct (run_call F opts) as [rs0|e|]; simpl; split; intros [e' H]; try discriminate; eauto.
Qed.
