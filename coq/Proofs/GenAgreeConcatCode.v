(* Proofs/GenAgreeConcatCode.v — the statement-by-statement translations that tools/go2v regenerates on
   every run — extractor "concatcode": internal/concat.go (toSliceValue, concatSliceValue, concatMaps,
   concatInterfaces; ConcatItems as a table) -> Gen/ConcatCode.v; "concatstream": compose/stream_concat.go
   concatStreamReader and schema/message.go ConcatMessageStream -> Gen/ConcatStreamCode.v; "concattoolcalls":
   schema/message.go concatToolCalls with its comparator and sort call -> Gen/ConcatToolCallCode.v —
   ARE the reference translation Model/ConcatCodeRef.v, about which
   Proofs/ConcatCodeRef.v proves that it computes the model's functions (theorems code_... of Props/C14.v).
   The comparison is by conversion first (renamed locals or a let-bound intermediate value leave the
   terms convertible) and, where the terms are not convertible, POINTWISE (Proofs/ConcatAgreeTac.v: loop bodies
   and continuations compared for every state, every test split): a nested test flattened, independent tests
   swapped, an early continue against a nested if are proved equal; a changed test, a reordered statement with
   another meaning, a dropped nil filter, another sort function make these proofs fail. *)
From Eino Require Import Base.Util Model.ConcatTable Model.Concat Model.ConcatStream Model.ConcatGenLib Proofs.ConcatAgreeTac.
From Eino Require Model.ConcatCodeRef Gen.ConcatCode Gen.ConcatStreamCode Gen.ConcatToolCallCode.

Section Agree.
Context {U : UserFn}.

Theorem gen_toSliceValue_agrees : forall vs,
  Gen.ConcatCode.gen_toSliceValue vs = Model.ConcatCodeRef.gen_toSliceValue vs.
Proof.
  intros. first [reflexivity | unfold Gen.ConcatCode.gen_toSliceValue, Model.ConcatCodeRef.gen_toSliceValue; agree_descend].
Qed.
Hint Rewrite gen_toSliceValue_agrees : agree_db.

Theorem gen_concatSliceValue_agrees : forall val,
  Gen.ConcatCode.gen_concatSliceValue val = Model.ConcatCodeRef.gen_concatSliceValue val.
Proof.
  intros. first [reflexivity | unfold Gen.ConcatCode.gen_concatSliceValue, Model.ConcatCodeRef.gen_concatSliceValue; agree_descend].
Qed.
Hint Rewrite gen_concatSliceValue_agrees : agree_db.

Theorem gen_concatMaps_agrees : forall self ms,
  Gen.ConcatCode.gen_concatMaps self ms = Model.ConcatCodeRef.gen_concatMaps self ms.
Proof.
  intros. first [reflexivity | unfold Gen.ConcatCode.gen_concatMaps, Model.ConcatCodeRef.gen_concatMaps; agree_descend].
Qed.

Theorem gen_concatInterfaces_agrees : forall cm vs,
  Gen.ConcatCode.gen_concatInterfaces cm vs = Model.ConcatCodeRef.gen_concatInterfaces cm vs.
Proof.
  intros. first [reflexivity | unfold Gen.ConcatCode.gen_concatInterfaces, Model.ConcatCodeRef.gen_concatInterfaces; agree_descend].
Qed.

End Agree.

Theorem gen_tc_less_agrees : forall a b,
  Gen.ConcatToolCallCode.gen_tc_less a b = Model.ConcatCodeRef.gen_tc_less a b.
Proof.
  intros. first [reflexivity | unfold Gen.ConcatToolCallCode.gen_tc_less, Model.ConcatCodeRef.gen_tc_less; agree_descend].
Qed.

Theorem gen_tc_sort_stable_agrees :
  Gen.ConcatToolCallCode.gen_tc_sort_stable = Model.ConcatCodeRef.gen_tc_sort_stable.
Proof. reflexivity. Qed.

Theorem gen_concat_items_shape_agrees :
  Gen.ConcatCode.gen_concat_items_shape = Model.ConcatCodeRef.gen_concat_items_shape.
Proof. reflexivity. Qed.

Theorem gen_concatStreamReader_agrees : forall X zero ci s,
  Gen.ConcatStreamCode.gen_concatStreamReader X zero ci s = Model.ConcatCodeRef.gen_concatStreamReader X zero ci s.
Proof.
  intros. first [reflexivity | unfold Gen.ConcatStreamCode.gen_concatStreamReader, Model.ConcatCodeRef.gen_concatStreamReader; agree_descend].
Qed.

Theorem gen_ConcatMessageStream_agrees : forall X zero ci s,
  Gen.ConcatStreamCode.gen_ConcatMessageStream X zero ci s = Model.ConcatCodeRef.gen_ConcatMessageStream X zero ci s.
Proof.
  intros. first [reflexivity | unfold Gen.ConcatStreamCode.gen_ConcatMessageStream, Model.ConcatCodeRef.gen_ConcatMessageStream; agree_descend].
Qed.

Theorem gen_concatToolCalls_agrees : forall ord chunks,
  Gen.ConcatToolCallCode.gen_concatToolCalls ord chunks = Model.ConcatCodeRef.gen_concatToolCalls ord chunks.
Proof.
  intros. first [reflexivity | unfold Gen.ConcatToolCallCode.gen_concatToolCalls, Model.ConcatCodeRef.gen_concatToolCalls; agree_descend].
Qed.

Theorem gen_concatMessageArray_agrees : forall X zero ci is_nil_x mas,
  Gen.ConcatStreamCode.gen_concatMessageArray X zero ci is_nil_x mas = Model.ConcatCodeRef.gen_concatMessageArray X zero ci is_nil_x mas.
Proof.
  intros. first [reflexivity | unfold Gen.ConcatStreamCode.gen_concatMessageArray, Model.ConcatCodeRef.gen_concatMessageArray; agree_descend].
Qed.
