(* Proofs/TypesLatticeX.v — exactness of checkAssignable behind a concrete upstream type
   (Model/Types.v): the static decision is the run-time fact. *)
From Eino Require Import Base.Util Model.Types Proofs.TypesLattice.

Lemma ty_eqb_sym : forall a b, ty_eqb a b = ty_eqb b a.
Proof. intros [x| x|] [y| y|]; simpl; try reflexivity; apply N.eqb_sym. Qed.

(* upstream concrete: Must exactly when the (only) value of that dynamic type is held by the
   downstream type; otherwise MustNot (never May) *)
Theorem concrete_upstream_exact_lemma : forall u x a,
  (check_assignable u (Some (TConc x)) (Some a) = Must <-> dyn_assignable u (DVal x) a = true) /\
  (check_assignable u (Some (TConc x)) (Some a) = MustNot <-> dyn_assignable u (DVal x) a = false).
Proof.
  intros u x a. unfold check_assignable, dyn_assignable. rewrite (ty_eqb_sym (TConc x) a).
  destruct (ty_eqb a (TConc x)); simpl.
  - split; split; intros; try reflexivity; discriminate.
  - destruct (is_iface a && implements u (TConc x) a); simpl; split; split; intros; try reflexivity; discriminate.
Qed.

(* a run-time check is installed (May) only where it can fail and can succeed in some
   universe extension is not claimed; what holds in every universe: May means the upstream
   is an interface type the downstream type implements without being it *)
Theorem may_exact_lemma : forall u i a,
  check_assignable u (Some i) (Some a) = May <->
  (ty_eqb a i = false /\ (is_iface a && implements u i a) = false /\ is_iface i = true /\ implements u a i = true).
Proof.
  intros u i a. unfold check_assignable.
  destruct (ty_eqb a i); simpl; [split; [discriminate | intros [H _]; discriminate]|].
  destruct (is_iface a && implements u i a); simpl; [split; [discriminate | intros [_ [H _]]; discriminate]|].
  destruct (is_iface i); simpl; [|split; [discriminate | intros [_ [_ [H _]]]; discriminate]].
  destruct (implements u a i); simpl; split; try discriminate; auto.
  intros [_ [_ [_ H]]]; discriminate.
Qed.
