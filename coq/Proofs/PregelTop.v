(* Proofs/PregelTop.v — C01 statements about whole runs: reachable loop states, the observable step bound
   (number of supersteps in the execution log), and their instances for nested runs ([run_nest], [run],
   [tree_run] — what Corr/C01.v evaluates). *)
From Eino Require Import Base.Util Model.Graph Proofs.PregelBase Proofs.Pregel Proofs.PregelRun Proofs.PregelNest.
From Coq Require Import Lia Permutation.
Open Scope N_scope.

Section Top.
  Variable V : Type.
  Variable St : Type.
  Variable ops : vops V.
  Variable exec : St -> path -> V -> res V * St.
  Variable sub : nat -> path -> V -> St -> outcome V * St.
  Variable sched : nat -> list key -> nat.

  Notation loopstate := (loopstate V St).
  Notation step := (step V St ops exec sub sched).
  Notation submit := (submit V St ops exec sub).
  Notation run_flat := (run_flat V St ops exec sub sched).
  Notation reaches := (reaches V St ops exec sub sched).
  Notation pregel_inv := (pregel_inv V St).
  Notation sent := (sent V ops).

  (* the loop states of a fresh run of g on x that come after n continuing supersteps *)
  Definition reachable (p : path) (g : graph) (x : V) (s : St) (n : nat) (ls : loopstate) : Prop :=
    exists cs ready,
      calc_next V ops g (init_chans_v0 V g) [(kSTART, x)] = Ok (cs, ready) /\
      alookup kEND ready = None /\
      reaches p g n (init_state V St p cs ready s) ls.

  Theorem reachable_inv : forall p g x s n ls,
    pregel_graph g -> sub_fail_nonempty V St sub -> reachable p g x s n ls ->
    pregel_inv ls /\ ls_step V St ls = n.
  Proof.
    intros p g x s n ls Hg Hsub [cs [ready [Hc [He Hr]]]].
    destruct (pregel_init_frontier V St ops p g x s cs ready Hg Hc He) as [Hinv _].
    split.
    - eapply reaches_inv; eassumption.
    - rewrite (reaches_step_count V St ops exec sub sched _ _ _ _ _ Hg Hr). reflexivity.
  Qed.

  Lemma reaches_det : forall p g n ls ls1 ls2, reaches p g n ls ls1 -> reaches p g n ls ls2 -> ls1 = ls2.
  Proof.
    intros p g n ls ls1 ls2 H1. revert ls2. induction H1 as [ls|n ls lsa lsb Hs Hr IH]; intros ls2 H2.
    - inversion H2. reflexivity.
    - inversion H2 as [|n' a b c Hs' Hr']; subst. rewrite Hs in Hs'. inversion Hs'; subst. apply IH. exact Hr'.
  Qed.

  Lemma reaches_prefix : forall p g n m ls ls',
    reaches p g n ls ls' -> (m < n)%nat ->
    exists lsm lsm', reaches p g m ls lsm /\ step p g lsm = Continue lsm'.
  Proof.
    intros p g n m ls ls' H. revert m. induction H as [ls|n ls ls1 ls2 Hs Hr IH]; intros m Hm; [lia|].
    destruct m as [|m].
    - exists ls, ls1. split; [constructor|exact Hs].
    - destruct (IH m) as [lsm [lsm' [Ha Hb]]]; [lia|].
      exists lsm, lsm'. split; [econstructor; eassumption|exact Hb].
  Qed.

  (* ---------- pregel_end_first for a whole run ---------- *)
  Theorem pregel_end_first_run : forall p g x s v l s',
    pregel_graph g -> sub_fail_nonempty V St sub ->
    run_flat p g x s = (Done v l, s') ->
    (* START itself delivers to END: no node runs *)
    (l = [run_marker V p] /\ s' = s /\ sent g [(kSTART, x)] kEND <> [] /\
     exists m, get_merge V ops (collect (sent g [(kSTART, x)] kEND)) = Ok m /\ v = pre_node V ops g kEND m)
    \/
    (* or the tasks of some reachable state deliver to END; then *)
    (exists n ls results sublog,
       reachable p g x s n ls /\
       submit p g (ls_next V St ls) (ls_st V St ls) = (results, sublog, s') /\
       (* the result is the merge of what END was sent in that step *)
       sent g (task_outputs V results) kEND <> [] /\
       (exists m, get_merge V ops (collect (sent g (task_outputs V results) kEND)) = Ok m
                  /\ v = pre_node V ops g kEND m) /\
       (* the run stops there: the log ends with that step's tasks *)
       l = ls_log V St ls ++ [step_entry V p (ls_next V St ls)] ++ sublog /\
       (* and it is the first step in which END receives anything *)
       sent g [(kSTART, x)] kEND = [] /\
       (forall m lsm rm sm stm, (m < n)%nat -> reachable p g x s m lsm ->
          submit p g (ls_next V St lsm) (ls_st V St lsm) = (rm, sm, stm) ->
          sent g (task_outputs V rm) kEND = [])).
  Proof.
    intros p g x s v l s' Hg Hsub H.
    pose proof (pregel_run_shape V St ops exec sub sched p g x s Hg Hsub) as Hshape. rewrite H in Hshape.
    destruct (init_chans_v0_ok V g) as [Hnd Hemp].
    inversion Hshape as [e He Heq|cs ready v0 Hc Hend Heq|cs ready n ls o s0 Hc Hend Hn Hr Hinv Hf Hcls Heq]; subst.
    - left. split; [reflexivity|]. split; [reflexivity|].
      destruct (calc_next_frontier V ops _ _ _ _ _ (proj1 Hg) Hemp Hnd Hc) as [_ [Hiff Hmerge]].
      apply alookup_some_in in Hend. split.
      + apply Hiff. apply (in_map fst) in Hend. exact Hend.
      + apply Hmerge. exact Hend.
    - right.
      destruct (submit p g (ls_next V St ls) (ls_st V St ls)) as [[results sublog] s1] eqn:Es.
      destruct (pregel_step_done V St ops exec sub sched _ _ _ _ _ _ _ _ _ Hg Hsub Hinv Es Hf)
        as [-> [Hl [_ [Hne Hm]]]].
      exists n, ls, results, sublog.
      assert (Hreach : reachable p g x s n ls) by (exists cs, ready; repeat split; assumption).
      split; [exact Hreach|]. split; [exact Es|]. split; [exact Hne|]. split; [exact Hm|]. split; [exact Hl|].
      split.
      + destruct (calc_next_frontier V ops _ _ _ _ _ (proj1 Hg) Hemp Hnd Hc) as [_ [Hiff _]].
        destruct (sent g [(kSTART, x)] kEND) as [|y ys] eqn:E; [reflexivity|].
        exfalso. apply alookup_none_notin in Hend. apply Hend. apply Hiff. rewrite E. discriminate.
      + intros m lsm rm sm stm Hlt [cs2 [ready2 [Hc2 [Hend2 Hr2]]]] Esm.
        rewrite Hc in Hc2. inversion Hc2; subst cs2 ready2.
        destruct (reaches_prefix _ _ _ _ _ _ Hr Hlt) as [lsm0 [lsm' [Ha Hb]]].
        pose proof (reaches_det _ _ _ _ _ _ Hr2 Ha) as Heq. subst lsm0.
        destruct (pregel_init_frontier V St ops p g x s cs ready Hg Hc Hend) as [Hinv0 _].
        pose proof (reaches_inv V St ops exec sub sched _ _ _ _ _ Hg Hsub Hinv0 Hr2) as Hinvm.
        eapply pregel_step_continue_no_end; eassumption.
  Qed.

  (* ================= the step bound, as seen in the execution log ================= *)
  Definition own_entries (p : path) (l : log V) : nat := List.length (log_steps_at V p l).

  Definition sub_log_below : Prop :=
    forall i q v s, Forall (fun le => exists r, fst le = q ++ r) (outcome_log V (fst (sub i q v s))).

  Lemma own_entries_app : forall p l1 l2, own_entries p (l1 ++ l2) = (own_entries p l1 + own_entries p l2)%nat.
  Proof. intros. unfold own_entries, log_steps_at. rewrite filter_app, map_app, app_length. reflexivity. Qed.

  Lemma own_entries_below : forall p k (l : log V),
    Forall (fun le => exists r, fst le = (p ++ [k]) ++ r) l -> own_entries p l = O.
  Proof.
    intros p k l H. unfold own_entries, log_steps_at. induction H as [|le l [r Hr] _ IH]; [reflexivity|].
    simpl. destruct (list_eq_dec _ _ _) as [E|E]; [|exact IH].
    exfalso. pose proof (eq_trans (eq_sym E) Hr) as E2. apply (f_equal (@List.length key)) in E2. rewrite !app_length in E2. simpl in E2. lia.
  Qed.

  Lemma run_task_log_below : forall p n v s r l s',
    sub_log_below -> run_task V St ops exec sub p n v s = (r, l, s') ->
    Forall (fun le => exists q, fst le = (p ++ [n_key n]) ++ q) l.
  Proof.
    intros p n v s r l s' Hb H. unfold run_task in H. destruct (n_kind n) as [| |i].
    - destruct (exec s (p ++ [n_key n]) v) as [r0 s0]. inversion H; subst. constructor.
    - inversion H; subst. constructor.
    - pose proof (Hb i (p ++ [n_key n]) v s) as Hl.
      destruct (sub i (p ++ [n_key n]) v s) as [[r0 l0|es l0] s0]; simpl in Hl; inversion H; subst; exact Hl.
  Qed.

  Lemma submit_own_entries : forall p g tasks s rs l s',
    sub_log_below -> submit p g tasks s = (rs, l, s') -> own_entries p l = O.
  Proof.
    intros p g tasks. induction tasks as [|[k v] tasks IH]; intros s rs l s' Hb H; simpl in H.
    - inversion H; subst. reflexivity.
    - destruct (find_node g k) as [n|].
      + destruct (run_task V St ops exec sub p n v s) as [[r l1] s1] eqn:R.
        destruct (submit p g tasks s1) as [[rs2 l2] s2] eqn:E. inversion H; subst.
        rewrite own_entries_app. rewrite (IH _ _ _ _ Hb E).
        rewrite (own_entries_below p (n_key n)); [reflexivity|]. eapply run_task_log_below; eassumption.
      + destruct (submit p g tasks s) as [[rs2 l2] s2] eqn:E. inversion H; subst. eapply IH; eassumption.
  Qed.

  Lemma step_entry_own : forall p tasks, own_entries p [step_entry V p tasks] = 1%nat.
  Proof.
    intros p tasks. unfold own_entries, log_steps_at, step_entry. simpl.
    destruct (list_eq_dec _ _ _) as [_|E]; [reflexivity|exfalso; apply E; reflexivity].
  Qed.

  Lemma reaches_own_entries : forall p g n (ls ls' : loopstate),
    pregel_graph g -> sub_fail_nonempty V St sub -> sub_log_below -> pregel_inv ls ->
    reaches p g n ls ls' ->
    own_entries p (ls_log V St ls') = (own_entries p (ls_log V St ls) + n)%nat.
  Proof.
    intros p g n ls ls' Hg Hsub Hb Hinv H. induction H as [ls|n ls ls1 ls2 Hs Hr IH]; [lia|].
    destruct (submit p g (ls_next V St ls) (ls_st V St ls)) as [[results sublog] s'] eqn:E.
    destruct (pregel_step_frontier V St ops exec sub sched _ _ _ _ _ _ _ Hg Hsub Hinv E Hs)
      as [Hinv1 [_ [_ [Hlog _]]]].
    rewrite (IH Hinv1), Hlog, !own_entries_app, step_entry_own, (submit_own_entries _ _ _ _ _ _ _ Hb E). lia.
  Qed.

  (* a run of a Pregel graph logs at most max_steps supersteps of its own (plus the run marker),
     whatever the graph: cyclic graphs cannot run forever *)
  Theorem pregel_run_log_bounded : forall p g x s,
    pregel_graph g -> sub_fail_nonempty V St sub -> sub_log_below ->
    (own_entries p (outcome_log V (fst (run_flat p g x s))) <= S (max_steps g))%nat.
  Proof.
    intros p g x s Hg Hsub Hb.
    pose proof (pregel_run_shape V St ops exec sub sched p g x s Hg Hsub) as Hshape.
    inversion Hshape as [e He Heq|cs ready v Hc Hend Heq|cs ready n ls o s' Hc Hend Hn Hr Hinv Hf Hcls Heq].
    - simpl. unfold own_entries, log_steps_at, run_marker. simpl.
      destruct (list_eq_dec _ _ _); simpl; lia.
    - simpl. unfold own_entries, log_steps_at, run_marker. simpl.
      destruct (list_eq_dec _ _ _); simpl; lia.
    - simpl.
      destruct (pregel_init_frontier V St ops p g x s cs ready Hg Hc Hend) as [Hinv0 _].
      pose proof (reaches_own_entries _ _ _ _ _ Hg Hsub Hb Hinv0 Hr) as Hown.
      assert (H0 : own_entries p (ls_log V St (init_state V St p cs ready s)) = 1%nat).
      { simpl. unfold own_entries, log_steps_at, run_marker. simpl.
        destruct (list_eq_dec _ _ _) as [_|E]; [reflexivity|exfalso; apply E; reflexivity]. }
      rewrite H0 in Hown.
      pose proof (reaches_step_count V St ops exec sub sched _ _ _ _ _ Hg Hr) as Hstep. simpl in Hstep.
      destruct (submit p g (ls_next V St ls) (ls_st V St ls)) as [[results sublog] s1] eqn:Es.
      rewrite (step_pregel_eq V St ops exec sub sched _ _ _ _ _ _ Hg (inv_running _ _ _ Hinv) Es) in Hf.
      destruct (Nat.leb (max_steps g) (ls_step V St ls)) eqn:Hl.
      + inversion Hf; subst. simpl. lia.
      + apply Nat.leb_gt in Hl.
        assert (Hlog : (own_entries p (step_log V St p ls sublog) <= S (S n))%nat).
        { unfold step_log. rewrite !own_entries_app, (submit_own_entries _ _ _ _ _ _ _ Hb Es).
          destruct (ls_next V St ls); [change (own_entries p []) with O; lia|rewrite step_entry_own; lia]. }
        assert (Hol : outcome_log V o = step_log V St p ls sublog).
        { destruct (task_errors V results); [|inversion Hf; reflexivity].
          destruct results; [inversion Hf; reflexivity|].
          destruct (calc_next V ops g (ls_chans V St ls) (task_outputs V (p0 :: results))) as [[cs' rd]|e|];
            [|inversion Hf; reflexivity|inversion Hf; reflexivity].
          destruct (alookup kEND rd); inversion Hf; reflexivity. }
        rewrite Hol. lia.
  Qed.
  (* ---------- the bound is exact: a run that survives max_steps supersteps fails right there ---------- *)
  Lemma iterate_reaches_eq : forall p g n f (ls ls' : loopstate),
    reaches p g n ls ls' ->
    iterate V St ops exec sub sched p g (n + f) ls = iterate V St ops exec sub sched p g f ls'.
  Proof.
    intros p g n f ls ls' H. induction H as [ls|n ls ls1 ls2 Hs Hr IH]; [reflexivity|].
    simpl. rewrite Hs. exact IH.
  Qed.

  Theorem pregel_limit_exact : forall p g x s ls,
    pregel_graph g -> sub_fail_nonempty V St sub -> sub_log_below ->
    reachable p g x s (max_steps g) ls ->
    run_flat p g x s = (Fail [mkerr eMaxSteps] (ls_log V St ls), ls_st V St ls) /\
    own_entries p (ls_log V St ls) = S (max_steps g).
  Proof.
    intros p g x s ls Hg Hsub Hb Hreach.
    destruct (reachable_inv _ _ _ _ _ _ Hg Hsub Hreach) as [Hinv Hstep].
    destruct Hreach as [cs [ready [Hc [He Hr]]]].
    split.
    - unfold Graph.run_flat. rewrite (init_chans_pregel V g (proj1 Hg)), Hc, He.
      unfold loop_fuel. rewrite (proj1 Hg).
      replace (S (max_steps g)) with (max_steps g + 1)%nat by lia.
      rewrite (iterate_reaches_eq _ _ _ 1 _ _ Hr). simpl.
      unfold Graph.step, step_limit_hit. rewrite (proj1 Hg), Hstep, Nat.leb_refl. reflexivity.
    - destruct (pregel_init_frontier V St ops p g x s cs ready Hg Hc He) as [Hinv0 _].
      rewrite (reaches_own_entries _ _ _ _ _ Hg Hsub Hb Hinv0 Hr). simpl.
      unfold own_entries, log_steps_at, run_marker. simpl.
      destruct (list_eq_dec _ _ _) as [_|E]; [reflexivity|exfalso; apply E; reflexivity].
  Qed.
End Top.

(* ================= instances for nested runs ================= *)
Section NestTop.
  Variable V : Type.
  Variable St : Type.
  Variable ops : vops V.
  Variable exec : St -> path -> V -> res V * St.
  Variable sched : nat -> list key -> nat.

  Lemma nest_sub_log_below : forall f F, sub_log_below V St (nest_sub V St ops exec sched f F).
  Proof.
    intros f F i q v s. unfold nest_sub. destruct (nth_error F i) as [g'|].
    - apply run_nest_log_below.
    - simpl. constructor.
  Qed.

  (* every run of a Pregel graph anywhere in a forest, at any nesting depth *)
  Theorem pregel_nest_run_shape : forall f F p g x s,
    pregel_graph g ->
    run_shape V St ops exec (nest_sub V St ops exec sched f F) sched p g x s
              (run_nest V St ops exec sched (S f) F p g x s).
  Proof.
    intros f F p g x s Hg. rewrite run_nest_S. apply pregel_run_shape; [exact Hg|apply nest_sub_fail_nonempty].
  Qed.

  Theorem pregel_nest_log_bounded : forall f F p g x s,
    pregel_graph g ->
    (own_entries V p (outcome_log V (fst (run_nest V St ops exec sched (S f) F p g x s))) <= S (max_steps g))%nat.
  Proof.
    intros f F p g x s Hg. rewrite run_nest_S.
    apply pregel_run_log_bounded; [exact Hg|apply nest_sub_fail_nonempty|apply nest_sub_log_below].
  Qed.

  (* the one-step and whole-run theorems for a graph anywhere in a forest: no hypothesis about sub-graphs *)
  Theorem pregel_nest_frontier : forall f F p g (ls ls' : loopstate V St) results sublog s',
    pregel_graph g -> pregel_inv V St ls ->
    submit V St ops exec (nest_sub V St ops exec sched f F) p g (ls_next V St ls) (ls_st V St ls) = (results, sublog, s') ->
    step V St ops exec (nest_sub V St ops exec sched f F) sched p g ls = Continue ls' ->
    let outs := task_outputs V results in
    pregel_inv V St ls' /\
    ls_step V St ls' = S (ls_step V St ls) /\
    akeys outs = akeys (ls_next V St ls) /\
    ls_log V St ls' = ls_log V St ls ++ [step_entry V p (ls_next V St ls)] ++ sublog /\
    (forall t, In t (akeys (ls_next V St ls')) <-> sent V ops g outs t <> []) /\
    (forall t v, In (t, v) (ls_next V St ls') ->
       exists m, get_merge V ops (collect (sent V ops g outs t)) = Ok m /\ v = pre_node V ops g t m) /\
    outs_legal V ops g outs.
  Proof.
    intros f F p g ls ls' results sublog s' Hg Hinv Hs H.
    exact (pregel_step_frontier V St ops exec _ sched p g ls ls' results sublog s' Hg
             (nest_sub_fail_nonempty V St ops exec sched f F) Hinv Hs H).
  Qed.

  Theorem pregel_nest_end_first : forall f F p g x s v l s',
    pregel_graph g ->
    run_nest V St ops exec sched (S f) F p g x s = (Done v l, s') ->
    (l = [run_marker V p] /\ s' = s /\ sent V ops g [(kSTART, x)] kEND <> [] /\
     exists m, get_merge V ops (collect (sent V ops g [(kSTART, x)] kEND)) = Ok m /\ v = pre_node V ops g kEND m)
    \/
    (exists n ls results sublog,
       reachable V St ops exec (nest_sub V St ops exec sched f F) sched p g x s n ls /\
       submit V St ops exec (nest_sub V St ops exec sched f F) p g (ls_next V St ls) (ls_st V St ls) = (results, sublog, s') /\
       sent V ops g (task_outputs V results) kEND <> [] /\
       (exists m, get_merge V ops (collect (sent V ops g (task_outputs V results) kEND)) = Ok m
                  /\ v = pre_node V ops g kEND m) /\
       l = ls_log V St ls ++ [step_entry V p (ls_next V St ls)] ++ sublog /\
       sent V ops g [(kSTART, x)] kEND = [] /\
       (forall m lsm rm sm stm, (m < n)%nat ->
          reachable V St ops exec (nest_sub V St ops exec sched f F) sched p g x s m lsm ->
          submit V St ops exec (nest_sub V St ops exec sched f F) p g (ls_next V St lsm) (ls_st V St lsm) = (rm, sm, stm) ->
          sent V ops g (task_outputs V rm) kEND = [])).
  Proof.
    intros f F p g x s v l s' Hg H. rewrite run_nest_S in H.
    exact (pregel_end_first_run V St ops exec _ sched p g x s v l s' Hg
             (nest_sub_fail_nonempty V St ops exec sched f F) H).
  Qed.

  Theorem pregel_nest_limit_exact : forall f F p g x s ls,
    pregel_graph g ->
    reachable V St ops exec (nest_sub V St ops exec sched f F) sched p g x s (max_steps g) ls ->
    run_nest V St ops exec sched (S f) F p g x s = (Fail [mkerr eMaxSteps] (ls_log V St ls), ls_st V St ls) /\
    own_entries V p (ls_log V St ls) = S (max_steps g).
  Proof.
    intros f F p g x s ls Hg Hr. rewrite run_nest_S.
    apply pregel_limit_exact; [exact Hg|apply nest_sub_fail_nonempty|apply nest_sub_log_below|exact Hr].
  Qed.

  (* the root run *)
  Theorem pregel_root_log_bounded : forall g F x s,
    pregel_graph g ->
    (own_entries V [] (outcome_log V (fst (run V St ops exec sched (g :: F) x s))) <= S (max_steps g))%nat.
  Proof. intros g F x s Hg. unfold run. apply pregel_nest_log_bounded. exact Hg. Qed.
End NestTop.
