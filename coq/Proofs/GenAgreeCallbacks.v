(* Proofs/GenAgreeCallbacks.v — property C10: the Gallina functions tools/go2v translated statement
   by statement from internal/callbacks/manager.go (newManager, withRunInfo), internal/callbacks/inject.go
   (InitCallbacks, ReuseHandlers, AppendHandlers, On) and compose/utils.go (initGraphCallbacks,
   initNodeCallbacks) — Gen/CallbacksCode.v — are the operations of Model/Callbacks.v that every
   C10 theorem is about, for every growth policy of append, every global handler list, every
   TimingChecker table, every heap, context, slice and list of call options:

     newManager / InitCallbacks  = new_manager           ReuseHandlers      = reuse_handlers
     AppendHandlers              = append_handlers true  (the repaired copy-before-append)
     On                          hands its handle function the manager's run info and exactly
                                 [on_handlers true]'s selection; the heap is only extended
     initGraphCallbacks          = build_cbs over [undesignated opts], then append_handlers true
     initNodeCallbacks key       = build_cbs over [designated key opts], then append_handlers true

   The loop bodies are compared pointwise (a state and an element in, a break flag and a state
   out), so a rewrite of the source that keeps every body's meaning keeps these proofs; an edit
   that changes what a body does (an in-place append, a different filter, a scan that stops
   early, an unknown helper in place of append) makes them fail. *)
From Eino Require Import Base.Util Base.GoSlice Model.Callbacks Model.CallbacksGenLib
  Proofs.CallbacksSlice Proofs.Callbacks.
From Eino Require Gen.CallbacksCode.

Module G := Gen.CallbacksCode.

(* ---------------------------------------------------------------- loops, generically *)

Lemma range_break_ext {A St} (b1 b2 : St -> A -> bool * St) :
  (forall st a, b1 st a = b2 st a) -> forall l st, range_break l b1 st = range_break l b2 st.
Proof.
  intros E. induction l as [|a l IH]; intros st; [reflexivity|].
  cbn [range_break]. rewrite E. destruct (fst (b2 st a)); auto.
Qed.

Lemma range_src_ext {St} src (b1 b2 : heap * St -> handler -> bool * (heap * St)) :
  (forall st a, b1 st a = b2 st a) -> forall st, range_src src b1 st = range_src src b2 st.
Proof. intros E st. unfold range_src. apply range_break_ext. intros; apply E. Qed.

Lemma range_break_nobreak {A St} (step : St -> A -> St) :
  forall l st, range_break l (fun st a => (false, step st a)) st = fold_left step l st.
Proof. induction l as [|a l IH]; intros st; [reflexivity|]. cbn [range_break fold_left fst snd]. apply IH. Qed.

(* case analysis on every test of a loop body *)
Ltac split_tests :=
  repeat match goal with
  | |- context [Nat.eqb ?a ?b] => destruct (Nat.eqb a b) eqn:?
  | |- context [N.eqb ?a ?b] => destruct (N.eqb a b) eqn:?
  | |- context [is_checker ?c ?x] => destruct (is_checker c x) eqn:?
  | |- context [needed ?c ?x ?t] => destruct (needed c x t) eqn:?
  end.
Ltac split_pairs :=
  repeat match goal with
  | |- context [match ?e with pair _ _ => _ end] => destruct e eqn:?
  end.

Section Agree.
Variable pol : policy.
Variable GlobalHandlers : list handler.
Variable ck : checkers.
Variable unk_slice : string -> heap -> slice -> list handler -> heap * slice.

(* the world of Model/Callbacks.v these parameters stand for *)
Definition gen_world : world :=
  {| w_pol := pol; w_globals := GlobalHandlers;
     w_needs := fun x t => negb (is_checker ck x) || needed ck x t |}.

(* every world of the model is one: take every handler for a TimingChecker answering w_needs *)
Theorem every_world_is_a_gen_world (w : world) :
  exists ck', forall x t, w_needs w x t = (negb (is_checker ck' x) || needed ck' x t).
Proof. exists {| is_checker := fun _ => true; needed := w_needs w |}. reflexivity. Qed.

(* ---------------------------------------------------------------- manager.go, inject.go *)

Theorem gen_newManager_agrees : forall inf s,
  G.newManager GlobalHandlers inf s = new_manager gen_world inf s.
Proof.
  intros. unfold G.newManager, new_manager, g_copy. cbn [w_globals gen_world].
  destruct (Nat.eqb (len s + List.length GlobalHandlers) 0); reflexivity.
Qed.

Theorem gen_withRunInfo_agrees : forall c inf, G.withRunInfo c inf = reuse_handlers c inf.
Proof. intros [[g s i]|] inf; reflexivity. Qed.

Theorem gen_InitCallbacks_agrees : forall h c inf s,
  G.InitCallbacks GlobalHandlers h c inf s = (h, new_manager gen_world inf s).
Proof.
  intros. unfold G.InitCallbacks, ctxWithManager. rewrite gen_newManager_agrees.
  destruct (new_manager gen_world inf s); reflexivity.
Qed.

Theorem gen_ReuseHandlers_agrees : forall h c inf,
  G.ReuseHandlers h c inf = (h, reuse_handlers c inf).
Proof. intros h [[g s i]|] inf; reflexivity. Qed.

Theorem gen_AppendHandlers_agrees : forall h c inf s,
  G.AppendHandlers pol GlobalHandlers h c inf s = append_handlers true gen_world h c inf s.
Proof.
  intros h [[g s0 i]|] inf s; unfold G.AppendHandlers, append_handlers; cbn [G.managerFromCtx m_handlers].
  - change (w_pol gen_world) with pol. split_pairs. apply gen_InitCallbacks_agrees.
  - apply gen_InitCallbacks_agrees.
Qed.

(* ---------------------------------------------------------------- On *)

Definition keepf (t : timing) (x : handler) : bool := negb (is_checker ck x) || needed ck x t.

(* the meaning of the body of On's inner loop: append the handler if it asks for the timing *)
Definition on_body (t : timing) (st : heap * slice) (x : handler) : bool * (heap * slice) :=
  (false, if keepf t x then append pol (fst st) (snd st) [x] else st).

Definition loop_inv (n : nat) (h0 : heap) (st : heap * slice) (acc : list handler) : Prop :=
  keeps n h0 (fst st) /\ n <= List.length (fst st) /\ wf (fst st) (snd st) /\ fresh_from n (snd st) /\
  read (fst st) (snd st) = acc.

Lemma on_body_inv t n h0 st acc x :
  loop_inv n h0 st acc ->
  loop_inv n h0 (snd (on_body t st x)) (acc ++ filter (keepf t) [x]).
Proof.
  destruct st as [h hs]. intros (K & L & W & F & R). unfold on_body. cbn [fst snd filter] in *.
  destruct (keepf t x).
  - pose proof (append_spec pol h hs [x] W) as [R' W'].
    pose proof (append_frame pol n h hs [x] L (proj1 W) F) as [K' F'].
    refine (conj _ (conj _ (conj _ (conj _ _)))); auto.
    + eapply keeps_trans; eauto.
    + destruct K' as [L' _]. lia.
    + rewrite R', R. reflexivity.
  - rewrite app_nil_r. refine (conj _ (conj _ (conj _ (conj _ _)))); auto.
Qed.

Lemma firstn_S_skipn {A} (d : A) : forall (l : list A) k m, k < List.length l ->
  firstn (S m) (skipn k l) = nth k l d :: firstn m (skipn (S k) l).
Proof.
  induction l as [|a l IH]; intros k m Hlt; [cbn in Hlt; lia|].
  destruct k; [reflexivity|]. cbn [skipn nth]. apply IH. cbn in Hlt. lia.
Qed.

(* the inner loop over one source whose elements read as l in every heap reached *)
Lemma on_inner_loop t src l n h0 :
  (forall h' i, keeps n h0 h' -> src_nth h' src i = nth i l 0%N) ->
  forall m k st acc, k + m <= List.length l -> loop_inv n h0 st acc ->
  loop_inv n h0
    (range_break (seq k m) (fun st i => on_body t st (src_nth (fst st) src i)) st)
    (acc ++ filter (keepf t) (firstn m (skipn k l))).
Proof.
  intros Hsrc. induction m as [|m IH]; intros k st acc Hk Inv.
  - cbn. now rewrite app_nil_r.
  - cbn [seq range_break].
    assert (Hx : src_nth (fst st) src k = nth k l 0%N) by (apply Hsrc; apply Inv).
    rewrite Hx. cbn [on_body fst].
    pose proof (on_body_inv t n h0 st acc (nth k l 0%N) Inv) as Inv'.
    assert (Hk' : S k + m <= List.length l) by lia.
    specialize (IH (S k) _ _ Hk' Inv').
    rewrite (firstn_S_skipn 0%N) by lia.
    cbn [filter] in *. rewrite <- app_assoc in IH.
    destruct (keepf t (nth k l 0%N)); exact IH.
Qed.

Lemma on_source t src l n h0 st acc :
  (forall h' i, keeps n h0 h' -> src_nth h' src i = nth i l 0%N) -> src_len src = List.length l ->
  loop_inv n h0 st acc ->
  loop_inv n h0 (range_src src (on_body t) st) (acc ++ filter (keepf t) l).
Proof.
  intros Hsrc Hlen Inv. unfold range_src. rewrite Hlen.
  assert (H0 : 0 + List.length l <= List.length l) by lia.
  pose proof (on_inner_loop t src l n h0 Hsrc (List.length l) 0 st acc H0 Inv) as Lp.
  cbn [skipn] in Lp. now rewrite firstn_all in Lp.
Qed.

(* On hands its handle function the manager's run info and exactly the handlers the model's
   [on_handlers] selects; the heap is only extended (the list On builds is a fresh array): every
   slice that existed before reads the same afterwards (CallbacksSlice.keeps_read) *)
Theorem gen_On_agrees : forall h c t,
  (forall m, c = Some m -> wf h (m_handlers m)) ->
  snd (G.On pol ck h c t) =
    match c with
    | None => None
    | Some m => Some (m_info m, snd (on_handlers true gen_world h m t))
    end
  /\ keeps (List.length h) h (fst (G.On pol ck h c t)).
Proof.
  intros h [[g s i]|] t Hwf; [|split; [reflexivity|apply keeps_refl]].
  specialize (Hwf _ eq_refl). cbn [m_handlers] in Hwf.
  unfold G.On. cbn [G.managerFromCtx m_handlers m_global m_info on_handlers snd].
  pose proof (make_spec h 0 (len s + List.length g)) as (K1 & W1 & F1 & L1 & _).
  destruct (make h 0 (len s + List.length g)) as [h1 hs1]. cbn [fst snd] in *.
  assert (Inv0 : loop_inv (List.length h) h (h1, hs1) []).
  { refine (conj _ (conj _ (conj _ (conj _ _)))); auto.
    - destruct K1; auto.
    - pose proof (read_length _ _ W1) as RL. rewrite L1 in RL. now apply length_zero_iff_nil. }
  (* the outer loop body: run the inner loop over the source, never break *)
  match goal with |- context [range_break [SrcSlice s; SrcList g] ?outer (h1, hs1)] =>
    rewrite (range_break_ext outer (fun st src => (false, range_src src (on_body t) st)))
  end.
  2:{ intros [h' hs'] src.
      match goal with |- context [range_src src ?inner _] =>
        rewrite (range_src_ext src inner (on_body t))
      end.
      - destruct (range_src src (on_body t) (h', hs')); reflexivity.
      - intros [h'' hs''] x. unfold on_body, keepf. cbn [fst snd].
        split_tests; cbn [negb orb]; split_pairs; reflexivity. }
  rewrite range_break_nobreak. cbn [fold_left].
  (* first source: the manager's own handlers, read lazily from the heap *)
  pose proof (on_source t (SrcSlice s) (read h s) (List.length h) h (h1, hs1) []) as Lp1.
  specialize (Lp1 ltac:(intros h' j Kp; cbn [src_nth]; now rewrite (keeps_read _ _ _ _ Kp Hwf eq_refl))).
  specialize (Lp1 (eq_sym (read_length _ _ Hwf)) Inv0). cbn [app] in Lp1.
  set (st1 := range_src (SrcSlice s) (on_body t) (h1, hs1)) in *.
  (* second source: the global handlers *)
  pose proof (on_source t (SrcList g) g (List.length h) h st1 _ (fun _ _ _ => eq_refl) eq_refl Lp1) as Lp2.
  set (st2 := range_src (SrcList g) (on_body t) st1) in *.
  destruct st2 as [h2 hs2]. destruct Lp2 as (K2 & _ & _ & _ & R2). cbn [fst snd] in *.
  split; [|exact K2].
  rewrite R2. unfold select. rewrite filter_app. reflexivity.
Qed.

(* ---------------------------------------------------------------- initGraphCallbacks / initNodeCallbacks *)

Lemma append_nil h s : len s <= cap s -> append pol h s [] = (h, s).
Proof.
  intros Hl. unfold append. cbn [List.length]. rewrite Nat.add_0_r.
  destruct (len s <=? cap s) eqn:E; [|apply Nat.leb_gt in E; lia].
  rewrite write_at_nil. unfold arr_of. rewrite set_nth_id. destruct s; reflexivity.
Qed.

Lemma append_wf h s xs : wf h s -> wf (fst (append pol h s xs)) (snd (append pol h s xs)).
Proof. intros W. apply (append_spec pol h s xs W). Qed.

Definition app_step (hs : heap * slice) (o : list handler) : heap * slice := append pol (fst hs) (snd hs) o.

Lemma app_step_wf st o : wf (fst st) (snd st) -> wf (fst (app_step st o)) (snd (app_step st o)).
Proof. apply append_wf. Qed.

Lemma app_step_nil st : wf (fst st) (snd st) -> app_step st [] = st.
Proof. destruct st as [h s]. intros W. unfold app_step. cbn [fst snd]. apply append_nil, W. Qed.

(* the meaning of the loop body of initGraphCallbacks: an option that carries handlers and
   designates nothing contributes its handlers *)
Definition graph_step (st : heap * slice) (o : copt) : heap * slice :=
  if negb (Nat.eqb (List.length (fst o)) 0) && Nat.eqb (List.length (snd o)) 0 then app_step st (fst o) else st.

Lemma graph_loop : forall opts st, wf (fst st) (snd st) ->
  fold_left graph_step opts st = fold_left app_step (undesignated opts) st.
Proof.
  induction opts as [|[hs ps] opts IH]; intros st W; [reflexivity|].
  cbn [fold_left undesignated flat_map fst snd]. unfold graph_step at 2. cbn [fst snd].
  destruct ps as [|p ps]; cbn [List.length Nat.eqb andb app].
  - destruct hs as [|x hs]; cbn [List.length Nat.eqb negb andb fold_left].
    + rewrite (app_step_nil _ W). apply IH, W.
    + apply IH, app_step_wf, W.
  - rewrite andb_false_r. apply IH, W.
Qed.

Theorem gen_initGraphCallbacks_agrees : forall h c inf opts,
  G.initGraphCallbacks pol GlobalHandlers h c inf opts =
  (let '(h1, cbs) := build_cbs pol h (undesignated opts) in append_handlers true gen_world h1 c inf cbs).
Proof.
  intros. unfold G.initGraphCallbacks, build_cbs.
  match goal with |- context [range_break opts ?body _] =>
    rewrite (range_break_ext body (fun st o => (false, graph_step st o)))
  end.
  2:{ intros [h' cbs'] [hs ps]. unfold graph_step, app_step, opt_handler, opt_paths. cbn [fst snd].
      split_tests; cbn [negb andb]; split_pairs; reflexivity. }
  rewrite range_break_nobreak. rewrite graph_loop by apply nil_slice_wf.
  change (fun (hs : heap * slice) (o : list handler) => append pol (fst hs) (snd hs) o) with app_step.
  destruct (fold_left app_step (undesignated opts) (h, nil_slice)) as [h1 cbs].
  apply gen_AppendHandlers_agrees.
Qed.

(* the scan of one option's paths: the first path that is exactly [key] attaches the option, once *)
Definition is_key (key : N) (p : list N) : bool := match p with [k] => N.eqb k key | _ => false end.

Lemma path_test key k : (Nat.eqb (List.length k) 1 && N.eqb (nth 0 k 0%N) key) = is_key key k.
Proof. destruct k as [|a [|b k]]; reflexivity. Qed.

Definition path_step (key : N) (hs : list handler) (st : heap * slice) (k : list N) : bool * (heap * slice) :=
  if is_key key k then (true, app_step st hs) else (false, st).

Lemma paths_loop key hs : forall ps st,
  range_break ps (path_step key hs) st = if existsb (is_key key) ps then app_step st hs else st.
Proof.
  induction ps as [|p ps IH]; intros st; [reflexivity|].
  cbn [range_break existsb]. cbv zeta.
  assert (Hp : path_step key hs st p = if is_key key p then (true, app_step st hs) else (false, st)) by reflexivity.
  rewrite Hp. destruct (is_key key p); cbn [orb fst snd]; [reflexivity|apply IH].
Qed.

Definition node_step (key : N) (st : heap * slice) (o : copt) : heap * slice :=
  if negb (Nat.eqb (List.length (fst o)) 0) && negb (Nat.eqb (List.length (snd o)) 0) && existsb (is_key key) (snd o)
  then app_step st (fst o) else st.

Lemma node_loop key : forall opts st, wf (fst st) (snd st) ->
  fold_left (node_step key) opts st = fold_left app_step (designated key opts) st.
Proof.
  induction opts as [|[hs ps] opts IH]; intros st W; [reflexivity|].
  cbn [fold_left designated flat_map fst snd]. unfold node_step at 2. cbn [fst snd].
  change (fun p : list N => match p with [k] => N.eqb k key | _ => false end) with (is_key key).
  destruct (existsb (is_key key) ps) eqn:Ex; cbn [app fold_left].
  - destruct ps as [|p ps]; [discriminate Ex|]. cbn [List.length Nat.eqb negb andb].
    destruct hs as [|x hs]; cbn [List.length Nat.eqb negb andb].
    + rewrite (app_step_nil _ W). apply IH, W.
    + apply IH, app_step_wf, W.
  - rewrite andb_false_r. apply IH, W.
Qed.

Theorem gen_initNodeCallbacks_agrees : forall h c key inf opts,
  G.initNodeCallbacks pol GlobalHandlers h c key inf opts =
  (let '(h1, cbs) := build_cbs pol h (designated key opts) in append_handlers true gen_world h1 c inf cbs).
Proof.
  intros. unfold G.initNodeCallbacks, build_cbs.
  match goal with |- context [range_break opts ?body _] =>
    rewrite (range_break_ext body (fun st o => (false, node_step key st o)))
  end.
  2:{ intros [h' cbs'] [hs ps]. unfold opt_handler, opt_paths. cbn [fst snd].
      (* the scan of the option's paths, wherever the body runs it *)
      repeat match goal with |- context [range_break ps ?inner ?st0] =>
        rewrite (range_break_ext inner (path_step key hs));
        [rewrite (paths_loop key hs ps st0)
        |intros [h'' cbs''] k; unfold path_step, app_step; cbn [fst snd]; rewrite <- path_test;
         split_tests; cbn [andb]; split_pairs; reflexivity]
      end.
      unfold node_step, app_step. cbn [fst snd].
      destruct (existsb (is_key key) ps) eqn:Ex;
        split_tests; cbn [negb andb]; split_pairs; try reflexivity; try congruence.
      all: destruct ps; cbn in *; congruence. }
  rewrite range_break_nobreak. rewrite node_loop by apply nil_slice_wf.
  change (fun (hs : heap * slice) (o : list handler) => append pol (fst hs) (snd hs) o) with app_step.
  destruct (fold_left app_step (designated key opts) (h, nil_slice)) as [h1 cbs].
  apply gen_AppendHandlers_agrees.
Qed.

End Agree.

(* non-vacuity: the generated functions compute; a handler that is a TimingChecker not asking for the
   timing is filtered, the manager's own handlers come before the global ones, a designated option
   is attached once although its key appears behind a path into a sub graph *)
Example gen_code_computes :
  let ck := {| is_checker := fun x => N.eqb x 2; needed := fun _ t => timing_eqb t TEnd |} in
  let m := {| m_global := [9%N]; m_handlers := {| arr := 0; off := 0; len := 3; cap := 4 |}; m_info := 7%N |} in
  snd (G.On pol_double ck [[1; 2; 3; 0]%N] (Some m) TStart) = Some (7%N, [1; 3; 9]%N) /\
  snd (G.On pol_double ck [[1; 2; 3; 0]%N] (Some m) TEnd) = Some (7%N, [1; 2; 3; 9]%N) /\
  G.On pol_double ck [] None TStart = ([], None) /\
  (let r := G.initNodeCallbacks pol_double [] [] None 5%N 8%N
              [([4%N], [[6; 1]; [5]]%N); ([6%N], [[6]]%N); ([7%N], []); ([8%N], [[5]; [5]]%N)] in
   match snd r with Some m' => read (fst r) (m_handlers m') | None => [] end = [4; 8]%N).
Proof. vm_compute. repeat split; reflexivity. Qed.

