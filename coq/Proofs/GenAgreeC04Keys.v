(* Proofs/GenAgreeC04Keys.v — property C04, translator tie (extractor c04keys, Gen/C04Keys.v):
   the Invoke and Transform closures of inputKeyedComposableRunnable and
   outputKeyedComposableRunnable (compose/runnable.go), translated statement by statement,
   and the order in which graphNode.compileIfNeeded (compose/graph_node.go) applies them, are
   the input-key / output-key part of the model's [wrap_value] / [wrap_stream]
   (Model/ParadigmProg.v): value form = look the key up (absent = error) / put the result
   under the key; stream form = the stream filter / withKey; the output-key wrapper sits
   inside the input-key wrapper.

   [has_cp = false]: a run that does not continue from a checkpoint (resuming is property
   C05).  The value form is stated for map inputs: a node behind an input key is declared
   with a map input, anything else is excluded by Go's typing (the source would panic on the
   type assertion, the model answers e_type). *)
From Eino Require Import Base.Util Model.Paradigm Model.StreamOps Model.C04GenLib Model.ParadigmProg.
From Eino Require Gen.C04Keys.

Lemma res_match_id' : forall {A} (r : res A),
  match r with Ok a => Ok a | Err e => Err e | Panic => Panic end = r.
Proof. intros A []; reflexivity. Qed.

Theorem gen_inputKeyed_i_agrees : forall z k (core : val -> res val) m,
  Gen.C04Keys.inputKeyed_i false z k core (VM m) = do x <- v_getKey k (VM m); core x.
Proof.
  intros z k core m. unfold Gen.C04Keys.inputKeyed_i, v_getKey. simpl.
  destruct (m_get k m); simpl; [apply res_match_id'|reflexivity].
Qed.

Theorem gen_inputKeyed_t_agrees : forall k (core : stream val -> res (stream val)) s,
  Gen.C04Keys.inputKeyed_t (fun k s => Some (s_keyFilter k s)) k core s = core (s_keyFilter k s).
Proof. intros k core s. unfold Gen.C04Keys.inputKeyed_t. apply res_match_id'. Qed.

Lemma wrap_key_withKey : forall k y, Ok (wrap_key k y) = v_withKey k y.
Proof. intros k [s|m]; reflexivity. Qed.

Theorem gen_outputKeyed_i_agrees : forall k (core : val -> res val) x,
  Gen.C04Keys.outputKeyed_i k core x = do y <- core x; v_withKey k y.
Proof.
  intros k core x. unfold Gen.C04Keys.outputKeyed_i. destruct (core x); simpl; try reflexivity.
  apply wrap_key_withKey.
Qed.

Theorem gen_outputKeyed_t_agrees : forall k (core : stream val -> res (stream val)) s,
  Gen.C04Keys.outputKeyed_t s_withKey k core s = do o <- core s; Ok (s_withKey k o).
Proof. intros k core s. unfold Gen.C04Keys.outputKeyed_t. destruct (core s); reflexivity. Qed.

(* --- the wrappers in the order compileIfNeeded applies them --- *)

Definition apply_value (w : wrap) (name : string) (core : val -> res val) : val -> res val :=
  if String.eqb name "outputKey" then
    match w_out w with Some k => Gen.C04Keys.outputKeyed_i k core | None => core end
  else if String.eqb name "inputKey" then
    match w_in w with Some k => Gen.C04Keys.inputKeyed_i false (VS EmptyString) k core | None => core end
  else core.

Definition apply_stream (w : wrap) (name : string) (core : stream val -> res (stream val)) : stream val -> res (stream val) :=
  if String.eqb name "outputKey" then
    match w_out w with Some k => Gen.C04Keys.outputKeyed_t s_withKey k core | None => core end
  else if String.eqb name "inputKey" then
    match w_in w with Some k => Gen.C04Keys.inputKeyed_t (fun k s => Some (s_keyFilter k s)) k core | None => core end
  else core.

Definition keyed_value (w : wrap) (core : val -> res val) : val -> res val :=
  fold_left (fun c name => apply_value w name c) Gen.C04Keys.wrapper_order core.
Definition keyed_stream (w : wrap) (core : stream val -> res (stream val)) : stream val -> res (stream val) :=
  fold_left (fun c name => apply_stream w name c) Gen.C04Keys.wrapper_order core.

(* a node without state handlers: the wrapped runnable the engine calls is the model's
   [wrap_value] / [wrap_stream] *)
Theorem gen_keyed_value_agrees : forall w core x,
  w_pre w = None -> w_post w = None ->
  (w_in w = None \/ exists m, x = VM m) ->
  keyed_value w core x = wrap_value w core x.
Proof.
  intros w core x Hpre Hpost Hx. unfold keyed_value, wrap_value. rewrite Hpre, Hpost.
  cbn [Gen.C04Keys.wrapper_order fold_left apply_value String.eqb Ascii.eqb Bool.eqb].
  destruct (w_in w) as [k|] eqn:Hin.
  - destruct Hx as [Hx|[m ->]]; [discriminate|].
    rewrite gen_inputKeyed_i_agrees. unfold v_getKey. simpl.
    destruct (m_get k m) as [x2|]; simpl; try reflexivity.
    destruct (w_out w) as [k2|].
    + rewrite gen_outputKeyed_i_agrees. destruct (core x2) as [y| |]; simpl; try reflexivity.
      destruct (v_withKey k2 y); reflexivity.
    + destruct (core x2); reflexivity.
  - simpl. destruct (w_out w) as [k2|].
    + rewrite gen_outputKeyed_i_agrees. destruct (core x) as [y| |]; simpl; try reflexivity.
      destruct (v_withKey k2 y); reflexivity.
    + destruct (core x); reflexivity.
Qed.

Theorem gen_keyed_stream_agrees : forall w core s,
  w_pre w = None -> w_post w = None ->
  keyed_stream w core s = wrap_stream w core s.
Proof.
  intros w core s Hpre Hpost. unfold keyed_stream, wrap_stream. rewrite Hpre, Hpost.
  cbn [Gen.C04Keys.wrapper_order fold_left apply_stream String.eqb Ascii.eqb Bool.eqb].
  destruct (w_in w) as [k|]; destruct (w_out w) as [k2|]; simpl;
    rewrite ?gen_inputKeyed_t_agrees, ?gen_outputKeyed_t_agrees;
    match goal with |- context [core ?a] => destruct (core a) end; reflexivity.
Qed.

(* non-vacuity: input key aa, output key ab around a node that appends "!" *)
Example gen_keyed_example :
  let w := {| w_pre := None; w_in := Some 0%N; w_out := Some 1%N; w_post := None |} in
  let core := fun x => match x with VS s => Ok (VS (String.append s "!")) | _ => Err e_type end in
  keyed_value w core (VM [(kstr 0, "a"%string)]) = Ok (VM [(kstr 1, "a!"%string)])
  /\ keyed_value w core (VM [(kstr 2, "a"%string)]) = Err e_nokey.
Proof. split; reflexivity. Qed.
