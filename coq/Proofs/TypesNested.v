(* Proofs/TypesNested.v — property C07: a compiled graph used as a node of another graph
   (AddGraphNode) keeps the contract the theorems assume of a lambda node, so the safety
   theorems compose over any depth of nesting.

   In the parent graph a sub graph node is a non-passthrough node whose declared types are
   the sub graph's input and output type (graphNode.inputType / outputType take them from the
   AnyGraph).  The flow relation of Proofs/TypesFlow.v lets the body of such a node return ANY
   value of the declared output type ([F_body_lambda]) and starts a graph with ANY value of
   its input type ([F_start]).  Both directions are discharged here:
     - whatever can enter the node's body in the parent is a legitimate input of the sub graph;
     - whatever the sub graph can hand to its END in any execution is a value the node may
       return in the parent.
   Hence every execution of the nested pair is an execution the parent's and the sub graph's
   own [flow_type_safe] / [flow_sites_safe] speak about; a sub graph of the sub graph is
   handled by the same statement one level down. *)
From Eino Require Import Base.Util Model.Types Model.TypeBuilder Proofs.TypesLattice Proofs.TypesBuilder Proofs.TypesRun Proofs.TypesInv2 Proofs.TypesMay Proofs.TypesMain Proofs.TypesFlow.

Theorem nested_contract_main : forall u orcs i o s ops st oks orcs' i' o' s' ops' sub oks' k n,
  run_ops u orcs 0 (init_graph i o s) ops = (st, oks) -> g_compiled st = true ->
  run_ops u orcs' 0 (init_graph i' o' s') ops' = (sub, oks') -> g_compiled sub = true ->
  get_node st k = Some n -> n_pass n = false ->
  n_in n = Some (g_in sub) -> n_out n = Some (g_out sub) ->
  (forall d, flow u st SBody k d -> flow u sub SDone kSTART d) /\
  (forall d din, flow u sub SArr kEND d -> flow u st SBody k din -> flow u st SOut k d).
Proof.
  intros u orcs i o s ops st oks orcs' i' o' s' ops' sub oks' k n R C R' C' G P Ni No.
  destruct (flow_sites_safe_main u orcs i o s ops st oks R C) as [_ [B [_ [_ _]]]].
  destruct (flow_sites_safe_main u orcs' i' o' s' ops' sub oks' R' C') as [_ [_ [_ [_ E]]]].
  split.
  - intros d F. apply F_start. unfold has_type. rewrite <- assert_type_assignable. exact (B k n d (g_in sub) F G Ni).
  - intros d din F Fin. eapply F_body_lambda; [exact Fin | exact G | exact P | exact No |].
    unfold has_type. rewrite <- assert_type_assignable. exact (E d F).
Qed.
