(* Proofs/RunLoopEagerSerial.v — property C05, eager (Workflow) mode, the SERIAL fragment.

   The eager loop of Model/RunLoop.v ([estep]: taskManager.wait hands over ONE completed task, the others keep
   running, the collection order is an input) coincides with the batch loop ([step]) on every run in which at most
   one task is in flight at any time: a loop state with at most one pending task and nothing running is stepped
   identically by both loops, whatever the schedule says. Such runs are what linear workflows (and linear stretches
   with nested graphs, rerun nodes and interrupt points) perform; for them every batch-mode theorem of the property
   (resume_equiv: same outcome, same environment, identical execution log; the split lemmas) holds in eager mode as
   well, for every schedule. The general eager case (several tasks in flight: needs confluence of the channel layer
   under reordering of single-task folds) stays unproved. *)
From Eino Require Import Base.Util Model.RunLoop Proofs.RunLoop Proofs.RunLoopDrive.
Open Scope N_scope.

Section EagerSerial.
  Context {V CS GS ENV SCP SINFO : Type}.
  Variable zero : V.
  Variable fold : CS -> list (N * V) -> res CS.
  Variable getr : CS -> res (CS * list (N * V)).
  Variable pre : N -> V -> GS -> V * GS.
  Variable exec : N -> option SCP -> V -> ENV -> @texec V SCP SINFO * ENV.
  Variable before after : list N.

  Notation lstateT := (@lstate V CS GS SCP).
  Notation texecT := (@texec V SCP SINFO).
  Notation stepB := (step zero fold getr pre exec before after).
  Notation iterB := (iterate zero fold getr pre exec before after).
  Notation iterE := (eiterate zero fold getr pre exec before after false).

  (* at most one task in flight, at this loop state and at every later one of the (batch) run *)
  Fixpoint serial (fuel : nat) (s : lstateT) (env : ENV) : Prop :=
    (List.length (ls_next s) <= 1)%nat /\
    match fuel with
    | O => True
    | S f => match stepB s env with
             | (Continue s', _, env') => serial f s' env'
             | _ => True
             end
    end.

  Lemma run_pres_length : forall (ts : list (@task V SCP)) (gs : GS),
    List.length (fst (run_pres pre ts gs)) = List.length ts.
  Proof.
    induction ts as [|t ts IH]; intros gs; simpl; [reflexivity|].
    destruct (if t_skip t then (t_in t, gs) else pre (t_key t) (t_in t) gs) as [v gs1].
    specialize (IH gs1). destruct (run_pres pre ts gs1) as [rest gs2]. simpl in *. rewrite IH. reflexivity.
  Qed.

  Lemma exec_all_length : forall (ts : list (@task V SCP)) (env : ENV),
    List.length (fst (exec_all exec ts env)) = List.length ts.
  Proof.
    induction ts as [|t ts IH]; intros env; simpl; [reflexivity|].
    destruct (exec (t_key t) (t_cp t) (t_in t) env) as [r env1].
    specialize (IH env1). destruct (exec_all exec ts env1) as [rest env2]. simpl in *. rewrite IH. reflexivity.
  Qed.

  (* the collected task of a step with one result is that result, nothing stays running *)
  Lemma pick_single : forall (c : N * texecT) sched,
    exists sched', pick [c] sched = Some (c, [], sched').
  Proof.
    intros c [|k sched]; simpl; [eexists; reflexivity|].
    destruct (N.eqb (fst c) k); eexists; reflexivity.
  Qed.

  (* what the eager loop decides on one collected result with nothing else running is what the batch loop
     decides on that one result *)
  Lemma edecide_single : forall cs (gs1 : GS) (c : N * texecT) sched',
    edecide zero fold getr before after false cs gs1 c [] sched' =
    match decide zero fold getr before after cs gs1 [c] with
    | Continue s' => EContinue (to_estate s') sched'
    | r => EStop r
    end.
  Proof.
    intros cs gs1 c sched'. unfold edecide, decide.
    destruct (first_fail [c]) as [e|]; [reflexivity|].
    destruct (negb (is_nil (subcps [c]) && is_nil (reruns [c]))).
    { simpl first_fail. unfold rerun_interrupt. destruct (fold cs (outs [c])); reflexivity. }
    simpl is_nil at 1.
    destruct (calc fold getr cs (outs [c])) as [[cs2 ready]| |]; try reflexivity.
    destruct (nlist_get kEnd ready) as [v|]; [reflexivity|].
    destruct (is_nil (hits before ready) && is_nil (afters after [c])); [reflexivity|].
    simpl first_fail. cbn [subcps reruns flat_map is_nil andb negb outs].
    rewrite app_nil_r.
    destruct (calc fold getr cs2 []) as [[cs4 ready2]| |]; try reflexivity.
    destruct (nlist_get kEnd ready2); reflexivity.
  Qed.

  Lemma length_le1 : forall {A} (l : list A), (List.length l <= 1)%nat -> l = [] \/ exists a, l = [a].
  Proof.
    intros A [|a [|b l]] H; simpl in H; [left; reflexivity | right; eexists; reflexivity | lia].
  Qed.

  (* THE SERIAL FRAGMENT: on a run with at most one task in flight the eager loop IS the batch loop, for every
     schedule: same outcome, same execution log, same environment *)
  Theorem eager_serial_is_batch_l : forall fuel (s : lstateT) sched env log,
    serial fuel s env ->
    iterE fuel (to_estate s) sched env log = iterB fuel s env log.
  Proof.
    induction fuel as [|f IH]; intros s sched env log Hs; [reflexivity|].
    destruct Hs as [Hlen Hnext]. simpl in Hnext.
    cbn [eiterate iterate]. unfold estep_gen, step in *. cbn [to_estate es_next es_gs es_cs es_running].
    pose proof (run_pres_length (ls_next s) (ls_gs s)) as Hl1.
    destruct (run_pres pre (ls_next s) (ls_gs s)) as [ts gs1]. simpl in Hl1.
    pose proof (exec_all_length ts env) as Hl2.
    destruct (exec_all exec ts env) as [rs env1]. simpl in Hl2.
    assert (Hrs : (List.length rs <= 1)%nat) by lia.
    rewrite app_nil_l.
    destruct (length_le1 rs Hrs) as [-> | [c ->]].
    - (* nothing to execute *)
      reflexivity.
    - destruct (pick_single c sched) as [sched' Hp]. rewrite Hp. rewrite edecide_single.
      destruct (decide zero fold getr before after (ls_cs s) gs1 [c]) as [s'| v | i cp | e]; try reflexivity.
      apply IH. exact Hnext.
  Qed.

  (* ... in particular the schedule does not matter *)
  Corollary eager_serial_schedule_independent_l : forall fuel (s : lstateT) sched1 sched2 env log,
    serial fuel s env ->
    iterE fuel (to_estate s) sched1 env log = iterE fuel (to_estate s) sched2 env log.
  Proof. intros. rewrite !eager_serial_is_batch_l by assumption. reflexivity. Qed.
End EagerSerial.

(* ---------- the driven run: eager segments against batch segments ---------- *)
Section EagerSerialDrive.
  Context {V CS GS ENV SCP SINFO B : Type}.
  Variable zero : V.
  Variable fold : CS -> list (N * V) -> res CS.
  Variable getr : CS -> res (CS * list (N * V)).
  Variable pre : N -> V -> GS -> V * GS.
  Variable exec : N -> option SCP -> V -> ENV -> @texec V SCP SINFO * ENV.
  Variable before after : list N.
  Variable ser : @checkpoint V CS GS SCP -> B.
  Variable deser : B -> option (@checkpoint V CS GS SCP).
  Variable fuelR : nat.
  Variable cs0 : CS.
  Variable gs0 : GS.
  Variable x : V.
  Variable sched_of : ENV -> list N.     (* the collection order of a segment: any function of the environment *)
  Variable tick : nat -> ENV -> ENV.

  Notation serialS := (serial zero fold getr pre exec before after).
  Definition freshB := start zero fold getr pre exec before after fuelR cs0 gs0 x.
  Definition resumedB := resume zero fold getr pre exec before after fuelR.
  Definition freshE (env : ENV) := estart zero fold getr pre exec before after false fuelR cs0 gs0 x (sched_of env) env.
  Definition resumedE (sm : GS -> GS) (c : @checkpoint V CS GS SCP) (env : ENV) :=
    eresume zero fold getr pre exec before after false fuelR sm c (sched_of env) env.

  (* the segment started from the caller's input / continued from checkpoint c is serial *)
  Definition seg_serial_fresh (env : ENV) : Prop :=
    match @init V CS GS SCP SINFO fold getr before cs0 gs0 x with
    | Continue s => serialS fuelR s env
    | _ => True
    end.
  Definition seg_serial_resumed (sm : GS -> GS) (c : @checkpoint V CS GS SCP) (env : ENV) : Prop :=
    let s := restore c in serialS fuelR (with_gs s (sm (ls_gs s))) env.

  Lemma freshE_serial : forall env, seg_serial_fresh env -> freshE env = freshB env.
  Proof.
    intros env H. unfold freshE, freshB, estart, start, start_gen, seg_serial_fresh, init in *.
    destruct (init_gen fold getr before false cs0 gs0 x) as [s| | |]; try reflexivity.
    apply eager_serial_is_batch_l. exact H.
  Qed.

  Lemma resumedE_serial : forall sm c env, seg_serial_resumed sm c env -> resumedE sm c env = resumedB sm c env.
  Proof.
    intros sm c env H. unfold resumedE, resumedB, eresume, resume, seg_serial_resumed in *.
    apply eager_serial_is_batch_l. exact H.
  Qed.

  (* every segment of the driven (batch) run is serial *)
  Fixpoint drive_serial (with_id : bool) (n k : nat) (mods : nat -> GS -> GS) (store : option B) (env : ENV) : Prop :=
    let a := tick k env in
    match (if with_id then store else None) with
    | None => seg_serial_fresh a
    | Some b => match deser b with Some c => seg_serial_resumed (mods k) c a | None => True end
    end /\
    let '(co, store', env') := call ser deser freshB resumedB with_id store (mods k) a in
    match co_out co, n, with_id with
    | OInterrupted _ _, S n', true => drive_serial with_id n' (S k) mods store' env'
    | _, _, _ => True
    end.

  Lemma call_serial : forall (with_id : bool) (store : option B) sm a,
    match (if with_id then store else None) with
    | None => seg_serial_fresh a
    | Some b => match deser b with Some c => seg_serial_resumed sm c a | None => True end
    end ->
    call ser deser freshE resumedE with_id store sm a = call ser deser freshB resumedB with_id store sm a.
  Proof.
    intros with_id store sm a H. unfold call.
    destruct (if with_id then store else None) as [b|].
    - destruct (deser b) as [c|]; [rewrite resumedE_serial by exact H|]; reflexivity.
    - rewrite freshE_serial by exact H. reflexivity.
  Qed.

  (* the run driven through the store with EAGER segments is the run driven with batch segments *)
  Theorem eager_drive_serial_is_batch_drive_l : forall with_id n k mods store env,
    drive_serial with_id n k mods store env ->
    drive ser deser freshE resumedE tick with_id n k mods store env =
    drive ser deser freshB resumedB tick with_id n k mods store env.
  Proof.
    intros with_id n. induction n as [|n IH]; intros k mods store env [Hc Hrest];
      rewrite !drive_unfold; rewrite (call_serial _ _ _ _ Hc).
    - destruct (call ser deser freshB resumedB with_id store (mods k) (tick k env)) as [[co store'] env'].
      reflexivity.
    - destruct (call ser deser freshB resumedB with_id store (mods k) (tick k env)) as [[co store'] env'].
      destruct (co_out co); try reflexivity. destruct with_id; try reflexivity.
      rewrite IH by exact Hrest. reflexivity.
  Qed.
End EagerSerialDrive.

(* ---------- resume_equiv for eager serial runs ---------- *)
Section EagerSerialEquiv.
  Context {V CS GS ENV SCP SINFO : Type}.
  Variable zero : V.
  Variable fold : CS -> list (N * V) -> res CS.
  Variable getr : CS -> res (CS * list (N * V)).
  Variable pre : N -> V -> GS -> V * GS.
  Variable exec : N -> option SCP -> V -> ENV -> @texec V SCP SINFO * ENV.
  Variable before after : list N.
  Variable Inv : CS -> Prop.
  Hypothesis H_fold_inv : forall cs l cs', Inv cs -> fold cs l = Ok cs' -> Inv cs'.
  Hypothesis H_getr_inv : forall cs cs' r, Inv cs -> getr cs = Ok (cs', r) -> Inv cs'.
  Hypothesis H_fold_nil : forall cs, Inv cs -> fold cs [] = Ok cs.
  Hypothesis H_getr_idem : forall cs cs' r, Inv cs -> getr cs = Ok (cs', r) -> getr cs' = Ok (cs', []).

  (* The eager (Workflow) run with interrupt-before/after sets, driven through a store, every segment under an
     arbitrary collection order: if the segments it performs keep at most one task in flight, and the uninterrupted
     loop completes within the step limit, then it ends with the uninterrupted outcome and environment, all earlier
     calls ended interrupted and written, and the concatenated execution logs are the uninterrupted log. *)
  Theorem resume_equiv_eager_serial_l : forall {B : Type} (ser : @checkpoint V CS GS SCP -> B) deser,
    (forall c, deser (ser c) = Some c) ->
    forall (sched_of : ENV -> list N) fuelR cs0 gs0 x fuelU env oU logU envU n,
      Inv cs0 ->
      start zero fold getr pre exec [] [] fuelU cs0 gs0 x env = (oU, logU, envU) -> final oU ->
      (fuelU <= fuelR)%nat -> (fuelU <= n)%nat ->
      drive_serial zero fold getr pre exec before after ser deser fuelR cs0 gs0 x (fun _ e => e)
                   true n 0 (fun _ g => g) None env ->
      exists cos lastlog,
        drive ser deser (freshE zero fold getr pre exec before after fuelR cs0 gs0 x sched_of)
              (resumedE zero fold getr pre exec before after fuelR sched_of)
              (fun _ e => e) true n 0 (fun _ g => g) None env =
          (cos ++ [{| co_out := oU; co_log := lastlog; co_written := false |}], envU) /\
        Forall (@interrupted_call V CS GS SCP SINFO) cos /\
        List.concat (map co_log cos) ++ lastlog = logU.
  Proof.
    intros B ser deser Hser sched_of fuelR cs0 gs0 x fuelU env oU logU envU n Hi HU Hfin HleR Hlen Hserial.
    rewrite (eager_drive_serial_is_batch_drive_l zero fold getr pre exec before after ser deser fuelR cs0 gs0 x
               sched_of (fun _ e => e) true n 0 (fun _ g => g) None env Hserial).
    exact (resume_equiv_l zero fold getr pre exec before after Inv H_fold_inv H_getr_inv H_fold_nil H_getr_idem
             ser deser Hser fuelR cs0 gs0 x fuelU env oU logU envU n Hi HU Hfin HleR Hlen).
  Qed.
End EagerSerialEquiv.
