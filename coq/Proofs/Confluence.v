(* Proofs/Confluence.v — property C03, order side: the state of the run loop after it has
   processed a list of completed tasks does not depend on the order of that list. *)
From Eino Require Import Base.Util Model.Confluence.
From Coq Require Import Permutation.

(* two channel states are the same for the run loop if every lookup agrees *)
Definition ceq (s s' : cstate) : Prop :=
  (forall k, vfind k (vals s) = vfind k (vals s')) /\ (forall k, dmem k (deps s) = dmem k (deps s')).

Lemma ceq_refl s : ceq s s. Proof. split; reflexivity. Qed.
Lemma ceq_sym s s' : ceq s s' -> ceq s' s.
Proof. intros [A B]; split; intros k; [rewrite A|rewrite B]; reflexivity. Qed.
Lemma ceq_trans s1 s2 s3 : ceq s1 s2 -> ceq s2 s3 -> ceq s1 s3.
Proof. intros [A B] [C D]; split; intros k; [rewrite A, C|rewrite B, D]; reflexivity. Qed.

Lemma vfind_app k a b :
  vfind k (a ++ b) = match vfind k a with Some v => Some v | None => vfind k b end.
Proof.
  induction a as [|[k' v] a IH]; simpl; [reflexivity|]. destruct (k2eqb k k'); [reflexivity|apply IH].
Qed.

Lemma dmem_app k a b : dmem k (a ++ b) = dmem k a || dmem k b.
Proof. unfold dmem. apply existsb_app. Qed.

Lemma k2eqb_eq a b : k2eqb a b = true <-> a = b.
Proof.
  unfold k2eqb. destruct a as [a1 a2], b as [b1 b2]; simpl. rewrite andb_true_iff, !N.eqb_eq.
  split; [intros [-> ->]; reflexivity|intros H; inversion H; auto].
Qed.

(* the block of writes of one completed task only has keys whose source is that task *)
Lemma vfind_block_src k t v ds x :
  vfind k (map (fun d => ((d, t), v)) ds) = Some x -> snd k = t.
Proof.
  induction ds as [|d ds IH]; simpl; [discriminate|].
  destruct (k2eqb k (d, t)) eqn:E; [|apply IH].
  intros _. apply k2eqb_eq in E. subst k. reflexivity.
Qed.

Lemma dmem_block_src k t ds :
  dmem k (map (fun d => (d, t)) ds) = true -> snd k = t.
Proof.
  unfold dmem. rewrite existsb_exists. intros (y & Hy & E). apply in_map_iff in Hy.
  destruct Hy as (d & <- & _). apply k2eqb_eq in E. subst k. reflexivity.
Qed.

Lemma report_ceq g s s' c : ceq s s' -> ceq (report g s c) (report g s' c).
Proof.
  intros [A B]. split; intros k; unfold report; simpl.
  - rewrite !vfind_app, A. reflexivity.
  - rewrite !dmem_app, B. reflexivity.
Qed.

(* the diamond on the channel state: the writes of two different completed tasks commute
   (map writes at distinct (target, source) keys) *)
Lemma report_diamond g s a b :
  fst a <> fst b -> ceq (report g (report g s a) b) (report g (report g s b) a).
Proof.
  intros Hne. split; intros k; unfold report; simpl.
  - rewrite !vfind_app.
    destruct (vfind k (map (fun d => (d, fst b, snd b)) (succs g (fst b)))) eqn:Eb;
    destruct (vfind k (map (fun d => (d, fst a, snd a)) (succs g (fst a)))) eqn:Ea; try reflexivity.
    apply vfind_block_src in Eb. apply vfind_block_src in Ea. congruence.
  - rewrite !dmem_app, !orb_assoc. f_equal. apply orb_comm.
Qed.

Lemma report_all_ceq g cs : forall s s', ceq s s' -> ceq (report_all g s cs) (report_all g s' cs).
Proof.
  induction cs as [|c cs IH]; simpl; intros s s' H; [exact H|]. apply IH. apply report_ceq. exact H.
Qed.

Lemma report_all_perm g cs cs' :
  Permutation cs cs' -> NoDup (map fst cs) ->
  forall s s', ceq s s' -> ceq (report_all g s cs) (report_all g s' cs').
Proof.
  induction 1 as [|c cs cs' P IH|c1 c2 cs|cs1 cs2 cs3 P1 IH1 P2 IH2]; intros Hnd s s' H.
  - exact H.
  - simpl. apply IH; [inversion Hnd; assumption|apply report_ceq; exact H].
  - simpl. apply report_all_ceq.
    eapply ceq_trans; [apply report_diamond|apply report_ceq, report_ceq; exact H].
    simpl in Hnd. inversion Hnd as [|? ? Hn _]; subst. intros E. apply Hn. left. symmetry. exact E.
  - eapply ceq_trans; [apply IH1; [exact Hnd|exact H]|].
    apply IH2; [|apply ceq_refl].
    eapply Permutation_NoDup; [apply Permutation_map; exact P1|exact Hnd].
Qed.

(* readiness, the merged input and clearing only look at the state through lookups *)
Lemma has_val_ceq s s' n p : ceq s s' -> has_val s n p = has_val s' n p.
Proof. intros [A _]. unfold has_val. rewrite A. reflexivity. Qed.

Lemma ready_ceq m s s' n : ceq s s' -> ready m s n = ready m s' n.
Proof.
  intros H. destruct m; simpl.
  - induction (n_preds n) as [|p ps IH]; simpl; [reflexivity|].
    rewrite (has_val_ceq _ _ _ _ H), IH. reflexivity.
  - f_equal. induction (n_preds n) as [|p ps IH]; simpl; [reflexivity|].
    rewrite (has_val_ceq _ _ _ _ H), IH. destruct H as [_ B]. rewrite B. reflexivity.
Qed.

Lemma get_input_ceq s s' n : ceq s s' -> get_input s n = get_input s' n.
Proof.
  intros [A _]. unfold get_input. induction (n_preds n) as [|p ps IH]; simpl; [reflexivity|].
  rewrite A, IH. reflexivity.
Qed.

Lemma vfind_filter_tgt k n m :
  vfind k (filter (fun kv => negb (N.eqb (fst (fst kv)) n)) m) =
  if N.eqb (fst k) n then None else vfind k m.
Proof.
  induction m as [|[k' v] m IH]; simpl; [destruct (N.eqb (fst k) n); reflexivity|].
  destruct (N.eqb (fst k') n) eqn:E; simpl.
  - rewrite IH. destruct (N.eqb (fst k) n) eqn:E2; [reflexivity|].
    destruct (k2eqb k k') eqn:E3; [|reflexivity].
    apply k2eqb_eq in E3. subst k'. congruence.
  - destruct (k2eqb k k') eqn:E3.
    + apply k2eqb_eq in E3. subst k'. rewrite E. reflexivity.
    + apply IH.
Qed.

Lemma dmem_filter_tgt k n d :
  dmem k (filter (fun k' => negb (N.eqb (fst k') n)) d) =
  if N.eqb (fst k) n then false else dmem k d.
Proof.
  unfold dmem. induction d as [|k' d IH]; simpl; [destruct (N.eqb (fst k) n); reflexivity|].
  destruct (N.eqb (fst k') n) eqn:E; simpl.
  - rewrite IH. destruct (N.eqb (fst k) n) eqn:E2; [reflexivity|].
    destruct (k2eqb k k') eqn:E3; [|reflexivity].
    apply k2eqb_eq in E3. subst k'. congruence.
  - rewrite IH. destruct (k2eqb k k') eqn:E3; [|reflexivity].
    apply k2eqb_eq in E3. subst k'. rewrite E. reflexivity.
Qed.

Lemma clear_ceq s s' n : ceq s s' -> ceq (clear s n) (clear s' n).
Proof.
  intros [A B]. split; intros k; unfold clear; simpl.
  - rewrite !vfind_filter_tgt, A. reflexivity.
  - rewrite !dmem_filter_tgt, B. reflexivity.
Qed.

Lemma clear_all_ceq ns : forall s s', ceq s s' -> ceq (fold_left clear ns s) (fold_left clear ns s').
Proof. induction ns as [|n ns IH]; simpl; intros s s' H; [exact H|]. apply IH, clear_ceq, H. Qed.

Lemma filter_ready_ceq m s s' g : ceq s s' -> filter (ready m s) g = filter (ready m s') g.
Proof.
  intros H. induction g as [|n g IH]; simpl; [reflexivity|].
  rewrite (ready_ceq m _ _ n H), IH. reflexivity.
Qed.

Lemma take_ready_ceq m g s s' :
  ceq s s' -> fst (take_ready m g s) = fst (take_ready m g s') /\
              ceq (snd (take_ready m g s)) (snd (take_ready m g s')).
Proof.
  intros H. unfold take_ready. simpl. rewrite (filter_ready_ceq m _ _ g H). split.
  - apply map_ext. intros n. rewrite (get_input_ceq _ _ n H). reflexivity.
  - apply clear_all_ceq. exact H.
Qed.

(* what calculateNextTasks yields, up to lookup-equivalence of the channel state *)
Definition next_eq (a b : next) : Prop :=
  match a, b with
  | NReturn v, NReturn v' => v = v'
  | NTasks ts s, NTasks ts' s' => ts = ts' /\ ceq s s'
  | _, _ => False
  end.

Lemma calc_next_perm m g s s' cs cs' :
  Permutation cs cs' -> NoDup (map fst cs) -> ceq s s' ->
  next_eq (calc_next m g s cs) (calc_next m g s' cs').
Proof.
  intros P Hnd H. unfold calc_next.
  pose proof (report_all_perm g cs cs' P Hnd s s' H) as H1.
  destruct (take_ready_ceq m g _ _ H1) as [E1 E2].
  destruct (take_ready m g (report_all g s cs)) as [rs s2].
  destruct (take_ready m g (report_all g s' cs')) as [rs' s2']. simpl in *. subst rs'.
  destruct (find is_end rs) as [[n v]|]; simpl; auto.
Qed.

(* ------------------------------------------------------------------ whole batch runs *)

Lemma filter_ids_nodup (f : node -> bool) g : NoDup (map n_id g) -> NoDup (map n_id (filter f g)).
Proof.
  induction g as [|n g IH]; simpl; intros H; [constructor|]. inversion H as [|? ? Hn Hd]; subst.
  destruct (f n); simpl; [|auto]. constructor; [|auto].
  intros Hin. apply Hn. apply in_map_iff in Hin. destruct Hin as (x & E & Hx).
  apply filter_In in Hx. apply in_map_iff. exists x. tauto.
Qed.

Definition tasks_ok (ts : list (node * val)) : Prop := NoDup (map (fun t => n_id (fst t)) ts).

Lemma take_ready_tasks_ok m g s : NoDup (map n_id g) -> tasks_ok (fst (take_ready m g s)).
Proof.
  intros H. unfold take_ready, tasks_ok. simpl. rewrite map_map. simpl.
  apply filter_ids_nodup. exact H.
Qed.

Lemma calc_next_tasks_ok m g s cs ts s' :
  NoDup (map n_id g) -> calc_next m g s cs = NTasks ts s' -> tasks_ok ts.
Proof.
  intros H. unfold calc_next.
  pose proof (take_ready_tasks_ok m g (report_all g s cs) H) as K.
  destruct (take_ready m g (report_all g s cs)) as [rs s2]. simpl in K.
  destruct (find is_end rs) as [[n v]|]; [discriminate|]. intros E; inversion E; subst. exact K.
Qed.

Lemma run_batch_order ord m g :
  NoDup (map n_id g) -> (forall l, Permutation (ord l) l) ->
  forall fuel s s' tasks log, ceq s s' -> tasks_ok tasks ->
    run_batch ord m g fuel s tasks log = run_batch (fun l => l) m g fuel s' tasks log.
Proof.
  intros Hg Hord. induction fuel as [|f IH]; intros s s' tasks log H Hok; simpl; [reflexivity|].
  destruct (existsb prefail tasks); [reflexivity|].
  destruct (existsb failed tasks); [reflexivity|].
  destruct tasks as [|t0 tasks0]; [reflexivity|]. set (tasks := t0 :: tasks0) in *.
  assert (Hnd : NoDup (map fst (map run_task tasks))).
  { rewrite map_map. simpl. exact Hok. }
  pose proof (calc_next_perm m g s s' (ord (map run_task tasks)) (map run_task tasks)
                (Hord _)) as K.
  assert (Hnd' : NoDup (map fst (ord (map run_task tasks)))).
  { eapply Permutation_NoDup; [apply Permutation_map; symmetry; apply Hord|exact Hnd]. }
  specialize (K Hnd' H).
  destruct (calc_next m g s (ord (map run_task tasks))) as [v|ts s1] eqn:E1;
    destruct (calc_next m g s' (map run_task tasks)) as [v'|ts' s1'] eqn:E2; simpl in K; try contradiction.
  - subst; reflexivity.
  - destruct K as [-> K]. apply IH; [exact K|]. eapply calc_next_tasks_ok; eassumption.
Qed.

(* C03, batch mode: whatever order the completed tasks of each step are handed back in, the
   result of the run and the executions (with their inputs) are the same *)
Lemma batch_order_independent ord m g fuel :
  NoDup (map n_id g) -> (forall l, Permutation (ord l) l) ->
  batch ord m g fuel = batch (fun l => l) m g fuel.
Proof.
  intros Hg Hord. unfold batch. destruct (start_next m g) as [v|ts s] eqn:E; [reflexivity|].
  apply run_batch_order; [exact Hg|exact Hord|apply ceq_refl|].
  eapply calc_next_tasks_ok; [exact Hg|exact E].
Qed.
