(* Proofs/RunLoopDrive.v — property C06 at the level of run segments and of the whole driven run
   (owner: C06).

   Proofs/RunLoop.v and Proofs/RunLoopEager.v state the four clauses per decision of the loop
   ([decide] / [edecide] / [init]).  Here they are lifted
     - to run segments: whatever interrupt a segment returns (batch or eager, fresh or resumed, on the
       initial task set or after any number of steps) reports every interrupt-before node that is
       pending in its checkpoint;
     - to the run driven through a store ([drive]): a node configured as interrupt-before executes in
       call j only if j > 0 and call j-1 returned an interrupt, written under the id, that reported
       the node — the first clause of the property, composed;
     - a checkpoint is written by a call of the driven run iff that call returns an interrupt and an
       id was given;
     - eager mode: the collection of an interrupt-after node ends the segment (nothing is submitted
       after it). *)
From Eino Require Import Base.Util Model.RunLoop Proofs.RunLoop Proofs.RunLoopEager.
Open Scope N_scope.

Section DriveProofs.
  Context {V CS GS ENV SCP SINFO : Type}.
  Variable zero : V.
  Variable fold : CS -> list (N * V) -> res CS.
  Variable getr : CS -> res (CS * list (N * V)).
  Variable pre : N -> V -> GS -> V * GS.
  Variable exec : N -> option SCP -> V -> ENV -> @texec V SCP SINFO * ENV.
  Variable before after : list N.

  Notation lstateT := (@lstate V CS GS SCP).
  Notation estateT := (@estate V CS GS SCP SINFO).
  Notation texecT := (@texec V SCP SINFO).
  Notation cptT := (@checkpoint V CS GS SCP).
  Notation infT := (@iinfo GS SINFO).
  Notation outT := (@outcome V CS GS SCP SINFO).
  Notation evT := (@event V).
  Notation ekey := (@ev_key V).
  Notation stepB := (step zero fold getr pre exec before after).
  Notation iterB := (iterate zero fold getr pre exec before after).
  Notation startB := (start zero fold getr pre exec before after).
  Notation resumeB := (resume zero fold getr pre exec before after).
  Notation estepE := (estep_gen zero fold getr pre exec before after false).
  Notation eiterE := (eiterate zero fold getr pre exec before after false).
  Notation edecideE := (edecide zero fold getr before after false).

  (* every interrupt-before node pending in the checkpoint is reported by the interrupt: in the
     before list, in the rerun list, or as a nested graph with its own interrupt information *)
  Definition reports_pending (i : infT) (c : cptT) : Prop :=
    forall k, In k (map fst (cp_inputs c)) -> memN k before = true -> reported i k.

  Lemma info_ok_reports : forall (rs : list (N * texecT)) i c,
    info_ok zero before after rs i c -> reports_pending i c.
  Proof. intros rs i c H. unfold reports_pending. apply H. Qed.

  (* ---------- run segments, batch mode ---------- *)
  Lemma iterate_interrupt_reports : forall fuel (s : lstateT) env log i c log' env',
    iterB fuel s env log = (OInterrupted i c, log', env') -> reports_pending i c.
  Proof.
    induction fuel as [|f IH]; intros s env log i c log' env' H; simpl in H; [discriminate|].
    destruct (stepB s env) as [[r evs] env1] eqn:Hs.
    destruct r as [s'|v|i0 c0|e]; try discriminate.
    - eapply IH; eauto.
    - inversion H; subst. rewrite step_unfold in Hs. inversion Hs as [[Hd He Hv]].
      eapply info_ok_reports. eapply decide_info_ok; eauto.
  Qed.

  Lemma start_interrupt_reports : forall fuel cs0 (gs0 : GS) x env i c log env',
    startB fuel cs0 gs0 x env = (OInterrupted i c, log, env') -> reports_pending i c.
  Proof.
    unfold start, start_gen; intros fuel cs0 gs0 x env i c log env' H.
    destruct (init_gen fold getr before false cs0 gs0 x) as [s|v|i0 c0|e] eqn:Hi; simpl in H; try discriminate.
    - eapply iterate_interrupt_reports; eauto.
    - inversion H; subst.
      edestruct (init_info_ok zero fold getr pre exec before after) as [Hok _]; [exact Hi|].
      eapply info_ok_reports; exact Hok.
  Qed.

  Lemma resume_interrupt_reports : forall fuel sm (c0 : cptT) env i c log env',
    resumeB fuel sm c0 env = (OInterrupted i c, log, env') -> reports_pending i c.
  Proof. unfold resume; intros; eapply iterate_interrupt_reports; eauto. Qed.

  (* ---------- run segments, eager mode, every schedule ---------- *)
  Lemma estep_interrupt_reports : forall (s : estateT) sched env i c evs env',
    estepE s sched env = (EStop (Interrupted i c), evs, env') -> reports_pending i c.
  Proof.
    unfold estep_gen; intros s sched env i c evs env' H.
    destruct (run_pres pre (es_next s) (es_gs s)) as [ts gs1].
    destruct (exec_all exec ts env) as [rs env1].
    destruct (pick (es_running s ++ rs) sched) as [[[cc rest] sc]|]; inversion H as [[Hd He Hv]].
    eapply info_ok_reports. eapply edecide_info_ok; eauto.
  Qed.

  Lemma eiterate_interrupt_reports : forall fuel (s : estateT) sched env log i c log' env',
    eiterE fuel s sched env log = (OInterrupted i c, log', env') -> reports_pending i c.
  Proof.
    induction fuel as [|f IH]; intros s sched env log i c log' env' H; simpl in H; [discriminate|].
    destruct (estepE s sched env) as [[r evs] env1] eqn:Hs.
    destruct r as [s' sched'|r].
    - eapply IH; eauto.
    - destruct r as [s'|v|i0 c0|e]; simpl in H; try discriminate.
      inversion H; subst. eapply estep_interrupt_reports; eauto.
  Qed.

  Lemma estart_interrupt_reports : forall fuel cs0 (gs0 : GS) x sched env i c log env',
    estart zero fold getr pre exec before after false fuel cs0 gs0 x sched env = (OInterrupted i c, log, env') ->
    reports_pending i c.
  Proof.
    unfold estart; intros fuel cs0 gs0 x sched env i c log env' H.
    destruct (init fold getr before cs0 gs0 x) as [s|v|i0 c0|e] eqn:Hi; simpl in H; try discriminate.
    - eapply eiterate_interrupt_reports; eauto.
    - inversion H; subst.
      edestruct (init_info_ok zero fold getr pre exec before after) as [Hok _]; [exact Hi|].
      eapply info_ok_reports; exact Hok.
  Qed.

  Lemma eresume_interrupt_reports : forall fuel sm (c0 : cptT) sched env i c log env',
    eresume zero fold getr pre exec before after false fuel sm c0 sched env = (OInterrupted i c, log, env') ->
    reports_pending i c.
  Proof. unfold eresume; intros; eapply eiterate_interrupt_reports; eauto. Qed.

  (* ---------- eager mode: the collection of an interrupt-after node ends the segment ---------- *)
  (* what the eager loop collects in the iteration it makes from [s]: the task [c], the tasks [rest] still running *)
  Definition collected (s : estateT) (sched : list N) (env : ENV) : option ((N * texecT) * list (N * texecT) * list N) :=
    let '(ts, gs1) := run_pres pre (es_next s) (es_gs s) in
    let '(rs, env1) := exec_all exec ts env in
    pick (es_running s ++ rs) sched.

  Definition esubmitted (s : estateT) (env : ENV) : list evT * ENV :=
    let '(ts, gs1) := run_pres pre (es_next s) (es_gs s) in
    let '(rs, env1) := exec_all exec ts env in
    (events_of ts rs, env1).

  Lemma eiterate_after_stops : forall (s : estateT) sched env c rest sched' k,
    collected s sched env = Some (c, rest, sched') ->
    In k (afters after [c]) ->
    forall fuel log, exists o,
      eiterE (S fuel) s sched env log = (o, log ++ fst (esubmitted s env), snd (esubmitted s env)) /\
      match o with
      | OInterrupted i _ => In k (ii_after i)
      | ODone _ | OFailed _ => True
      | OLimit => False
      end.
  Proof.
    intros s sched env c rest sched' k Hc Hk fuel log. simpl.
    unfold collected in Hc. unfold esubmitted, estep_gen.
    destruct (run_pres pre (es_next s) (es_gs s)) as [ts gs1].
    destruct (exec_all exec ts env) as [rs env1]. rewrite Hc. simpl.
    assert (Hk' : In k (afters after (c :: rest))).
    { rewrite afters_cons. apply in_or_app. left. exact Hk. }
    pose proof (edecide_after_stops zero fold getr pre exec before after (es_cs s) gs1 c rest sched' k Hk') as Hd.
    destruct (edecideE (es_cs s) gs1 c rest sched') as [s' sc|r].
    - exfalso. exact (Hd Hk).
    - destruct r as [s'|v|i cp|e]; simpl; eexists; split; try reflexivity; auto.
      (* EStop (Continue _) is never produced; it maps to a failure *)
  Qed.

  (* ---------- the run driven through a store ---------- *)
  Section Driven.
    Context {B : Type}.
    Variable ser : cptT -> B.
    Variable deser : B -> option cptT.
    Hypothesis H_ser : forall c, deser (ser c) = Some c.     (* the store round-trips (C12) *)
    Variable fresh : ENV -> outT * list evT * ENV.
    Variable resumed : (GS -> GS) -> cptT -> ENV -> outT * list evT * ENV.
    Variable tick : nat -> ENV -> ENV.
    (* what the segments must satisfy: the segment-level theorems above and of Proofs/RunLoop*.v *)
    Hypothesis H_fresh_nb : forall env o log env', fresh env = (o, log, env') ->
      forall ev, In ev log -> memN (ekey ev) before = false.
    Hypothesis H_res_nb : forall sm c env o log env', resumed sm c env = (o, log, env') ->
      forall ev, In ev log -> memN (ekey ev) before = true -> In (ekey ev) (map fst (cp_inputs c)).
    Hypothesis H_fresh_rep : forall env i c log env', fresh env = (OInterrupted i c, log, env') -> reports_pending i c.
    Hypothesis H_res_rep : forall sm c0 env i c log env', resumed sm c0 env = (OInterrupted i c, log, env') -> reports_pending i c.

    Notation call_obsT := (@call_obs V CS GS SCP SINFO).
    Notation driveD := (drive ser deser fresh resumed tick).

    (* the interrupt a call leaves behind for the next one *)
    Definition left_by (co : call_obsT) : option infT :=
      match co_out co with
      | OInterrupted i _ => if co_written co then Some i else None
      | _ => None
      end.

    (* [prev]: the interrupt information returned by the preceding call, if it was an interrupt whose
       checkpoint was written *)
    Fixpoint honoured (prev : option infT) (cos : list call_obsT) : Prop :=
      match cos with
      | [] => True
      | co :: rest =>
        (forall ev, In ev (co_log co) -> memN (ekey ev) before = true ->
                    exists i, prev = Some i /\ reported i (ekey ev)) /\
        honoured (left_by co) rest
      end.

    Definition store_inv (with_id : bool) (prev : option infT) (store : option B) : Prop :=
      match (if with_id then store else None) with
      | None => True
      | Some b => forall c, deser b = Some c -> exists i, prev = Some i /\ reports_pending i c
      end.

    Lemma drive_honoured_gen : forall with_id n k mods store env prev cos env',
      store_inv with_id prev store ->
      driveD with_id n k mods store env = (cos, env') -> honoured prev cos.
    Proof.
      intros with_id. induction n as [|n IH]; intros k mods store env prev cos env' Hinv H.
      - simpl in H. unfold call in H. unfold store_inv in Hinv.
        destruct (if with_id then store else None) as [b|].
        + destruct (deser b) as [c|] eqn:Hde.
          * destruct (resumed (mods k) c (tick k env)) as [[o l] e1] eqn:Hr.
            destruct (Hinv c eq_refl) as (i & -> & Hrep).
            assert (Hev : forall ev, In ev l -> memN (ekey ev) before = true -> exists i0, Some i = Some i0 /\ reported i0 (ekey ev)).
            { intros ev Hin Hm. exists i. split; auto. apply Hrep; auto. eapply H_res_nb; eauto. }
            destruct o; try destruct with_id; inversion H; subst; simpl; auto.
          * inversion H; subst; simpl. split; auto. intros ev [].
        + destruct (fresh (tick k env)) as [[o l] e1] eqn:Hf.
          assert (Hev : forall ev, In ev l -> memN (ekey ev) before = true -> exists i0, prev = Some i0 /\ reported i0 (ekey ev)).
          { intros ev Hin Hm. rewrite (H_fresh_nb _ _ _ _ Hf ev Hin) in Hm. discriminate. }
          destruct o; try destruct with_id; inversion H; subst; simpl; auto.
      - simpl in H. unfold call in H. unfold store_inv in Hinv.
        destruct (if with_id then store else None) as [b|] eqn:Hst.
        + destruct (deser b) as [c|] eqn:Hde.
          * destruct (resumed (mods k) c (tick k env)) as [[o l] e1] eqn:Hr.
            destruct (Hinv c eq_refl) as (i & -> & Hrep).
            assert (Hev : forall ev, In ev l -> memN (ekey ev) before = true -> exists i0, Some i = Some i0 /\ reported i0 (ekey ev)).
            { intros ev Hin Hm. exists i. split; auto. apply Hrep; auto. eapply H_res_nb; eauto. }
            destruct o as [v|i' c'|e0|]; try (inversion H; subst; simpl; auto; fail).
            destruct with_id; [|discriminate]. simpl in H.
            destruct (driveD true n (S k) mods (Some (ser c')) e1) as [rest e2] eqn:Hd.
            inversion H; subst. simpl. split; auto.
            eapply IH; [|exact Hd]. unfold store_inv. intros c2 Hc2. rewrite H_ser in Hc2. inversion Hc2; subst.
            exists i'. split; auto. eapply H_res_rep; eauto.
          * inversion H; subst; simpl. split; auto. intros ev [].
        + destruct (fresh (tick k env)) as [[o l] e1] eqn:Hf.
          assert (Hev : forall ev, In ev l -> memN (ekey ev) before = true -> exists i0, prev = Some i0 /\ reported i0 (ekey ev)).
          { intros ev Hin Hm. rewrite (H_fresh_nb _ _ _ _ Hf ev Hin) in Hm. discriminate. }
          destruct o as [v|i' c'|e0|]; try (inversion H; subst; simpl; auto; fail).
          destruct with_id.
          * simpl in H. destruct (driveD true n (S k) mods (Some (ser c')) e1) as [rest e2] eqn:Hd.
            inversion H; subst. simpl. split; auto.
            eapply IH; [|exact Hd]. unfold store_inv. intros c2 Hc2. rewrite H_ser in Hc2. inversion Hc2; subst.
            exists i'. split; auto. eapply H_fresh_rep; eauto.
          * inversion H; subst; simpl. auto.
    Qed.

    (* readable form: positions in the list of calls *)
    Lemma honoured_nth : forall cos prev j co ev,
      honoured prev cos -> nth_error cos j = Some co ->
      In ev (co_log co) -> memN (ekey ev) before = true ->
      (j = O /\ exists i, prev = Some i /\ reported i (ekey ev)) \/
      (exists j' co' i c, j = S j' /\ nth_error cos j' = Some co' /\
                          co_out co' = OInterrupted i c /\ co_written co' = true /\ reported i (ekey ev)).
    Proof.
      induction cos as [|co0 cos IH]; intros prev j co ev Hh Hn Hin Hm; [destruct j; discriminate|].
      destruct Hh as [H0 Hrest]. destruct j as [|j]; simpl in Hn.
      - inversion Hn; subst. left. split; auto.
      - right. destruct (IH _ _ _ _ Hrest Hn Hin Hm) as [[-> (i & Hl & Hr)] | (j' & co' & i & c & -> & Hn' & Ho & Hw & Hr)].
        + exists O, co0. unfold left_by in Hl.
          destruct (co_out co0) as [v|i0 c0|e0|] eqn:Ho; try discriminate.
          destruct (co_written co0) eqn:Hw; inversion Hl; subst.
          exists i, c0. repeat split; auto.
        + exists (S j'), co', i, c. repeat split; auto.
    Qed.

    (* THE FIRST CLAUSE, for the whole driven run: a node configured as interrupt-before executes in
       call j only if j > 0 and call j-1 returned an interrupt — whose checkpoint was written under
       the id — that reported the node (before list, rerun list or nested information) *)
    Lemma drive_before_needs_report : forall with_id n mods env cos env' j co ev,
      driveD with_id n O mods None env = (cos, env') ->
      nth_error cos j = Some co -> In ev (co_log co) -> memN (ekey ev) before = true ->
      exists j' co' i c, j = S j' /\ nth_error cos j' = Some co' /\
                         co_out co' = OInterrupted i c /\ co_written co' = true /\ reported i (ekey ev).
    Proof.
      intros with_id n mods env cos env' j co ev H Hn Hin Hm.
      assert (Hh : honoured None cos).
      { eapply drive_honoured_gen; [|exact H]. unfold store_inv. destruct with_id; exact I. }
      destruct (honoured_nth _ _ _ _ _ Hh Hn Hin Hm) as [[_ (i & Hd & _)]|Hx]; [discriminate|exact Hx].
    Qed.

    (* THE LAST CLAUSE, for every call of the driven run (no hypothesis on the segments is used):
       a checkpoint is written by a call iff it returns an interrupt and an id was given *)
    Lemma drive_written_iff : forall with_id n k mods store env cos env',
      driveD with_id n k mods store env = (cos, env') ->
      forall co, In co cos ->
        (co_written co = true <-> (with_id = true /\ exists i c, co_out co = OInterrupted i c)).
    Proof.
      intros with_id. induction n as [|n IH]; intros k mods store env cos env' H co Hin.
      - simpl in H. destruct (call ser deser fresh resumed with_id store (mods k) (tick k env)) as [[co0 st'] e1] eqn:Hc.
        assert (cos = [co0]) by (destruct (co_out co0); inversion H; reflexivity). subst cos.
        destruct Hin as [<-|[]]. exact (proj1 (call_written_iff ser deser fresh resumed _ _ _ _ _ _ _ Hc)).
      - simpl in H. destruct (call ser deser fresh resumed with_id store (mods k) (tick k env)) as [[co0 st'] e1] eqn:Hc.
        pose proof (proj1 (call_written_iff ser deser fresh resumed _ _ _ _ _ _ _ Hc)) as H0.
        destruct (co_out co0) as [v|i c|e0|] eqn:Ho; try (inversion H; subst; destruct Hin as [<-|[]]; rewrite Ho; exact H0).
        destruct with_id.
        + destruct (driveD true n (S k) mods st' e1) as [rest e2] eqn:Hd.
          inversion H; subst. destruct Hin as [<-|Hin]; [rewrite Ho; exact H0|]. eapply IH; eauto.
        + inversion H; subst. destruct Hin as [<-|[]]; rewrite Ho; exact H0.
    Qed.
  End Driven.

  (* batch mode, generic: the segments [start] / [resume] satisfy what [Driven] asks for *)
  Lemma drive_before_needs_report_batch : forall {B : Type} (ser : cptT -> B) deser,
    (forall c, deser (ser c) = Some c) ->
    forall fuel cs0 (gs0 : GS) x tick with_id n mods env cos env' j co ev,
      drive ser deser (startB fuel cs0 gs0 x) (resumeB fuel) tick with_id n O mods None env = (cos, env') ->
      nth_error cos j = Some co -> In ev (co_log co) -> memN (ekey ev) before = true ->
      exists j' co' i c, j = S j' /\ nth_error cos j' = Some co' /\
                         co_out co' = OInterrupted i c /\ co_written co' = true /\ reported i (ekey ev).
  Proof.
    intros B ser deser Hser fuel cs0 gs0 x tick with_id n mods env cos env' j co ev.
    apply (drive_before_needs_report ser deser Hser (startB fuel cs0 gs0 x) (resumeB fuel) tick).
    - intros; eapply start_no_before; eauto.
    - intros; eapply resume_before_only_pending; eauto.
    - intros; eapply start_interrupt_reports; eauto.
    - intros; eapply resume_interrupt_reports; eauto.
  Qed.
End DriveProofs.

(* ---------- nested interrupts: the nested information and the nested checkpoints of an interrupt
   are the pairs the node bodies returned ----------
   [Q k cp info] is any property of what a node body returns when a nested graph is interrupted inside
   ([TSub cp info]); every interrupt of a segment lists, position by position, nested infos and nested
   checkpoints under the same node keys, each pair satisfying [Q]. Instantiated in
   Proofs/InterruptDrive.v with "the nested interrupt is itself faithful", by induction on the nesting
   depth. *)
Section SubsProofs.
  Context {V CS GS ENV SCP SINFO : Type}.
  Variable zero : V.
  Variable fold : CS -> list (N * V) -> res CS.
  Variable getr : CS -> res (CS * list (N * V)).
  Variable pre : N -> V -> GS -> V * GS.
  Variable exec : N -> option SCP -> V -> ENV -> @texec V SCP SINFO * ENV.
  Variable before after : list N.
  Variable Q : N -> SCP -> SINFO -> Prop.
  Hypothesis H_exec_Q : forall k cpo v env cp info env', exec k cpo v env = (TSub cp info, env') -> Q k cp info.

  Notation lstateT := (@lstate V CS GS SCP).
  Notation estateT := (@estate V CS GS SCP SINFO).
  Notation texecT := (@texec V SCP SINFO).
  Notation cptT := (@checkpoint V CS GS SCP).
  Notation infT := (@iinfo GS SINFO).
  Notation stepB := (step zero fold getr pre exec before after).
  Notation iterB := (iterate zero fold getr pre exec before after).
  Notation estepE := (estep_gen zero fold getr pre exec before after false).
  Notation eiterE := (eiterate zero fold getr pre exec before after false).
  Notation edecideE := (edecide zero fold getr before after false).

  Definition res_ok (r : N * texecT) : Prop :=
    match snd r with TSub cp info => Q (fst r) cp info | _ => True end.

  Definition pair_ok (ki : N * SINFO) (kc : N * SCP) : Prop := fst ki = fst kc /\ Q (fst kc) (snd kc) (snd ki).

  Definition subs_paired (i : infT) (c : cptT) : Prop := Forall2 pair_ok (ii_subs i) (cp_subs c).

  Lemma exec_all_res_ok : forall ts env, Forall res_ok (fst (exec_all exec ts env)).
  Proof.
    induction ts as [|t ts IH]; intros env; simpl; [constructor|].
    destruct (exec (t_key t) (t_cp t) (t_in t) env) as [r env1] eqn:He.
    specialize (IH env1). destruct (exec_all exec ts env1) as [rest env2]; simpl in *.
    constructor; auto. unfold res_ok; simpl. destruct r; auto. eapply H_exec_Q; eauto.
  Qed.

  Lemma subs_of_res_ok : forall rs : list (N * texecT),
    Forall res_ok rs -> Forall2 pair_ok (subinfos rs) (subcps rs).
  Proof.
    induction rs as [|[k r] rs IH]; intros H; [constructor|].
    inversion H as [|? ? H1 H2]; subst. unfold subinfos, subcps in *; simpl.
    destruct r; simpl; auto. constructor; auto. split; auto.
  Qed.

  Lemma info_ok_subs_paired : forall (rs : list (N * texecT)) i c,
    info_ok zero before after rs i c -> Forall res_ok rs -> subs_paired i c.
  Proof.
    intros rs i c (_ & _ & _ & Hi & Hc & _) Hr. unfold subs_paired. rewrite Hi, Hc.
    apply subs_of_res_ok; auto.
  Qed.

  (* batch *)
  Lemma iterate_interrupt_subs : forall fuel (s : lstateT) env log i c log' env',
    iterB fuel s env log = (OInterrupted i c, log', env') -> subs_paired i c.
  Proof.
    induction fuel as [|f IH]; intros s env log i c log' env' H; simpl in H; [discriminate|].
    destruct (stepB s env) as [[r evs] env1] eqn:Hs.
    destruct r as [s'|v|i0 c0|e]; try discriminate.
    - eapply IH; eauto.
    - inversion H; subst. rewrite step_unfold in Hs. inversion Hs as [[Hd He Hv]].
      eapply info_ok_subs_paired; [eapply decide_info_ok; eauto|].
      unfold results. apply exec_all_res_ok.
  Qed.

  Lemma init_interrupt_subs : forall cs0 (gs0 : GS) x i (c : cptT),
    init (SINFO := SINFO) fold getr before cs0 gs0 x = Interrupted i c -> subs_paired i c.
  Proof.
    intros cs0 gs0 x i c Hi.
    edestruct (init_info_ok zero fold getr pre exec before after) as [Hok _]; [exact Hi|].
    eapply info_ok_subs_paired; [exact Hok|constructor].
  Qed.

  (* eager *)
  Lemma take_key_forall : forall (P : N * texecT -> Prop) k l y r,
    Forall P l -> take_key k l = Some (y, r) -> P y /\ Forall P r.
  Proof.
    intros P k. induction l as [|x l IH]; intros y r Hf H; simpl in H; [discriminate|].
    inversion Hf as [|? ? Hx Hl]; subst.
    destruct (N.eqb (fst x) k).
    - inversion H; subst; auto.
    - destruct (take_key k l) as [[y' r']|] eqn:Ht; [|discriminate]. inversion H; subst.
      destruct (IH _ _ Hl eq_refl) as [Hy Hr]. split; auto.
  Qed.

  Lemma pick_forall : forall (P : N * texecT -> Prop) l sched c rest sched',
    Forall P l -> pick l sched = Some (c, rest, sched') -> P c /\ Forall P rest.
  Proof.
    intros P l sched c rest sched' Hf H. unfold pick in H.
    destruct l as [|x l']; [discriminate|].
    destruct sched as [|k sc].
    - inversion H; subst. inversion Hf; auto.
    - destruct (take_key k (x :: l')) as [[y r]|] eqn:Ht.
      + inversion H; subst. eapply take_key_forall; eauto.
      + inversion H; subst. inversion Hf; auto.
  Qed.

  Lemma estep_subs : forall (s : estateT) sched env r evs env',
    Forall res_ok (es_running s) ->
    estepE s sched env = (r, evs, env') ->
    match r with
    | EContinue s' _ => Forall res_ok (es_running s')
    | EStop (Interrupted i c) => subs_paired i c
    | EStop _ => True
    end.
  Proof.
    unfold estep_gen; intros s sched env r evs env' Hrun H.
    destruct (run_pres pre (es_next s) (es_gs s)) as [ts gs1].
    pose proof (exec_all_res_ok ts env) as Hnew.
    destruct (exec_all exec ts env) as [rs env1]; simpl in Hnew.
    assert (Hall : Forall res_ok (es_running s ++ rs)) by (apply Forall_app; auto).
    destruct (pick (es_running s ++ rs) sched) as [[[cc rest] sc]|] eqn:Hp.
    - destruct (pick_forall _ _ _ _ _ _ Hall Hp) as [Hc Hrest].
      inversion H as [[Hd He Hv]]. clear H.
      destruct (edecideE (es_cs s) gs1 cc rest sc) as [s' sc'|r'] eqn:Hdec.
      + apply edecide_continue in Hdec as (cs2 & ready & _ & _ & _ & _ & _ & -> & _). simpl. exact Hrest.
      + destruct r' as [s'|v|i c|e]; auto.
        eapply info_ok_subs_paired; [eapply edecide_info_ok; eauto|]. constructor; auto.
    - inversion H; subst. exact I.
  Qed.

  Lemma eiterate_interrupt_subs : forall fuel (s : estateT) sched env log i c log' env',
    Forall res_ok (es_running s) ->
    eiterE fuel s sched env log = (OInterrupted i c, log', env') -> subs_paired i c.
  Proof.
    induction fuel as [|f IH]; intros s sched env log i c log' env' Hrun H; simpl in H; [discriminate|].
    destruct (estepE s sched env) as [[r evs] env1] eqn:Hs.
    pose proof (estep_subs _ _ _ _ _ _ Hrun Hs) as Hst.
    destruct r as [s' sched'|r].
    - eapply IH; eauto.
    - destruct r as [s'|v|i0 c0|e]; simpl in H; try discriminate.
      inversion H; subst. exact Hst.
  Qed.
End SubsProofs.

(* every interrupt returned by a call of a driven run is an interrupt returned by a segment *)
Section DriveInterrupts.
  Context {V CS GS ENV SCP SINFO B : Type}.
  Notation cptT := (@checkpoint V CS GS SCP).
  Notation infT := (@iinfo GS SINFO).
  Notation outT := (@outcome V CS GS SCP SINFO).
  Variable ser : cptT -> B.
  Variable deser : B -> option cptT.
  Variable fresh : ENV -> outT * list (@event V) * ENV.
  Variable resumed : (GS -> GS) -> cptT -> ENV -> outT * list (@event V) * ENV.
  Variable tick : nat -> ENV -> ENV.
  Variable P : infT -> cptT -> Prop.
  Hypothesis H_fresh : forall env i c log env', fresh env = (OInterrupted i c, log, env') -> P i c.
  Hypothesis H_res : forall sm c0 env i c log env', resumed sm c0 env = (OInterrupted i c, log, env') -> P i c.

  Lemma call_interrupt_from_segment : forall with_id store sm env co store' env' i c,
    call ser deser fresh resumed with_id store sm env = (co, store', env') ->
    co_out co = OInterrupted i c -> P i c.
  Proof.
    intros with_id store sm env co store' env' i c H Ho. unfold call in H.
    destruct (if with_id then store else None) as [b|].
    - destruct (deser b) as [c0|].
      + destruct (resumed sm c0 env) as [[o l] e1] eqn:Hs.
        destruct o; try destruct with_id; inversion H; subst; simpl in Ho; inversion Ho; subst; eapply H_res; eauto.
      + inversion H; subst; simpl in Ho; discriminate.
    - destruct (fresh env) as [[o l] e1] eqn:Hs.
      destruct o; try destruct with_id; inversion H; subst; simpl in Ho; inversion Ho; subst; eapply H_fresh; eauto.
  Qed.

  Lemma drive_interrupts_from_segments : forall with_id n k mods store env cos env',
    drive ser deser fresh resumed tick with_id n k mods store env = (cos, env') ->
    forall co i c, In co cos -> co_out co = OInterrupted i c -> P i c.
  Proof.
    intros with_id. induction n as [|n IH]; intros k mods store env cos env' H co i c Hin Ho; simpl in H.
    - destruct (call ser deser fresh resumed with_id store (mods k) (tick k env)) as [[co0 st'] e1] eqn:Hc.
      assert (cos = [co0]) by (destruct (co_out co0); inversion H; reflexivity). subst cos.
      destruct Hin as [<-|[]]. eapply call_interrupt_from_segment; eauto.
    - destruct (call ser deser fresh resumed with_id store (mods k) (tick k env)) as [[co0 st'] e1] eqn:Hc.
      destruct (co_out co0) as [v|i0 c0|e0|] eqn:Ho0;
        try (inversion H; subst; destruct Hin as [<-|[]]; rewrite Ho0 in Ho; discriminate).
      destruct with_id.
      + destruct (drive ser deser fresh resumed tick true n (S k) mods st' e1) as [rest e2] eqn:Hd.
        inversion H; subst. destruct Hin as [<-|Hin].
        * eapply call_interrupt_from_segment; eauto.
        * eapply IH; eauto.
      + inversion H; subst. destruct Hin as [<-|[]]. eapply call_interrupt_from_segment; eauto.
  Qed.
End DriveInterrupts.

(* ---------- the successors of an interrupt-after node are held pending, not started ----------
   When the loop interrupts after computing the tasks [ready] from the outputs of the completed tasks
   (no rerun, no nested interrupt among them), every one of those tasks is a pending input of the
   checkpoint, with the input computed for it, and by the after_stops_successors theorems the segment ends there:
   none of them is submitted. *)
Section AfterPending.
  Context {V CS GS ENV SCP SINFO : Type}.
  Variable zero : V.
  Variable fold : CS -> list (N * V) -> res CS.
  Variable getr : CS -> res (CS * list (N * V)).
  Variable before after : list N.

  Notation texecT := (@texec V SCP SINFO).
  Notation cptT := (@checkpoint V CS GS SCP).
  Notation infT := (@iinfo GS SINFO).

  Lemma decide_successors_pending : forall cs (gs1 : GS) (rs : list (N * texecT)) (i : infT) (c : cptT) cs2 ready,
    decide zero fold getr before after cs gs1 rs = Interrupted i c ->
    subcps rs = [] -> reruns rs = [] ->
    calc fold getr cs (outs rs) = Ok (cs2, ready) ->
    incl ready (cp_inputs c).
  Proof.
    unfold decide; intros cs gs1 rs i c cs2 ready H Hs Hr Hc.
    destruct (first_fail rs); try discriminate.
    destruct (negb (is_nil (subcps rs) && is_nil (reruns rs))) eqn:Hrr; [rewrite Hs, Hr in Hrr; discriminate|].
    destruct (is_nil rs); try discriminate.
    rewrite Hc in H.
    destruct (nlist_get kEnd ready); try discriminate.
    destruct (is_nil (hits before ready) && is_nil (afters after rs)); try discriminate.
    destruct (calc fold getr cs2 []) as [[cs4 ready2]| |]; try discriminate.
    destruct (nlist_get kEnd ready2); try discriminate.
    apply plain_interrupt_inv in H as [_ ->]. simpl. apply incl_appl. apply incl_refl.
  Qed.

  Lemma edecide_successors_pending : forall cs (gs1 : GS) (c : N * texecT) rest sched' (i : infT) (cp : cptT) cs2 ready,
    edecide zero fold getr before after false cs gs1 c rest sched' = EStop (Interrupted i cp) ->
    subcps [c] = [] -> reruns [c] = [] ->
    calc fold getr cs (outs [c]) = Ok (cs2, ready) ->
    incl ready (cp_inputs cp).
  Proof.
    unfold edecide; intros cs gs1 c rest sched' i cp cs2 ready H Hs Hr Hc.
    destruct (first_fail [c]); try discriminate.
    destruct (negb (is_nil (subcps [c]) && is_nil (reruns [c]))) eqn:Hrr; [rewrite Hs, Hr in Hrr; discriminate|].
    rewrite Hc in H.
    destruct (nlist_get kEnd ready); try discriminate.
    destruct (is_nil (hits before ready) && is_nil (afters after [c])); try discriminate.
    destruct (first_fail rest); try discriminate.
    destruct (negb (is_nil (subcps rest) && is_nil (reruns rest))).
    - injection H as H. apply rerun_interrupt_inv in H as (cs1 & _ & _ & ->). simpl.
      apply incl_appl. apply incl_refl.
    - destruct (calc fold getr cs2 (outs rest)) as [[cs4 ready2]| |]; try discriminate.
      destruct (nlist_get kEnd ready2); try discriminate.
      unfold plain_interrupt in H. inversion H; subst. simpl. apply incl_appl. apply incl_refl.
  Qed.
End AfterPending.
