(* Proofs/RunHandoffLive.v — property C03, the composed system of Model/RunHandoff.v in eager mode
   (Workflow): no hang.  From every reachable state of the composed system, on every maximal path
   (every interleaving of executors, collector and run loop) the run returns: the system is never
   stuck before the return (in particular none of the guards of the run-loop transitions - the task
   the collector hands back is one the run loop has in flight, its error flag is the one of its body,
   the key of a task to submit is fresh - ever blocks), and a variant decreases with every step. *)
From Eino Require Import Base.Util Model.TaskMgr Model.Confluence Model.RunHandoff.
From Eino Require Import Proofs.TaskMgr Proofs.TaskMgrProgress Proofs.Confluence Proofs.Eager.
From Eino Require Import Proofs.RunHandoff Proofs.RunHandoffOrder.
From Coq Require Import Permutation Wf_nat.

Local Notation length := List.length.

Section Live.
Variable g : graph.
Hypothesis Hnd : NoDup (map n_id g).
Hypothesis Hstart : ~ In START (map n_id g).

(* the link between the components at the level of task keys *)
Definition LKid (s : st) (r : rl) : Prop :=
  r_res r = None ->
  Permutation (map fst (epcs s) ++ ids_of (r_exp r)) (ids_of (r_run r) ++ map fst (r_col r)) /\
  Permutation (map fst (r_log r)) (map fst (epcs s) ++ ids_of (r_exp r)) /\
  (forall x, In x (r_run r) -> ~ In (tid x) (ids_of (r_exp r)) ->
     exists p, get_pc (tid x) (epcs s) = Some (p, bres_of (fst x))) /\
  incl (r_exp r) (r_run r).

Lemma step_num_keys s s' : step s s' -> num s' = num s -> map fst (epcs s') = map fst (epcs s).
Proof.
  intros Hs Hn. destruct Hs; simpl in *; rewrite ?map_fst_set; auto; lia.
Qed.

Lemma step_num_pc s s' t p b : step s s' -> num s' = num s ->
  get_pc t (epcs s) = Some (p, b) -> exists p', get_pc t (epcs s') = Some (p', b).
Proof.
  intros Hs Hn G. destruct Hs; simpl in *; try (eexists; exact G); try lia;
    match goal with
    | H : get_pc ?t0 (epcs ?s) = Some (?p0, ?b0) |- context [set_st ?t0 ?q (epcs ?s)] =>
        rewrite (get_pc_set t0 t q p0 b0 (epcs s) H); destruct (N.eqb t t0) eqn:E;
        [apply N.eqb_eq in E; subst; rewrite H in G; inversion G; subst; eexists; reflexivity
        |eexists; exact G]
    end.
Qed.

Lemma lkid_init F : LKid init (rl_init false Dag g F).
Proof.
  unfold LKid, rl_init. destruct (start_next Dag g) as [v|ts ch]; simpl; [discriminate|].
  unfold enter. destruct (existsb prefail ts); simpl; [discriminate|].
  intros _. rewrite app_nil_r. split; [apply Permutation_refl|]. split; [rewrite log_of_ids; apply Permutation_refl|].
  split; [|apply incl_refl].
  intros x Hx Hn. exfalso. apply Hn. unfold ids_of. apply in_map_iff. exists x. split; [reflexivity|exact Hx].
Qed.

Lemma split_task_ids t run x rest : split_task t run = Some (x, rest) ->
  Permutation (ids_of run) (tid x :: ids_of rest).
Proof.
  intros H. apply split_task_perm in H. unfold ids_of.
  apply (Permutation_map (fun t : node * val => n_id (fst t))) in H. exact H.
Qed.

Lemma in_ids x (ts : list (node * val)) : In x ts -> In (tid x) (ids_of ts).
Proof. intros H. unfold ids_of. apply in_map_iff. exists x. split; [reflexivity|exact H]. Qed.

Lemma nodup_ids_eq (ts : list (node * val)) x y :
  NoDup (ids_of ts) -> In x ts -> In y ts -> tid x = tid y -> x = y.
Proof.
  induction ts as [|a ts IH]; simpl; intros N Hx Hy E; [contradiction|].
  inversion N as [|? ? Hn N']; subst. destruct Hx as [<-|Hx], Hy as [<-|Hy]; auto.
  - exfalso. apply Hn. change (n_id (fst a)) with (tid a). rewrite E. apply in_ids, Hy.
  - exfalso. apply Hn. change (n_id (fst a)) with (tid a). rewrite <- E. apply in_ids, Hx.
Qed.

Lemma nodup_app_l {A} (a b : list A) : NoDup (a ++ b) -> NoDup a.
Proof.
  induction a as [|x a IH]; simpl; intros H; [constructor|]. inversion H; subst.
  constructor; [|apply IH; assumption]. intros K. apply H2. apply in_or_app. left; exact K.
Qed.

Lemma lkid_step s r s' r' :
  reach s -> cstep false Dag g (s, r) (s', r') -> EI g r -> LK s r -> LKid s r -> LKid s' r'.
Proof.
  intros Rs Hs E L K. inversion Hs; subst.
  - (* protocol step *)
    unfold LKid in *. intros Hn. specialize (K Hn). destruct K as (K1 & K2 & K3 & K4).
    match goal with H : step s s' |- _ => rename H into St end.
    match goal with H : num s' = num s |- _ => rename H into En end.
    rewrite (step_num_keys _ _ St En). split; [exact K1|]. split; [exact K2|]. split; [|exact K4].
    intros x Hx Hni. destruct (K3 x Hx Hni) as (p & G). eapply step_num_pc; eassumption.
  - (* submit one *)
    unfold LKid, set_exp in *. simpl. intros Hn. specialize (K Hn). destruct K as (K1 & K2 & K3 & K4).
    match goal with H : split_task _ _ = Some _ |- _ => rename H into Hsp end.
    pose proof (split_task_ids _ _ _ _ Hsp) as P.
    assert (Pe : Permutation (map fst (epcs s) ++ ids_of (r_exp r)) ((map fst (epcs s) ++ [tid t]) ++ ids_of q)).
    { rewrite <- app_assoc. apply Permutation_app_head. exact P. }
    rewrite map_app. simpl map.
    split; [eapply perm_trans; [apply Permutation_sym, Pe|exact K1]|].
    split; [eapply perm_trans; [exact K2|exact Pe]|].
    assert (Hq : incl q (r_exp r)).
    { intros y Hy. apply (Permutation_in _ (Permutation_sym (split_task_perm _ _ _ _ Hsp))). right; exact Hy. }
    split; [|intros y Hy; apply K4, Hq, Hy].
    intros x Hx Hni.
    assert (Nr : NoDup (ids_of (r_run r))).
    { unfold EI in E. rewrite Hn in E. destruct E as (O & R & _).
      pose proof (ri_nd _ _ _ _ _ R) as N. apply nodup_app_l in N. exact N. }
    destruct (N.eqb (tid x) (tid t)) eqn:Ex.
    + apply N.eqb_eq in Ex.
      assert (x = t).
      { apply (nodup_ids_eq (r_run r)); auto. apply K4. eapply split_task_in; exact Hsp. }
      subst x. exists ERun. rewrite get_pc_app.
      match goal with H : get_pc (tid t) (epcs s) = None |- _ => rewrite H end.
      rewrite N.eqb_refl. reflexivity.
    + assert (Hni' : ~ In (tid x) (ids_of (r_exp r))).
      { intros Hi. apply (Permutation_in _ P) in Hi. destruct Hi as [Hi|Hi]; [|contradiction].
        apply N.eqb_neq in Ex. congruence. }
      destruct (K3 x Hx Hni') as (p & G). exists p. rewrite get_pc_app, G. reflexivity.
  - (* await *)
    unfold LKid, set_ph in *. simpl. exact K.
  - unfold LKid, set_res. simpl. discriminate.
  - discriminate.
  - (* resolve one *)
    match goal with H : resolve_eager _ _ _ = Some _ |- _ => rename H into Hr end.
    match goal with H : r_res r = None |- _ => rename H into Hn end.
    unfold resolve_eager in Hr.
    destruct (new_col s' r) as [|[t e] [|? ?]] eqn:Enc; try discriminate.
    destruct (split_task t (r_run r)) as [[x rest]|] eqn:Esp; [|discriminate].
    destruct (negb (Bool.eqb e (flag_of x))); [discriminate|].
    destruct (failed x); [inversion Hr; subst; unfold LKid; simpl; discriminate|].
    destruct (calc_next Dag g (r_ch r) [run_task x]) as [vE|ts ch'];
      inversion Hr; subst; unfold LKid, enter; simpl; [discriminate|].
    destruct (existsb prefail ts); simpl; [discriminate|].
    intros _. specialize (K Hn). destruct K as (K1 & K2 & K3 & K4).
    specialize (L Hn). destruct L as [_ L2].
    match goal with H : r_ph r = PGot |- _ => rewrite H in L2 end.
    destruct L2 as [Le Ld]. rewrite Le in *. simpl in K1, K2. rewrite app_nil_r in K1, K2.
    match goal with H : cp s' = CIdle |- _ => rename H into Hc end.
    destruct Ld as [[_ Lb]|(x0 & Lc & _)]; [rewrite Hc in Lb; destruct Lb|].
    assert (Ex0 : x0 = (t, e)).
    { unfold new_col in Enc. rewrite Lc in Enc. simpl length in Enc.
      replace (S (length (r_col r)) - length (r_col r)) with 1 in Enc by lia.
      simpl in Enc. inversion Enc. reflexivity. }
    subst x0. rewrite Lc. simpl map.
    pose proof (split_task_ids _ _ _ _ Esp) as P. rewrite (split_task_tid _ _ _ _ Esp) in P.
    rewrite ids_of_app. split; [|split; [|split]].
    + (* epcs ++ ts ~ (rest ++ ts) ++ t :: col *)
      eapply perm_trans; [apply Permutation_app_tail, K1|].
      eapply perm_trans; [apply Permutation_app_tail, Permutation_app_tail, P|]. simpl.
      apply Permutation_cons_app.
      rewrite <- !app_assoc. apply Permutation_app_head. apply Permutation_app_comm.
    + rewrite map_app, log_of_ids. apply Permutation_app_tail. exact K2.
    + intros y Hy Hni. apply in_app_or in Hy. destruct Hy as [Hy|Hy]; [|exfalso; apply Hni, in_ids, Hy].
      apply K3; [|simpl; tauto].
      apply (Permutation_in _ (Permutation_sym (split_task_perm _ _ _ _ Esp))). right; exact Hy.
    + intros y Hy. apply in_or_app. right; exact Hy.
Qed.

Lemma creach_lkid F x : creach false Dag g F x -> LKid (fst x) (snd x).
Proof.
  induction 1 as [|[s r] [s' r'] Hr IH Hs]; simpl in *; [apply lkid_init|].
  destruct (creach_ei g Hnd Hstart F _ Hr) as [E L]. simpl in *.
  eapply lkid_step; try eassumption. exact (creach_reach _ _ _ _ _ Hr).
Qed.


(* ------------------------------------------------------------------ never stuck before the return *)

Lemma split_task_some t run : In t (ids_of run) -> exists x rest, split_task t run = Some (x, rest).
Proof.
  induction run as [|y run IH]; simpl; intros H; [contradiction|].
  destruct (N.eqb t (tid y)) eqn:E; [eauto|].
  destruct H as [H|H]; [apply N.eqb_neq in E; exfalso; apply E; symmetry; exact H|].
  destruct (IH H) as (x & rest & ->). eauto.
Qed.

Lemma step_not_proto s s' : step s s' -> length (epcs s') = length (epcs s) -> num s' <> num s ->
  cp s = CIdle /\ exists n, num s = S n.
Proof.
  intros Hs Hl Hn. destruct Hs; simpl in *; try (exfalso; apply Hn; reflexivity);
    try (rewrite app_length in Hl; simpl in Hl; lia).
  split; [assumption|eauto].
Qed.

Lemma cstep_enabled F s r : creach false Dag g F (s, r) -> r_res r = None -> exists y, cstep false Dag g (s, r) y.
Proof.
  intros C Hn. pose proof (creach_reach _ _ _ _ _ C) as Rs. simpl in Rs. pose proof (inv_reach s Rs) as I.
  destruct (creach_ei g Hnd Hstart F _ C) as [E L]. simpl in E, L.
  pose proof (creach_lkid F _ C) as K. simpl in K. specialize (K Hn). destruct K as (K1 & K2 & K3 & K4).
  specialize (L Hn). destruct L as [L1 L2].
  assert (Hidle : (exists y, cstep false Dag g (s, r) y) \/ cp s = CIdle).
  { destruct (deadlock_free s I) as [[Hc _]|[s1 Hd]]; [right; exact Hc|].
    destruct Hd as [a b Hs Hl]. destruct (Nat.eq_dec (num b) (num a)) as [En|En].
    - left. exists (b, r). apply c_proto; assumption.
    - right. apply (step_not_proto _ _ Hs Hl En). }
  destruct Hidle as [Hex|Hc]; [exact Hex|].
  destruct (r_exp r) as [|t q] eqn:Ee.
  - destruct (r_ph r) eqn:Ep.
    + destruct (num s) as [|n] eqn:En.
      * eexists. apply c_none; auto.
      * eexists. eapply c_await; eauto.
    + destruct L2 as [_ [[_ Lb]|(x0 & Lc & _)]]; [rewrite Hc in Lb; destruct Lb|].
      destruct x0 as [t e].
      assert (Enc : new_col s r = [(t, e)]).
      { unfold new_col. rewrite Lc. simpl length.
        replace (S (length (r_col r)) - length (r_col r)) with 1 by lia. reflexivity. }
      assert (Hpl : In (t, e) (places s)).
      { unfold places. apply in_or_app. right. apply in_or_app. right. apply in_or_app. right.
        rewrite Lc. left; reflexivity. }
      destruct (i_flag s I t e Hpl) as (p & b & G & Eb).
      assert (Hk : In t (map fst (epcs s))).
      { destruct (in_dec N.eq_dec t (map fst (epcs s))) as [Y|Nn]; [exact Y|].
        apply get_pc_none in Nn. congruence. }
      simpl in K1. rewrite app_nil_r in K1.
      assert (Hr : In t (ids_of (r_run r))).
      { apply (Permutation_in _ K1) in Hk. apply in_app_or in Hk. destruct Hk as [Y|Y]; [exact Y|].
        exfalso. destruct (exactly_once s Rs) as (_ & _ & Nc & _). rewrite Lc in Nc. simpl in Nc.
        inversion Nc; subst. contradiction. }
      destruct (split_task_some _ _ Hr) as (x & rest & Esp).
      assert (Ef : Bool.eqb e (flag_of x) = true).
      { destruct (K3 x (split_task_in _ _ _ _ Esp)) as (p' & G'); [simpl; tauto|].
        rewrite (split_task_tid _ _ _ _ Esp) in G'. rewrite G in G'. inversion G'; subst.
        unfold flag_of. apply Bool.eqb_reflx. }
      assert (exists r', resolve_eager g s r = Some r') as [r' Hr'].
      { unfold resolve_eager. rewrite Enc, Esp, Ef. simpl.
        destruct (failed x); [eauto|]. destruct (calc_next Dag g (r_ch r) [run_task x]); eauto. }
      exists (s, r'). apply c_resolve_e; auto.
  - (* a task waits to be handed over: its key is fresh *)
    assert (Nl : NoDup (map fst (r_log r))).
    { pose proof (creach_log_ok g Hnd Hstart F _ C) as [N _]. exact N. }
    assert (Nf : ~ In (tid t) (map fst (epcs s))).
    { pose proof (Permutation_NoDup K2 Nl) as N2. simpl in N2.
      apply NoDup_remove_2 in N2. intros Y. apply N2. apply in_or_app. left; exact Y. }
    exists (submit1 false t s, set_exp r q). apply c_sub; auto.
    + rewrite Ee. simpl. rewrite N.eqb_refl. reflexivity.
    + apply get_pc_none. exact Nf.
Qed.

(* ------------------------------------------------------------------ a variant *)

Definition phw (p : phase) : nat := match p with PGot => 1 | PWait => 0 end.
Definition cmeas (x : st * rl) : nat :=
  2 * mu (fst x) + 27 * length (r_exp (snd x)) + 28 * (length g - length (r_log (snd x))) + phw (r_ph (snd x)).

Lemma wsum_app a b : wsum (a ++ b) = wsum a + wsum b.
Proof. induction a as [|[t [p bb]] a IH]; simpl; [reflexivity|rewrite IH; lia]. Qed.

Lemma log_len F x : creach false Dag g F x -> length (r_log (snd x)) <= length g.
Proof.
  intros C. destruct (creach_log_ok g Hnd Hstart F _ C) as [N Hin].
  rewrite <- (map_length fst (r_log (snd x))), <- (map_length n_id g).
  apply NoDup_incl_length; [exact N|].
  intros y Hy. apply in_map_iff in Hy. destruct Hy as ([y' i] & <- & Hy). apply (Hin _ _ Hy).
Qed.

Lemma cstep_meas F x y : creach false Dag g F x -> r_res (snd x) = None -> cstep false Dag g x y ->
  r_res (snd y) <> None \/ cmeas y < cmeas x.
Proof.
  intros C Hn Hs. pose proof (log_len F y (cr_step _ _ _ _ _ _ C Hs)) as Ly.
  destruct x as [s r], y as [s' r']. simpl in *.
  destruct (creach_ei g Hnd Hstart F _ C) as [_ L]. simpl in L. specialize (L Hn). destruct L as [_ L2].
  inversion Hs; subst; unfold cmeas; simpl.
  - right. match goal with H : step s s' |- _ => rename H into St end.
    assert (D : dstep s s').
    { constructor; [exact St|]. rewrite <- (map_length fst (epcs s')), <- (map_length fst (epcs s)).
      f_equal. apply step_num_keys; assumption. }
    pose proof (dstep_mu _ _ D). lia.
  - right.
    match goal with H : split_task _ _ = Some _ |- _ => apply split_task_perm in H; apply Permutation_length in H; simpl in H; rename H into P end.
    match goal with H : cp s = CIdle |- _ => rename H into Hc end.
    unfold mu, submit1. simpl. rewrite wsum_app, Hc. simpl.
    destruct sy; simpl; lia.
  - right. unfold mu, await_st. simpl.
    match goal with H : cp s = CIdle |- _ => rewrite H end.
    match goal with H : num s = S _ |- _ => rewrite H end.
    match goal with H : r_ph r = PWait |- _ => rewrite H end. simpl. lia.
  - left. discriminate.
  - discriminate.
  - match goal with H : resolve_eager _ _ _ = Some _ |- _ => rename H into Hr end.
    match goal with H : r_ph r = PGot |- _ => rewrite H in * end.
    destruct L2 as [Le _].
    unfold resolve_eager in Hr.
    destruct (new_col s' r) as [|[t e] [|? ?]]; try discriminate.
    destruct (split_task t (r_run r)) as [[x rest]|]; [|discriminate].
    destruct (negb (Bool.eqb e (flag_of x))); [discriminate|].
    destruct (failed x); [inversion Hr; subst; left; simpl; discriminate|].
    destruct (calc_next Dag g (r_ch r) [run_task x]) as [vE|ts ch'];
      inversion Hr; subst; [left; simpl; discriminate|].
    unfold enter in *. destruct (existsb prefail ts); [left; simpl; discriminate|].
    right. simpl in *. rewrite Le. simpl.
    rewrite app_length in *. unfold log_of in *. rewrite map_length in *. lia.
Qed.

(* ------------------------------------------------------------------ inevitability *)

Inductive CAF (P : st * rl -> Prop) : st * rl -> Prop :=
| caf_now x : P x -> CAF P x
| caf_next x : (exists y, cstep false Dag g x y) -> (forall y, cstep false Dag g x y -> CAF P y) -> CAF P x.

Lemma eager_no_hang F x : creach false Dag g F x -> CAF (fun y => r_res (snd y) <> None) x.
Proof.
  induction x as [x IH] using (induction_ltof1 _ cmeas). unfold ltof in IH. intros C.
  destruct (r_res (snd x)) eqn:Er; [apply caf_now; congruence|].
  apply caf_next.
  - destruct x as [s r]. eapply cstep_enabled; eassumption.
  - intros y Hs. destruct (cstep_meas F x y C Er Hs) as [K|K]; [apply caf_now; exact K|].
    apply IH; [exact K|]. eapply cr_step; eassumption.
Qed.

End Live.
