(* Proofs/BatchDagOnce.v — property C03, batch mode with all-predecessor (dag) channels: the canonical
   run executes no node twice, for EVERY graph (cyclic or not: a node on a cycle never becomes ready) and
   every step limit.  A node becomes ready when every predecessor has reported since the node's channel
   was last cleared; a started node's channel is empty, and a predecessor of a started node has already
   run, so it would have to run a second time to report again.
   This discharges, for the dag channels, the hypothesis of the whole-run no-hang theorems of the
   composed system (Proofs/RunHandoffLiveBatch.v: the key of a task is the key of its node). *)
From Eino Require Import Base.Util Model.Confluence Proofs.Confluence Proofs.Eager.
From Coq Require Import Permutation Lia.

Lemma nodup_app_left {A} (a b : list A) : NoDup (a ++ b) -> NoDup a.
Proof.
  induction a as [|x a IH]; simpl; intros H; [constructor|]. inversion H; subst.
  constructor; [|apply IH; assumption]. intros K. apply H2. apply in_or_app. left; exact K.
Qed.

Section DagOnce.
Variable g : graph.
Hypothesis Hnd : NoDup (map n_id g).
Hypothesis Hstart : ~ In START (map n_id g).

Lemma report_all_dmem cs : forall s n p, In n g ->
  dmem (n_id n, p) (deps (report_all g s cs)) =
  (nmem p (map fst cs) && nmem p (n_preds n)) || dmem (n_id n, p) (deps s).
Proof.
  induction cs as [|[x v] cs IH]; intros s n p Hin; simpl; [reflexivity|].
  unfold report_all in *. simpl. rewrite IH by exact Hin. rewrite (report_dmem g Hnd) by exact Hin.
  destruct (N.eqb p x) eqn:E.
  - apply N.eqb_eq in E. subst x. simpl.
    destruct (nmem p (n_preds n)); simpl; [rewrite ?orb_true_r; reflexivity|].
    rewrite ?andb_false_r. reflexivity.
  - simpl. reflexivity.
Qed.

Lemma ready_dag_true s n : ready Dag s n = true ->
  n_preds n <> [] /\ forall p, In p (n_preds n) -> dmem (n_id n, p) (deps s) = true.
Proof.
  simpl. intros H. apply andb_true_iff in H. destruct H as [H1 H2]. split.
  - destruct (n_preds n); [discriminate|congruence].
  - intros p Hp. rewrite forallb_forall in H2. specialize (H2 p Hp).
    apply andb_true_iff in H2. exact (proj1 H2).
Qed.

(* [L] = the keys of the nodes that have been started (the log and the tasks in flight), [D] = the keys
   that have completed (START included) *)
Record J (s : cstate) (L D : list nid) : Prop := mkJ {
  j_nd : NoDup L;
  j_empty : forall n, In n g -> In (n_id n) L -> forall p, dmem (n_id n, p) (deps s) = false;
  j_preds : forall n, In n g -> In (n_id n) L -> forall p, In p (n_preds n) -> p = START \/ In p D;
  j_deps : forall n, In n g -> forall p, dmem (n_id n, p) (deps s) = true -> p = START \/ In p D;
}.

(* the tasks [cs] complete (each for the first time): the nodes that become ready are new *)
Lemma j_step s L D (cs : list (nid * val)) :
  J s L D -> (forall x, In x (map fst cs) -> ~ In x D) -> (In START (map fst cs) -> L = []) ->
  let s1 := report_all g s cs in
  let rs := filter (ready Dag s1) g in
  let s2 := fold_left clear (map n_id rs) s1 in
  J s2 (L ++ map n_id rs) (D ++ map fst cs).
Proof.
  intros Jn Hcs HS s1 rs s2.
  assert (FA : forall n, In n g -> In (n_id n) L -> forall p, dmem (n_id n, p) (deps s1) = false).
  { intros n Hin HL p. unfold s1. rewrite report_all_dmem by exact Hin.
    rewrite (j_empty _ _ _ Jn n Hin HL p), orb_false_r.
    destruct (nmem p (map fst cs)) eqn:E1; [|reflexivity].
    destruct (nmem p (n_preds n)) eqn:E2; [|reflexivity]. exfalso.
    apply nmem_In in E1. apply nmem_In in E2.
    destruct (j_preds _ _ _ Jn n Hin HL p E2) as [->|K]; [|exact (Hcs p E1 K)].
    rewrite (HS E1) in HL. destruct HL. }
  assert (FD : forall n, In n g -> forall p, dmem (n_id n, p) (deps s1) = true -> p = START \/ In p (D ++ map fst cs)).
  { intros n Hin p H. unfold s1 in H. rewrite report_all_dmem in H by exact Hin.
    apply orb_true_iff in H. destruct H as [H|H].
    - apply andb_true_iff in H. destruct H as [H _]. apply nmem_In in H. right. apply in_or_app. right; exact H.
    - destruct (j_deps _ _ _ Jn n Hin p H) as [K|K]; [left; exact K|right; apply in_or_app; left; exact K]. }
  assert (FB : forall n, In n rs -> In n g /\ ~ In (n_id n) L /\
                                    forall p, In p (n_preds n) -> p = START \/ In p (D ++ map fst cs)).
  { intros n Hn. apply filter_In in Hn. destruct Hn as [Hin Hr].
    destruct (ready_dag_true _ _ Hr) as [Hne Hall]. split; [exact Hin|]. split.
    - intros HL. destruct (n_preds n) as [|p0 ps] eqn:Ep; [congruence|].
      pose proof (Hall p0 (or_introl eq_refl)) as H0. rewrite (FA n Hin HL p0) in H0. discriminate.
    - intros p Hp. apply (FD n Hin p). apply Hall, Hp. }
  split.
  - apply NoDup_app_intro; [apply (j_nd _ _ _ Jn)|apply filter_ids_nodup; exact Hnd|].
    intros y Hy K. apply in_map_iff in K. destruct K as (n & <- & Hn). apply (FB n Hn). exact Hy.
  - intros n Hin HL p. unfold s2. rewrite clear_all_dmem. simpl.
    destruct (nmem (n_id n) (map n_id rs)) eqn:E; [reflexivity|].
    apply nmem_false in E. apply in_app_or in HL. destruct HL as [HL|HL]; [|contradiction].
    apply FA; assumption.
  - intros n Hin HL p Hp. apply in_app_or in HL. destruct HL as [HL|HL].
    + destruct (j_preds _ _ _ Jn n Hin HL p Hp) as [K|K]; [left; exact K|right; apply in_or_app; left; exact K].
    + apply in_map_iff in HL. destruct HL as (n' & E & Hn'). destruct (FB n' Hn') as (Hin' & _ & K).
      assert (n' = n) by (apply (node_eq g Hnd); auto). subst n'. apply K, Hp.
  - intros n Hin p H. unfold s2 in H. rewrite clear_all_dmem in H. simpl in H.
    destruct (nmem (n_id n) (map n_id rs)); [discriminate|]. apply (FD n Hin p H).
Qed.

Definition tin (ts : list (node * val)) : Prop := forall t, In t ts -> In (fst t) g.

Lemma calc_next_shape s cs ts s' :
  calc_next Dag g s cs = NTasks ts s' ->
  ids_of ts = map n_id (filter (ready Dag (report_all g s cs)) g) /\
  s' = fold_left clear (map n_id (filter (ready Dag (report_all g s cs)) g)) (report_all g s cs) /\
  tin ts.
Proof.
  unfold calc_next, take_ready. cbv zeta.
  destruct (find is_end _) as [[n v]|]; [discriminate|]. intros H. inversion H; subst.
  split; [apply ids_of_tasks|]. split; [reflexivity|].
  intros t Ht. apply in_map_iff in Ht. destruct Ht as (n & <- & Hn). simpl.
  apply filter_In in Hn. exact (proj1 Hn).
Qed.

Lemma map_fst_run_task ts : map fst (map run_task ts) = ids_of ts.
Proof. unfold ids_of. rewrite map_map. reflexivity. Qed.

Lemma run_batch_dag_nodup : forall fuel s tasks log D,
  J s (map fst log ++ ids_of tasks) D -> tin tasks ->
  (forall x, In x D -> x = START \/ In x (map fst log)) ->
  NoDup (map fst (snd (run_batch (fun l => l) Dag g fuel s tasks log))).
Proof.
  induction fuel as [|f IH]; intros s tasks log D Jn Ht HD.
  - simpl. pose proof (j_nd _ _ _ Jn) as N. apply nodup_app_left in N. exact N.
  - assert (N0 : NoDup (map fst log)) by (pose proof (j_nd _ _ _ Jn) as N; apply nodup_app_left in N; exact N).
    assert (N1 : NoDup (map fst (log ++ log_of tasks))).
    { rewrite map_app, log_of_ids. apply (j_nd _ _ _ Jn). }
    simpl. destruct (existsb prefail tasks); [exact N0|].
    destruct (existsb failed tasks); [exact N1|].
    destruct tasks as [|t0 ts0]; [exact N1|].
    destruct (calc_next Dag g s (map run_task (t0 :: ts0))) as [v|ts s'] eqn:Ec; [exact N1|].
    destruct (calc_next_shape _ _ _ _ Ec) as (Eids & Es & Htin). cbv zeta in *.
    apply (IH s' ts (log ++ log_of (t0 :: ts0)) (D ++ map fst (map run_task (t0 :: ts0)))).
    + rewrite map_app, log_of_ids, Eids, Es. apply j_step.
      * exact Jn.
      * intros x Hx HxD. rewrite map_fst_run_task in Hx.
        destruct (HD x HxD) as [->|K].
        -- apply Hstart. unfold ids_of in Hx. apply in_map_iff in Hx. destruct Hx as (t & <- & Hin).
           apply in_map. apply Ht, Hin.
        -- pose proof (j_nd _ _ _ Jn) as N. clear -N K Hx. induction (map fst log) as [|a l IHl]; [contradiction|].
           simpl in N. inversion N; subst. destruct K as [->|K]; [|auto].
           apply H1. apply in_or_app. right; exact Hx.
      * intros Hx. exfalso. rewrite map_fst_run_task in Hx. apply Hstart.
        unfold ids_of in Hx. apply in_map_iff in Hx. destruct Hx as (t & <- & Hin). apply in_map. apply Ht, Hin.
    + exact Htin.
    + intros x Hx. apply in_app_or in Hx. destruct Hx as [Hx|Hx].
      * destruct (HD x Hx) as [K|K]; [left; exact K|right]. rewrite map_app. apply in_or_app. left; exact K.
      * right. rewrite map_fst_run_task in Hx. rewrite map_app, log_of_ids. apply in_or_app. right; exact Hx.
Qed.

Theorem batch_dag_nodup fuel : NoDup (map fst (snd (batch (fun l => l) Dag g fuel))).
Proof.
  unfold batch, start_next. destruct (calc_next Dag g cinit [(START, input_val)]) as [v|ts s] eqn:Ec; [constructor|].
  destruct (calc_next_shape _ _ _ _ Ec) as (Eids & Es & Htin). cbv zeta in *.
  apply (run_batch_dag_nodup fuel s ts [] [START]).
  - simpl. rewrite Eids, Es.
    assert (J0 : J cinit [] []).
    { split; [constructor|intros n _ []|intros n _ []|intros n _ p H; discriminate H]. }
    pose proof (j_step cinit [] [] [(START, input_val)] J0) as K. cbv zeta in K. simpl in K. apply K.
    + intros x _ [].
    + reflexivity.
  - exact Htin.
  - intros x [<-|[]]. left; reflexivity.
Qed.

End DagOnce.
