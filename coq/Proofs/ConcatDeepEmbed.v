(* Proofs/ConcatDeepEmbed.v — the one-level model of map chunks with message values
   (Model/ConcatMsgMap.v) is the restriction of the nested one (Model/ConcatDeep.v) to chunks
   without nested maps and message lists: on embedded chunks the two compute the same. *)
From Eino Require Import Base.Util Model.Concat Model.ConcatMsg Model.ConcatMsgMap Model.ConcatDeep.
From Eino Require Import Proofs.Concat Proofs.ConcatRechunk.

Lemma res_map_map {A B C} (f : A -> B) (g : B -> C) (r : res A) : res_map g (res_map f r) = res_map (fun a => g (f a)) r.
Proof. destruct r; reflexivity. Qed.

Lemma res_mapM_res_map {A B C} (f : A -> res B) (g : B -> C) (l : list A) :
  res_mapM (fun a => res_map g (f a)) l = res_map (map g) (res_mapM f l).
Proof.
  induction l as [|a l IH]; cbn; [reflexivity|].
  destruct (f a); cbn; [|reflexivity|reflexivity]. rewrite IH. destruct (res_mapM f l); reflexivity.
Qed.

Lemma gkeys_embed_from (ms : list (list (string * mval))) : forall K,
  fold_left (fun ks m => fold_left (fun ks kv => add_key (fst kv) ks) m ks) (map d_of_mmap ms) K =
  fold_left (fun ks m => fold_left (fun ks kv => add_key (fst kv) ks) m ks) ms K.
Proof.
  induction ms as [|m ms IH]; intros K; cbn [map fold_left]; [reflexivity|].
  rewrite IH. f_equal. unfold d_of_mmap. revert K. induction m as [|kv m IHm]; intros K; cbn; [reflexivity|]. apply IHm.
Qed.

Lemma gkeys_embed ms : gkeys_of (map d_of_mmap ms) = gkeys_of ms.
Proof. apply gkeys_embed_from. Qed.

Lemma alist_get_embed k m : alist_get k (d_of_mmap m) = option_map d_of_mval (alist_get k m).
Proof.
  unfold d_of_mmap. induction m as [|[k' v] m IH]; cbn; [reflexivity|]. destruct (String.eqb k k'); [reflexivity|exact IH].
Qed.

Lemma gvals_embed k ms : gvals_at k (map d_of_mmap ms) = map d_of_mval (gvals_at k ms).
Proof.
  unfold gvals_at. induction ms as [|m ms IH]; cbn [map flat_map]; [reflexivity|].
  rewrite map_app, IH, alist_get_embed. destruct (alist_get k m); reflexivity.
Qed.

Lemma filter_map_comm {A B} (f : A -> B) (p : B -> bool) (q : A -> bool) l :
  (forall a, p (f a) = q a) -> filter p (map f l) = map f (filter q l).
Proof.
  intros H. induction l as [|a l IH]; cbn; [reflexivity|]. rewrite H. destruct (q a); cbn; rewrite IH; reflexivity.
Qed.

Lemma forallb_map_ext {A B} (f : A -> B) (p : B -> bool) (q : A -> bool) l :
  (forall a, p (f a) = q a) -> forallb p (map f l) = forallb q l.
Proof. intros H. induction l as [|a l IH]; cbn; [reflexivity|]. rewrite H, IH. reflexivity. Qed.

Section User.
Context {U : UserFn}.

Lemma dkey_embed rec vs : dkey rec (map d_of_mval vs) = res_map d_of_mval (concat_mkey vs).
Proof.
  unfold dkey, concat_mkey.
  rewrite (filter_map_comm d_of_mval _ (fun v => negb (is_mnil v))) by (intros [| |[]]; reflexivity).
  destruct (filter _ vs) as [|v0 l]; [reflexivity|]. cbn [map].
  change (d_of_mval v0 :: map d_of_mval l) with (map d_of_mval (v0 :: l)).
  destruct (is_msgkind v0) eqn:K0.
  - assert (Kd : kind_of (d_of_mval v0) = KMsg) by (destruct v0; cbn in *; congruence).
    rewrite Kd.
    rewrite (forallb_map_ext d_of_mval _ is_msgkind) by (intros [| |c]; reflexivity).
    destruct (forallb is_msgkind (v0 :: l)); [|reflexivity].
    destruct l as [|b l]; [reflexivity|].
    cbn [dkind_concat map]. rewrite res_map_map.
    change (d_omsg (d_of_mval v0) :: d_omsg (d_of_mval b) :: map d_omsg (map d_of_mval l))
      with (map d_omsg (map d_of_mval (v0 :: b :: l))).
    rewrite map_map.
    rewrite (map_ext (fun x => d_omsg (d_of_mval x)) to_omsg) by (intros [| |c]; reflexivity).
    reflexivity.
  - assert (Kd : kind_of (d_of_mval v0) = KVal) by (destruct v0; cbn in *; congruence).
    rewrite Kd.
    rewrite (forallb_map_ext d_of_mval _ (fun v => negb (is_msgkind v))) by (intros [| |c]; reflexivity).
    destruct (forallb _ (v0 :: l)); [|reflexivity].
    cbn [dkind_concat]. rewrite res_map_map, map_map.
    rewrite (map_ext (fun x => d_cval (d_of_mval x)) to_cval) by (intros [| |c]; reflexivity).
    reflexivity.
Qed.

Lemma kstep_embed rec ms : kstep (dkey rec) (map d_of_mmap ms) = res_map d_of_mmap (concat_mmaps ms).
Proof.
  unfold concat_mmaps, kstep. rewrite gkeys_embed.
  rewrite <- (res_mapM_res_map (fun k => res_map (fun v => (k, v)) (concat_mkey (gvals_at k ms)))
               (fun kv : string * mval => (fst kv, d_of_mval (snd kv)))).
  apply Proofs.ConcatRechunk.res_mapM_ext_in. intros k _.
  rewrite gvals_embed, dkey_embed, !res_map_map. reflexivity.
Qed.

(* concatStreamReader on chunks of the one-level model, seen as chunks of the nested model *)
Theorem dmap_stream_embed l : dmap_stream (map d_of_mmap l) = res_map d_of_mmap (mmap_stream l).
Proof.
  destruct l as [|x1 [|x2 l]]; [reflexivity|reflexivity|].
  cbn [map dmap_stream mmap_stream]. unfold deep_maps_top. cbn [deep_maps].
  change (d_of_mmap x1 :: d_of_mmap x2 :: map d_of_mmap l) with (map d_of_mmap (x1 :: x2 :: l)).
  apply kstep_embed.
Qed.

End User.
