(* Proofs/StreamClose.v — close bookkeeping of Model/Stream.v (property C08), safety half:
   closedNum counts the closed children; nothing (no base stream, no child slot) is ever
   closed unless the reader that owns it has been closed: a live handle by the user, a copy
   parent's source when all its children are closed, a forwarder's source when the
   forwarder has finished. *)
From Eino Require Import Base.Util Model.Stream Proofs.Stream Proofs.StreamRel Proofs.StreamWf.
From Coq Require Import Lia Permutation.

(* ------------------------------------------------------------------ closedNum = number of nil slots *)

Fixpoint count_none (l : list (option nat)) : nat :=
  match l with
  | [] => 0
  | None :: r => S (count_none r)
  | Some _ :: r => count_none r
  end.

Lemma count_none_le : forall l, count_none l <= List.length l.
Proof. induction l as [|[c|] l IH]; simpl; lia. Qed.

Lemma count_none_all : forall l, count_none l = List.length l ->
  forall j, j < List.length l -> nth_error l j = Some None.
Proof.
  induction l as [|[c|] l IH]; simpl; intros H j Hj; try lia.
  - pose proof (count_none_le l). lia.
  - destruct j; simpl; auto. apply IH; lia.
Qed.

Lemma count_none_some : forall l j c, nth_error l j = Some (Some c) -> count_none l < List.length l.
Proof.
  induction l as [|[c0|] l IH]; intros [|j] c H; simpl in *; try discriminate.
  - pose proof (count_none_le l). lia.
  - pose proof (count_none_le l). lia.
  - apply IH in H. lia.
Qed.

Lemma count_none_upd_close : forall l j c, nth_error l j = Some (Some c) ->
  count_none (upd l j None) = S (count_none l).
Proof.
  induction l as [|[c0|] l IH]; intros [|j] c H; simpl in *; try discriminate; auto.
  - erewrite IH; eauto.
  - erewrite IH; eauto.
Qed.

Lemma count_none_same : forall l l', List.length l' = List.length l ->
  (forall i, nth_error l' i = Some None <-> nth_error l i = Some None) ->
  count_none l' = count_none l.
Proof.
  induction l as [|a l IH]; intros [|a' l'] Hl H; simpl in *; try discriminate; auto.
  assert (IH' : count_none l' = count_none l).
  { apply IH; [lia|]. intros i. apply (H (S i)). }
  pose proof (H 0) as H0. simpl in H0.
  destruct a as [c|], a' as [c'|]; simpl; try lia.
  - destruct H0 as [X _]. specialize (X eq_refl). discriminate.
  - destruct H0 as [_ X]. specialize (X eq_refl). discriminate.
Qed.

Definition pcnt (st : store) : Prop :=
  forall q Q, nth_error (parents st) q = Some Q -> p_closed Q = count_none (p_cur Q).

Lemma pcnt_store_rel : forall st st', store_rel st st' -> pcnt st -> pcnt st'.
Proof.
  intros st st' [_ H2] Hp q Q' HQ'. destruct (Forall2_nth_r _ _ _ _ _ _ H2 HQ') as (Q & HQ & (_ & Hl & Hc & _ & Hn)).
  rewrite Hc. rewrite (Hp _ _ HQ). symmetry. apply count_none_same; auto.
Qed.

Lemma pcnt_set_parent : forall st p P', pcnt st -> p_closed P' = count_none (p_cur P') -> pcnt (set_parent st p P').
Proof.
  intros st p P' Hp HP' q Q HQ. simpl in HQ. destruct (nth_error_upd _ _ _ _ _ _ HQ) as [[-> ->]|[Hn HQ0]]; auto.
  eapply Hp; eauto.
Qed.

Lemma pcnt_same_parents : forall st st', parents st' = parents st -> pcnt st -> pcnt st'.
Proof. intros st st' E H q Q HQ. rewrite E in HQ. eapply H; eauto. Qed.

Lemma close_streams_parents : forall sids st c st', close_streams st sids = (c, st') -> parents st' = parents st.
Proof.
  induction sids as [|sid r IH]; intros st c st' H; cbn [close_streams] in H.
  - inversion H; subst; auto.
  - destruct (nth_error (streams st) sid) as [s|]; [|inversion H; subst; auto].
    destruct (stream_close_recv s) as [c0 s0]. destruct c0; try (inversion H; subst; auto; fail).
    apply IH in H. exact H.
Qed.

Lemma Close_pcnt : forall st t c st', Close st t c st' -> pcnt st -> pcnt st'.
Proof.
  intros st t c st' H. induction H; intros Hp; auto.
  - eapply pcnt_same_parents; [eapply close_streams_parents; eauto | exact Hp].
  - eapply pcnt_same_parents; [eapply close_streams_parents; eauto | exact Hp].
  - apply IHClose. apply pcnt_set_parent; auto. simpl. rewrite (Hp _ _ H). f_equal. symmetry. eapply count_none_upd_close; eauto.
  - apply pcnt_set_parent; auto. simpl. rewrite (Hp _ _ H). symmetry. eapply count_none_upd_close; eauto.
Qed.

Lemma count_none_repeat_some : forall n c, count_none (repeat (Some c) n) = 0.
Proof. induction n; simpl; auto. Qed.

Lemma pcnt_add_parent : forall st t n, pcnt st -> pcnt (add_parent st (new_parent t n)).
Proof.
  intros st t n Hp q Q HQ. simpl in HQ.
  destruct (Nat.lt_ge_cases q (List.length (parents st))) as [Hlt|Hge].
  - rewrite nth_error_app1 in HQ by exact Hlt. eapply Hp; eauto.
  - rewrite nth_error_app2 in HQ by exact Hge.
    destruct (q - List.length (parents st)) as [|k]; simpl in HQ; [|destruct k; discriminate].
    inversion HQ; subst. simpl. rewrite count_none_repeat_some. reflexivity.
Qed.

Lemma do_op_pcnt : forall fuel G o b G', do_op fuel G o = (b, G') -> pcnt (st_store G) -> pcnt (st_store G').
Proof.
  intros fuel G o b G' H Hp.
  destruct o as [cap | xs | h n | hs | h f | sid x | sid | h ch | h | k ch]; simpl in H.
  - inversion H; subst. exact Hp.
  - inversion H; subst. exact Hp.
  - destruct (live_rd G h) as [t|] eqn:El; [|inversion H; subst; auto].
    destruct (Nat.ltb n 2); [inversion H; subst; auto|].
    destruct t; inversion H; subst; clear H; simpl; rewrite ?consume_store; auto; apply pcnt_add_parent; auto.
  - destruct hs as [|h0 [|h1 hs']]; [inversion H; subst; auto| |].
    { destruct (live_rd G h0); inversion H; subst; auto. }
    destruct (negb (nodupb (h0 :: h1 :: hs'))); [inversion H; subst; auto|].
    destruct (live_rds G (h0 :: h1 :: hs')) as [ts|] eqn:El; [|inversion H; subst; auto].
    rewrite consume_all_store, consume_all_fwds in H.
    destruct (merge_collect _ _ ts [] []) as [[[st1 fw1] ss] arr] eqn:Em.
    destruct (merge_collect_spec _ _ _ _ _ _ _ _ _ Em) as (P1 & _).
    destruct ss as [|s0 ss']; destruct arr as [|a0 arr']; inversion H; subst; clear H; simpl;
      eapply pcnt_same_parents; eauto.
  - destruct (live_rd G h) as [t|] eqn:El; [|inversion H; subst; auto].
    inversion H; subst. simpl. rewrite consume_store. exact Hp.
  - destruct (nth_error (streams (st_store G)) sid) as [s|] eqn:Es; [|inversion H; subst; auto].
    destruct (negb (s_user s)); [inversion H; subst; auto|].
    destruct (stream_send s x) as [r s'] eqn:E. inversion H; subst. exact Hp.
  - destruct (nth_error (streams (st_store G)) sid) as [s|] eqn:Es; [|inversion H; subst; auto].
    destruct (negb (s_user s)); [inversion H; subst; auto|].
    destruct (stream_close_send s) as [r s'] eqn:E. inversion H; subst. exact Hp.
  - destruct (nth_error (st_handles G) h) as [Hh|] eqn:Eh; [|inversion H; subst; auto].
    destruct (negb (h_live Hh)); [inversion H; subst; auto|].
    destruct (recv fuel (st_store G) (h_rd Hh) ch) as [[[r st1] t1] ch1] eqn:Er.
    inversion H; subst. simpl. apply recv_Recv in Er. eapply pcnt_store_rel; eauto. apply (Recv_static _ _ _ _ _ Er).
  - destruct (nth_error (st_handles G) h) as [Hh|] eqn:Eh; [|inversion H; subst; auto].
    destruct (negb (h_live Hh)); [inversion H; subst; auto|].
    destruct (close_rd fuel (st_store G) (h_rd Hh)) as [r st1] eqn:Er.
    inversion H; subst. simpl. apply close_Close in Er. eapply Close_pcnt; eauto.
  - destruct (nth_error (st_fwds G) k) as [F|] eqn:EF; [|inversion H; subst; auto].
    destruct (f_st F) as [|x| |].
    + destruct (recv fuel (st_store G) (f_src F) ch) as [[[r st1] src1] ch1] eqn:Er.
      apply recv_Recv in Er. pose proof (pcnt_store_rel _ _ (proj1 (Recv_static _ _ _ _ _ Er)) Hp) as Hp1.
      destruct r; try (inversion H; subst; exact Hp1).
      destruct (nth_error (streams st1) (f_dst F)) as [d|] eqn:Ed; [|inversion H; subst; auto].
      destruct (stream_close_send d) as [r0 d'] eqn:Ec. inversion H; subst. exact Hp1.
    + destruct (nth_error (streams (st_store G)) (f_dst F)) as [d|] eqn:Ed; [|inversion H; subst; auto].
      destruct (stream_send d x) as [r d'] eqn:Es.
      destruct r; try (inversion H; subst; auto; fail).
      destruct (stream_close_send d) as [r0 d''] eqn:Ec. inversion H; subst. exact Hp.
    + destruct (close_rd fuel (st_store G) (f_src F)) as [r st1] eqn:Er.
      inversion H; subst. simpl. apply close_Close in Er. eapply Close_pcnt; eauto.
    + inversion H; subst; auto.
Qed.

Lemma run_pcnt : forall fuel ops G bs G', run fuel G ops = (bs, G') -> pcnt (st_store G) -> pcnt (st_store G').
Proof.
  intros fuel. induction ops as [|o r IH]; intros G bs G' H HG; simpl in H.
  - inversion H; subst; auto.
  - destruct (do_op fuel G o) as [b G1] eqn:E1. destruct (run fuel G1 r) as [bs2 G2] eqn:E2.
    inversion H; subst. eapply IH; eauto. eapply do_op_pcnt; eauto.
Qed.

Lemma init_pcnt : pcnt (st_store init_state).
Proof. intros q Q H. destruct q; discriminate. Qed.

(* ------------------------------------------------------------------ closed references *)

Definition all_closed (Q : parent) : Prop := p_closed Q = List.length (p_cur Q).

Definition rclosed (st : store) (r : ref) : Prop :=
  match r with
  | RS sid => exists s, nth_error (streams st) sid = Some s /\ 0 < s_rclosed s
  | RC q j => exists Q, nth_error (parents st) q = Some Q /\ nth_error (p_cur Q) j = Some None
  end.

Lemma rclosed_store_rel : forall st st' r, store_rel st st' -> (rclosed st' r <-> rclosed st r).
Proof.
  intros st st' [sid|q j] [H1 H2]; simpl; split.
  - intros (s' & Hs' & Hc). destruct (Forall2_nth_r _ _ _ _ _ _ H1 Hs') as (s & Hs & (_ & _ & E & _)). exists s. split; auto. lia.
  - intros (s & Hs & Hc). destruct (Forall2_nth _ _ _ _ _ _ H1 Hs) as (s' & Hs' & (_ & _ & E & _)). exists s'. split; auto. lia.
  - intros (Q' & HQ' & Hc). destruct (Forall2_nth_r _ _ _ _ _ _ H2 HQ') as (Q & HQ & (_ & _ & _ & _ & E)). exists Q. split; auto. apply E. exact Hc.
  - intros (Q & HQ & Hc). destruct (Forall2_nth _ _ _ _ _ _ H2 HQ) as (Q' & HQ' & (_ & _ & _ & _ & E)). exists Q'. split; auto. apply E. exact Hc.
Qed.

Lemma rclosed_cstore_mono : forall st st' r, cstore_rel st st' -> rclosed st r -> rclosed st' r.
Proof.
  intros st st' [sid|q j] [H1 H2]; simpl.
  - intros (s & Hs & Hc). destruct (Forall2_nth _ _ _ _ _ _ H1 Hs) as (s' & Hs' & (_ & _ & _ & _ & _ & _ & E)). exists s'. split; auto. lia.
  - intros (Q & HQ & Hc). destruct (Forall2_nth _ _ _ _ _ _ H2 HQ) as (Q' & HQ' & (_ & _ & _ & _ & _ & _ & _ & E & _)).
    exists Q'. split; auto. destruct (E j) as [X|X]; congruence.
Qed.

Lemma rclosed_set_stream : forall st sid s' r, rclosed (set_stream st sid s') r -> r = RS sid \/ rclosed st r.
Proof.
  intros st sid s' [sid0|q j]; simpl; auto.
  intros (s & Hs & Hc). destruct (Nat.eq_dec sid sid0) as [->|Hn]; auto.
  right. rewrite nth_error_upd_neq in Hs by exact Hn. eauto.
Qed.

Lemma rclosed_set_stream_same : forall st sid s s' r,
  nth_error (streams st) sid = Some s -> s_rclosed s' = s_rclosed s ->
  (rclosed (set_stream st sid s') r <-> rclosed st r).
Proof.
  intros st sid s s' [sid0|q j] Hs E; simpl; [|tauto].
  destruct (Nat.eq_dec sid sid0) as [<-|Hn].
  - rewrite nth_error_upd_eq by (apply nth_error_Some; congruence). rewrite Hs. split.
    + intros (x & Hx & Hc). inversion Hx; subst. exists s. split; auto. lia.
    + intros (x & Hx & Hc). inversion Hx; subst. exists s'. split; auto. lia.
  - rewrite nth_error_upd_neq by exact Hn. tauto.
Qed.

Lemma rclosed_close_child : forall st p P i r,
  nth_error (parents st) p = Some P ->
  forall P', p_cur P' = upd (p_cur P) i None ->
  rclosed (set_parent st p P') r -> r = RC p i \/ rclosed st r.
Proof.
  intros st p P i [sid|q j] HP P' Hc; simpl; auto.
  intros (Q & HQ & Hn). destruct (Nat.eq_dec p q) as [<-|Hne].
  - rewrite nth_error_upd_eq in HQ by (apply nth_error_Some; congruence). inversion HQ; subst Q.
    rewrite Hc in Hn. destruct (Nat.eq_dec i j) as [<-|Hij]; auto.
    right. rewrite nth_error_upd_neq in Hn by exact Hij. eauto.
  - right. rewrite nth_error_upd_neq in HQ by exact Hne. eauto.
Qed.

Lemma close_streams_new : forall sids st c st', close_streams st sids = (c, st') ->
  forall r, rclosed st' r -> rclosed st r \/ In r (map RS sids).
Proof.
  induction sids as [|sid l IH]; intros st c st' H r Hr; cbn [close_streams] in H.
  - inversion H; subst; auto.
  - destruct (nth_error (streams st) sid) as [s|] eqn:Es; [|inversion H; subst; auto].
    destruct (stream_close_recv s) as [c0 s0] eqn:Ec.
    assert (X : forall st2, (st2 = set_stream st sid s0 -> rclosed st2 r -> rclosed st r \/ In r (map RS (sid :: l)))).
    { intros st2 -> Hr2. apply rclosed_set_stream in Hr2. destruct Hr2 as [->|Hr2]; auto. right. left. reflexivity. }
    destruct c0; try (inversion H; subst; eapply X; eauto; fail).
    destruct (IH _ _ _ H r Hr) as [Hr2|Hin].
    + eapply X; eauto.
    + right. right. exact Hin.
Qed.

(* what a Close can newly close: the reader's own references, or references of the source
   of a copy parent all of whose children are closed *)
Lemma Close_new : forall st t c st', Close st t c st' -> pcnt st ->
  forall rr, rclosed st' rr ->
    rclosed st rr \/ In rr (refs t)
    \/ exists q Q, nth_error (parents st') q = Some Q /\ In rr (refs (p_src Q)) /\ all_closed Q.
Proof.
  intros st t c st' H. induction H; intros Hp rr Hr; auto.
  - destruct (close_streams_new _ _ _ _ H rr Hr); auto.
  - destruct (close_streams_new _ _ _ _ H rr Hr); auto.
  - (* last child *)
    set (P2 := src_closed (close_child P i)) in *.
    assert (Hp2 : pcnt (set_parent st p P2)).
    { apply pcnt_set_parent; auto. simpl. rewrite (Hp _ _ H). f_equal. symmetry. eapply count_none_upd_close; eauto. }
    destruct (IHClose Hp2 rr Hr) as [Hr2|[Hin|Hex]].
    + apply (rclosed_close_child st p P i rr H P2 eq_refl) in Hr2. destruct Hr2 as [->|Hr2]; auto.
      right. left. left. reflexivity.
    + right. right.
      pose proof (Close_static _ _ _ _ H2) as [_ SR].
      assert (HP2 : nth_error (parents (set_parent st p P2)) p = Some P2).
      { simpl. apply nth_error_upd_eq. apply nth_error_Some. congruence. }
      destruct (Forall2_nth _ _ _ _ _ _ SR HP2) as (Q' & HQ' & (E1 & _ & _ & E4 & _ & _ & _ & _ & E9 & _)).
      exists p, Q'. split; auto. split; [rewrite E1; exact Hin|].
      pose proof (Close_pcnt _ _ _ _ H2 Hp2 _ _ HQ') as Hc'.
      unfold all_closed. pose proof (count_none_le (p_cur Q')). simpl in H1, E4, E9. rewrite upd_length in H1, E4. lia.
    + right. right. exact Hex.
  - (* not last *)
    apply (rclosed_close_child st p P i rr H (close_child P i) eq_refl) in Hr. destruct Hr as [->|Hr]; auto.
    right. left. left. reflexivity.
Qed.

(* ------------------------------------------------------------------ owners *)

Inductive root : Type := RtH (h : nat) | RtP (q : nat) | RtF (k : nat).

Definition root_refs (G : state) (ro : root) : list ref :=
  match ro with
  | RtH h => match nth_error (st_handles G) h with Some H => hrefs H | None => [] end
  | RtP q => match nth_error (parents (st_store G)) q with Some Q => refs (p_src Q) | None => [] end
  | RtF k => match nth_error (st_fwds G) k with Some F => refs (f_src F) | None => [] end
  end.

Definition root_closed (G : state) (ro : root) : Prop :=
  match ro with
  | RtH h => exists H, nth_error (st_handles G) h = Some H /\ h_closed H = true
  | RtP q => exists Q, nth_error (parents (st_store G)) q = Some Q /\ all_closed Q
  | RtF k => exists F, nth_error (st_fwds G) k = Some F /\ f_st F = FDone
  end.

(* nothing is closed unless its owner is *)
Definition kinv (G : state) : Prop :=
  forall ro r, In r (root_refs G ro) -> rclosed (st_store G) r -> root_closed G ro.

Lemma flat_map_nth_in : forall A B (f : A -> list B) l i a x,
  nth_error l i = Some a -> In x (f a) -> In x (flat_map f l).
Proof. intros. apply in_flat_map. exists a. split; auto. eapply nth_error_In; eauto. Qed.

Lemma NoDup_flat_map_unique : forall A B (f : A -> list B) l i j a b x,
  NoDup (flat_map f l) -> nth_error l i = Some a -> nth_error l j = Some b ->
  In x (f a) -> In x (f b) -> i = j.
Proof.
  intros A B f. induction l as [|c l IH]; intros i j a b x Hnd Hi Hj Ha Hb.
  - destruct i; discriminate.
  - simpl in Hnd. destruct (NoDup_app_elim _ _ _ Hnd) as (N1 & N2 & N3).
    destruct i as [|i], j as [|j]; simpl in *; auto.
    + inversion Hi; subst. exfalso. apply (N3 x Ha). eapply flat_map_nth_in; eauto.
    + inversion Hj; subst. exfalso. apply (N3 x Hb). eapply flat_map_nth_in; eauto.
    + f_equal. eapply IH; eauto.
Qed.

Lemma root_refs_in_all : forall G ro r, In r (root_refs G ro) -> In r (all_refs G).
Proof.
  intros G [h|q|k] r H; simpl in H; unfold all_refs.
  - destruct (nth_error (st_handles G) h) as [Hh|] eqn:E; [|inversion H].
    apply in_or_app. left. eapply flat_map_nth_in; eauto.
  - destruct (nth_error (parents (st_store G)) q) as [Q|] eqn:E; [|inversion H].
    apply in_or_app. right. apply in_or_app. left. unfold prefs. eapply flat_map_nth_in; eauto.
  - destruct (nth_error (st_fwds G) k) as [F|] eqn:E; [|inversion H].
    apply in_or_app. right. apply in_or_app. right. unfold frefs. eapply flat_map_nth_in; eauto.
Qed.

Lemma owner_unique : forall G r1 r2 r, NoDup (all_refs G) ->
  In r (root_refs G r1) -> In r (root_refs G r2) -> r1 = r2.
Proof.
  intros G r1 r2 r Hnd H1 H2. unfold all_refs in Hnd.
  destruct (NoDup_app_elim _ _ _ Hnd) as (NH & NPF & DH).
  destruct (NoDup_app_elim _ _ _ NPF) as (NP & NF & DP).
  assert (InH : forall h, In r (root_refs G (RtH h)) -> In r (flat_map hrefs (st_handles G))).
  { intros h X. simpl in X. destruct (nth_error (st_handles G) h) eqn:E; [|inversion X]. eapply flat_map_nth_in; eauto. }
  assert (InP : forall q, In r (root_refs G (RtP q)) -> In r (prefs (st_store G))).
  { intros q X. simpl in X. destruct (nth_error (parents (st_store G)) q) eqn:E; [|inversion X]. unfold prefs. eapply flat_map_nth_in; eauto. }
  assert (InF : forall k, In r (root_refs G (RtF k)) -> In r (frefs (st_fwds G))).
  { intros k X. simpl in X. destruct (nth_error (st_fwds G) k) eqn:E; [|inversion X]. unfold frefs. eapply flat_map_nth_in; eauto. }
  destruct r1 as [h1|q1|k1], r2 as [h2|q2|k2].
  - f_equal. simpl in H1, H2.
    destruct (nth_error (st_handles G) h1) eqn:E1; [|inversion H1].
    destruct (nth_error (st_handles G) h2) eqn:E2; [|inversion H2].
    eapply (NoDup_flat_map_unique _ _ hrefs); eauto.
  - exfalso. apply (DH r (InH _ H1)). apply in_or_app. left. apply (InP _ H2).
  - exfalso. apply (DH r (InH _ H1)). apply in_or_app. right. apply (InF _ H2).
  - exfalso. apply (DH r (InH _ H2)). apply in_or_app. left. apply (InP _ H1).
  - f_equal. simpl in H1, H2.
    destruct (nth_error (parents (st_store G)) q1) eqn:E1; [|inversion H1].
    destruct (nth_error (parents (st_store G)) q2) eqn:E2; [|inversion H2].
    eapply (NoDup_flat_map_unique _ _ (fun P => refs (p_src P))); eauto.
  - exfalso. apply (DP r (InP _ H1)). apply (InF _ H2).
  - exfalso. apply (DH r (InH _ H2)). apply in_or_app. right. apply (InF _ H1).
  - exfalso. apply (DP r (InP _ H2)). apply (InF _ H1).
  - f_equal. simpl in H1, H2.
    destruct (nth_error (st_fwds G) k1) eqn:E1; [|inversion H1].
    destruct (nth_error (st_fwds G) k2) eqn:E2; [|inversion H2].
    eapply (NoDup_flat_map_unique _ _ (fun F => refs (f_src F))); eauto.
Qed.

(* a step that closes reader t, the reader of root ro0 *)
Lemma kinv_close_step : forall G G' ro0 t c,
  wf G -> kinv G -> pcnt (st_store G) ->
  Close (st_store G) t c (st_store G') ->
  (forall r, In r (refs t) -> In r (root_refs G ro0)) ->
  (forall ro, root_refs G' ro = root_refs G ro) ->
  (forall ro, root_closed G ro -> root_closed G' ro) ->
  root_closed G' ro0 ->
  kinv G'.
Proof.
  intros G G' ro0 t c HW HK Hp HC Ht Hrefs Hmono Hc0 ro r Hin Hr.
  destruct HW as (W1 & _).
  destruct (Close_new _ _ _ _ HC Hp r Hr) as [Hr0|[Hin0|(q & Q & HQ & HinQ & HaQ)]].
  - apply Hmono. eapply HK; eauto. rewrite <- Hrefs. exact Hin.
  - rewrite Hrefs in Hin. rewrite (owner_unique G ro ro0 r W1 Hin (Ht _ Hin0)). exact Hc0.
  - assert (HinQ' : In r (root_refs G' (RtP q))) by (simpl; rewrite HQ; exact HinQ).
    rewrite Hrefs in Hin, HinQ'. rewrite (owner_unique G ro (RtP q) r W1 Hin HinQ'). simpl. eauto.
Qed.

(* a step that closes nothing and keeps every owner *)
Lemma kinv_same_step : forall G G',
  kinv G ->
  (forall r, rclosed (st_store G') r -> rclosed (st_store G) r) ->
  (forall ro, root_refs G' ro = root_refs G ro) ->
  (forall ro, root_closed G ro -> root_closed G' ro) ->
  kinv G'.
Proof.
  intros G G' HK Hr Hrefs Hmono ro r Hin Hc. apply Hmono. eapply HK; eauto. rewrite <- Hrefs. exact Hin.
Qed.

Lemma kinv_constructor : forall G G',
  kinv G ->
  (forall r, rclosed (st_store G') r -> rclosed (st_store G) r) ->
  (forall ro' r, In r (root_refs G' ro') -> rclosed (st_store G) r ->
     exists ro, In r (root_refs G ro) /\ (root_closed G ro -> root_closed G' ro')) ->
  kinv G'.
Proof.
  intros G G' HK Hr Hmv ro' r Hin Hc. apply Hr in Hc.
  destruct (Hmv ro' r Hin Hc) as (ro & Hin0 & Himp). apply Himp. eapply HK; eauto.
Qed.

(* ------------------------------------------------------------------ store-only changes *)

Lemma all_closed_prel : forall P P', prel P P' -> (all_closed P' <-> all_closed P).
Proof. intros P P' (_ & E2 & E3 & _). unfold all_closed. rewrite E2, E3. tauto. Qed.

Lemma root_refs_P_store_rel : forall G st1 fw hs q,
  store_rel (st_store G) st1 -> root_refs (mkState st1 fw hs) (RtP q) = root_refs G (RtP q).
Proof.
  intros G st1 fw hs q [_ H2]. simpl.
  destruct (nth_error (parents (st_store G)) q) as [Q|] eqn:E.
  - destruct (Forall2_nth _ _ _ _ _ _ H2 E) as (Q' & E' & (Er & _)). rewrite E'. exact Er.
  - destruct (nth_error (parents st1) q) as [Q'|] eqn:E'; auto.
    destruct (Forall2_nth_r _ _ _ _ _ _ H2 E') as (Q & EQ & _). congruence.
Qed.

Lemma root_closed_P_store_rel : forall G st1 fw hs q,
  store_rel (st_store G) st1 -> root_closed G (RtP q) -> root_closed (mkState st1 fw hs) (RtP q).
Proof.
  intros G st1 fw hs q [_ H2] (Q & E & Ha). simpl.
  destruct (Forall2_nth _ _ _ _ _ _ H2 E) as (Q' & E' & R). exists Q'. split; auto. apply (all_closed_prel _ _ R). exact Ha.
Qed.

Lemma root_refs_P_cstore_rel : forall G st1 fw hs q,
  cstore_rel (st_store G) st1 -> root_refs (mkState st1 fw hs) (RtP q) = root_refs G (RtP q).
Proof.
  intros G st1 fw hs q [_ H2]. simpl.
  destruct (nth_error (parents (st_store G)) q) as [Q|] eqn:E.
  - destruct (Forall2_nth _ _ _ _ _ _ H2 E) as (Q' & E' & (Er & _)). rewrite E', Er. reflexivity.
  - destruct (nth_error (parents st1) q) as [Q'|] eqn:E'; auto.
    destruct (Forall2_nth_r _ _ _ _ _ _ H2 E') as (Q & EQ & _). congruence.
Qed.

Lemma root_closed_P_cstore_rel : forall G st1 fw hs q,
  cstore_rel (st_store G) st1 -> pcnt st1 -> root_closed G (RtP q) -> root_closed (mkState st1 fw hs) (RtP q).
Proof.
  intros G st1 fw hs q [_ H2] Hp (Q & E & Ha). simpl.
  destruct (Forall2_nth _ _ _ _ _ _ H2 E) as (Q' & E' & (_ & _ & _ & E4 & _ & _ & _ & _ & E9 & _)).
  exists Q'. split; auto. unfold all_closed in *. pose proof (Hp _ _ E') as Hc. pose proof (count_none_le (p_cur Q')). lia.
Qed.

Lemma root_refs_H_upd : forall G st1 fw h H H' h0,
  nth_error (st_handles G) h = Some H -> hrefs H' = hrefs H ->
  root_refs (mkState st1 fw (upd (st_handles G) h H')) (RtH h0) = root_refs G (RtH h0).
Proof.
  intros G st1 fw h H H' h0 Hn E. simpl. destruct (Nat.eq_dec h h0) as [<-|Hne].
  - rewrite nth_error_upd_eq by (apply nth_error_Some; congruence). rewrite Hn. exact E.
  - rewrite nth_error_upd_neq by exact Hne. reflexivity.
Qed.

Lemma root_closed_H_upd : forall G st1 fw h H H' h0,
  nth_error (st_handles G) h = Some H -> (h_closed H = true -> h_closed H' = true) ->
  root_closed G (RtH h0) -> root_closed (mkState st1 fw (upd (st_handles G) h H')) (RtH h0).
Proof.
  intros G st1 fw h H H' h0 Hn E (H0 & E0 & Hc). simpl. destruct (Nat.eq_dec h h0) as [<-|Hne].
  - exists H'. split; [apply nth_error_upd_eq; apply nth_error_Some; congruence|]. apply E. congruence.
  - exists H0. split; auto. rewrite nth_error_upd_neq by exact Hne. exact E0.
Qed.

Lemma root_refs_F_upd : forall G st1 hs k F F' k0,
  nth_error (st_fwds G) k = Some F -> refs (f_src F') = refs (f_src F) ->
  root_refs (mkState st1 (upd (st_fwds G) k F') hs) (RtF k0) = root_refs G (RtF k0).
Proof.
  intros G st1 hs k F F' k0 Hn E. simpl. destruct (Nat.eq_dec k k0) as [<-|Hne].
  - rewrite nth_error_upd_eq by (apply nth_error_Some; congruence). rewrite Hn. exact E.
  - rewrite nth_error_upd_neq by exact Hne. reflexivity.
Qed.

Lemma root_closed_F_upd : forall G st1 hs k F F' k0,
  nth_error (st_fwds G) k = Some F -> (f_st F = FDone -> f_st F' = FDone) ->
  root_closed G (RtF k0) -> root_closed (mkState st1 (upd (st_fwds G) k F') hs) (RtF k0).
Proof.
  intros G st1 hs k F F' k0 Hn E (F0 & E0 & Hc). simpl. destruct (Nat.eq_dec k k0) as [<-|Hne].
  - exists F'. split; [apply nth_error_upd_eq; apply nth_error_Some; congruence|]. apply E. congruence.
  - exists F0. split; auto. rewrite nth_error_upd_neq by exact Hne. exact E0.
Qed.

(* parents' part of the root facts, for a new store *)
Definition pfacts (G : state) (st1 : store) : Prop :=
  forall q fw hs, root_refs (mkState st1 fw hs) (RtP q) = root_refs G (RtP q)
               /\ (root_closed G (RtP q) -> root_closed (mkState st1 fw hs) (RtP q)).

Lemma pfacts_store_rel : forall G st1, store_rel (st_store G) st1 -> pfacts G st1.
Proof. intros G st1 H q fw hs. split; [apply root_refs_P_store_rel | apply root_closed_P_store_rel]; auto. Qed.

Lemma pfacts_cstore_rel : forall G st1, cstore_rel (st_store G) st1 -> pcnt st1 -> pfacts G st1.
Proof. intros G st1 H Hp q fw hs. split; [apply root_refs_P_cstore_rel | apply root_closed_P_cstore_rel]; auto. Qed.

Lemma pfacts_same_parents : forall G st1, parents st1 = parents (st_store G) -> pfacts G st1.
Proof. intros G st1 E q fw hs. simpl. rewrite E. split; auto. Qed.

Lemma pfacts_trans_set_stream : forall G st1 sid s, pfacts G st1 -> pfacts G (set_stream st1 sid s).
Proof. intros G st1 sid s H q fw hs. exact (H q fw hs). Qed.

Lemma root_facts_handle : forall G st1 h H H',
  pfacts G st1 -> nth_error (st_handles G) h = Some H ->
  hrefs H' = hrefs H -> (h_closed H = true -> h_closed H' = true) ->
  forall ro, root_refs (mkState st1 (st_fwds G) (upd (st_handles G) h H')) ro = root_refs G ro
          /\ (root_closed G ro -> root_closed (mkState st1 (st_fwds G) (upd (st_handles G) h H')) ro).
Proof.
  intros G st1 h H H' HP Hn E Ec [h0|q|k].
  - split; [eapply root_refs_H_upd | eapply root_closed_H_upd]; eauto.
  - apply HP.
  - split; auto.
Qed.

Lemma root_facts_fwd : forall G st1 k F F',
  pfacts G st1 -> nth_error (st_fwds G) k = Some F ->
  refs (f_src F') = refs (f_src F) -> (f_st F = FDone -> f_st F' = FDone) ->
  forall ro, root_refs (mkState st1 (upd (st_fwds G) k F') (st_handles G)) ro = root_refs G ro
          /\ (root_closed G ro -> root_closed (mkState st1 (upd (st_fwds G) k F') (st_handles G)) ro).
Proof.
  intros G st1 k F F' HP Hn E Ec [h0|q|k0].
  - split; auto.
  - apply HP.
  - split; [eapply root_refs_F_upd | eapply root_closed_F_upd]; eauto.
Qed.

Lemma root_facts_store : forall G st1,
  pfacts G st1 ->
  forall ro, root_refs (mkState st1 (st_fwds G) (st_handles G)) ro = root_refs G ro
          /\ (root_closed G ro -> root_closed (mkState st1 (st_fwds G) (st_handles G)) ro).
Proof. intros G st1 HP [h0|q|k]; [split; auto | apply HP | split; auto]. Qed.

(* the precondition under which kinv is an invariant: Copy / Merge / Convert are applied to
   readers that have not been closed *)
Definition handle_unclosed (G : state) (h : nat) : Prop :=
  forall H, nth_error (st_handles G) h = Some H -> h_closed H = false.

Definition op_unclosed (G : state) (o : op) : Prop :=
  match o with
  | OCopy h n => 2 <= n -> handle_unclosed G h
  | OConv h _ => handle_unclosed G h
  | OMerge hs => 2 <= List.length hs -> Forall (handle_unclosed G) hs
  | _ => True
  end.

(* ------------------------------------------------------------------ constructors *)

Lemma consume_nth : forall G h h0 H',
  nth_error (st_handles (consume G h)) h0 = Some H' ->
  exists H, nth_error (st_handles G) h0 = Some H /\ (H' = H \/ h_live H' = false) /\ h_closed H' = h_closed H.
Proof.
  intros G h h0 H' Hn. unfold consume in Hn. destruct (nth_error (st_handles G) h) as [Hh|] eqn:E.
  - simpl in Hn. destruct (nth_error_upd _ _ _ _ _ _ Hn) as [[-> ->]|[Hne Hn0]].
    + exists Hh. simpl. auto.
    + exists H'. auto.
  - exists H'. auto.
Qed.

Lemma consume_all_nth : forall hs G h0 H',
  nth_error (st_handles (consume_all G hs)) h0 = Some H' ->
  exists H, nth_error (st_handles G) h0 = Some H /\ (H' = H \/ h_live H' = false) /\ h_closed H' = h_closed H.
Proof.
  induction hs as [|h r IH]; intros G h0 H' Hn; simpl in Hn.
  - exists H'. auto.
  - destruct (IH _ _ _ Hn) as (H1 & Hn1 & Hd1 & Hc1).
    destruct (consume_nth _ _ _ _ Hn1) as (H & Hn0 & Hd0 & Hc0). exists H. split; auto. split; [|congruence].
    destruct Hd1 as [->|Hd1]; auto.
Qed.

Lemma live_rds_in : forall hs G ts t, live_rds G hs = Some ts -> In t ts ->
  exists h, In h hs /\ live_rd G h = Some t.
Proof.
  induction hs as [|h r IH]; intros G ts t H Hin; simpl in H.
  - inversion H; subst. inversion Hin.
  - destruct (live_rd G h) as [t0|] eqn:E; [|discriminate].
    destruct (live_rds G r) as [ts'|] eqn:E'; [|discriminate]. inversion H; subst.
    destruct Hin as [<-|Hin].
    + exists h. split; auto. left. reflexivity.
    + destruct (IH _ _ _ E' Hin) as (h' & Hh' & Hl). exists h'. split; auto. right. exact Hh'.
Qed.

Lemma merge_collect_members : forall ts st fw ss arr st' fw' ss' arr',
  merge_collect st fw ts ss arr = (st', fw', ss', arr') ->
  (exists nf, fw' = fw ++ nf /\ Forall (fun F => In (f_src F) ts /\ f_st F = FRecv) nf)
  /\ (forall s, In s ss' -> In s ss \/ In (RS s) (flat_map refs ts) \/ List.length (streams st) <= s).
Proof.
  induction ts as [|t r IH]; intros st fw ss arr st' fw' ss' arr' H; simpl in H.
  - inversion H; subst. split; [exists []; rewrite app_nil_r; split; auto | auto].
  - assert (Hfwd : forall t0, t0 = t ->
              merge_collect (add_stream st (new_stream 5 false)) (fw ++ [mkF t0 (List.length (streams st)) FRecv false]) r
                            (ss ++ [List.length (streams st)]) arr = (st', fw', ss', arr') ->
              (exists nf, fw' = fw ++ nf /\ Forall (fun F => In (f_src F) (t :: r) /\ f_st F = FRecv) nf)
              /\ (forall s, In s ss' -> In s ss \/ In (RS s) (refs t ++ flat_map refs r) \/ List.length (streams st) <= s)).
    { intros t0 -> H0. destruct (IH _ _ _ _ _ _ _ _ H0) as ((nf & E & HF) & HS). split.
      - exists (mkF t (List.length (streams st)) FRecv false :: nf). split.
        + rewrite E. rewrite <- app_assoc. reflexivity.
        + constructor; [simpl; auto|]. eapply Forall_impl; [|exact HF]. intros F [A B]. split; auto. right. exact A.
      - intros s Hs. destruct (HS s Hs) as [Hi|[Hi|Hi]].
        + apply in_app_or in Hi. destruct Hi as [Hi|[<-|[]]]; auto.
        + right. left. apply in_or_app. right. exact Hi.
        + right. right. simpl in Hi. rewrite app_length in Hi. simpl in Hi. lia. }
    destruct t as [d rest | s0 | sts ch | f src cin cout | p i].
    + destruct (IH _ _ _ _ _ _ _ _ H) as ((nf & E & HF) & HS). split.
      * exists nf. split; auto. eapply Forall_impl; [|exact HF]. intros F [A B]. split; auto. right. exact A.
      * intros s Hs. destruct (HS s Hs) as [Hi|[Hi|Hi]]; auto.
    + destruct (IH _ _ _ _ _ _ _ _ H) as ((nf & E & HF) & HS). split.
      * exists nf. split; auto. eapply Forall_impl; [|exact HF]. intros F [A B]. split; auto. right. exact A.
      * intros s Hs. destruct (HS s Hs) as [Hi|[Hi|Hi]]; auto.
        -- apply in_app_or in Hi. destruct Hi as [Hi|[<-|[]]]; auto. right. left. simpl. left. reflexivity.
        -- right. left. simpl. right. exact Hi.
    + destruct (IH _ _ _ _ _ _ _ _ H) as ((nf & E & HF) & HS). split.
      * exists nf. split; auto. eapply Forall_impl; [|exact HF]. intros F [A B]. split; auto. right. exact A.
      * intros s Hs. destruct (HS s Hs) as [Hi|[Hi|Hi]]; auto.
        -- apply in_app_or in Hi. destruct Hi as [Hi|Hi]; auto. right. left. simpl. apply in_or_app. left. apply in_map. exact Hi.
        -- right. left. simpl. apply in_or_app. right. exact Hi.
    + apply Hfwd in H; auto.
    + apply Hfwd in H; auto.
Qed.

Lemma rclosed_add_stream : forall st s r, s_rclosed s = 0 -> rclosed (add_stream st s) r -> rclosed st r.
Proof.
  intros st s [sid|q j] Hs; simpl; auto.
  intros (x & Hx & Hc). destruct (Nat.lt_ge_cases sid (List.length (streams st))) as [Hlt|Hge].
  - rewrite nth_error_app1 in Hx by exact Hlt. eauto.
  - rewrite nth_error_app2 in Hx by exact Hge. destruct (sid - List.length (streams st)) as [|k]; simpl in Hx.
    + inversion Hx; subst. lia.
    + destruct k; discriminate.
Qed.

Lemma rclosed_add_streams : forall st k r,
  rclosed (mkSt (streams st ++ repeat (new_stream 5 false) k) (parents st)) r -> rclosed st r.
Proof.
  intros st k [sid|q j]; simpl; auto.
  intros (x & Hx & Hc). destruct (Nat.lt_ge_cases sid (List.length (streams st))) as [Hlt|Hge].
  - rewrite nth_error_app1 in Hx by exact Hlt. eauto.
  - rewrite nth_error_app2 in Hx by exact Hge. apply nth_error_In in Hx. apply repeat_spec in Hx. subst. simpl in Hc. lia.
Qed.

Lemma rclosed_add_parent : forall st t n r, rclosed (add_parent st (new_parent t n)) r -> rclosed st r.
Proof.
  intros st t n [sid|q j]; simpl; auto.
  intros (Q & HQ & Hc). destruct (Nat.lt_ge_cases q (List.length (parents st))) as [Hlt|Hge].
  - rewrite nth_error_app1 in HQ by exact Hlt. eauto.
  - rewrite nth_error_app2 in HQ by exact Hge. destruct (q - List.length (parents st)) as [|k]; simpl in HQ.
    + inversion HQ; subst. simpl in Hc. apply nth_error_In in Hc. apply repeat_spec in Hc. discriminate.
    + destruct k; discriminate.
Qed.

Lemma rclosed_bound : forall st r, rclosed st r -> ref_ok st r \/ (exists q j, r = RC q j /\ q < List.length (parents st)).
Proof.
  intros st [sid|q j]; simpl.
  - intros (s & Hs & _). left. apply nth_error_Some. congruence.
  - intros (Q & HQ & _). right. exists q, j. split; auto. apply nth_error_Some. congruence.
Qed.

Definition moved (G : state) (r : ref) : Prop :=
  (exists h t, live_rd G h = Some t /\ handle_unclosed G h /\ In r (refs t))
  \/ ~ rclosed (st_store G) r.

Lemma moved_root : forall G G' ro' r, moved G r -> rclosed (st_store G) r ->
  exists ro, In r (root_refs G ro) /\ (root_closed G ro -> root_closed G' ro').
Proof.
  intros G G' ro' r [(h & t & Hl & Hu & Hin)|Hn] Hc; [|contradiction].
  destruct (live_rd_nth _ _ _ Hl) as (H & Hn & Hlv & Hrd).
  exists (RtH h). split.
  - simpl. rewrite Hn. unfold hrefs. rewrite Hlv, Hrd. exact Hin.
  - intros (H0 & Hn0 & Hc0). rewrite (Hu _ Hn0) in Hc0. discriminate.
Qed.

Lemma kinv_constructor_gen : forall G st' fw' hs1 news np nf,
  kinv G ->
  (forall r, rclosed st' r -> rclosed (st_store G) r) ->
  List.length hs1 = List.length (st_handles G) ->
  (forall h0 H', nth_error hs1 h0 = Some H' ->
     exists H, nth_error (st_handles G) h0 = Some H /\ (H' = H \/ h_live H' = false) /\ h_closed H' = h_closed H) ->
  parents st' = parents (st_store G) ++ np ->
  fw' = st_fwds G ++ nf ->
  (forall N r, In N news -> In r (hrefs N) -> moved G r) ->
  (forall P r, In P np -> In r (refs (p_src P)) -> moved G r) ->
  (forall F r, In F nf -> In r (refs (f_src F)) -> moved G r) ->
  kinv (mkState st' fw' (hs1 ++ news)).
Proof.
  intros G st' fw' hs1 news np nf HK Hr Hlen Hold Hpar Hfw HN HP HF.
  apply (kinv_constructor G); auto.
  intros [h0|q|k] r Hin Hc; simpl in Hin.
  - destruct (Nat.lt_ge_cases h0 (List.length hs1)) as [Hlt|Hge].
    + rewrite nth_error_app1 in Hin by exact Hlt.
      destruct (nth_error hs1 h0) as [H'|] eqn:E; [|inversion Hin].
      destruct (Hold _ _ E) as (H & Hn & [->|Hd] & Hcl).
      * exists (RtH h0). split; [simpl; rewrite Hn; exact Hin|].
        intros (H0 & Hn0 & Hc0). simpl. exists H. rewrite nth_error_app1 by exact Hlt. split; congruence.
      * unfold hrefs in Hin. rewrite Hd in Hin. inversion Hin.
    + rewrite nth_error_app2 in Hin by exact Hge.
      destruct (nth_error news (h0 - List.length hs1)) as [N|] eqn:E; [|inversion Hin].
      eapply moved_root; eauto. eapply HN; eauto. eapply nth_error_In; eauto.
  - rewrite Hpar in Hin.
    destruct (Nat.lt_ge_cases q (List.length (parents (st_store G)))) as [Hlt|Hge].
    + rewrite nth_error_app1 in Hin by exact Hlt.
      destruct (nth_error (parents (st_store G)) q) as [Q|] eqn:E; [|inversion Hin].
      exists (RtP q). split; [simpl; rewrite E; exact Hin|].
      intros (Q0 & HQ0 & Ha). simpl. exists Q0. rewrite Hpar. rewrite nth_error_app1 by exact Hlt. split; auto.
    + rewrite nth_error_app2 in Hin by exact Hge.
      destruct (nth_error np (q - List.length (parents (st_store G)))) as [P|] eqn:E; [|inversion Hin].
      eapply moved_root; eauto. eapply HP; eauto. eapply nth_error_In; eauto.
  - rewrite Hfw in Hin.
    destruct (Nat.lt_ge_cases k (List.length (st_fwds G))) as [Hlt|Hge].
    + rewrite nth_error_app1 in Hin by exact Hlt.
      destruct (nth_error (st_fwds G) k) as [F|] eqn:E; [|inversion Hin].
      exists (RtF k). split; [simpl; rewrite E; exact Hin|].
      intros (F0 & HF0 & Ha). simpl. exists F0. rewrite Hfw. rewrite nth_error_app1 by exact Hlt. split; auto.
    + rewrite nth_error_app2 in Hin by exact Hge.
      destruct (nth_error nf (k - List.length (st_fwds G))) as [F|] eqn:E; [|inversion Hin].
      eapply moved_root; eauto. eapply HF; eauto. eapply nth_error_In; eauto.
Qed.

Lemma identity_nth : forall G h0 (H' : handle), nth_error (st_handles G) h0 = Some H' ->
  exists H, nth_error (st_handles G) h0 = Some H /\ (H' = H \/ h_live H' = false) /\ h_closed H' = h_closed H.
Proof. intros. exists H'. auto. Qed.

Lemma consume_handles_len : forall G h, List.length (st_handles (consume G h)) = List.length (st_handles G).
Proof. intros G h. unfold consume. destruct (nth_error (st_handles G) h); simpl; auto. apply upd_length. Qed.

Lemma not_rclosed_fresh_stream : forall st sid, List.length (streams st) <= sid -> ~ rclosed st (RS sid).
Proof. intros st sid H (s & Hs & _). assert (sid < List.length (streams st)) by (apply nth_error_Some; congruence). lia. Qed.

Lemma not_rclosed_fresh_parent : forall st q j, List.length (parents st) <= q -> ~ rclosed st (RC q j).
Proof. intros st q j H (Q & HQ & _). assert (q < List.length (parents st)) by (apply nth_error_Some; congruence). lia. Qed.

Lemma do_op_kinv : forall fuel G o b G',
  do_op fuel G o = (b, G') -> wf G -> pcnt (st_store G) -> op_unclosed G o -> kinv G -> kinv G'.
Proof.
  intros fuel G o b G' H HW Hp Hpre HK.
  destruct o as [cap | xs | h n | hs | h f | sid x | sid | h ch | h | k ch]; simpl in H.
  - (* OPipe *)
    inversion H; subst; clear H.
    apply (kinv_constructor_gen G _ _ (st_handles G) _ [] [] HK).
    + intros r. apply rclosed_add_stream. reflexivity.
    + reflexivity.
    + apply identity_nth.
    + simpl. rewrite app_nil_r. reflexivity.
    + rewrite app_nil_r. reflexivity.
    + intros N r [<-|[]] [<-|[]]. right. apply not_rclosed_fresh_stream. lia.
    + intros P r [].
    + intros F r [].
  - (* OArray *)
    inversion H; subst; clear H.
    apply (kinv_constructor_gen G _ _ (st_handles G) _ [] [] HK).
    + auto.
    + reflexivity.
    + apply identity_nth.
    + rewrite app_nil_r. reflexivity.
    + rewrite app_nil_r. reflexivity.
    + intros N r [<-|[]] [].
    + intros P r [].
    + intros F r [].
  - (* OCopy *)
    destruct (live_rd G h) as [t|] eqn:El; [|inversion H; subst; auto].
    destruct (Nat.ltb n 2) eqn:En; [inversion H; subst; auto|].
    apply Nat.ltb_ge in En. simpl in Hpre. specialize (Hpre En).
    assert (Hmv : forall r, In r (refs t) -> moved G r).
    { intros r Hr. left. exists h, t. auto. }
    assert (Hpar : forall t0, refs t0 = refs t ->
      kinv (mkState (add_parent (st_store G) (new_parent t0 n)) (st_fwds G)
             (st_handles (consume G h) ++
              map (fun i => mkH (RChild (List.length (parents (st_store G))) i) true false [] false) (seq 0 n)))).
    { intros t0 Ht0.
      apply (kinv_constructor_gen G _ _ (st_handles (consume G h)) _ [new_parent t0 n] [] HK).
      + apply rclosed_add_parent.
      + apply consume_handles_len.
      + apply consume_nth.
      + reflexivity.
      + rewrite app_nil_r. reflexivity.
      + intros N r HN Hr. apply in_map_iff in HN. destruct HN as (i0 & <- & _). destruct Hr as [<-|[]].
        right. apply not_rclosed_fresh_parent. lia.
      + intros P r [<-|[]] Hr. apply Hmv. simpl in Hr. rewrite Ht0 in Hr. exact Hr.
      + intros F r []. }
    destruct t as [d rest | s0 | sts ch | f src cin cout | p i]; inversion H; subst; clear H;
      rewrite ?consume_store, ?consume_fwds; try (apply Hpar; reflexivity).
    apply (kinv_constructor_gen G _ _ (st_handles (consume G h)) _ [] [] HK).
    + auto.
    + apply consume_handles_len.
    + apply consume_nth.
    + rewrite app_nil_r. reflexivity.
    + rewrite app_nil_r. reflexivity.
    + intros N r HN Hr. apply repeat_spec in HN. subst N. inversion Hr.
    + intros P r [].
    + intros F r [].
  - (* OMerge *)
    destruct hs as [|h0 [|h1 hs']]; [inversion H; subst; auto| |].
    { destruct (live_rd G h0); inversion H; subst; auto. }
    destruct (nodupb (h0 :: h1 :: hs')) eqn:End; cbn [negb] in H; [|inversion H; subst; auto].
    destruct (live_rds G (h0 :: h1 :: hs')) as [ts|] eqn:El; [|inversion H; subst; auto].
    rewrite consume_all_store, consume_all_fwds in H.
    destruct (merge_collect _ _ ts [] []) as [[[st1 fw1] ss] arr] eqn:Em.
    destruct (merge_collect_spec _ _ _ _ _ _ _ _ _ Em) as (P1 & k0 & S1 & D1 & Pm).
    destruct (merge_collect_members _ _ _ _ _ _ _ _ _ Em) as ((nf & Efw & Hnf) & Hss).
    assert (Hpre' : Forall (handle_unclosed G) (h0 :: h1 :: hs')) by (apply Hpre; simpl; lia).
    assert (Hmv : forall t r, In t ts -> In r (refs t) -> moved G r).
    { intros t r Ht Hr. destruct (live_rds_in _ _ _ _ El Ht) as (h & Hh & Hl). left. exists h, t. split; auto. split; auto.
      rewrite Forall_forall in Hpre'. apply Hpre'. exact Hh. }
    assert (Hss' : forall s, In s ss -> moved G (RS s)).
    { intros s Hs. destruct (Hss s Hs) as [[]|[Hi|Hi]].
      - apply in_flat_map in Hi. destruct Hi as (t & Ht & Hr). eapply Hmv; eauto.
      - right. apply not_rclosed_fresh_stream. exact Hi. }
    assert (Hr1 : forall r, rclosed st1 r -> rclosed (st_store G) r).
    { intros r Hr. apply (rclosed_add_streams (st_store G) k0). destruct st1 as [s1 p1]. simpl in *. subst. exact Hr. }
    assert (HF1 : forall F r, In F nf -> In r (refs (f_src F)) -> moved G r).
    { intros F r HF Hr. rewrite Forall_forall in Hnf. destruct (Hnf F HF) as [Hin _]. eapply Hmv; eauto. }
    assert (Hlen1 : List.length (streams (st_store G)) <= List.length (streams st1)).
    { rewrite S1, app_length. lia. }
    assert (Hgen : forall st2 rdnew,
       (forall r, rclosed st2 r -> rclosed st1 r) -> parents st2 = parents st1 ->
       (forall r, In r (refs rdnew) -> moved G r) ->
       kinv (mkState st2 fw1 (st_handles (consume_all G (h0 :: h1 :: hs')) ++ [mkH rdnew true false [] false]))).
    { intros st2 rdnew Hr2 Hp2 Hnew.
      apply (kinv_constructor_gen G st2 fw1 _ _ [] nf HK).
      + intros r Hr. apply Hr1. apply Hr2. exact Hr.
      + apply consume_all_handles_len.
      + apply consume_all_nth.
      + rewrite app_nil_r. congruence.
      + exact Efw.
      + intros N r [<-|[]] Hr. apply Hnew. exact Hr.
      + intros P r [].
      + exact HF1. }
    destruct ss as [|s0 ss']; destruct arr as [|a0 arr']; inversion H; subst b G'; clear H.
    + apply Hgen; auto. intros r [].
    + apply Hgen; auto. intros r [].
    + apply Hgen; auto. intros r Hr. cbn [refs] in Hr.
      apply in_map_iff in Hr. destruct Hr as (s & <- & Hs). apply Hss'. exact Hs.
    + apply Hgen; auto.
      * intros r Hr. eapply rclosed_add_stream; eauto. reflexivity.
      * intros r Hr. cbn [refs] in Hr.
        apply in_map_iff in Hr. destruct Hr as (s & <- & Hs).
        change (In s ((s0 :: ss') ++ [List.length (streams st1)])) in Hs.
        apply in_app_or in Hs. destruct Hs as [Hs|[<-|[]]].
        -- apply Hss'. exact Hs.
        -- right. apply not_rclosed_fresh_stream. exact Hlen1.
  - (* OConv *)
    destruct (live_rd G h) as [t|] eqn:El; [|inversion H; subst; auto].
    inversion H; subst; clear H. rewrite consume_store, consume_fwds. simpl in Hpre.
    apply (kinv_constructor_gen G _ _ (st_handles (consume G h)) _ [] [] HK).
    + auto.
    + apply consume_handles_len.
    + apply consume_nth.
    + rewrite app_nil_r. reflexivity.
    + rewrite app_nil_r. reflexivity.
    + intros N r [<-|[]] Hr. left. exists h, t. auto.
    + intros P r [].
    + intros F r [].
  - (* OSend *)
    destruct (nth_error (streams (st_store G)) sid) as [s|] eqn:Es; [|inversion H; subst; auto].
    destruct (negb (s_user s)); [inversion H; subst; auto|].
    destruct (stream_send s x) as [r s'] eqn:E. inversion H; subst; clear H.
    pose proof (root_facts_store G (set_stream (st_store G) sid s') (pfacts_same_parents _ _ eq_refl)) as RF.
    eapply kinv_same_step; eauto; try (intros ro; apply RF).
    intros r0. apply (rclosed_set_stream_same _ _ s); auto.
    unfold stream_send in E. destruct (Nat.ltb 0 (s_rclosed s)); [inversion E; subst; auto|].
    destruct (s_sclosed s); [inversion E; subst; auto|]. destruct (Nat.ltb _ _); inversion E; subst; auto.
  - (* OCloseSend *)
    destruct (nth_error (streams (st_store G)) sid) as [s|] eqn:Es; [|inversion H; subst; auto].
    destruct (negb (s_user s)); [inversion H; subst; auto|].
    destruct (stream_close_send s) as [r s'] eqn:E. inversion H; subst; clear H.
    pose proof (root_facts_store G (set_stream (st_store G) sid s') (pfacts_same_parents _ _ eq_refl)) as RF.
    eapply kinv_same_step; eauto; try (intros ro; apply RF).
    intros r0. apply (rclosed_set_stream_same _ _ s); auto.
    unfold stream_close_send in E. destruct (s_sclosed s); inversion E; subst; auto.
  - (* ORecv *)
    destruct (nth_error (st_handles G) h) as [Hh|] eqn:Eh; [|inversion H; subst; auto].
    destruct (h_live Hh) eqn:Elv; cbn [negb] in H; [|inversion H; subst; auto].
    destruct (recv fuel (st_store G) (h_rd Hh) ch) as [[[r st1] t1] ch1] eqn:Er.
    inversion H; subst; clear H. apply recv_Recv in Er. destruct (Recv_static _ _ _ _ _ Er) as [SR Ht].
    match goal with |- kinv (mkState _ _ (upd _ _ ?H')) =>
      pose proof (root_facts_handle G st1 h Hh H' (pfacts_store_rel _ _ SR) Eh) as RF end.
    eapply kinv_same_step; eauto.
    + intros r0 Hr0. apply (rclosed_store_rel _ _ _ SR). exact Hr0.
    + intros ro. apply RF; auto. unfold hrefs. simpl. rewrite Elv. exact Ht.
    + intros ro. apply RF; auto. unfold hrefs. simpl. rewrite Elv. exact Ht.
  - (* OClose *)
    destruct (nth_error (st_handles G) h) as [Hh|] eqn:Eh; [|inversion H; subst; auto].
    destruct (h_live Hh) eqn:Elv; cbn [negb] in H; [|inversion H; subst; auto].
    destruct (close_rd fuel (st_store G) (h_rd Hh)) as [r st1] eqn:Er.
    inversion H; subst; clear H. apply close_Close in Er. pose proof (Close_static _ _ _ _ Er) as SR.
    pose proof (Close_pcnt _ _ _ _ Er Hp) as Hp1.
    match goal with |- kinv (mkState _ _ (upd _ _ ?H')) =>
      pose proof (root_facts_handle G st1 h Hh H' (pfacts_cstore_rel _ _ SR Hp1) Eh) as RF end.
    assert (RF' := fun ro => RF ltac:(unfold hrefs; simpl; rewrite Elv; reflexivity) ltac:(auto) ro).
    eapply (kinv_close_step G _ (RtH h)); eauto.
    + intros r0 Hr0. simpl. rewrite Eh. unfold hrefs. rewrite Elv. exact Hr0.
    + intros ro. apply RF'.
    + intros ro. apply RF'.
    + simpl. eexists. split; [apply nth_error_upd_eq; apply nth_error_Some; congruence|]. reflexivity.
  - (* OFwd *)
    destruct (nth_error (st_fwds G) k) as [F|] eqn:EF; [|inversion H; subst; auto].
    destruct (f_st F) as [|x| |] eqn:Est.
    + destruct (recv fuel (st_store G) (f_src F) ch) as [[[r st1] src1] ch1] eqn:Er.
      apply recv_Recv in Er. destruct (Recv_static _ _ _ _ _ Er) as [SR Ht].
      assert (X : forall F' st2, refs (f_src F') = refs (f_src F) ->
                  (forall r0, rclosed st2 r0 -> rclosed st1 r0) -> pfacts G st2 ->
                  kinv (mkState st2 (upd (st_fwds G) k F') (st_handles G))).
      { intros F' st2 HF' Hrc Hpf.
        pose proof (root_facts_fwd G st2 k F F' Hpf EF HF') as RF.
        eapply kinv_same_step; eauto.
        - intros r0 Hr0. apply (rclosed_store_rel _ _ _ SR). apply Hrc. exact Hr0.
        - intros ro. apply RF. rewrite Est. discriminate.
        - intros ro. apply RF. rewrite Est. discriminate. }
      destruct r.
      * inversion H; subst. apply X; auto. apply pfacts_store_rel; auto.
      * destruct (nth_error (streams st1) (f_dst F)) as [d|] eqn:Ed; [|inversion H; subst; auto].
        destruct (stream_close_send d) as [r0 d'] eqn:Ec. inversion H; subst. apply X; auto.
        -- intros r1. apply (rclosed_set_stream_same _ _ d); auto.
           unfold stream_close_send in Ec. destruct (s_sclosed d); inversion Ec; subst; auto.
        -- apply pfacts_trans_set_stream. apply pfacts_store_rel; auto.
      * inversion H; subst. apply X; auto. apply pfacts_store_rel; auto.
      * inversion H; subst. apply X; auto. apply pfacts_store_rel; auto.
      * inversion H; subst. apply X; auto. apply pfacts_store_rel; auto.
    + destruct (nth_error (streams (st_store G)) (f_dst F)) as [d|] eqn:Ed; [|inversion H; subst; auto].
      assert (X : forall F' d', refs (f_src F') = refs (f_src F) -> s_rclosed d' = s_rclosed d ->
                  kinv (mkState (set_stream (st_store G) (f_dst F) d') (upd (st_fwds G) k F') (st_handles G))).
      { intros F' d' HF' Hrc.
        pose proof (root_facts_fwd G (set_stream (st_store G) (f_dst F) d') k F F' (pfacts_same_parents _ _ eq_refl) EF HF') as RF.
        eapply kinv_same_step; eauto.
        - intros r0. apply (rclosed_set_stream_same _ _ d); auto.
        - intros ro. apply RF. rewrite Est. discriminate.
        - intros ro. apply RF. rewrite Est. discriminate. }
      destruct (stream_send d x) as [r d'] eqn:Es.
      destruct r; try (inversion H; subst; auto; fail).
      * inversion H; subst. apply X; auto.
        unfold stream_send in Es. destruct (Nat.ltb 0 (s_rclosed d)); [inversion Es|].
        destruct (s_sclosed d); [inversion Es|]. destruct (Nat.ltb _ _); inversion Es; subst; auto.
      * destruct (stream_close_send d) as [r0 d''] eqn:Ec. inversion H; subst. apply X; auto.
        unfold stream_close_send in Ec. destruct (s_sclosed d); inversion Ec; subst; auto.
    + destruct (close_rd fuel (st_store G) (f_src F)) as [r st1] eqn:Er.
      inversion H; subst; clear H. apply close_Close in Er. pose proof (Close_static _ _ _ _ Er) as SR.
      pose proof (Close_pcnt _ _ _ _ Er Hp) as Hp1.
      match goal with |- kinv (mkState _ (upd _ _ ?F') _) =>
        pose proof (root_facts_fwd G st1 k F F' (pfacts_cstore_rel _ _ SR Hp1) EF eq_refl) as RF end.
      assert (RF' := fun ro => RF ltac:(auto) ro).
      eapply (kinv_close_step G _ (RtF k)); eauto.
      * intros r0 Hr0. simpl. rewrite EF. exact Hr0.
      * intros ro. apply RF'.
      * intros ro. apply RF'.
      * simpl. eexists. split; [apply nth_error_upd_eq; apply nth_error_Some; congruence|]. reflexivity.
    + inversion H; subst; auto.
Qed.

(* ------------------------------------------------------------------ runs *)

(* a run all of whose steps satisfy a precondition *)
Fixpoint run_pre (pre : state -> op -> Prop) (fuel : nat) (G : state) (ops : list op) : Prop :=
  match ops with
  | [] => True
  | o :: r => pre G o /\ run_pre pre fuel (snd (do_op fuel G o)) r
  end.

Lemma init_kinv : kinv init_state.
Proof. intros [h|q|k] r H; simpl in H; [destruct h | destruct q | destruct k]; inversion H. Qed.

Lemma run_kinv : forall fuel ops G bs G',
  run fuel G ops = (bs, G') -> run_pre op_unclosed fuel G ops ->
  wf G -> pcnt (st_store G) -> kinv G -> kinv G'.
Proof.
  intros fuel. induction ops as [|o r IH]; intros G bs G' H Hpre HW Hp HK; simpl in H.
  - inversion H; subst; auto.
  - destruct (do_op fuel G o) as [b G1] eqn:E1. destruct (run fuel G1 r) as [bs2 G2] eqn:E2.
    inversion H; subst. simpl in Hpre. destruct Hpre as [Hpo Hpr]. rewrite E1 in Hpr. simpl in Hpr.
    eapply IH; eauto.
    + eapply do_op_wf; eauto.
    + eapply do_op_pcnt; eauto.
    + eapply do_op_kinv; eauto.
Qed.
