(* Proofs/RunHandoff.v — property C03, the composed system of Model/RunHandoff.v:
   (1) its protocol component only ever makes steps of the hand-off LTS, so every theorem about
       [reach] holds along every path of the composed system;
   (2) the executable replay [conf_run] only accepts paths of the composed system. *)
From Eino Require Import Base.Util Model.TaskMgr Model.Confluence Model.RunHandoff.
From Eino Require Import Proofs.TaskMgr Proofs.TaskMgrTrace.

Local Notation length := List.length.

(* ------------------------------------------------------------------ protocol projection *)

Lemma cstep_proj na m g s r s' r' : cstep na m g (s, r) (s', r') -> s' = s \/ step s s'.
Proof.
  intros H. inversion H; subst; auto; right.
  - destruct sy; unfold submit1.
    + apply s_sync; assumption.
    + apply s_spawn; assumption.
  - unfold await_st. apply s_await; assumption.
Qed.

Lemma creach_reach na m g F x : creach na m g F x -> reach (fst x).
Proof.
  induction 1 as [|[s r] [s' r'] _ IH Hs]; simpl in *; [apply r_init|].
  destruct (cstep_proj _ _ _ _ _ _ _ Hs) as [->|K]; [exact IH|eapply r_step; eassumption].
Qed.

(* ------------------------------------------------------------------ paths *)

Inductive cstar (na : bool) (m : mode) (g : graph) : st * rl -> st * rl -> Prop :=
| cs_refl x : cstar na m g x x
| cs_step x y z : cstep na m g x y -> cstar na m g y z -> cstar na m g x z.

Lemma cstar_trans na m g x y z : cstar na m g x y -> cstar na m g y z -> cstar na m g x z.
Proof. induction 1; [auto|]. intros K. eapply cs_step; eauto. Qed.

Lemma cstar_one na m g x y : cstep na m g x y -> cstar na m g x y.
Proof. intros K. eapply cs_step; [exact K|apply cs_refl]. Qed.

Lemma creach_star na m g F x y : creach na m g F x -> cstar na m g x y -> creach na m g F y.
Proof. intros R S. induction S; [exact R|]. apply IHS. eapply cr_step; eassumption. Qed.

(* ------------------------------------------------------------------ the replay follows paths *)

Definition loop_ev (e : ev) : bool :=
  match e with EvSpawn _ _ | EvSync _ _ | EvAwait | EvEmpty => true | _ => false end.

Lemma exec_ev_num s e s' : exec_ev s e = Some s' -> loop_ev e = false -> num s' = num s.
Proof.
  intros H L. revert H. unfold exec_ev. destruct e; try discriminate L; dmatch; intros H; inversion H; reflexivity.
Qed.

Lemma pstar_ev na m g s e s' r : exec_ev s e = Some s' -> loop_ev e = false -> cstar na m g (s, r) (s', r).
Proof.
  intros H L. destruct (exec_ev_sound _ _ _ H) as [->|K]; [apply cs_refl|].
  apply cstar_one. apply c_proto; [exact K|eapply exec_ev_num; eassumption].
Qed.

Lemma pstar_ev2 na m g s p e s' p' r :
  exec_ev2 (s, p) e = Some (s', p') -> loop_ev e = false -> cstar na m g (s, r) (s', r).
Proof.
  unfold exec_ev2. destruct p as [[t' e']|].
  - destruct e; cbv [is_coll_ev]; intros H L; try discriminate L; try discriminate H;
      try (destruct (exec_ev s _) eqn:E; inversion H; subst; eapply pstar_ev; [exact E|reflexivity]).
    match type of H with context [(N.eqb ?a ?b && Bool.eqb ?c ?d)%bool] => destruct (N.eqb a b && Bool.eqb c d)%bool end;
      inversion H; subst; apply cs_refl.
  - intros H L.
    destruct e; try discriminate L;
      try (destruct (exec_ev s _) eqn:E; inversion H; subst; eapply pstar_ev; [exact E|reflexivity]).
    destruct (cp s) eqn:Ec;
      try (destruct (exec_ev s _) eqn:E; inversion H; subst; eapply pstar_ev; [exact E|reflexivity]).
    destruct (done s) as [x|] eqn:Ed;
      try (destruct (exec_ev s _) eqn:E; inversion H; subst; eapply pstar_ev; [exact E|reflexivity]).
    destruct (exec_ev (recv_state s x) _) eqn:E; inversion H; subst.
    eapply cs_step; [|eapply pstar_ev; [exact E|reflexivity]].
    apply c_proto; [unfold recv_state; apply s_recv; assumption|reflexivity].
Qed.

(* a run-loop event is never replayed while a late-logged receive is pending *)
Lemma loop_ev2 s p e s' p' :
  exec_ev2 (s, p) e = Some (s', p') -> loop_ev e = true -> p = None /\ p' = None /\ exec_ev s e = Some s'.
Proof.
  unfold exec_ev2. destruct p as [[t' e']|]; intros H L.
  - destruct e; try discriminate L; discriminate H.
  - destruct e; try discriminate L;
      (destruct (exec_ev s _) eqn:E; inversion H; subst; auto).
Qed.

Lemma split_task_tid t run x rest : split_task t run = Some (x, rest) -> tid x = t.
Proof.
  revert x rest. induction run as [|y run IH]; simpl; intros x rest H; [discriminate|].
  destruct (N.eqb t (tid y)) eqn:E.
  - inversion H; subst. apply N.eqb_eq in E. auto.
  - destruct (split_task t run) as [[z r]|]; [|discriminate]. inversion H; subst. eapply IH; reflexivity.
Qed.

Lemma bres_eqb_eq a b : bres_eqb a b = true -> a = b.
Proof. destruct a, b; simpl; congruence. Qed.

Lemma conf_ev_sound na m g s p r e s' p' r' :
  conf_ev na m g ((s, p), r) e = Some ((s', p'), r') -> cstar na m g (s, r) (s', r').
Proof.
  unfold conf_ev. destruct e;
    try (destruct (exec_ev2 (s, p) _) as [[s1 p1]|] eqn:E; [|discriminate]; intros H; inversion H; subst;
         eapply pstar_ev2; [exact E|reflexivity]).
  - (* spawn *)
    destruct (split_task t (r_exp r)) as [[nt q]|] eqn:Es; [|discriminate].
    destruct (r_res r) eqn:Er; [discriminate|].
    destruct (bres_eqb b (bres_of (fst nt))) eqn:F2; [|discriminate].
    destruct (exec_ev2 (s, p) _) as [[s1 p1]|] eqn:E; [|discriminate]. intros H; inversion H; subst.
    apply bres_eqb_eq in F2.
    destruct (loop_ev2 _ _ _ _ _ E eq_refl) as (-> & _ & E').
    pose proof (split_task_tid _ _ _ _ Es) as Et. subst t b.
    unfold exec_ev in E'. destruct (cp s) eqn:Ec; try discriminate.
    destruct (get_pc (tid nt) (epcs s)) eqn:Eg; [discriminate|]. inversion E'; subst.
    apply cstar_one.
    replace (mk _ _ _ _ _ _ _) with (submit1 false nt s) by reflexivity.
    apply c_sub; auto.
  - (* sync *)
    destruct (split_task t (r_exp r)) as [[nt q]|] eqn:Es; [|discriminate].
    destruct (r_res r) eqn:Er; [discriminate|].
    destruct (bres_eqb b (bres_of (fst nt))) eqn:F2; [|discriminate].
    destruct (exec_ev2 (s, p) _) as [[s1 p1]|] eqn:E; [|discriminate]. intros H; inversion H; subst.
    apply bres_eqb_eq in F2.
    destruct (loop_ev2 _ _ _ _ _ E eq_refl) as (-> & _ & E').
    pose proof (split_task_tid _ _ _ _ Es) as Et. subst t b.
    unfold exec_ev in E'. destruct (cp s) eqn:Ec; try discriminate.
    destruct (get_pc (tid nt) (epcs s)) eqn:Eg; [discriminate|]. inversion E'; subst.
    apply cstar_one.
    replace (mk _ _ _ _ _ _ _) with (submit1 true nt s) by reflexivity.
    apply c_sub; auto.
  - (* await *)
    destruct (is_none_o (r_res r) && is_nil (r_exp r) && ph_wait (r_ph r))%bool eqn:Ef; [|discriminate].
    destruct (exec_ev2 (s, p) _) as [[s1 p1]|] eqn:E; [|discriminate]. intros H; inversion H; subst.
    apply andb_prop in Ef. destruct Ef as [Ef F3]. apply andb_prop in Ef. destruct Ef as [F1 F2].
    destruct (loop_ev2 _ _ _ _ _ E eq_refl) as (-> & _ & E').
    unfold exec_ev in E'. destruct (cp s) eqn:Ec; try discriminate. destruct (num s) as [|n] eqn:En; [discriminate|].
    inversion E'; subst. apply cstar_one.
    replace (mk _ _ _ _ _ _ _) with (await_st s n) by reflexivity.
    apply c_await; auto.
    + destruct (r_res r); [discriminate|reflexivity].
    + destruct (r_exp r); [reflexivity|discriminate].
    + destruct (r_ph r); [reflexivity|discriminate].
  - (* empty *)
    destruct (is_none_o (r_res r) && is_nil (r_exp r) && ph_wait (r_ph r))%bool eqn:Ef; [|discriminate].
    destruct (exec_ev2 (s, p) _) as [[s1 p1]|] eqn:E; [|discriminate].
    apply andb_prop in Ef. destruct Ef as [Ef F3]. apply andb_prop in Ef. destruct Ef as [F1 F2].
    destruct (loop_ev2 _ _ _ _ _ E eq_refl) as (-> & -> & E').
    unfold exec_ev in E'. destruct (cp s) eqn:Ec; try discriminate. destruct (num s) as [|n] eqn:En; [|discriminate].
    inversion E'; subst s1.
    assert (G1 : r_res r = None) by (destruct (r_res r); [discriminate|reflexivity]).
    assert (G2 : r_exp r = []) by (destruct (r_exp r); [reflexivity|discriminate]).
    assert (G3 : r_ph r = PWait) by (destruct (r_ph r); [reflexivity|discriminate]).
    destruct na.
    + simpl fst. destruct (resolve_batch m g s r) as [r1|] eqn:Eb; [|discriminate].
      intros H; inversion H; subst. apply cstar_one. apply c_resolve_b; auto.
    + intros H; inversion H; subst. apply cstar_one. apply c_none; auto.
  - (* unlockC *)
    destruct (exec_ev2 (s, p) _) as [[s1 p1]|] eqn:E; [|discriminate].
    assert (P : cstar na m g (s, r) (s1, r)) by (eapply pstar_ev2; [exact E|reflexivity]).
    destruct na; [intros H; inversion H; subst; exact P|].
    destruct (is_none_o (r_res r) && negb (ph_wait (r_ph r)))%bool eqn:Ef; [|discriminate].
    simpl fst. destruct (resolve_eager g s1 r) as [r1|] eqn:Eb; [|discriminate].
    intros H; inversion H; subst. eapply cstar_trans; [exact P|]. apply cstar_one.
    apply andb_prop in Ef. destruct Ef as [F1 F2].
    apply c_resolve_e; auto.
    + destruct (r_res r); [discriminate|reflexivity].
    + destruct (r_ph r); [discriminate|reflexivity].
    + (* the collector is idle again after its unlock *)
      unfold exec_ev2 in E. destruct p as [[t' e']|]; [discriminate E|].
      destruct (exec_ev s EvUnlockC) as [s2|] eqn:E2; cbv iota beta in E; [|discriminate E]. inversion E; subst.
      unfold exec_ev in E2. destruct (cp s); try discriminate.
      * destruct (is_nil (l s)); [|discriminate]. inversion E2; reflexivity.
      * inversion E2; reflexivity.
Qed.

Lemma conf_trace_sound na m g tr : forall s p r s' p' r',
  conf_trace na m g ((s, p), r) tr = Some ((s', p'), r') -> cstar na m g (s, r) (s', r').
Proof.
  induction tr as [|e tr IH]; cbn [conf_trace]; intros s p r s' p' r'.
  - intros H; inversion H; subst. apply cs_refl.
  - destruct (conf_ev na m g (s, p, r) e) as [[[s1 p1] r1]|] eqn:E; [|discriminate]. intros H.
    eapply cstar_trans; [eapply conf_ev_sound; exact E|eapply IH; exact H].
Qed.

(* every trace the replay accepts is a path of the composed system from its initial state: what
   the replay reports (outcome, executions, tasks left in flight) is what that path computed *)
Lemma conf_run_sound na m g F tr s o log lft :
  conf_run na m g F tr = Some (s, (o, log, lft)) ->
  exists r, creach na m g F (s, r) /\ r_res r = o /\ r_log r = log /\ ids_of (r_run r) = lft.
Proof.
  unfold conf_run.
  destruct (conf_trace na m g (init, None, rl_init na m g F) (normalize tr)) as [[[s1 [p1|]] r1]|] eqn:E;
    try discriminate.
  intros H; inversion H; subst. exists r1. split; [|auto].
  eapply creach_star; [apply cr_init|]. eapply conf_trace_sound; exact E.
Qed.
