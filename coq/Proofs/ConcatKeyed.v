(* Proofs/ConcatKeyed.v — the key-wise lifting, generically: if the per-key concatenation
   [kc] satisfies the re-chunking law on the values found under one key, then the key-wise
   pass [kstep kc] over map chunks satisfies it (first-appearance key order included).
   (Proofs/ConcatRechunk.v proves the same for concatMaps of Model/Concat.v directly; this
   version is independent of the value type.) *)
From Eino Require Import Base.Util Model.Concat Model.ConcatMsgMap Proofs.Concat Proofs.ConcatRechunk.
From Coq Require Import Sorting.Permutation.

Section Keyed.
Context {A : Type}.

Definition gadd_keys (m : list (string * A)) (ks : list string) : list string :=
  fold_left (fun ks kv => add_key (fst kv) ks) m ks.

Lemma gkeys_of_fold (ms : list (list (string * A))) :
  gkeys_of ms = fold_left (fun ks m => gadd_keys m ks) ms [].
Proof. reflexivity. Qed.

Lemma gadd_keys_NoDup m ks : NoDup ks -> NoDup (gadd_keys m ks).
Proof.
  unfold gadd_keys. revert ks. induction m as [|kv m IH]; cbn; intros ks H; [exact H|].
  apply IH, add_key_NoDup, H.
Qed.

Lemma gadd_keys_In k m ks : In k (gadd_keys m ks) <-> In k ks \/ In k (map fst m).
Proof.
  unfold gadd_keys. revert ks. induction m as [|kv m IH]; cbn; intros ks.
  - intuition.
  - rewrite IH, add_key_In. intuition.
Qed.

Lemma gkeys_from_NoDup (ms : list (list (string * A))) ks :
  NoDup ks -> NoDup (fold_left (fun ks m => gadd_keys m ks) ms ks).
Proof.
  revert ks. induction ms as [|m ms IH]; cbn; intros ks H; [exact H|].
  apply IH, gadd_keys_NoDup, H.
Qed.

Lemma gkeys_of_NoDup (ms : list (list (string * A))) : NoDup (gkeys_of ms).
Proof. rewrite gkeys_of_fold. apply gkeys_from_NoDup. constructor. Qed.

Lemma gkeys_from_In k (ms : list (list (string * A))) ks :
  In k (fold_left (fun ks m => gadd_keys m ks) ms ks) <-> In k ks \/ exists m, In m ms /\ In k (map fst m).
Proof.
  revert ks. induction ms as [|m ms IH]; cbn; intros ks.
  - split; [auto|]. intros [H|[m [[] _]]]. exact H.
  - rewrite IH, gadd_keys_In. split.
    + intros [[H|H]|[m' [H1 H2]]]; eauto 6.
    + intros [H|[m' [[->|H1] H2]]]; eauto 6.
Qed.

Lemma gkeys_of_In k (ms : list (list (string * A))) :
  In k (gkeys_of ms) <-> exists m, In m ms /\ In k (map fst m).
Proof. rewrite gkeys_of_fold, gkeys_from_In. cbn. intuition. Qed.

Lemma gadd_keys_fresh (c : list (string * A)) ks : NoDup (ks ++ map fst c) -> gadd_keys c ks = ks ++ map fst c.
Proof.
  unfold gadd_keys. revert ks. induction c as [|[k v] c IH]; cbn; intros ks H.
  - now rewrite app_nil_r.
  - assert (Hk : ~ In k ks).
    { apply NoDup_remove_2 in H. intros Hin. apply H. apply in_or_app. now left. }
    rewrite add_key_notin by exact Hk. rewrite IH.
    + rewrite <- app_assoc. reflexivity.
    + rewrite <- app_assoc. exact H.
Qed.

Lemma gkeys_rechunk (c : list (string * A)) xs ys :
  map fst c = gkeys_of xs -> gkeys_of (c :: ys) = gkeys_of (xs ++ ys).
Proof.
  intros H. rewrite !gkeys_of_fold. rewrite fold_left_app. cbn [fold_left].
  rewrite gadd_keys_fresh.
  - cbn [app]. rewrite H. reflexivity.
  - cbn [app]. rewrite H. apply gkeys_of_NoDup.
Qed.

Lemma gvals_at_app k (xs ys : list (list (string * A))) : gvals_at k (xs ++ ys) = gvals_at k xs ++ gvals_at k ys.
Proof. unfold gvals_at. apply flat_map_app. Qed.

Lemma gvals_at_nil k (ms : list (list (string * A))) : ~ In k (gkeys_of ms) -> gvals_at k ms = [].
Proof.
  intros H. unfold gvals_at. induction ms as [|m ms IH]; cbn; [reflexivity|].
  rewrite alist_get_None.
  - cbn. apply IH. intros Hin. apply H. apply gkeys_of_In in Hin. destruct Hin as [m' [H1 H2]].
    apply gkeys_of_In. exists m'. split; [now right|exact H2].
  - intros Hin. apply H. apply gkeys_of_In. exists m. split; [now left|exact Hin].
Qed.

Lemma gmapM_pairs_inv (g : string -> res A) K c :
  res_mapM (fun k => res_map (fun v => (k, v)) (g k)) K = Ok c ->
  map fst c = K /\ (forall k, In k K -> exists v, g k = Ok v /\ alist_get k c = Some v).
Proof.
  revert c. induction K as [|a K IH]; intros c; cbn.
  - intros H. inversion H. split; [reflexivity|]. intros k [].
  - destruct (g a) as [va| |] eqn:Ea; cbn; try discriminate.
    destruct (res_mapM _ K) as [bs| |] eqn:Eb; cbn; try discriminate.
    intros H. inversion H; subst c. destruct (IH bs eq_refl) as [Hfst Hget]. split.
    + cbn. congruence.
    + intros k Hin. cbn [alist_get]. destruct (String.eqb k a) eqn:Ek.
      * apply String.eqb_eq in Ek. subst k. exists va. split; auto.
      * destruct Hin as [->|Hin]; [rewrite String.eqb_refl in Ek; discriminate|]. apply Hget, Hin.
Qed.

(* the lifting *)
Variable kc : list A -> res A.
Hypothesis kc_law : forall vs rest,
  match kc vs with
  | Ok v => req (kc (v :: rest)) (kc (vs ++ rest))
  | _ => fails (kc (vs ++ rest))
  end.

Theorem kstep_rechunk xs ys : rechunk_ok (kstep kc) xs ys.
Proof.
  unfold rechunk_ok.
  destruct (kstep kc xs) as [c|e|] eqn:E.
  - unfold kstep in E. apply gmapM_pairs_inv in E. destruct E as [Hfst Hget].
    unfold kstep. rewrite (gkeys_rechunk c xs ys Hfst).
    apply res_mapM_req. intros k _. apply req_res_map.
    rewrite gvals_at_app. unfold gvals_at at 1. cbn [flat_map]. fold (gvals_at k ys).
    destruct (in_dec string_dec k (gkeys_of xs)) as [Hin|Hnin].
    + destruct (Hget k Hin) as [v [Hv Hc]]. rewrite Hc. cbn [app].
      pose proof (kc_law (gvals_at k xs) (gvals_at k ys)) as H.
      rewrite Hv in H. exact H.
    + rewrite alist_get_None by (rewrite Hfst; exact Hnin).
      rewrite (gvals_at_nil k xs Hnin). apply req_refl.
  - assert (F : fails (kstep kc xs)) by (rewrite E; reflexivity).
    apply res_mapM_fails_inv in F. destruct F as [k [Hin Hk']].
    unfold kstep. apply (res_mapM_fails _ _ k).
    + apply gkeys_of_In in Hin. destruct Hin as [m [H1 H2]]. apply gkeys_of_In. exists m.
      split; [apply in_or_app; now left|exact H2].
    + pose proof (kc_law (gvals_at k xs) (gvals_at k ys)) as H.
      rewrite gvals_at_app.
      destruct (kc (gvals_at k xs)); cbn in Hk'; [discriminate| |];
        (unfold fails in *; destruct (kc (gvals_at k xs ++ gvals_at k ys)); cbn in *; auto).
  - assert (F : fails (kstep kc xs)) by (rewrite E; reflexivity).
    apply res_mapM_fails_inv in F. destruct F as [k [Hin Hk']].
    unfold kstep. apply (res_mapM_fails _ _ k).
    + apply gkeys_of_In in Hin. destruct Hin as [m [H1 H2]]. apply gkeys_of_In. exists m.
      split; [apply in_or_app; now left|exact H2].
    + pose proof (kc_law (gvals_at k xs) (gvals_at k ys)) as H.
      rewrite gvals_at_app.
      destruct (kc (gvals_at k xs)); cbn in Hk'; [discriminate| |];
        (unfold fails in *; destruct (kc (gvals_at k xs ++ gvals_at k ys)); cbn in *; auto).
Qed.

Lemma kstep_no_panic ms : (forall vs, kc vs <> Panic) -> kstep kc ms <> Panic.
Proof.
  intros H. unfold kstep. apply res_mapM_no_panic. intros k _.
  specialize (H (gvals_at k ms)). destruct (kc (gvals_at k ms)); cbn; congruence.
Qed.

End Keyed.

(* ------------------------------------------------------------------ interleaving *)

(* The key-wise pass depends on the chunk list only through the sequence of values found
   under each key: two chunk lists that carry the same values per key (e.g. two different
   interleavings of the streams a fan-in merges, or the same data cut into other chunks)
   concatenate to the same map. *)
Section Interleave.
Context {A : Type}.
Variable kc : list A -> res A.

Lemma gkeys_iff_vals k (ms : list (list (string * A))) : In k (gkeys_of ms) <-> gvals_at k ms <> [].
Proof.
  split.
  - intros H. apply gkeys_of_In in H. destruct H as [m [Hm Hk]].
    destruct (alist_get k m) as [v|] eqn:E.
    + intros N. assert (Hin : In v (gvals_at k ms)).
      { unfold gvals_at. apply in_flat_map. exists m. split; [exact Hm|]. rewrite E. now left. }
      rewrite N in Hin. exact Hin.
    + exfalso. revert E. clear - Hk. induction m as [|[k' v] m IH]; cbn in *; [contradiction|].
      destruct (String.eqb k k') eqn:E; [discriminate|].
      destruct Hk as [->|Hk]; [rewrite String.eqb_refl in E; discriminate|]. apply IH, Hk.
  - intros H. destruct (in_dec string_dec k (gkeys_of ms)) as [Hin|Hnin]; [exact Hin|].
    exfalso. apply H. apply gvals_at_nil, Hnin.
Qed.

Lemma all_ok_mapM {B C} (f : B -> res C) l :
  (forall a, In a l -> exists b, f a = Ok b) -> exists c, res_mapM f l = Ok c.
Proof.
  induction l as [|a l IH]; intros H; cbn; [eexists; reflexivity|].
  destruct (H a) as [b Hb]; [now left|]. rewrite Hb. cbn.
  destruct IH as [c Hc]; [intros; apply H; now right|]. rewrite Hc. cbn. eexists; reflexivity.
Qed.

Theorem kstep_interleaving (ms ms' : list (list (string * A))) :
  (forall k, gvals_at k ms = gvals_at k ms') ->
  match kstep kc ms, kstep kc ms' with
  | Ok a, Ok b => forall k, alist_get k a = alist_get k b
  | Ok _, _ => False
  | _, Ok _ => False
  | _, _ => True
  end.
Proof.
  intros H.
  assert (HK : forall k, In k (gkeys_of ms) <-> In k (gkeys_of ms')).
  { intros k. rewrite !gkeys_iff_vals, H. tauto. }
  destruct (kstep kc ms) as [a|e|] eqn:Ea.
  - unfold kstep in Ea. apply gmapM_pairs_inv in Ea. destruct Ea as [Hfst Hget].
    destruct (all_ok_mapM (fun k => res_map (fun v => (k, v)) (kc (gvals_at k ms'))) (gkeys_of ms')) as [b Eb].
    { intros k Hk. apply HK in Hk. destruct (Hget k Hk) as [v [Hv _]]. rewrite <- H, Hv. eexists; reflexivity. }
    unfold kstep. rewrite Eb. apply gmapM_pairs_inv in Eb. destruct Eb as [Hfst' Hget'].
    intros k. destruct (in_dec string_dec k (gkeys_of ms)) as [Hin|Hnin].
    + destruct (Hget k Hin) as [v [Hv Ga]]. destruct (Hget' k (proj1 (HK k) Hin)) as [v' [Hv' Gb]].
      rewrite <- H, Hv in Hv'. inversion Hv'; subst v'. congruence.
    + rewrite (alist_get_None k a) by (rewrite Hfst; exact Hnin).
      rewrite (alist_get_None k b); [reflexivity|]. rewrite Hfst'. intros Hin. apply Hnin, HK, Hin.
  - assert (F : fails (kstep kc ms)) by (rewrite Ea; reflexivity).
    apply res_mapM_fails_inv in F. destruct F as [k [Hin Fk]].
    assert (F' : fails (kstep kc ms')).
    { unfold kstep. apply (res_mapM_fails _ _ k); [apply HK, Hin|]. rewrite <- H. exact Fk. }
    unfold fails in F'. destruct (kstep kc ms'); [discriminate|exact I|exact I].
  - assert (F : fails (kstep kc ms)) by (rewrite Ea; reflexivity).
    apply res_mapM_fails_inv in F. destruct F as [k [Hin Fk]].
    assert (F' : fails (kstep kc ms')).
    { unfold kstep. apply (res_mapM_fails _ _ k); [apply HK, Hin|]. rewrite <- H. exact Fk. }
    unfold fails in F'. destruct (kstep kc ms'); [discriminate|exact I|exact I].
Qed.

(* the key loop in any order (Go iterates over the map of collected values in an arbitrary
   order): the result is the same map *)
Definition kstep_o (ord : list string -> list string) (ms : list (list (string * A))) : res (list (string * A)) :=
  res_mapM (fun k => res_map (fun v => (k, v)) (kc (gvals_at k ms))) (ord (gkeys_of ms)).

Theorem kstep_order ord (ms : list (list (string * A))) :
  (forall l, Permutation (ord l) l) ->
  match kstep_o ord ms, kstep kc ms with
  | Ok a, Ok b => forall k, alist_get k a = alist_get k b
  | Ok _, _ => False
  | _, Ok _ => False
  | _, _ => True
  end.
Proof.
  intros Hp.
  assert (HK : forall k, In k (ord (gkeys_of ms)) <-> In k (gkeys_of ms)).
  { intros k. split; apply Permutation_in; [apply Hp|apply Permutation_sym, Hp]. }
  unfold kstep_o.
  destruct (res_mapM _ (ord (gkeys_of ms))) as [a|e|] eqn:Ea.
  - apply gmapM_pairs_inv in Ea. destruct Ea as [Hfst Hget].
    destruct (all_ok_mapM (fun k => res_map (fun v => (k, v)) (kc (gvals_at k ms))) (gkeys_of ms)) as [b Eb].
    { intros k Hk. apply HK in Hk. destruct (Hget k Hk) as [v [Hv _]]. rewrite Hv. eexists; reflexivity. }
    unfold kstep. rewrite Eb. apply gmapM_pairs_inv in Eb. destruct Eb as [Hfst' Hget'].
    intros k. destruct (in_dec string_dec k (gkeys_of ms)) as [Hin|Hnin].
    + destruct (Hget k (proj2 (HK k) Hin)) as [v [Hv Ga]]. destruct (Hget' k Hin) as [v' [Hv' Gb]].
      rewrite Hv in Hv'. inversion Hv'; subst v'. congruence.
    + rewrite (alist_get_None k a) by (rewrite Hfst; intros H; apply Hnin, HK, H).
      rewrite (alist_get_None k b); [reflexivity|]. rewrite Hfst'. exact Hnin.
  - assert (F : fails (res_mapM (fun k => res_map (fun v => (k, v)) (kc (gvals_at k ms))) (ord (gkeys_of ms))))
      by (rewrite Ea; reflexivity).
    apply res_mapM_fails_inv in F. destruct F as [k [Hin Fk]].
    assert (F' : fails (kstep kc ms)).
    { unfold kstep. apply (res_mapM_fails _ _ k); [apply HK, Hin|exact Fk]. }
    unfold fails in F'. destruct (kstep kc ms); [discriminate|exact I|exact I].
  - assert (F : fails (res_mapM (fun k => res_map (fun v => (k, v)) (kc (gvals_at k ms))) (ord (gkeys_of ms))))
      by (rewrite Ea; reflexivity).
    apply res_mapM_fails_inv in F. destruct F as [k [Hin Fk]].
    assert (F' : fails (kstep kc ms)).
    { unfold kstep. apply (res_mapM_fails _ _ k); [apply HK, Hin|exact Fk]. }
    unfold fails in F'. destruct (kstep kc ms); [discriminate|exact I|exact I].
Qed.

End Interleave.

(* concatMaps of Model/Concat.v is an instance of the key-wise pass *)
Lemma concat_maps_top_is_kstep {U : UserFn} ms :
  concat_maps_top ms = kstep (concat_key concat_maps_top) ms.
Proof. rewrite concat_maps_top_unfold. reflexivity. Qed.
