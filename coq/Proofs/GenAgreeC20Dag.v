(* Proofs/GenAgreeC20Dag.v — property C20, translator tie for the cycle detection: func validateDAG of
   compose/graph.go, translated statement by statement by tools/go2v (extractor "c20dag", Gen/C20Dag.v), run on the
   controlPredecessors that the (translated) loops of graph.compile build from the control edges and the branch end
   nodes, is the model's [validate_dag] — the counter algorithm about which Props/C20.v proves soundness,
   completeness (accepts exactly the graphs with a topological order) and independence of the firing order.

   [gen_validateDAG_agrees]: for every builder state with distinct node keys in which every successor (target of a
   control edge, end node of a branch) is END or a node of the graph, with the round bound [fuel] = number of nodes + 1
   (the bound the model uses; the loop `for hasChanged` of the code stops by itself as soon as a round changes nothing,
   and from then on further rounds change nothing either: [while_iter] holds for every fuel).  Go maps are read in
   insertion order, as in the model — that the verdict is the same for every order is validateDAG_order_independent.
   [gen_validateDAG_agrees_ginv]: the same from the builder invariant, for graphs whose branches were added with data
   flow (Graph, Chain); for a Workflow the end nodes of a branch are checked by Workflow.compile before addBranch.

   Unrecognised shape: neutral Gen file, [D.tie_available = false], the theorems hold vacuously. *)
From Eino Require Import Base.Util Model.Builder Model.BuilderGenLib Model.BuilderDagGenLib Proofs.Builder Proofs.BuilderDag Proofs.BuilderSound.
From Coq Require Import Lia ZArith.
From Eino Require Gen.C20Dag.
Module D := Gen.C20Dag.
Local Open Scope string_scope.
Local Open Scope list_scope.

Ltac dvacuous TA := unfold D.tie_available in TA; discriminate TA.

(* ---------------------------------------------------------------- association lists *)
Lemma aset_absent : forall {A} k (a : A) l, alist_get k l = None -> alist_set k a l = l ++ [(k, a)].
Proof.
  intros A k a l; induction l as [|[k' a'] l IH]; simpl; [reflexivity|].
  destruct (String.eqb k k'); [discriminate|]. intros H. rewrite (IH H). reflexivity.
Qed.

Lemma aget_app_absent : forall {A} k (l r : list (string * A)), alist_get k l = None -> alist_get k (l ++ r) = alist_get k r.
Proof.
  intros A k l r; induction l as [|[k' a'] l IH]; simpl; [reflexivity|].
  destruct (String.eqb k k'); [discriminate|]. exact IH.
Qed.

Lemma aset_app_absent : forall {A} k (a : A) (l r : list (string * A)),
  alist_get k l = None -> alist_set k a (l ++ r) = l ++ alist_set k a r.
Proof.
  intros A k a l r; induction l as [|[k' a'] l IH]; simpl; [reflexivity|].
  destruct (String.eqb k k'); [discriminate|]. intros H. rewrite (IH H). reflexivity.
Qed.

Lemma aget_none_notin : forall {A} k (l : list (string * A)), ~ In k (map fst l) -> alist_get k l = None.
Proof.
  intros A k l; induction l as [|[k' a'] l IH]; simpl; [reflexivity|]. intros H.
  destruct (String.eqb k k') eqn:E; [apply String.eqb_eq in E; subst; exfalso; apply H; left; reflexivity|].
  apply IH. intros X. apply H. right; assumption.
Qed.

Lemma aget_set_same' : forall {A} k (a : A) l, alist_get k (alist_set k a l) = Some a.
Proof.
  intros A k a l; induction l as [|[k' a'] l IH]; simpl; [rewrite String.eqb_refl; reflexivity|].
  destruct (String.eqb k k') eqn:E; simpl; [rewrite String.eqb_refl; reflexivity|rewrite E; exact IH].
Qed.

Lemma aget_set_other' : forall {A} k k' (a : A) l, k <> k' -> alist_get k (alist_set k' a l) = alist_get k l.
Proof.
  intros A k k' a l N; induction l as [|[k2 a2] l IH]; simpl.
  - destruct (String.eqb k k') eqn:E; [apply String.eqb_eq in E; contradiction|reflexivity].
  - destruct (String.eqb k' k2) eqn:E2; simpl.
    + apply String.eqb_eq in E2; subst k2.
      destruct (String.eqb k k') eqn:E; [apply String.eqb_eq in E; contradiction|reflexivity].
    + destruct (String.eqb k k2); [reflexivity|exact IH].
Qed.

(* ---------------------------------------------------------------- controlPredecessors *)
Definition cp_of (ps : list (string * string)) (acc : pmap) : pmap :=
  fold_left (fun cp p => mm_append (snd p) (fst p) cp) ps acc.

Lemma control_predecessors_cp_of : D.tie_available = true -> forall g, D.control_predecessors g = cp_of (ctrl_pairs g) [].
Proof.
  intros TA; first [dvacuous TA | clear TA;
  intros g; unfold D.control_predecessors, cp_of, ctrl_pairs; rewrite fold_left_app; cbv zeta;
  generalize (fold_left (fun cp p => mm_append (snd p) (fst p) cp) (g_ctrl g) []);
  induction (g_branches g) as [|[s [ends sk]] rest IH]; intros acc; simpl; [reflexivity|];
  rewrite fold_left_app; rewrite <- IH; f_equal;
  generalize acc; clear; induction ends as [|e r IH]; intros acc; simpl; [reflexivity|]; apply IH ].
Qed.

Definition preds (ps : list (string * string)) (k : string) : list string :=
  map fst (filter (fun p => String.eqb (snd p) k) ps).

Lemma mm_append_get : forall k v x m,
  alist_get x (mm_append k v m) =
  if String.eqb x k then Some (match alist_get k m with Some l => l ++ [v] | None => [v] end) else alist_get x m.
Proof.
  intros k v x m. unfold mm_append.
  destruct (String.eqb x k) eqn:E.
  - apply String.eqb_eq in E; subst x. destruct (alist_get k m); apply aget_set_same'.
  - destruct (alist_get k m); apply aget_set_other'; intros X; subst; rewrite String.eqb_refl in E; discriminate.
Qed.

Lemma cp_of_get : forall ps acc k,
  alist_get k (cp_of ps acc) =
  match alist_get k acc, preds ps k with
  | None, [] => None
  | None, l => Some l
  | Some a, l => Some (a ++ l)
  end.
Proof.
  induction ps as [|[s e] rest IH]; intros acc k; simpl.
  - unfold preds; simpl. destruct (alist_get k acc); [rewrite app_nil_r|]; reflexivity.
  - unfold cp_of in *. simpl. rewrite IH. rewrite mm_append_get. unfold preds. simpl.
    rewrite (String.eqb_sym e k).
    destruct (String.eqb k e) eqn:E.
    + apply String.eqb_eq in E; subst e. simpl.
      destruct (alist_get k acc) as [a|]; [rewrite <- app_assoc; reflexivity|reflexivity].
    + destruct (alist_get k acc); reflexivity.
Qed.

(* the counter validateDAG starts a node with *)
Lemma init_count_preds : forall ps k,
  init_count ps k = (Z.of_nat (List.length (preds ps k)) - Z.of_nat (List.length (filter (String.eqb START) (preds ps k))))%Z.
Proof.
  intros ps k. unfold init_count, preds. induction ps as [|[s e] rest IH]; [reflexivity|].
  cbn [filter fst snd]. destruct (String.eqb e k); cbn [andb map filter fst List.length]; [|exact IH].
  rewrite (String.eqb_sym START s). destruct (String.eqb s START); cbn [negb filter List.length];
    rewrite ?Nat2Z.inj_succ; lia.
Qed.

(* ---------------------------------------------------------------- the initial counters *)
Definition init_step (cp : pmap) (m : cmap) (node : string) : cmap :=
  match alist_get node cp with
  | Some edges =>
    let m := m_put node (Z.of_nat (List.length edges)) m in
    fold_left (fun m pre => if String.eqb pre START then m_add node (-1) m else m) edges m
  | None => m_put node 0 m
  end.

Lemma m_add_last : forall acc node z d, alist_get node acc = None ->
  m_add node d (acc ++ [(node, z)]) = acc ++ [(node, (z + d)%Z)].
Proof.
  intros acc node z d H. unfold m_add, zget. rewrite (aget_app_absent _ _ _ H). simpl. rewrite String.eqb_refl.
  rewrite (aset_app_absent _ _ _ _ H). simpl. rewrite String.eqb_refl. reflexivity.
Qed.

Lemma fold_dec_start : forall l acc node z, alist_get node acc = None ->
  fold_left (fun m pre => if String.eqb pre START then m_add node (-1) m else m) l (acc ++ [(node, z)])
  = acc ++ [(node, (z - Z.of_nat (List.length (filter (String.eqb START) l)))%Z)].
Proof.
  induction l as [|p l IH]; intros acc node z H; cbn [fold_left filter].
  - cbn [List.length]. rewrite Z.sub_0_r. reflexivity.
  - rewrite (String.eqb_sym START p). destruct (String.eqb p START).
    + rewrite (m_add_last _ _ _ _ H). rewrite (IH _ _ _ H). cbn [List.length]. rewrite Nat2Z.inj_succ.
      do 3 f_equal. lia.
    + apply IH, H.
Qed.

Lemma init_step_fresh : forall ps acc node, alist_get node acc = None ->
  init_step (cp_of ps []) acc node = acc ++ [(node, init_count ps node)].
Proof.
  intros ps acc node H. unfold init_step. rewrite cp_of_get. cbn [alist_get]. rewrite init_count_preds.
  destruct (preds ps node) as [|p l] eqn:P.
  - unfold m_put. rewrite (aset_absent _ _ _ H). reflexivity.
  - cbv zeta. unfold m_put. rewrite (aset_absent _ _ _ H). apply (fold_dec_start (p :: l) acc node _ H).
Qed.

Lemma init_fold : forall ps keys acc, NoDup keys -> (forall k, In k keys -> alist_get k acc = None) ->
  fold_left (init_step (cp_of ps [])) keys acc = acc ++ map (fun k => (k, init_count ps k)) keys.
Proof.
  intros ps keys; induction keys as [|k rest IH]; intros acc ND H; simpl; [rewrite app_nil_r; reflexivity|].
  rewrite (init_step_fresh ps acc k (H k (or_introl eq_refl))).
  inversion ND as [|x l NI ND']; subst.
  rewrite IH; [rewrite <- app_assoc; reflexivity|assumption|].
  intros k' K'. rewrite aget_app_absent by (apply H; right; assumption).
  simpl. destruct (String.eqb k' k) eqn:E; [apply String.eqb_eq in E; subst; contradiction|reflexivity].
Qed.

(* ---------------------------------------------------------------- one node fires *)
Lemma m_add_dec1 : forall s (m : cmap), NoDup (map fst m) -> In s (map fst m) -> m_add s (-1) m = dec1 s m.
Proof.
  intros s m; induction m as [|[k z] m IH]; intros ND I; [contradiction|].
  unfold m_add, zget, dec1 in *. cbn [alist_get alist_set map fst snd].
  rewrite (String.eqb_sym k s). destruct (String.eqb s k) eqn:E.
  - apply String.eqb_eq in E; subst k. f_equal.
    inversion ND as [|x l NI ND']; subst. clear -NI. induction m as [|[k' z'] m IH]; [reflexivity|].
    simpl in *. destruct (String.eqb k' s) eqn:E; [apply String.eqb_eq in E; subst; exfalso; apply NI; left; reflexivity|].
    f_equal. apply IH. intros X. apply NI. right; assumption.
  - f_equal. inversion ND as [|x l NI ND']; subst. apply IH; [assumption|].
    destruct I as [I|I]; [simpl in I; subst; rewrite String.eqb_refl in E; discriminate|assumption].
Qed.

Lemma m_put_zset : forall k z (m : cmap), NoDup (map fst m) -> In k (map fst m) -> m_put k z m = zset k z m.
Proof.
  intros k z m; induction m as [|[k' z'] m IH]; intros ND I; [contradiction|].
  unfold m_put, zset in *. cbn [alist_set map fst snd].
  rewrite (String.eqb_sym k' k). destruct (String.eqb k k') eqn:E.
  - apply String.eqb_eq in E; subst k'. f_equal.
    inversion ND as [|x l NI ND']; subst. clear -NI. induction m as [|[k' z'] m IH]; [reflexivity|].
    simpl in *. destruct (String.eqb k' k) eqn:E; [apply String.eqb_eq in E; subst; exfalso; apply NI; left; reflexivity|].
    f_equal. apply IH. intros X. apply NI. right; assumption.
  - f_equal. inversion ND as [|x l NI ND']; subst. apply IH; [assumption|].
    destruct I as [I|I]; [simpl in I; subst; rewrite String.eqb_refl in E; discriminate|assumption].
Qed.

Definition dec_skip_end (m : cmap) (s : string) : cmap := if String.eqb s END_ then m else m_add s (-1) m.

Lemma fold_dec_skip_end : forall l (m : cmap), NoDup (map fst m) ->
  (forall s, In s l -> s = END_ \/ In s (map fst m)) ->
  fold_left dec_skip_end l m =
  fold_left (fun m' s => dec1 s m') (filter (fun e => negb (String.eqb e END_)) l) m.
Proof.
  induction l as [|s l IH]; intros m ND H; [reflexivity|].
  cbn [fold_left filter]. unfold dec_skip_end at 2.
  destruct (String.eqb s END_) eqn:E; cbn [negb].
  - apply IH; [assumption|]. intros x X. apply H. right; assumption.
  - cbn [fold_left].
    assert (I : In s (map fst m)).
    { destruct (H s (or_introl eq_refl)) as [X|X]; [subst; rewrite String.eqb_refl in E; discriminate|assumption]. }
    rewrite (m_add_dec1 s m ND I). apply IH.
    + rewrite fst_dec1. assumption.
    + intros x X. rewrite fst_dec1. apply H. right; assumption.
Qed.

Lemma fold_nested_concat : forall {A B} (f : A -> B -> A) (ll : list (list B)) (a : A),
  fold_left (fun a l => fold_left f l a) ll a = fold_left f (List.concat ll) a.
Proof.
  intros A B f ll; induction ll as [|l ll IH]; intros a; simpl; [reflexivity|].
  rewrite fold_left_app. apply IH.
Qed.

Lemma branch_pairs_succ : forall bs n,
  map snd (filter (fun p : string * string => String.eqb (fst p) n)
                  (flat_map (fun b : string * (list string * bool) => map (fun e => (fst b, e)) (fst (snd b))) bs))
  = List.concat (map (fun b : string * (list string * bool) => fst (snd b)) (filter (fun b => String.eqb (fst b) n) bs)).
Proof.
  induction bs as [|[s [ends sk]] rest IH]; intros n; simpl; [reflexivity|].
  rewrite filter_app, map_app, IH.
  assert (E : map snd (filter (fun p : string * string => String.eqb (fst p) n) (map (fun e => (s, e)) ends))
              = if String.eqb s n then ends else []).
  { clear. induction ends as [|e r IH]; simpl; [destruct (String.eqb s n); reflexivity|].
    destruct (String.eqb s n) eqn:E; simpl; rewrite IH; reflexivity. }
  rewrite E. destruct (String.eqb s n); reflexivity.
Qed.

Lemma succs_split : forall g n,
  succs (ctrl_pairs g) n =
  filter (fun e => negb (String.eqb e END_)) (controls_of g n ++ List.concat (branch_ends_of g n)).
Proof.
  intros g n. unfold succs, ctrl_pairs, controls_of, branch_ends_of.
  rewrite filter_app, map_app, branch_pairs_succ. reflexivity.
Qed.

(* ---------------------------------------------------------------- rounds *)
Lemma targets_of : forall g n,
  map snd (filter (fun p : string * string => String.eqb (fst p) n) (ctrl_pairs g))
  = controls_of g n ++ List.concat (branch_ends_of g n).
Proof.
  intros g n. unfold ctrl_pairs, controls_of, branch_ends_of. rewrite filter_app, map_app, branch_pairs_succ. reflexivity.
Qed.

Lemma fst_process1 : forall ps m k, map fst (dag_process1 ps m k) = map fst m.
Proof.
  intros ps m k. unfold dag_process1. destruct (Z.eqb (zget k m) 0); [|reflexivity].
  rewrite fst_zset, fst_fold_dec. reflexivity.
Qed.

Lemma fst_fold_process1 : forall ps l m, map fst (fold_left (dag_process1 ps) l m) = map fst m.
Proof. intros ps l; induction l as [|k l IH]; intros m; simpl; [reflexivity|]. rewrite IH. apply fst_process1. Qed.

Lemma iter_fixed' : forall {A} (f : A -> A) n x, f x = x -> Nat.iter n f x = x.
Proof. intros A f n x H; induction n as [|n IH]; simpl; [reflexivity|]. rewrite IH. exact H. Qed.

Lemma while_changed_ext : forall f r r' m, (forall m, r m = r' m) -> while_changed f r m = while_changed f r' m.
Proof.
  induction f as [|f IH]; intros r r' m H; simpl; [reflexivity|].
  rewrite H. destruct (r' m) as [m' [|]]; [apply IH, H|reflexivity].
Qed.

Section Sweep.
  Variable g : gstate.
  Let ps := ctrl_pairs g.
  Let keys := map fst (g_nodes g).
  Hypothesis keys_nodup : NoDup keys.
  Hypothesis targets : forall a b, In (a, b) ps -> b = END_ \/ In b keys.

  Definition gen_fire (m : cmap) (node : string) : cmap :=
    let m := fold_left dec_skip_end (controls_of g node) m in
    let m := fold_left (fun m sb => fold_left dec_skip_end sb m) (branch_ends_of g node) m in
    m_put node (-1) m.

  Lemma gen_fire_fire : forall m k, map fst m = keys -> In k keys ->
    gen_fire m k = zset k (-1)%Z (fold_left (fun m' s => dec1 s m') (succs ps k) m).
  Proof.
    intros m k KM K. unfold gen_fire. cbv zeta. rewrite fold_nested_concat, <- fold_left_app.
    assert (ND : NoDup (map fst m)) by (rewrite KM; exact keys_nodup).
    rewrite fold_dec_skip_end; [|exact ND|].
    - unfold ps. rewrite succs_split. apply m_put_zset; rewrite fst_fold_dec; [exact ND|rewrite KM; exact K].
    - intros s S. rewrite KM. rewrite <- targets_of in S. apply in_map_iff in S. destruct S as [[a b] [E I]].
      simpl in E; subst b. apply filter_In in I. destruct I as [I _]. apply (targets a s I).
  Qed.

  Definition gen_round (m : cmap) : cmap * bool :=
    fold_left (fun mh node =>
                 let m := fst mh in let hasChanged := snd mh in
                 if Z.eqb (m_get node m) 0 then (gen_fire m node, true) else (m, hasChanged))
              (map fst m) (m, false).

  Lemma round_fold : forall l m h, map fst m = keys -> (forall k, In k l -> In k keys) ->
    let r := fold_left (fun mh node =>
                 let m := fst mh in let hasChanged := snd mh in
                 if Z.eqb (m_get node m) 0 then (gen_fire m node, true) else (m, hasChanged)) l (m, h) in
    fst r = fold_left (dag_process1 ps) l m /\ (snd r = false -> h = false /\ fold_left (dag_process1 ps) l m = m).
  Proof.
    induction l as [|k l IH]; intros m h KM L; cbn [fold_left]; [simpl; auto|].
    cbn [fst snd]. unfold m_get.
    assert (K : In k keys) by (apply L; left; reflexivity).
    assert (L' : forall x, In x l -> In x keys) by (intros x X; apply L; right; assumption).
    replace (dag_process1 ps m k)
      with (if Z.eqb (zget k m) 0 then zset k (-1)%Z (fold_left (fun m' s => dec1 s m') (succs ps k) m) else m)
      by reflexivity.
    destruct (Z.eqb (zget k m) 0) eqn:E.
    - rewrite (gen_fire_fire m k KM K).
      set (m1 := zset k (-1)%Z (fold_left (fun m' s => dec1 s m') (succs ps k) m)).
      assert (KM1 : map fst m1 = keys) by (unfold m1; rewrite fst_zset, fst_fold_dec; exact KM).
      destruct (IH m1 true KM1 L') as [A B]. split; [exact A|]. intros F. destruct (B F) as [X _]. discriminate X.
    - destruct (IH m h KM L') as [A B]. split; [exact A|exact B].
  Qed.

  Lemma gen_round_sweep : forall m, map fst m = keys ->
    fst (gen_round m) = dag_sweep ps keys m /\ (snd (gen_round m) = false -> dag_sweep ps keys m = m).
  Proof.
    intros m KM. unfold gen_round, dag_sweep. rewrite KM.
    destruct (round_fold keys m false KM (fun k K => K)) as [A B]. split; [exact A|]. intros F. apply (B F).
  Qed.

  Lemma while_iter : forall f m, map fst m = keys ->
    while_changed f gen_round m = Nat.iter f (dag_sweep ps keys) m.
  Proof.
    induction f as [|f IH]; intros m KM; [reflexivity|].
    cbn [while_changed]. destruct (gen_round_sweep m KM) as [A B].
    destruct (gen_round m) as [m' ch]. cbn [fst snd] in *. rewrite iter_succ_r'. subst m'.
    destruct ch.
    - apply IH. unfold dag_sweep. rewrite fst_fold_process1. exact KM.
    - rewrite (B eq_refl). symmetry. apply iter_fixed'. apply (B eq_refl).
  Qed.
End Sweep.

Lemma existsb_pos_forallb_le : forall (m : cmap),
  existsb (fun kv => Z.ltb 0 (snd kv)) m = negb (forallb (fun kv => Z.leb (snd kv) 0) m).
Proof.
  induction m as [|[k z] m IH]; simpl; [reflexivity|]. rewrite IH.
  destruct (Z.ltb_spec 0 z), (Z.leb_spec z 0); simpl; try reflexivity; lia.
Qed.

Theorem gen_validateDAG_agrees : D.tie_available = true -> forall g,
  NoDup (map fst (g_nodes g)) ->
  (forall a b, In (a, b) (ctrl_pairs g) -> b = END_ \/ In b (map fst (g_nodes g))) ->
  D.validateDAG (S (List.length (g_nodes g))) (map fst (g_nodes g)) (controls_of g) (branch_ends_of g) (D.control_predecessors g)
  = validate_dag_result g.
Proof.
  intros TA; first [dvacuous TA |
  intros g ND T; unfold D.validateDAG, validate_dag_result, validate_dag, dag_final; cbv zeta;
  rewrite (control_predecessors_cp_of TA); clear TA;
  change (fold_left _ (map fst (g_nodes g)) []) with
    (fold_left (init_step (cp_of (ctrl_pairs g) [])) (map fst (g_nodes g)) []);
  rewrite (init_fold (ctrl_pairs g) (map fst (g_nodes g)) [] ND (fun k _ => eq_refl)); cbn [app];
  rewrite (while_changed_ext _ _ (gen_round g)) by (intros; reflexivity);
  rewrite (while_iter g ND T) by (rewrite map_map; cbn [fst]; apply map_id);
  rewrite map_length, existsb_pos_forallb_le;
  destruct (forallb _ _); reflexivity ].
Qed.

(* the same from the builder invariant, when no branch was added with skipData *)
Theorem gen_validateDAG_agrees_ginv : D.tie_available = true -> forall g,
  ginv g -> (forall s ends, ~ In (s, (ends, true)) (g_branches g)) ->
  D.validateDAG (S (List.length (g_nodes g))) (map fst (g_nodes g)) (controls_of g) (branch_ends_of g) (D.control_predecessors g)
  = validate_dag_result g.
Proof.
  intros TA g I NS. apply (gen_validateDAG_agrees TA g (gi_nodup g I)).
  intros a b H. unfold ctrl_pairs in H. apply in_app_or in H. destruct H as [H|H].
  - apply (gi_ctrl g I a b H).
  - apply in_flat_map in H. destruct H as [[s [ends sk]] [HB HE]]. simpl in HE.
    apply in_map_iff in HE. destruct HE as [e [E1 E2]]. inversion E1; subst.
    destruct sk; [exfalso; apply (NS _ _ HB)|].
    destruct (gi_branch g I _ _ _ HB) as [_ [_ D0]]. apply (D0 eq_refl _ E2).
Qed.

Print Assumptions gen_validateDAG_agrees.
Print Assumptions gen_validateDAG_agrees_ginv.
