(* Proofs/CallbacksFault.v — a run that fails in the prologue of runner.run (property C10): the
   resuming call whose checkpoint cannot be read or restored, or whose pending tasks belong to no node
   of the graph that resumes ([prologue_fault] of Model/CallbacksResume.v).  Whatever the graph, the
   options and the schedule: the handlers for the whole graph (and the global ones) are served the
   graph's start and the graph's error, once each, and nothing else is invoked; the sequence ends there. *)
From Coq Require Import List Arith NArith Bool Lia.
From Eino Require Import Base.Util Base.GoSlice Model.Callbacks Model.CallbacksSched Model.CallbacksResume.
From Eino Require Import Proofs.CallbacksSlice Proofs.Callbacks Proofs.CallbacksEngine Proofs.CallbacksSched
  Proofs.CallbacksResume.
Import ListNotations.

Lemma fault_graph_ok stages opts : graph_ok stages (prologue_fault :: opts) = false.
Proof. unfold graph_ok, opts_ok, prologue_fault. simpl. reflexivity. Qed.

Lemma fault_undesignated opts : undesignated (prologue_fault :: opts) = undesignated opts.
Proof. reflexivity. Qed.

(* the operations of the run: the graph's context, its start, its error *)
Lemma fault_graph_ops is_stream g ginf opts stages :
  graph_ops is_stream g ginf (prologue_fault :: opts) stages =
  [OAppend None g ginf (undesignated opts); OOn g (graph_start is_stream); OOn g TError].
Proof. unfold graph_ops, graph_body. rewrite fault_graph_ok. reflexivity. Qed.

(* one executed unit: the graph, ending with an error *)
Lemma fault_graph_table is_stream g ginf opts stages :
  graph_table is_stream g ginf (prologue_fault :: opts) stages =
  [{| ue_unit := g; ue_info := ginf; ue_list := List.concat (undesignated opts);
      ue_timings := [graph_start is_stream; TError] |}].
Proof. unfold graph_table, body_table. rewrite fault_graph_ok. reflexivity. Qed.

Lemma filter_all {A} (f : A -> bool) (l : list A) : (forall x, In x l -> f x = true) -> filter f l = l.
Proof.
  induction l as [|a l IH]; simpl; intros H; auto.
  rewrite (H a) by auto. f_equal. apply IH. intros x Hx. apply H. auto.
Qed.

(* every schedule of the run, every world: the whole log is the graph's start events followed by its
   error events *)
Theorem fault_run_log w is_stream g ginf opts stages t :
  NoDup (g :: stages_uids stages) ->
  traces (graph_prog is_stream g ginf (prologue_fault :: opts) stages) t ->
  st_log (run_script true w t) =
    served w g ginf (List.concat (undesignated opts)) (graph_start is_stream) ++
    served w g ginf (List.concat (undesignated opts)) TError.
Proof.
  intros ND HT.
  pose proof (engine_unit_logs w is_stream g ginf (prologue_fault :: opts) stages t ND HT) as HU.
  pose proof (engine_no_other_events w is_stream g ginf (prologue_fault :: opts) stages t ND HT) as HN.
  rewrite fault_graph_table in HU, HN.
  specialize (HU _ (or_introl eq_refl)). simpl ue_unit in HU.
  rewrite filter_all in HU.
  - rewrite HU. unfold uexp_events. simpl. rewrite app_nil_r. reflexivity.
  - intros ev Hev. destruct (HN ev Hev) as (e & [He|[]] & Hu & _). subst e. simpl in Hu.
    unfold of_unit. rewrite Hu. apply N.eqb_refl.
Qed.

(* the reduced option list of a resumed run keeps the fault *)
Lemma fault_live_opts stages opts :
  live_opts stages (prologue_fault :: opts) = prologue_fault :: live_opts stages opts.
Proof. reflexivity. Qed.

Lemma fault_run_outcome stages opts : run_outcome (prologue_fault :: opts) stages = OutFail.
Proof. unfold run_outcome. rewrite fault_graph_ok. reflexivity. Qed.

(* the sequence ends with the call that fails in its prologue: nothing of the plan has been executed, and
   no further run follows *)
Theorem fault_ends_sequence fuel k os plan :
  (0 < k)%nat ->
  plan_seqf (S fuel) k (with_fault k os) plan = [(prologue_fault :: os k, plan)].
Proof.
  intros Hk. simpl. unfold with_fault.
  replace (Nat.ltb 0 k) with true by (symmetry; apply Nat.ltb_lt; exact Hk).
  rewrite Nat.eqb_refl. simpl andb. cbv iota.
  rewrite fault_live_opts, fault_run_outcome. reflexivity.
Qed.

(* the calls before it are the calls of the sequence without a fault *)
Lemma with_fault_other at_run os k : k <> at_run -> with_fault at_run os k = os k.
Proof.
  intros H. unfold with_fault. destruct (Nat.eqb_spec k at_run); [contradiction|].
  rewrite andb_false_r. reflexivity.
Qed.

Lemma with_fault_none os k : with_fault 0 os k = os k.
Proof. reflexivity. Qed.

(* ---------------------------------------------------------------- the prologue of a NESTED graph fails *)

(* [RFault 0] as the first stage of a nested graph: the graph the next run executes has [GStop] there *)
Lemma nested_fault_proj uid key inf stages :
  proj (RSub uid key inf ([RFault 0] :: stages)) = [GSub uid key inf ([GStop] :: proj_stages stages)].
Proof. reflexivity. Qed.

(* its operations: the node's context, the nested graph's start, the nested graph's error; the node has failed *)
Lemma nested_fault_ops is_stream parent opts uid key inf gstages :
  node_ops is_stream parent opts (GSub uid key inf ([GStop] :: gstages)) =
  ([OAppend (Some parent) uid inf (designated key opts); OOn uid (graph_start is_stream); OOn uid TError], true).
Proof.
  simpl. unfold graph_body. destruct (graph_ok _ _); simpl; reflexivity.
Qed.

(* the one executed unit below that node is the nested graph itself, ending with an error *)
Lemma nested_fault_table is_stream inh opts uid key inf gstages :
  node_table is_stream inh opts (GSub uid key inf ([GStop] :: gstages)) =
  ([{| ue_unit := uid; ue_info := inf; ue_list := inh ++ List.concat (designated key opts);
       ue_timings := [graph_start is_stream; TError] |}], true).
Proof.
  simpl. unfold body_table. destruct (graph_ok _ _); simpl; reflexivity.
Qed.

(* a failure, not an interrupt: the enclosing stage fails, the sequence ends *)
Lemma nested_fault_outcome opts uid key inf stages :
  node_outcome opts (RSub uid key inf ([RFault 0] :: stages)) = OutFail.
Proof. simpl. destruct (negb _); reflexivity. Qed.

(* until it strikes it is nothing: the nested graph runs as without it ... *)
Lemma nested_fault_pending_outcome opts uid key inf d stages :
  node_outcome opts (RSub uid key inf ([RFault (S d)] :: stages)) = node_outcome opts (RSub uid key inf stages).
Proof. reflexivity. Qed.

Lemma nested_fault_pending_table uid key inf d stages :
  forall is_stream inh opts,
    node_table is_stream inh opts (GSub uid key inf (proj_stages ([RFault (S d)] :: stages))) =
    node_table is_stream inh opts (GSub uid key inf (proj_stages stages)).
Proof. reflexivity. Qed.

(* ... and every interrupted execution of the nested graph brings it one step nearer *)
Lemma nested_fault_counts_down opts uid key inf d stages stages' :
  resume_node opts (RSub uid key inf stages) = RSub uid key inf stages' ->
  resume_node opts (RSub uid key inf ([RFault (S d)] :: stages)) = RSub uid key inf ([RFault d] :: stages').
Proof. simpl. intros H. injection H as H. rewrite H. reflexivity. Qed.
