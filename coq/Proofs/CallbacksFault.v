(* Proofs/CallbacksFault.v — a run that fails in the prologue of runner.run (property C10): the
   resuming call whose checkpoint cannot be read or restored, or whose pending tasks belong to no node
   of the graph that resumes ([prologue_fault] of Model/CallbacksResume.v).  Whatever the graph, the
   options and the schedule: the handlers for the whole graph (and the global ones) are served the
   graph's start and the graph's error, once each, and nothing else is invoked; the sequence ends there. *)
From Coq Require Import List Arith NArith Bool Lia.
From Eino Require Import Base.Util Base.GoSlice Model.Callbacks Model.CallbacksSched Model.CallbacksResume.
From Eino Require Import Proofs.CallbacksSlice Proofs.Callbacks Proofs.CallbacksEngine Proofs.CallbacksSched
  Proofs.CallbacksResume.
Import ListNotations.

Lemma fault_graph_ok stages opts : graph_ok stages (prologue_fault :: opts) = false.
Proof. unfold graph_ok, opts_ok, prologue_fault. simpl. reflexivity. Qed.

Lemma fault_undesignated opts : undesignated (prologue_fault :: opts) = undesignated opts.
Proof. reflexivity. Qed.

(* the operations of the run: the graph's context, its start, its error *)
Lemma fault_graph_ops is_stream g ginf opts stages :
  graph_ops is_stream g ginf (prologue_fault :: opts) stages =
  [OAppend None g ginf (undesignated opts); OOn g (graph_start is_stream); OOn g TError].
Proof. unfold graph_ops, graph_body. rewrite fault_graph_ok. reflexivity. Qed.

(* one executed unit: the graph, ending with an error *)
Lemma fault_graph_table is_stream g ginf opts stages :
  graph_table is_stream g ginf (prologue_fault :: opts) stages =
  [{| ue_unit := g; ue_info := ginf; ue_list := List.concat (undesignated opts);
      ue_timings := [graph_start is_stream; TError] |}].
Proof. unfold graph_table, body_table. rewrite fault_graph_ok. reflexivity. Qed.

Lemma filter_all {A} (f : A -> bool) (l : list A) : (forall x, In x l -> f x = true) -> filter f l = l.
Proof.
  induction l as [|a l IH]; simpl; intros H; auto.
  rewrite (H a) by auto. f_equal. apply IH. intros x Hx. apply H. auto.
Qed.

(* every schedule of the run, every world: the whole log is the graph's start events followed by its
   error events *)
Theorem fault_run_log w is_stream g ginf opts stages t :
  NoDup (g :: stages_uids stages) ->
  traces (graph_prog is_stream g ginf (prologue_fault :: opts) stages) t ->
  st_log (run_script true w t) =
    served w g ginf (List.concat (undesignated opts)) (graph_start is_stream) ++
    served w g ginf (List.concat (undesignated opts)) TError.
Proof.
  intros ND HT.
  pose proof (engine_unit_logs w is_stream g ginf (prologue_fault :: opts) stages t ND HT) as HU.
  pose proof (engine_no_other_events w is_stream g ginf (prologue_fault :: opts) stages t ND HT) as HN.
  rewrite fault_graph_table in HU, HN.
  specialize (HU _ (or_introl eq_refl)). simpl ue_unit in HU.
  rewrite filter_all in HU.
  - rewrite HU. unfold uexp_events. simpl. rewrite app_nil_r. reflexivity.
  - intros ev Hev. destruct (HN ev Hev) as (e & [He|[]] & Hu & _). subst e. simpl in Hu.
    unfold of_unit. rewrite Hu. apply N.eqb_refl.
Qed.

(* the reduced option list of a resumed run keeps the fault *)
Lemma fault_live_opts stages opts :
  live_opts stages (prologue_fault :: opts) = prologue_fault :: live_opts stages opts.
Proof. reflexivity. Qed.

Lemma fault_run_outcome stages opts : run_outcome (prologue_fault :: opts) stages = OutFail.
Proof. unfold run_outcome. rewrite fault_graph_ok. reflexivity. Qed.

(* the sequence ends with the call that fails in its prologue: nothing of the plan has been executed, and
   no further run follows *)
Theorem fault_ends_sequence fuel k os plan :
  (0 < k)%nat ->
  plan_seqf (S fuel) k (with_fault k os) plan = [(prologue_fault :: os k, plan)].
Proof.
  intros Hk. simpl. unfold with_fault.
  replace (Nat.ltb 0 k) with true by (symmetry; apply Nat.ltb_lt; exact Hk).
  rewrite Nat.eqb_refl. simpl andb. cbv iota.
  rewrite fault_live_opts, fault_run_outcome. reflexivity.
Qed.

(* the calls before it are the calls of the sequence without a fault *)
Lemma with_fault_other at_run os k : k <> at_run -> with_fault at_run os k = os k.
Proof.
  intros H. unfold with_fault. destruct (Nat.eqb_spec k at_run); [contradiction|].
  rewrite andb_false_r. reflexivity.
Qed.

Lemma with_fault_none os k : with_fault 0 os k = os k.
Proof. reflexivity. Qed.
