(* Proofs/OptionsFails.v — property C16: when exactly a call fails, without assuming that every
   Option has values of one Go type (WithLambdaOption(...any) can mix them). *)
From Eino Require Import Base.Util Model.Options Model.OptionsSpec Model.OptionsResume Model.OptionsAll
  Proofs.Options Proofs.OptionsResume Proofs.OptionsAll Proofs.OptionsPerm.
From Coq Require Import Lia.
Local Open Scope N_scope.

(* convertOption[T] in front of a component fails iff some value it is handed has another type *)
Lemma convert_items_fails ty its :
  fails (convert_items ty (map EItem its)) <-> exists it, In it its /\ fst it <> ty.
Proof.
  split.
  - intros H. induction its as [|[t x] its IH].
    + exfalso. eapply H. reflexivity.
    + simpl in H. destruct (N.eqb t ty) eqn:E.
      * apply N.eqb_eq in E. subst t.
        destruct IH as [it [Hin Hne]].
        { intros r Hr. eapply H. rewrite Hr. reflexivity. }
        exists it. split; [right; exact Hin|exact Hne].
      * apply N.eqb_neq in E. exists (t, x). split; [left; reflexivity|exact E].
  - intros [it [Hin Hne]] r Hr. apply convert_items_map in Hr. destruct Hr as [_ Hall].
    rewrite Forall_forall in Hall. apply Hne. apply Hall. exact Hin.
Qed.

Lemma flat_mapM_fails {A B} (f : A -> res (list B)) l :
  fails (res_flat_mapM f l) <-> exists a, In a l /\ fails (f a).
Proof.
  unfold res_flat_mapM. split.
  - intros H. apply res_mapM_err. intros bs Hbs. eapply H. rewrite Hbs. reflexivity.
  - intros [a [Hin Hf]] out H. apply res_bind_ok in H. destruct H as [ls [Hls _]].
    eapply (res_mapM_in_err f l a Hin); [|exact Hls]. exact Hf.
Qed.

(* some executing component below graph gi is handed a value of another type than its own *)
Definition mistyped (F : forest) (gi : nat) (opts : list copt) : Prop :=
  exists p nd ty it, resolve F gi p = Some nd /\ n_kind nd = KComp ty /\ executes F gi p = true /\
                     In it (spec_delivered opts p ty) /\ fst it <> ty.

Lemma run_graph_fails_of_validate fuel : forall F gi pre inh opts m,
  keys_unique F -> validate fuel F gi opts = Ok m ->
  (fails (run_graph fuel F gi pre inh opts) <-> mistyped F gi opts).
Proof.
  induction fuel as [|f IH]; intros F gi pre inh opts m HU Hv; [discriminate|].
  rewrite run_graph_S.
  destruct (validate_inv _ _ _ _ _ Hv) as [f' [g [Hf' [Hg [Hm Hnest]]]]].
  inversion Hf'; subst f'. clear Hf'. rewrite Hg, Hv. simpl.
  rewrite flat_mapM_fails. split.
  - intros [nd [Hin Hfl]].
    pose proof (find_node_unique g nd (HU _ _ Hg) Hin) as Hfind.
    unfold node_run in Hfl.
    destruct (n_runs nd) eqn:Hruns; simpl in Hfl; [|exfalso; eapply Hfl; reflexivity].
    destruct (n_kind nd) as [ty|gj] eqn:Hk.
    + rewrite (node_slice_comp F gi g nd ty opts m HU Hg Hin Hk Hm) in Hfl.
      apply fails_bind in Hfl. destruct Hfl as [Hfl|[its [_ Hfl]]]; [|exfalso; eapply Hfl; reflexivity].
      apply convert_items_fails in Hfl. destruct Hfl as [it [Hit Hne]].
      exists [n_key nd], nd, ty, it. repeat split; auto.
      * simpl. rewrite Hg, Hfind. reflexivity.
      * simpl. rewrite Hg, Hfind, Hruns. reflexivity.
    + destruct (Hnest nd gj Hin Hk) as [os [m' [Hos Hm']]].
      rewrite Hos in Hfl. simpl in Hfl.
      pose proof Hos as Hos'.
      rewrite (node_slice_sub F gi g nd gj opts m HU Hg Hin Hk Hm), convert_opts_map in Hos'.
      inversion Hos'; subst os. clear Hos'.
      apply fails_bind in Hfl. destruct Hfl as [Hfl|[rs [_ Hfl]]]; [|exfalso; eapply Hfl; reflexivity].
      apply (IH F gj _ _ _ m' HU Hm') in Hfl.
      destruct Hfl as [p [nd' [ty [it [Hres [Hk' [Hex [Hit Hne]]]]]]]].
      assert (Hpne : p <> []) by (destruct p; [discriminate|discriminate]).
      exists (n_key nd :: p), nd', ty, it. repeat split; auto.
      * rewrite (resolve_cons F gi g nd p Hg Hfind Hpne), Hk. exact Hres.
      * rewrite (executes_cons F gi g nd p Hg Hfind Hpne), Hruns, Hk. exact Hex.
      * rewrite <- (sub_level (n_key nd) opts p ty Hpne). exact Hit.
  - intros [p [nd [ty [it [Hres [Hk [Hex [Hit Hne]]]]]]]].
    destruct p as [|k rest]; [discriminate|]. simpl in Hres, Hex. rewrite Hg in Hres, Hex.
    destruct (find_node k g) as [nd0|] eqn:Hfind; [|discriminate].
    destruct (find_node_in _ _ _ Hfind) as [Hin Hkey]. subst k.
    apply andb_prop in Hex. destruct Hex as [Hruns Hex].
    exists nd0. split; [exact Hin|]. unfold node_run. rewrite Hruns. simpl.
    destruct rest as [|k2 rest].
    + inversion Hres; subst nd0. rewrite Hk.
      rewrite (node_slice_comp F gi g nd ty opts m HU Hg Hin Hk Hm).
      apply fails_bind. left. apply convert_items_fails. exists it. auto.
    + destruct (n_kind nd0) as [ty0|gj] eqn:Hk0; [discriminate|].
      destruct (Hnest nd0 gj Hin Hk0) as [os [m' [Hos Hm']]]. rewrite Hos. simpl.
      pose proof Hos as Hos'.
      rewrite (node_slice_sub F gi g nd0 gj opts m HU Hg Hin Hk0 Hm), convert_opts_map in Hos'.
      inversion Hos'; subst os. clear Hos'.
      apply fails_bind. left.
      apply (IH F gj _ _ _ m' HU Hm').
      exists (k2 :: rest), nd, ty, it. repeat split; auto.
      rewrite (sub_level (n_key nd0) opts (k2 :: rest) ty); [exact Hit|discriminate].
Qed.

(* The call fails iff some designated path is bad, or some executing component is handed a value
   of another type than its own (the second is impossible for options whose values have one
   type: delivered_typed). No hypothesis on the options. *)
Lemma run_call_fails_iff_general F opts :
  keys_unique F -> well_nested F -> F <> [] ->
  (fails (run_call F opts) <->
   (exists o q, In o opts /\ In q (o_paths o) /\ bad_path F o 0 q = true) \/ mistyped F 0 opts).
Proof.
  intros HU HW Hne.
  assert (Hlen : (0 < List.length F)%nat) by (destruct F; [congruence|simpl; lia]).
  pose proof (validate_fails (S (List.length F)) F 0 opts HU HW Hlen ltac:(lia)) as Hvf.
  assert (Hrun : fails (run_call F opts) <->
                 fails (run_graph (S (List.length F)) F 0 [] (graph_handlers opts) opts)).
  { unfold run_call. rewrite fails_bind. split.
    - intros [H|[rs [_ H]]]; [exact H|exfalso; eapply H; reflexivity].
    - intros H. left. exact H. }
  rewrite Hrun.
  assert (Hvr : fails (validate (S (List.length F)) F 0 opts) ->
                fails (run_graph (S (List.length F)) F 0 [] (graph_handlers opts) opts)).
  { intros Hv rs Hrs. rewrite run_graph_S in Hrs.
    destruct (nth_error F 0) as [g|]; [|discriminate].
    apply res_bind_ok in Hrs. destruct Hrs as [m [Hm _]]. eapply Hv. exact Hm. }
  destruct (fails_dec (validate (S (List.length F)) F 0 opts)) as [Hv|[m Hm]].
  - split; [intros _; left; apply Hvf; exact Hv|intros _; apply Hvr; exact Hv].
  - rewrite (run_graph_fails_of_validate _ F 0 [] (graph_handlers opts) opts m HU Hm). split.
    + intros H. right. exact H.
    + intros [Hb|H]; [|exact H]. exfalso. apply Hvf in Hb. eapply Hb. exact Hm.
Qed.

Lemma resume_call_fails_iff_general F opts c :
  keys_unique F -> well_nested F -> F <> [] ->
  (fails (resume_call F opts c) <->
   (exists o q, In o opts /\ In q (o_paths o) /\ bad_path F o 0 q = true) \/ mistyped F 0 opts).
Proof. rewrite resume_call_eq. apply run_call_fails_iff_general. Qed.

(* whatever makes a call fail makes it fail when every node executes (no hypothesis on the
   options; the converse needs that no node that does NOT execute would be handed a mistyped
   value — would_call_fails_iff for options of one type each) *)
Lemma would_call_fails_of_run_fails F opts :
  keys_unique F -> well_nested F -> F <> [] ->
  fails (run_call F opts) -> fails (would_call F opts).
Proof.
  intros HU HW Hne H. unfold would_call.
  apply (run_call_fails_iff_general (force_runs F) opts (keys_unique_force F HU) (well_nested_force F HW)).
  { destruct F; [congruence|discriminate]. }
  apply (run_call_fails_iff_general F opts HU HW Hne) in H.
  destruct H as [[o [q [Ho [Hq Hb]]]]|[p [nd [ty [it [Hres [Hk [Hex [Hit Hnt]]]]]]]]].
  - left. exists o, q. repeat split; auto. rewrite bad_path_force. exact Hb.
  - right. exists p, (force_node nd), ty, it. repeat split; auto.
    + rewrite resolve_force, Hres. reflexivity.
    + exact (executes_force F p 0 nd Hres).
Qed.

(* the order in which the nodes of a graph are listed (Go: the iteration order of the nodes map)
   changes neither whether the call fails nor the set of reports — for arbitrary options *)
Lemma run_call_perm_general F F' opts :
  keys_unique F -> well_nested F -> F <> [] -> forest_perm F F' ->
  (fails (run_call F opts) <-> fails (run_call F' opts)) /\
  (forall rs rs', run_call F opts = Ok rs -> run_call F' opts = Ok rs' ->
     forall r, In r rs <-> In r rs').
Proof.
  intros HU HW HF HP.
  pose proof (keys_unique_perm _ _ HU HP) as HU'.
  pose proof (well_nested_perm _ _ HW HP) as HW'.
  assert (HF' : F' <> []).
  { intros ->. apply HF. destruct F; [reflexivity|]. inversion HP. }
  split.
  - rewrite (run_call_fails_iff_general F opts HU HW HF), (run_call_fails_iff_general F' opts HU' HW' HF').
    split.
    + intros [[o [q [Ho [Hq Hb]]]]|[p [nd [ty [it [Hres [Hk [Hex H]]]]]]]].
      * left. exists o, q. repeat split; auto. rewrite (bad_path_perm F F' o HU HP). exact Hb.
      * right. exists p, nd, ty, it. rewrite (resolve_perm F F' HU HP), (executes_perm F F' HU HP). auto.
    + intros [[o [q [Ho [Hq Hb]]]]|[p [nd [ty [it [Hres [Hk [Hex H]]]]]]]].
      * left. exists o, q. repeat split; auto. rewrite <- (bad_path_perm F F' o HU HP). exact Hb.
      * right. exists p, nd, ty, it. rewrite <- (resolve_perm F F' HU HP), <- (executes_perm F F' HU HP). auto.
  - intros rs rs' H H' r. split.
    + exact (run_call_perm_sub F F' opts rs rs' HU HP H H' r).
    + exact (run_call_perm_sub F' F opts rs' rs HU' (forest_perm_sym _ _ HP) H' H r).
Qed.
