(* Proofs/PregelBase.v — association-list lemmas used by the Pregel proofs (C01):
   alookup / ainsert on key-sorted lists, [collect] (what a pregel channel holds after a report). *)
From Eino Require Import Base.Util Model.Graph.
From Coq Require Import Lia Permutation Sorting.Sorted.
Open Scope N_scope.

Section AList.
  Context {A : Type}.
  Implicit Types (l m : list (N * A)) (k : N) (a : A).

  Definition ksorted l : Prop := StronglySorted N.lt (map fst l).

  Lemma alookup_ainsert : forall l k k' a,
    alookup k (ainsert k' a l) = if N.eqb k k' then Some a else alookup k l.
  Proof.
    induction l as [|[k0 a0] l IH]; intros k k' a; simpl.
    - reflexivity.
    - destruct (N.ltb k' k0) eqn:Hlt; simpl.
      + reflexivity.
      + destruct (N.eqb k' k0) eqn:He; simpl.
        * apply N.eqb_eq in He; subst k0.
          destruct (N.eqb k k'); reflexivity.
        * rewrite IH. destruct (N.eqb k k0) eqn:Hk; [|reflexivity].
          apply N.eqb_eq in Hk; subst k0.
          destruct (N.eqb k k') eqn:Hkk; [|reflexivity].
          apply N.eqb_eq in Hkk; subst k'. rewrite N.eqb_refl in He. discriminate.
  Qed.

  Lemma akeys_ainsert_in : forall l k k' a,
    In k (akeys (ainsert k' a l)) <-> k = k' \/ In k (akeys l).
  Proof.
    unfold akeys. induction l as [|[k0 a0] l IH]; intros k k' a; simpl.
    - intuition.
    - destruct (N.ltb k' k0) eqn:Hlt; simpl; [intuition|].
      destruct (N.eqb k' k0) eqn:He; simpl.
      + apply N.eqb_eq in He; subst k0. intuition.
      + rewrite IH. intuition.
  Qed.

  Lemma ainsert_nonempty : forall l k a, ainsert k a l <> [].
  Proof.
    intros [|[k0 a0] l] k a; simpl; [discriminate|].
    destruct (N.ltb k k0); [discriminate|]. destruct (N.eqb k k0); discriminate.
  Qed.

  Lemma ksorted_cons_inv : forall k a l, ksorted ((k, a) :: l) ->
    ksorted l /\ Forall (fun x => k < x) (map fst l).
  Proof. unfold ksorted; simpl; intros k a l H. inversion H; subst. split; assumption. Qed.

  Lemma ainsert_ksorted : forall l k a, ksorted l -> ksorted (ainsert k a l).
  Proof.
    unfold ksorted.
    induction l as [|[k0 a0] l IH]; intros k a Hs; simpl.
    - constructor; constructor.
    - inversion Hs as [|x y Hs' Hall]; subst.
      destruct (N.ltb k k0) eqn:Hlt; simpl.
      + apply N.ltb_lt in Hlt. constructor; [exact Hs|].
        constructor; [exact Hlt|].
        eapply Forall_impl; [|exact Hall]. intros; simpl in *; lia.
      + destruct (N.eqb k k0) eqn:He; simpl.
        * apply N.eqb_eq in He; subst k0. constructor; assumption.
        * apply N.ltb_ge in Hlt. apply N.eqb_neq in He.
          constructor; [apply IH; exact Hs'|].
          apply Forall_forall. intros x Hx.
          change (map fst (ainsert k a l)) with (akeys (ainsert k a l)) in Hx.
          apply akeys_ainsert_in in Hx. destruct Hx as [->|Hx]; [lia|].
          rewrite Forall_forall in Hall. apply Hall. exact Hx.
  Qed.

  Lemma ksorted_nodup : forall l, ksorted l -> NoDup (akeys l).
  Proof.
    unfold ksorted, akeys. induction l as [|[k a] l IH]; simpl; intros Hs; [constructor|].
    inversion Hs as [|x y Hs' Hall]; subst. constructor; [|apply IH; exact Hs'].
    intros Hin. rewrite Forall_forall in Hall. specialize (Hall _ Hin). lia.
  Qed.

  Lemma alookup_none_notin : forall l k, alookup k l = None <-> ~ In k (akeys l).
  Proof.
    unfold akeys. induction l as [|[k0 a0] l IH]; intros k; simpl; [intuition|].
    destruct (N.eqb k k0) eqn:He.
    - apply N.eqb_eq in He; subst. split; [discriminate|]. intros H; exfalso; apply H; left; reflexivity.
    - apply N.eqb_neq in He. rewrite IH. intuition.
  Qed.

  Lemma alookup_some_in : forall l k a, alookup k l = Some a -> In (k, a) l.
  Proof.
    induction l as [|[k0 a0] l IH]; intros k a; simpl; [discriminate|].
    destruct (N.eqb k k0) eqn:He.
    - apply N.eqb_eq in He; subst. intros [= ->]. left; reflexivity.
    - intros H; right; apply IH; exact H.
  Qed.

  Lemma in_alookup_nodup : forall l k a, NoDup (akeys l) -> In (k, a) l -> alookup k l = Some a.
  Proof.
    unfold akeys. induction l as [|[k0 a0] l IH]; intros k a Hnd Hin; simpl in *; [contradiction|].
    inversion Hnd as [|x y Hnot Hnd']; subst.
    destruct Hin as [[= -> ->]|Hin].
    - rewrite N.eqb_refl. reflexivity.
    - destruct (N.eqb k k0) eqn:He.
      + apply N.eqb_eq in He; subst. exfalso; apply Hnot. apply (in_map fst) in Hin. exact Hin.
      + apply IH; assumption.
  Qed.

  Lemma alookup_in_keys : forall l k a, alookup k l = Some a -> In k (akeys l).
  Proof. intros l k a H. apply alookup_some_in in H. apply (in_map fst) in H. exact H. Qed.

  (* a key-sorted list is determined by its lookup function *)
  Lemma ksorted_ext : forall l m, ksorted l -> ksorted m ->
    (forall k, alookup k l = alookup k m) -> l = m.
  Proof.
    induction l as [|[k a] l IH]; intros m Hl Hm Heq.
    - destruct m as [|[k' a'] m]; [reflexivity|].
      specialize (Heq k'). simpl in Heq. rewrite N.eqb_refl in Heq. discriminate.
    - destruct m as [|[k' a'] m].
      + specialize (Heq k). simpl in Heq. rewrite N.eqb_refl in Heq. discriminate.
      + destruct (ksorted_cons_inv _ _ _ Hl) as [Hl' Hal].
        destruct (ksorted_cons_inv _ _ _ Hm) as [Hm' Ham].
        rewrite Forall_forall in Hal, Ham.
        assert (Hk : k = k').
        { destruct (N.lt_trichotomy k k') as [Hlt|[He|Hgt]]; [|exact He|].
          - exfalso. pose proof (Heq k) as H. simpl in H. rewrite N.eqb_refl in H.
            destruct (N.eqb k k') eqn:E; [apply N.eqb_eq in E; lia|].
            symmetry in H. apply alookup_in_keys in H. apply Ham in H. lia.
          - exfalso. pose proof (Heq k') as H. simpl in H. rewrite N.eqb_refl in H.
            destruct (N.eqb k' k) eqn:E; [apply N.eqb_eq in E; lia|].
            apply alookup_in_keys in H. apply Hal in H. lia. }
        subst k'.
        assert (Ha : a = a').
        { pose proof (Heq k) as H. simpl in H. rewrite N.eqb_refl in H. congruence. }
        subst a'. f_equal. apply IH; [assumption|assumption|].
        intros x. pose proof (Heq x) as H. simpl in H.
        destruct (N.eqb x k) eqn:E; [|exact H].
        apply N.eqb_eq in E; subst x.
        assert (H1 : alookup k l = None).
        { apply alookup_none_notin. intros Hin. apply Hal in Hin. lia. }
        assert (H2 : alookup k m = None).
        { apply alookup_none_notin. intros Hin. apply Ham in Hin. lia. }
        congruence.
  Qed.

  (* ---------- what a pregel channel holds after reporting [ins] into [m]: later writes win ---------- *)
  Definition collect_from m (ins : list (N * A)) : list (N * A) :=
    fold_left (fun m kv => ainsert (fst kv) (snd kv) m) ins m.
  Definition collect (ins : list (N * A)) : list (N * A) := collect_from [] ins.

  Lemma collect_from_ksorted : forall ins m, ksorted m -> ksorted (collect_from m ins).
  Proof.
    unfold collect_from. induction ins as [|[k a] ins IH]; intros m Hm; simpl; [exact Hm|].
    apply IH. apply ainsert_ksorted. exact Hm.
  Qed.

  Lemma collect_ksorted : forall ins, ksorted (collect ins).
  Proof. intros; apply collect_from_ksorted. constructor. Qed.

  Lemma collect_from_nil_iff : forall ins m, collect_from m ins = [] <-> (m = [] /\ ins = []).
  Proof.
    unfold collect_from. induction ins as [|[k a] ins IH]; intros m; simpl.
    - intuition.
    - rewrite IH. split; [intros [H _]; exfalso; eapply ainsert_nonempty; exact H|intros [_ H]; discriminate].
  Qed.

  Lemma collect_nil_iff : forall ins, collect ins = [] <-> ins = [].
  Proof. intros. unfold collect. rewrite collect_from_nil_iff. intuition. Qed.

  Lemma collect_from_keys : forall ins m k,
    In k (akeys (collect_from m ins)) <-> In k (akeys m) \/ In k (akeys ins).
  Proof.
    unfold collect_from. induction ins as [|[k0 a0] ins IH]; intros m k; simpl.
    - intuition.
    - rewrite IH. rewrite akeys_ainsert_in. simpl. intuition.
  Qed.

  Lemma collect_keys : forall ins k, In k (akeys (collect ins)) <-> In k (akeys ins).
  Proof. intros. unfold collect. rewrite collect_from_keys. simpl. intuition. Qed.

  (* the value kept for a source is the LAST one written (Go: map assignment) *)
  Lemma collect_from_lookup : forall ins m k,
    alookup k (collect_from m ins) =
    match alookup k (rev ins) with Some a => Some a | None => alookup k m end.
  Proof.
    unfold collect_from. induction ins as [|[k0 a0] ins IH]; intros m k; simpl.
    - reflexivity.
    - rewrite IH. rewrite alookup_ainsert.
      assert (Happ : forall (l1 l2 : list (N * A)), alookup k (l1 ++ l2) =
                match alookup k l1 with Some a => Some a | None => alookup k l2 end).
      { induction l1 as [|[k1 a1] l1 IH1]; intros l2; simpl; [reflexivity|].
        destruct (N.eqb k k1); [reflexivity|apply IH1]. }
      rewrite Happ. simpl. destruct (alookup k (rev ins)); [reflexivity|].
      destruct (N.eqb k k0); reflexivity.
  Qed.

  Lemma alookup_rev_nodup : forall (l : list (N * A)) k, NoDup (akeys l) -> alookup k (rev l) = alookup k l.
  Proof.
    intros l k Hnd.
    destruct (alookup k l) eqn:E.
    - apply in_alookup_nodup.
      + unfold akeys in *. rewrite map_rev. apply NoDup_rev. exact Hnd.
      + apply in_rev. rewrite rev_involutive. apply alookup_some_in. exact E.
    - apply alookup_none_notin. apply alookup_none_notin in E.
      unfold akeys in *. rewrite map_rev. rewrite <- in_rev. exact E.
  Qed.

  Lemma collect_lookup_nodup : forall ins k, NoDup (akeys ins) -> alookup k (collect ins) = alookup k ins.
  Proof.
    intros ins k Hnd. unfold collect. rewrite collect_from_lookup. simpl.
    rewrite alookup_rev_nodup by exact Hnd. destruct (alookup k ins); reflexivity.
  Qed.

  Lemma nodup_keys_nodup : forall (l : list (N * A)), NoDup (akeys l) -> NoDup l.
  Proof. intros l H. unfold akeys in H. eapply NoDup_map_inv. exact H. Qed.

  (* no source writes twice: the channel holds exactly the written values *)
  Lemma collect_perm : forall ins, NoDup (akeys ins) -> Permutation (collect ins) ins.
  Proof.
    intros ins Hnd. apply NoDup_Permutation.
    - apply nodup_keys_nodup. apply ksorted_nodup. apply collect_ksorted.
    - apply nodup_keys_nodup. exact Hnd.
    - intros [k a]. split; intros Hin.
      + apply in_alookup_nodup in Hin; [|apply ksorted_nodup; apply collect_ksorted].
        rewrite collect_lookup_nodup in Hin by exact Hnd. apply alookup_some_in. exact Hin.
      + apply alookup_some_in. rewrite collect_lookup_nodup by exact Hnd.
        apply in_alookup_nodup; assumption.
  Qed.
End AList.

Lemma memb_in : forall k l, memb k l = true <-> In k l.
Proof.
  intros k l. unfold memb. rewrite existsb_exists. split.
  - intros [x [Hin He]]. apply N.eqb_eq in He. subst. exact Hin.
  - intros Hin. exists k. split; [exact Hin|apply N.eqb_refl].
Qed.

Lemma memb_false : forall k l, memb k l = false <-> ~ In k l.
Proof.
  intros k l. rewrite <- memb_in. destruct (memb k l); split; intros; try discriminate; try reflexivity.
  - exfalso; apply H; reflexivity.
Qed.

Lemma find_node_some : forall g k n, find_node g k = Some n -> In n (g_nodes g) /\ n_key n = k.
Proof.
  unfold find_node. intros g k n H. apply find_some in H. destruct H as [Hin He].
  apply N.eqb_eq in He. split; assumption.
Qed.

Lemma flat_map_snd_map : forall {A B} (f : A -> list B) (l : list A),
  flat_map snd (map (fun b => (b, f b)) l) = flat_map f l.
Proof. intros A B f l. induction l as [|a l IH]; simpl; [reflexivity|]. rewrite IH. reflexivity. Qed.
