(* Proofs/GenAgreeParadigm.v — the tables tools/go2v regenerated from compose/runnable.go
   (Gen/ParadigmTable.v: which native implementation each view is derived from, in which
   order they are tried, and what each adapter does around the call) are the ones
   Model/Paradigm.v implements: [order] is the generated order table, and the four views are
   the generated adapter programs, run by the interpreter of Model/ParadigmTable.v.
   A swapped preference, a missing concatenation or boxing step in an adapter makes a
   theorem here stop compiling. *)
From Eino Require Import Base.Util Model.Paradigm Model.ParadigmTable.
From Eino Require Gen.ParadigmTable.

Theorem gen_order_table_agrees : Gen.ParadigmTable.order_table = Model.ParadigmTable.order_table.
Proof. reflexivity. Qed.

Theorem gen_adapter_table_agrees : Gen.ParadigmTable.adapter_table = Model.ParadigmTable.adapter_table.
Proof. reflexivity. Qed.

(* the model's derivation order is the generated table *)
Theorem order_is_gen : forall v, par_assoc v Gen.ParadigmTable.order_table = Some (order v).
Proof. intros []; reflexivity. Qed.

Section Views.
  Variables A B : Type.
  Variable concatA : list A -> res A.
  Variable concatB : list B -> res B.

  Local Notation tv := (table_view concatA concatB Gen.ParadigmTable.order_table Gen.ParadigmTable.adapter_table).

  Ltac crunch :=
    repeat (match goal with
    | |- context [callI ?n ?x] => destruct (callI n x) eqn:?
    | |- context [callS ?n ?x] => destruct (callS n x) eqn:?
    | |- context [callC ?n ?x] => destruct (callC n x) eqn:?
    | |- context [callT ?n ?x] => destruct (callT n x) eqn:?
    | |- context [sconcat ?c ?x] => destruct (sconcat c x) eqn:?
    end; simpl); try reflexivity.

  (* every view of Model/Paradigm.v = first available native in the generated order, through
     the generated adapter program *)
  Theorem view_I_is_gen : forall (n : node A B) x,
    view_I concatB n x = out_val (tv n PI (InV x)).
  Proof.
    intros n x. unfold view_I, table_view, used. rewrite order_is_gen.
    destruct (find (has n) (order PI)) as [[]|]; simpl; crunch.
  Qed.

  Theorem view_S_is_gen : forall (n : node A B) x,
    view_S n x = out_str (tv n PS (InV x)).
  Proof.
    intros n x. unfold view_S, table_view, used. rewrite order_is_gen.
    destruct (find (has n) (order PS)) as [[]|]; simpl; crunch.
  Qed.

  Theorem view_C_is_gen : forall (n : node A B) s,
    view_C concatA concatB n s = out_val (tv n PC (InS s)).
  Proof.
    intros n s. unfold view_C, table_view, used. rewrite order_is_gen.
    destruct (find (has n) (order PC)) as [[]|]; simpl; crunch.
  Qed.

  Theorem view_T_is_gen : forall (n : node A B) s,
    view_T concatA n s = out_str (tv n PT (InS s)).
  Proof.
    intros n s. unfold view_T, table_view, used. rewrite order_is_gen.
    destruct (find (has n) (order PT)) as [[]|]; simpl; crunch.
  Qed.
End Views.

(* non-vacuity: a node that is natively Collect only — its Invoke view is, by the generated
   tables, "box the input, call Collect" *)
Example collect_only_invoke :
  let n := Build_node (A := N) (B := N) None None (Some (fun s => sconcat (fun l => Ok (fold_left N.add l 0%N)) s)) None in
  out_val (table_view (fun l => Ok (fold_left N.add l 0%N)) (fun l => Ok (fold_left N.add l 0%N))
             Gen.ParadigmTable.order_table Gen.ParadigmTable.adapter_table n PI (InV 7%N)) = Ok 7%N.
Proof. reflexivity. Qed.
