(* Proofs/SerTotal.v — the decoder never panics on what the encoder produced, and what it
   returns has the right type — for EVERY well-typed value, including those outside the
   hypotheses [safe] / [defs_ok] of the round-trip theorems (the known findings F-C12c /
   F-C12g): reading back a checkpoint that Marshal accepted yields a value of the expected
   type or an error, never a reflect panic. *)
From Coq Require Import List Bool Arith NArith ZArith String Ascii Lia.
From Eino Require Import Base.Util Base.Universe Model.Ser Proofs.Ser Proofs.SerLoud.
Import ListNotations.
Local Open Scope bool_scope.

Lemma mapM_Forall2 {A B} (f : A -> res B) : forall l bs,
  mapM f l = Ok bs -> Forall2 (fun a b => f a = Ok b) l bs.
Proof.
  induction l as [|a l IH]; intros bs H.
  - rewrite mapM_nil in H. inversion H. constructor.
  - rewrite mapM_cons in H. apply bind_ok in H. destruct H as [b [Hb H]].
    apply bind_ok in H. destruct H as [bs' [Hbs H]]. inversion H; subst. constructor; auto.
Qed.

Lemma mapM_np_F2 {A B C} (f : A -> res B) (g : B -> res C) : forall l bs,
  Forall2 (fun a b => f a = Ok b) l bs ->
  Forall (fun a => forall b, f a = Ok b -> g b <> Panic) l ->
  mapM g bs <> Panic.
Proof.
  intros l bs HF HP. apply mapM_no_panic. intros b Hin.
  clear -HF HP Hin. induction HF as [|a b' l bs Hab HF IH]; [contradiction|].
  inversion HP; subst. destruct Hin as [->|Hin]; [now apply H1 | now apply IH].
Qed.

Section Total.
  Variables J JK : Type.
  Variable jenc : base -> lit -> res J.
  Variable jdec : base -> J -> res lit.
  Variable kenc : base -> lit -> res JK.
  Variable kdec : base -> JK -> res lit.
  Variable reg : registry.
  Variable env : senv.

  (* the JSON decoders return errors, they do not panic; nothing else is assumed of them *)
  Hypothesis jdec_np : forall b j, jdec b j <> Panic.
  Hypothesis kdec_np : forall b j, kdec b j <> Panic.
  Hypothesis reg_names : NoDup (map fst reg).

  Notation ENC := (enc_at J JK jenc kenc fixed reg).
  Notation DEC := (dec J JK jdec kdec fixed reg env).
  Notation HOLE := (hole J JK env DEC).

  (* the decoded value has the type of the encoded one; a value of an unregistered defined
     container type at pointer depth 0 has the underlying unnamed type *)
  Definition tyok (pn : nat) (v v' : val) : Prop :=
    ty_of v' = ty_of v \/ (pn = 0%nat /\ exists d, ty_of v = TDef d (ty_of v') /\ is_cont_ty (ty_of v') = true).
  Definition good {A} (r : res A) (Q : A -> Prop) : Prop :=
    match r with Panic => False | Err _ => True | Ok a => Q a end.

  Definition concT (v : val) : Prop :=
    forall pn oi, ENC pn v = Ok oi ->
      exists i, oi = Some i /\ good (DEC i) (fun x => exists v', x = wrap_ptr pn v' /\ tyok pn v v').
  Definition holeT (v : val) : Prop :=
    forall oi, ENC 0 v = Ok oi -> good (HOLE (ty_of v) oi) (fun v' => ty_of v' = ty_of v).
  Definition contT (v : val) : Prop :=
    forall pn oi ct c, ENC pn v = Ok oi -> container_ty reg ct (ty_of v) = Ok c ->
      exists i, oi = Some i /\ set_cti J JK None i = i /\
                good (DEC (set_cti J JK ct i)) (fun x => exists v', x = wrap_ptr pn (as_ty c v') /\ ty_of v' = ty_of v).
  Definition T (v : val) : Prop :=
    wt env v = true ->
    (is_iface (ty_of v) = false -> concT v) /\ holeT v /\ (is_cont_ty (ty_of v) = true -> contT v).

  Lemma good_bind {A B} (r : res A) (f : A -> res B) (Q : B -> Prop) :
    good r (fun a => good (f a) Q) -> good (res_bind r f) Q.
  Proof. destruct r; simpl; auto. Qed.
  Lemma good_weaken {A} (r : res A) (Q Q' : A -> Prop) :
    (forall a, Q a -> Q' a) -> good r Q -> good r Q'.
  Proof. destruct r; simpl; auto. Qed.
  Lemma good_np {A} (r : res A) : r <> Panic -> good r (fun _ => True).
  Proof. destruct r; simpl; auto. Qed.
  Lemma np_good {A} (r : res A) Q : good r Q -> r <> Panic.
  Proof. destruct r; simpl; try discriminate. contradiction. Qed.

  Lemma zero_array : forall fuel n t,
    zero fuel env (TArray n t) = (do z <- zero fuel env t; Ok (VArray t (repeat z n))).
  Proof. destruct fuel; reflexivity. Qed.
  Lemma zero_def : forall fuel d u,
    zero fuel env (TDef d u) = (do z <- zero fuel env u; Ok (VDef d z)).
  Proof. destruct fuel; reflexivity. Qed.

  Lemma zero_np : forall fuel t, zero fuel env t <> Panic.
  Proof.
    induction fuel as [|f IHf]; induction t;
      try (rewrite zero_array; destruct (zero _ env t) eqn:E; simpl; try discriminate; now apply IHt);
      try (rewrite zero_def; destruct (zero _ env t) eqn:E; simpl; try discriminate; now apply IHt);
      simpl; try discriminate.
    destruct (struct_fields env n) as [ds|]; [|discriminate].
    assert (H : res_mapM (fun d => do z <- zero f env (snd d); Ok (fst d, z)) ds <> Panic).
    { induction ds as [|d ds IH]; simpl; [discriminate|].
      destruct (zero f env (snd d)) eqn:E; simpl; try discriminate.
      - destruct (res_mapM _ ds); simpl; try discriminate. exact IH.
      - exfalso. eapply IHf; eauto. }
    destruct (res_mapM _ ds); simpl; try discriminate. exfalso. now apply H.
  Qed.

  Hypothesis env_names : forall n ds, struct_fields env n = Some ds -> NoDup (map fst ds).

  Lemma assign_same : forall t v, ty_of v = t -> assign t v = Ok v.
  Proof. intros t v H. unfold assign. now rewrite H, ty_eqb_refl. Qed.

  Lemma cont_not_def : forall u d, is_cont_ty u = true -> ty_eqb u (TDef d u) = false.
  Proof. intros u d H. destruct u; try discriminate H; reflexivity. Qed.

  Lemma assign_tyok : forall v v', tyok 0 v v' -> exists x, assign (ty_of v) v' = Ok x /\ ty_of x = ty_of v.
  Proof.
    intros v v' [H|[_ [d [H Hc]]]].
    - exists v'. split; [now apply assign_same | assumption].
    - exists (VDef d v'). rewrite H. split; [|reflexivity].
      unfold assign. rewrite (cont_not_def _ d Hc). simpl. now rewrite ty_eqb_refl.
  Qed.

  Lemma conc_holeT : forall v, concT v -> holeT v.
  Proof.
    intros v HC oi H. destruct (HC 0%nat oi H) as [i [-> Hg]].
    unfold hole, dec_opt. destruct (DEC i) as [x| |] eqn:E; simpl in *; auto.
    destruct Hg as [v' [-> Hty]]. simpl.
    destruct (assign_tyok _ _ Hty) as [y [Hy Hyt]]. rewrite Hy. exact Hyt.
  Qed.

  Lemma T_conc : forall v, is_cont_ty (ty_of v) = false -> (wt env v = true -> concT v) -> T v.
  Proof.
    intros v Hc H Hwt. split; [|split].
    - intros _. now apply H.
    - apply conc_holeT. now apply H.
    - intro Hc'. congruence.
  Qed.

  Lemma cont_concT : forall v, is_cont_ty (ty_of v) = true -> contT v -> concT v.
  Proof.
    intros v Hc HC pn oi H.
    destruct (HC pn oi None (ty_of v) H eq_refl) as [i [-> [Hn Hg]]].
    exists i. split; [reflexivity|]. rewrite Hn in Hg. eapply good_weaken; [|exact Hg].
    intros x [v' [-> Hty]]. exists v'. rewrite (as_ty_cont _ _ Hc). split; [reflexivity|]. now left.
  Qed.
  Lemma T_cont : forall v, is_cont_ty (ty_of v) = true -> (wt env v = true -> contT v) -> T v.
  Proof.
    intros v Hc H Hwt. assert (HC := H Hwt). split; [|split].
    - intros _. now apply cont_concT.
    - apply conc_holeT. now apply cont_concT.
    - intros _. exact HC.
  Qed.

  Section kjson_ind'.
    Variable Q : kjson JK -> Prop.
    Hypothesis HL : forall j, Q (KLeaf j).
    Hypothesis HA : forall l, Forall Q l -> Q (KArr l).
    Hypothesis HO : forall l, Forall (fun fj => Q (snd fj)) l -> Q (KObj l).
    Fixpoint kjson_ind' (k : kjson JK) : Q k :=
      match k with
      | KLeaf j => HL j
      | KArr l => HA l ((fix go (l : list (kjson JK)) : Forall Q l :=
                           match l with [] => Forall_nil _ | x :: r => Forall_cons x (kjson_ind' x) (go r) end) l)
      | KObj l => HO l ((fix go (l : list (string * kjson JK)) : Forall (fun fj => Q (snd fj)) l :=
                           match l with [] => Forall_nil _ | x :: r => Forall_cons x (kjson_ind' (snd x)) (go r) end) l)
      end.
  End kjson_ind'.

  Lemma dec_key_np : forall jk kt, dec_key JK kdec env kt jk <> Panic.
  Proof.
    induction jk using kjson_ind'; intro kt.
    - destruct kt; simpl; try discriminate;
        destruct (kdec b j) eqn:E; simpl; try discriminate; exfalso; eapply kdec_np; eauto.
    - destruct kt; simpl; try discriminate.
      destruct (Nat.eqb (List.length l) n); [|discriminate].
      destruct (mapM (dec_key JK kdec env kt) l) eqn:E; simpl; try discriminate.
      exfalso. revert E. apply mapM_no_panic. intros x Hin. rewrite Forall_forall in H. now apply H.
    - destruct kt; simpl; try discriminate.
      destruct (struct_fields env n) as [ds|]; [|discriminate].
      assert (Hnp : dec_kfields (fun ft j => dec_key JK kdec env ft j) l ds <> Panic).
      { revert ds. induction l as [|[f j] l IHl]; intros [|[g ft] ds]; simpl; try discriminate.
        inversion H as [|? ? Hj Hl]; subst. simpl in Hj.
        destruct (String.eqb f g); [|discriminate].
        destruct (dec_key JK kdec env ft j) eqn:Ej; simpl; try discriminate; [|now apply Hj in Ej].
        specialize (IHl Hl ds).
        destruct (dec_kfields (fun ft0 j0 => dec_key JK kdec env ft0 j0) l ds); simpl; try discriminate.
        congruence. }
      destruct (dec_kfields (fun ft j => dec_key JK kdec env ft j) l ds); simpl; try discriminate. congruence.
  Qed.

  Lemma hole_np_of_T : forall v oi, T v -> wt env v = true -> ENC 0 v = Ok oi -> HOLE (ty_of v) oi <> Panic.
  Proof. intros v oi HT Hwt H. destruct (HT Hwt) as [_ [Hh _]]. eapply np_good. now apply Hh. Qed.

  Lemma elems_np : forall t es elems,
    Forall T es -> elems_wt env t es = true -> mapM (ENC 0) es = Ok elems ->
    mapM (HOLE t) elems <> Panic.
  Proof.
    intros t es elems HT Hwt H. apply mapM_Forall2 in H.
    eapply mapM_np_F2; [exact H|].
    clear elems H. induction es as [|e es IH]; constructor.
    - simpl in Hwt. apply andb_true_iff in Hwt. destruct Hwt as [Hwt _].
      apply andb_true_iff in Hwt. destruct Hwt as [Hw Ht]. apply ty_eqb_eq in Ht. subst t.
      inversion HT; subst. intros oi He. now apply hole_np_of_T.
    - simpl in Hwt. apply andb_true_iff in Hwt. destruct Hwt as [_ Hwt].
      inversion HT; subst. now apply IH.
  Qed.

  Lemma entries_np : forall k t kvs entries,
    Forall (fun kv => T (fst kv) /\ T (snd kv)) kvs -> entries_wt env k t kvs = true ->
    mapM (fun kv => do i <- ENC 0 (snd kv); do jk <- enc_key JK kenc (fst kv); Ok (jk, i)) kvs = Ok entries ->
    mapM (fun e => do k' <- dec_key JK kdec env k (fst e); do v <- HOLE t (snd e); Ok (k', v)) entries <> Panic.
  Proof.
    intros k t kvs entries HT Hwt H. apply mapM_Forall2 in H.
    eapply mapM_np_F2; [exact H|].
    clear entries H. induction kvs as [|[a b] kvs IH]; constructor.
    - intros e He. simpl in He.
      apply bind_ok in He. destruct He as [i [Hi He]].
      apply bind_ok in He. destruct He as [jk [Hjk He]]. inversion He; subst. clear He. simpl.
      simpl in Hwt.
      apply andb_true_iff in Hwt. destruct Hwt as [Hwt _].
      apply andb_true_iff in Hwt. destruct Hwt as [Hwt Htb].
      apply andb_true_iff in Hwt. destruct Hwt as [_ Hwb].
      apply ty_eqb_eq in Htb. inversion HT as [|? ? [_ HTb] _]; subst. simpl in HTb.
      destruct (dec_key JK kdec env k jk) eqn:Ek; simpl; try discriminate.
      + assert (Hh := hole_np_of_T _ _ HTb Hwb Hi).
        destruct (HOLE (ty_of b) i) eqn:Eh; simpl; try discriminate. congruence.
      + exfalso. eapply dec_key_np; eauto.
    - simpl in Hwt. repeat (apply andb_true_iff in Hwt; destruct Hwt as [Hwt ?]).
      inversion HT; subst. now apply IH.
  Qed.

  (* ---- structs *)
  Lemma mapM_good {A B C} (f : A -> res B) (g : B -> res C) (R : A -> C -> Prop) : forall l bs,
    Forall2 (fun a b => f a = Ok b) l bs ->
    Forall (fun a => forall b, f a = Ok b -> good (g b) (R a)) l ->
    good (mapM g bs) (fun cs => Forall2 (fun c a => R a c) cs l).
  Proof.
    induction 1 as [|a b l bs Hab HF IH]; intros HP.
    - simpl. constructor.
    - inversion HP as [|? ? Ha HP']; subst. specialize (IH HP'). specialize (Ha _ Hab).
      rewrite mapM_cons. destruct (g b) as [c| |]; simpl in *; auto.
      destruct (mapM g bs) as [cs| |]; simpl in *; auto.
  Qed.

  Definition fieldG (fv : string * val) (fo : string * option val) : Prop :=
    fst fo = fst fv /\ place env (ty_of (snd fv)) (snd fo) <> Panic.

  Lemma fields_decT : forall fs fields,
    Forall (fun fv => T (snd fv)) fs -> Forall (fun fv => wt env (snd fv) = true) fs ->
    mapM (fun fv => do i <- ENC 0 (snd fv); Ok (fst fv, i)) fs = Ok fields ->
    good (mapM (fun fi => do o <- dec_opt J JK DEC (snd fi); Ok (fst fi, o)) fields)
         (fun decoded => Forall2 (fun fo fv => fieldG fv fo) decoded fs).
  Proof.
    intros fs fields HT Hwt H. apply mapM_Forall2 in H.
    apply (mapM_good _ _ (fun fv fo => fieldG fv fo) _ _ H).
    clear fields H. induction fs as [|[f w] fs IH]; constructor.
    - intros fi He. simpl in He. apply bind_ok in He. destruct He as [i [Hi He]]. inversion He; subst. clear He.
      simpl. inversion HT; subst. inversion Hwt; subst. simpl in *.
      assert (Hh := hole_np_of_T _ _ H1 H3 Hi). unfold hole in Hh.
      destruct (dec_opt J JK DEC i) as [o| |]; simpl in *; auto.
      split; [reflexivity|exact Hh].
    - inversion HT; subst. inversion Hwt; subst. now apply IH.
  Qed.

  Lemma build_np : forall (decoded : list (string * option val)) ds fs dsuf,
    (forall fo, In fo dsuf -> alist_get (fst fo) decoded = Some (snd fo)) ->
    Forall2 (fun d fv => fst d = fst fv /\ ty_of (snd fv) = snd d) ds fs ->
    Forall2 (fun fo fv => fieldG fv fo) dsuf fs ->
    build_fields env ds decoded <> Panic.
  Proof.
    intros decoded. unfold build_fields.
    induction ds as [|[f t] ds IH]; intros fs dsuf Hget H1 H2; [discriminate|].
    inversion H1 as [|? fv ? fs0 [Hf Ht] H1']; subst.
    inversion H2 as [|fo ? dsuf0 ? [Hn Hp] H2']; subst. simpl in Hf, Ht.
    rewrite mapM_cons. simpl.
    assert (Hg : alist_get f decoded = Some (snd fo)).
    { rewrite Hf, <- Hn. apply Hget. now left. }
    rewrite Hg. rewrite <- Ht.
    destruct (place env (ty_of (snd fv)) (snd fo)) as [x| |]; simpl; try discriminate; [|congruence].
    assert (Hr := IH fs0 dsuf0 (fun fo' Hin => Hget fo' (or_intror Hin)) H1' H2').
    destruct (mapM _ ds) as [y| |]; simpl; try discriminate. congruence.
  Qed.

  Ltac bi H := let a := fresh "a" in let Ha := fresh "Ha" in apply bind_ok in H; destruct H as [a [Ha H]].

  Lemma total_all : forall v, T v.
  Proof.
    induction v using val_ind'.
    - (* VBase *)
      apply T_conc; [reflexivity|]. intros Hwt pn oi H.
      rewrite enc_base in H. bi H. bi H. inversion H; subst. clear H.
      eexists. split; [reflexivity|].
      rewrite dec_basic, (lookup_name_inv _ reg_names _ _ Ha). simpl.
      destruct (jdec b a0) as [l'| |] eqn:E; simpl; auto; [|eapply jdec_np; eauto].
      exists (VBase b l'). split; [reflexivity|now left].
    - (* VNamed *)
      apply T_conc; [reflexivity|]. intros Hwt pn oi H.
      rewrite enc_named in H. bi H. bi H. inversion H; subst. clear H.
      eexists. split; [reflexivity|].
      rewrite dec_basic, (lookup_name_inv _ reg_names _ _ Ha). simpl.
      destruct (jdec b a0) as [l'| |] eqn:E; simpl; auto; [|eapply jdec_np; eauto].
      exists (VNamed n b l'). split; [reflexivity|now left].
    - (* VStruct *)
      apply T_conc; [reflexivity|]. intros Hwt pn oi H0.
      rewrite wt_struct in Hwt. destruct (struct_fields env n) as [ds|] eqn:Eds; [|discriminate Hwt].
      destruct (fields_wt_facts _ _ _ Hwt) as [Hnames [Hwts Hdf]].
      rewrite enc_struct in H0. bi H0. bi H0. inversion H0; subst. clear H0.
      eexists. split; [reflexivity|].
      rewrite dec_struct, (lookup_name_inv _ reg_names _ _ Ha). simpl. rewrite Eds.
      assert (Hg := fields_decT fs a0 H Hwts Ha0).
      destruct (mapM _ a0) as [decoded| |]; simpl in *; auto.
      assert (Hdn : map fst decoded = map fst ds).
      { rewrite <- Hnames. clear -Hg. induction Hg as [|fo fv ? ? [Hn _] _ IH]; simpl; [reflexivity|].
        now rewrite Hn, IH. }
      destruct (forallb _ decoded); simpl; auto.
      assert (ND : NoDup (map fst decoded)) by (rewrite Hdn; eapply env_names; eauto).
      assert (Hb : build_fields env ds decoded <> Panic).
      { apply (build_np decoded ds fs decoded); auto.
        intros [f o] Hin. simpl. now apply alist_get_nodup. }
      destruct (build_fields env ds decoded) as [fs'| |]; simpl; auto.
      exists (VStruct n fs'). split; [reflexivity|now left].
    - (* VNilPtr *)
      apply T_conc; [reflexivity|]. intros Hwt pn oi H.
      rewrite enc_nil in H. bi H. inversion H; subst. clear H.
      eexists. split; [reflexivity|].
      rewrite dec_null, (lookup_name_inv _ reg_names _ _ Ha), bind_Ok_l.
      assert (E1 : Nat.min pn (S (pn + fst (strip_ptr t))) = pn) by lia.
      rewrite E1.
      replace (S (pn + fst (strip_ptr t)) - pn)%nat with (S (fst (strip_ptr t))) by lia.
      simpl. rewrite strip_ptr_add. simpl.
      exists (VNilPtr t). split; [reflexivity|now left].
    - (* VPtr *)
      apply T_conc; [reflexivity|]. intros Hwt pn oi H. simpl in Hwt.
      apply andb_true_iff in Hwt. destruct Hwt as [Hni Hwt]. apply negb_true_iff in Hni.
      rewrite enc_ptr in H.
      destruct (IHv Hwt) as [HC _]. destruct (HC Hni (S pn) _ H) as [i [-> Hg]].
      exists i. split; [reflexivity|]. eapply good_weaken; [|exact Hg].
      intros x [v' [-> [Hty|[Hc _]]]]; [|discriminate Hc].
      exists (VPtr v'). split; [simpl; now rewrite wrap_ptr_shift | left; simpl; now rewrite Hty].
    - (* VSlice nil *)
      apply T_cont; [reflexivity|]. intros Hwt pn oi ct c H Hc.
      rewrite enc_slice in H. bi H. simpl in H. inversion H; subst. clear H.
      destruct (elem_key_inv _ reg_names _ _ Ha) as [t0 [Hl Ht]].
      eexists. split; [reflexivity|]. split; [reflexivity|].
      simpl set_cti. rewrite dec_slice, Hl. simpl. rewrite Ht. simpl in Hc. rewrite Hc. simpl.
      exists (VSlice t None). split; reflexivity.
    - (* VSlice *)
      apply T_cont; [reflexivity|]. intros Hwt pn oi ct c H0 Hc.
      rewrite wt_slice in Hwt. apply andb_true_iff in Hwt. destruct Hwt as [_ Hwt].
      rewrite enc_slice in H0. bi H0. bi H0. inversion H0; subst. clear H0.
      destruct (elem_key_inv _ reg_names _ _ Ha) as [t0 [Hl Ht]].
      eexists. split; [reflexivity|]. split; [reflexivity|].
      simpl set_cti. rewrite dec_slice, Hl. simpl. rewrite Ht. simpl in Hc. rewrite Hc. simpl.
      assert (Hnp := elems_np t es a0 H Hwt Ha0).
      destruct (mapM _ a0) as [es'| |]; simpl; auto.
      eexists. split; reflexivity.
    - (* VMap nil *)
      apply T_cont; [reflexivity|]. intros Hwt pn oi ct c H Hc.
      rewrite enc_map in H. bi H. bi H. simpl in H. inversion H; subst. clear H.
      destruct (elem_key_inv _ reg_names _ _ Ha) as [k0 [Hlk Hk]].
      destruct (elem_key_inv _ reg_names _ _ Ha0) as [t0 [Hlt Ht]].
      eexists. split; [reflexivity|]. split; [reflexivity|].
      simpl set_cti. rewrite dec_map, Hlk. simpl. rewrite Hlt. simpl. rewrite Hk, Ht.
      simpl in Hc. rewrite Hc. simpl.
      eexists. split; reflexivity.
    - (* VMap *)
      apply T_cont; [reflexivity|]. intros Hwt pn oi ct c H0 Hc.
      rewrite wt_map in Hwt. apply andb_true_iff in Hwt. destruct Hwt as [_ Hew].
      apply andb_true_iff in Hew. destruct Hew as [Hew _].
      rewrite enc_map in H0. bi H0. bi H0. bi H0. inversion H0; subst. clear H0.
      destruct (elem_key_inv _ reg_names _ _ Ha) as [k0 [Hlk Hk]].
      destruct (elem_key_inv _ reg_names _ _ Ha0) as [t0 [Hlt Ht]].
      eexists. split; [reflexivity|]. split; [reflexivity|].
      simpl set_cti. rewrite dec_map, Hlk. simpl. rewrite Hlt. simpl. rewrite Hk, Ht.
      simpl in Hc. rewrite Hc. simpl.
      assert (Hnp := entries_np k t kvs a1 H Hew Ha1).
      destruct (mapM _ a1) as [kvs'| |]; simpl; auto.
      eexists. split; reflexivity.
    - (* VIface nil *)
      intros Hwt. simpl in Hwt. apply andb_true_iff in Hwt. destruct Hwt as [Hi _].
      split; [simpl; congruence|]. split; [|destruct it; discriminate].
      intros oi H. rewrite enc_iface0 in H. inversion H; subst. simpl.
      unfold hole, dec_opt. rewrite bind_Ok_l. unfold place. rewrite (zero_iface _ _ _ Hi). reflexivity.
    - (* VIface *)
      intros Hwt. simpl in Hwt. apply andb_true_iff in Hwt. destruct Hwt as [Hi Hwt].
      apply andb_true_iff in Hwt. destruct Hwt as [Hni Hwt]. apply negb_true_iff in Hni.
      split; [simpl; congruence|]. split; [|destruct it; discriminate].
      intros oi H. rewrite enc_iface0 in H.
      destruct (IHv Hwt) as [HC _]. destruct (HC Hni 0%nat _ H) as [i [-> Hg]].
      unfold hole, dec_opt. destruct (DEC i) as [x| |]; simpl in *; auto.
      destruct Hg as [v' [-> Hty]]. simpl.
      assert (Hni' : is_iface (ty_of v') = false).
      { destruct Hty as [Hty|[_ [d [_ Hc]]]]; [congruence|]. destruct (ty_of v'); try discriminate Hc; reflexivity. }
      unfold assign. rewrite (iface_not_eqb _ _ Hni' Hi), Hi, Hni'. reflexivity.
    - (* VArray *)
      apply T_cont; [reflexivity|]. intros Hwt pn oi ct c H0 Hc.
      rewrite wt_array in Hwt. apply andb_true_iff in Hwt. destruct Hwt as [_ Hwt].
      rewrite enc_array in H0. bi H0. bi H0. inversion H0; subst. clear H0.
      destruct (elem_key_inv _ reg_names _ _ Ha) as [t0 [Hl Ht]].
      assert (Hlen1 : List.length a0 = List.length es).
      { clear -Ha0. revert a0 Ha0. induction es as [|e es IH]; intros a0 Ha0.
        - rewrite mapM_nil in Ha0. now inversion Ha0.
        - rewrite mapM_cons in Ha0. bi Ha0. bi Ha0. inversion Ha0; subst. simpl. f_equal. now apply IH. }
      eexists. split; [reflexivity|]. split; [reflexivity|].
      simpl set_cti. rewrite dec_array, Hl. simpl. rewrite Ht, Hlen1. simpl in Hc. rewrite Hc. simpl.
      assert (Hnp := elems_np t es a0 H Hwt Ha0).
      destruct (mapM _ a0) as [es'| |] eqn:Ees; simpl; auto.
      exists (VArray t es'). split; [reflexivity|]. simpl. f_equal.
      (* the decoded array has as many elements as the encoded one *)
      clear -Ees Hlen1. rewrite <- Hlen1. revert es' Ees. clear Hlen1.
      induction a0 as [|x a0 IH]; intros es' Ees.
      + rewrite mapM_nil in Ees. now inversion Ees.
      + rewrite mapM_cons in Ees. bi Ees. bi Ees. inversion Ees; subst. simpl. f_equal. now apply IH.
    - (* VDef *)
      intros Hwt. simpl in Hwt. apply andb_true_iff in Hwt. destruct Hwt as [Hct Hwt].
      destruct (IHv Hwt) as [_ [_ HK]]. specialize (HK Hct).
      assert (Hne : ty_eqb (ty_of v) (TDef d (ty_of v)) = false) by now apply cont_not_def.
      assert (HC : concT (VDef d v)).
      { intros pn oi H. rewrite enc_def in H.
        destruct (rm_lookup reg (TDef d (ty_of v))) as [k|] eqn:Ek.
        - rewrite andb_false_r in H. bi H. inversion H; subst. clear H.
          assert (Hcty : container_ty reg (Some k) (ty_of v) = Ok (TDef d (ty_of v))).
          { simpl. unfold lookup_ty. rewrite (reg_consistent reg reg_names _ _ Ek). simpl.
            unfold assignable_to. rewrite Hne, ty_eqb_refl. reflexivity. }
          destruct (HK pn a (Some k) _ Ha Hcty) as [i [-> [_ Hg]]].
          eexists. split; [reflexivity|]. eapply good_weaken; [|exact Hg].
          intros x [v' [-> Hty]]. exists (VDef d v'). split; [reflexivity|]. left. simpl. now rewrite Hty.
        - destruct pn as [|pn]; [|simpl in H; discriminate H].
          simpl in H. bi H. inversion H; subst. clear H.
          destruct (HK 0%nat a None (ty_of v) Ha eq_refl) as [i [-> [Hn Hg]]].
          exists i. split; [simpl; now rewrite Hn|]. rewrite Hn in Hg.
          eapply good_weaken; [|exact Hg].
          intros x [v' [-> Hty]]. rewrite (as_ty_cont _ _ Hct). exists v'. split; [reflexivity|].
          right. split; [reflexivity|]. exists d. simpl. rewrite Hty. split; [reflexivity|exact Hct]. }
      split; [|split].
      + intros _. exact HC.
      + now apply conc_holeT.
      + intro Hc. discriminate Hc.
  Qed.

  (* ---- the statements used by Props/C12.v *)
  Lemma unmarshal_total_lemma : forall v oi,
    wt env v = true -> is_iface (ty_of v) = false ->
    marshal J JK jenc kenc fixed reg v = Ok oi ->
    unmarshal J JK jdec kdec fixed reg env oi <> Panic /\
    forall v', unmarshal J JK jdec kdec fixed reg env oi = Ok v' ->
      ty_of v' = ty_of v \/ exists d, ty_of v = TDef d (ty_of v').
  Proof.
    intros v oi Hwt Hi H. unfold marshal in H.
    destruct (total_all v Hwt) as [HC _]. destruct (HC Hi 0%nat _ H) as [i [-> Hg]]. simpl.
    destruct (DEC i) as [x| |]; simpl in *.
    - split; [discriminate|]. intros v' Hv. inversion Hv; subst.
      destruct Hg as [v'' [-> [Hty|[_ [d [Hd _]]]]]]; simpl; eauto.
    - split; [discriminate|]. intros v' Hv. discriminate Hv.
    - contradiction.
  Qed.
  Lemma position_total_lemma : forall v oi,
    wt env v = true -> enc_at J JK jenc kenc fixed reg 0 v = Ok oi ->
    HOLE (ty_of v) oi <> Panic /\ forall v', HOLE (ty_of v) oi = Ok v' -> ty_of v' = ty_of v.
  Proof.
    intros v oi Hwt H. destruct (total_all v Hwt) as [_ [Hh _]]. specialize (Hh _ H).
    destruct (HOLE (ty_of v) oi) as [x| |]; simpl in *.
    - split; [discriminate|]. intros v' Hv. now inversion Hv; subst.
    - split; [discriminate|]. intros v' Hv. discriminate Hv.
    - contradiction.
  Qed.
End Total.
