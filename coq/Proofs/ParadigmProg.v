(* Proofs/ParadigmProg.v — graph level of property C04: the stream-mode run of a graph,
   concatenated, is the value-mode run on the concatenated input, for every graph built
   from consistent nodes, every chunking, every native subset per node and every
   interleaving chosen at every fan-in. *)
From Eino Require Import Base.Util Model.Paradigm Model.StreamOps Model.ParadigmProg
  Proofs.Paradigm Proofs.ParadigmOps Proofs.ParadigmFieldMap.
From Coq Require Import Lia.

Arguments vsconcat : simpl never.
Arguments vsconcatR : simpl never.

Lemma vsconcatR_Ok o : vsconcatR (Ok o) = vsconcat o.
Proof. reflexivity. Qed.
Lemma vsconcatR_failed r : failed r -> failed (vsconcatR r).
Proof. intros H. unfold vsconcatR, sconcatR. apply failed_bind, H. Qed.

(* ------------------------------------------------------------------ simulation of one stage *)
(* a stream function simulates a value function on the domain D: on every non-empty sound
   stream (it carries an error item or its chunks concatenate) whose concatenation (if it
   has one) lies in D, the concatenated output agrees with the value function on the
   concatenated input, and the output stream is not empty and sound again *)
Definition sim (D : val -> Prop) (fv : val -> res val) (fs : stream val -> res (stream val)) : Prop :=
  forall s, s <> [] -> sound s -> (forall x, vsconcat s = Ok x -> D x) ->
    agree (vsconcatR (fs s)) (res_bind (vsconcat s) fv) /\ (forall o, fs s = Ok o -> o <> [] /\ sound o).

Lemma sim_weaken (D D' : val -> Prop) fv fs : (forall x, D' x -> D x) -> sim D fv fs -> sim D' fv fs.
Proof. intros H Hs s Hn Hso Hd. apply Hs; auto. Qed.

Lemma sim_ext D fv fv' fs fs' :
  (forall x, fv x = fv' x) -> (forall s, fs s = fs' s) -> sim D fv fs -> sim D fv' fs'.
Proof.
  intros Hv Hs H s Hn Hso Hd. destruct (H s Hn Hso Hd) as (Ha & Hne). rewrite <- Hs. split; auto.
  destruct (vsconcat s); simpl in *; auto. rewrite <- Hv. exact Ha.
Qed.

Lemma sim_id : sim (fun _ => True) (fun x => Ok x) (fun s => Ok s).
Proof.
  intros s Hn Hso _. split; [|intros o H; inversion H; subst; auto].
  change (agree (vsconcat s) (res_bind (vsconcat s) (fun x => Ok x))).
  destruct (vsconcat s); simpl; auto.
Qed.

Lemma failed_dec {X} (r : res X) : (exists x, r = Ok x) \/ failed r.
Proof. destruct r; [left; eauto|right; apply failed_Err|right; apply failed_Panic]. Qed.

Lemma agree_failed_both {X} (a b : res X) : failed a -> failed b -> agree a b.
Proof. apply agree_failed. Qed.

Lemma sim_comp D1 D2 f fs g gs :
  sim D1 f fs -> sim D2 g gs ->
  sim (fun x => D1 x /\ forall y, f x = Ok y -> D2 y)
      (fun x => do y <- f x; g y) (fun s => do o <- fs s; gs o).
Proof.
  intros H1 H2 s Hn Hso Hd.
  destruct (H1 s Hn Hso (fun x Hx => proj1 (Hd x Hx))) as (Ha & Hne).
  destruct (fs s) as [o| |] eqn:Efs; cbn [res_bind]; try rewrite vsconcatR_Ok in *.
  - destruct (Hne o eq_refl) as (Hno & Hso2).
    assert (Hd2 : forall y, vsconcat o = Ok y -> D2 y).
    { intros y Hy. rewrite Hy in Ha. apply agree_ok_l in Ha.
      apply bind_ok_inv in Ha as (x & Hx & Hfx). exact (proj2 (Hd x Hx) y Hfx). }
    destruct (H2 o Hno Hso2 Hd2) as (Hb & Hne2). split; auto.
    rewrite <- bind_assoc.
    eapply agree_trans; [exact Hb|]. apply agree_bind; auto. intros; apply agree_refl.
  - split; [|discriminate]. rewrite <- bind_assoc.
    apply agree_failed; [apply vsconcatR_failed, failed_Err|]. apply failed_bind.
    eapply agree_failed_l; eauto. apply vsconcatR_failed, failed_Err.
  - split; [|discriminate]. rewrite <- bind_assoc.
    apply agree_failed; [apply vsconcatR_failed, failed_Panic|]. apply failed_bind.
    eapply agree_failed_l; eauto. apply vsconcatR_failed, failed_Panic.
Qed.

(* ------------------------------------------------------------------ nodes *)
(* besides consistency: a native that returns a stream returns a non-empty one (a producer
   that emits nothing has no Invoke counterpart) which is sound: it reports a failure by an
   error item (or at call time), never by chunks that cannot be put together *)
Record node_nonempty (n : node val val) : Prop := {
  nn_S : forall f, nS n = Some f -> forall x o, f x = Ok o -> o <> [] /\ sound o;
  nn_T : forall f, nT n = Some f -> forall s o, s <> [] -> sound s -> f s = Ok o -> o <> [] /\ sound o
}.

Definition node_ok (n : node val val) : Prop :=
  has_any n = true /\ node_nonempty n /\ exists f, node_consistent val val vconcat vconcat n f.

Lemma vT_nonempty n : has_any n = true -> node_nonempty n ->
  forall s o, s <> [] -> sound s -> vT n s = Ok o -> o <> [] /\ sound o.
Proof.
  intros Hany Hne s o Hs Hso. unfold vT, view_T.
  destruct (used_some _ _ n PT Hany) as (p & E & Hp & _). rewrite E.
  destruct p.
  - intros H. apply bind_ok_inv in H as (x & _ & H). apply bind_ok_inv in H as (y & _ & H).
    inversion H. split; [discriminate|apply sound_box].
  - intros H. apply bind_ok_inv in H as (x & _ & H).
    destruct (has_callS _ _ n Hp) as (f & Ef & Hc). rewrite Hc in H. eapply nn_S; eauto.
  - intros H. apply bind_ok_inv in H as (y & _ & H). inversion H. split; [discriminate|apply sound_box].
  - destruct (has_callT _ _ n Hp) as (f & Ef & Hc). rewrite Hc. intros H. eapply nn_T; eauto.
Qed.

Lemma sim_node n : node_ok n -> sim (fun _ => True) (vI n) (vT n).
Proof.
  intros (Hany & Hne & f & Hc) s Hs Hso _. split.
  - apply (views_agree_lem val val vconcat vconcat n f Hc Hany s Hs).
  - intros o Ho. eapply vT_nonempty; eauto.
Qed.

Lemma sim_withKey k : sim (fun _ => True) (v_withKey k) (fun s => Ok (s_withKey k s)).
Proof.
  intros s Hs Hso _. destruct (concat_withKey_lem k s Hs Hso) as (Ha & Hso').
  split; [exact Ha|]. intros o H. inversion H. subst. split; [apply withKey_nonnil, Hs|exact Hso'].
Qed.

Definition has_key (k : N) (x : val) : Prop :=
  match x with VM m => m_get k m <> None | VS _ => True end.

Lemma sim_keyFilter k : sim (has_key k) (v_getKey k) (fun s => Ok (s_keyFilter k s)).
Proof.
  intros s Hs Hso Hd.
  destruct (concat_keyFilter_lem k s Hs Hso (fun m Hm => Hd (VM m) Hm)) as (Ha & Hne & Hso').
  split; auto. intros o H. inversion H. subst. auto.
Qed.

(* ------------------------------------------------------------------ wrapped nodes *)
Definition handler_ok (h : option (N * node val val)) : Prop :=
  match h with Some (_, n) => node_ok n | None => True end.

Definition wrap_ok (w : wrap) : Prop := handler_ok (w_pre w) /\ handler_ok (w_post w).

Definition pre_v (w : wrap) (x : val) : res val :=
  match w_pre w with Some (_, h) => vI h x | None => Ok x end.
Definition pre_s (w : wrap) (s : stream val) : res (stream val) :=
  match w_pre w with Some (_, h) => vT h s | None => Ok s end.
Definition in_v (w : wrap) (x : val) : res val :=
  match w_in w with Some k => v_getKey k x | None => Ok x end.
Definition in_s (w : wrap) (s : stream val) : res (stream val) :=
  Ok (match w_in w with Some k => s_keyFilter k s | None => s end).
Definition out_v (w : wrap) (x : val) : res val :=
  match w_out w with Some k => v_withKey k x | None => Ok x end.
Definition out_s (w : wrap) (s : stream val) : res (stream val) :=
  Ok (match w_out w with Some k => s_withKey k s | None => s end).
Definition post_v (w : wrap) (x : val) : res val :=
  match w_post w with Some (_, h) => vI h x | None => Ok x end.
Definition post_s (w : wrap) (s : stream val) : res (stream val) :=
  match w_post w with Some (_, h) => vT h s | None => Ok s end.

Lemma wrap_value_eq w core x :
  wrap_value w core x =
  do x1 <- pre_v w x; do x2 <- in_v w x1; do y <- core x2; do y1 <- out_v w y; post_v w y1.
Proof. unfold wrap_value, pre_v, in_v, out_v, post_v. destruct (w_pre w) as [[? ?]|]; reflexivity. Qed.

Lemma wrap_stream_eq w core s :
  wrap_stream w core s =
  do s1 <- pre_s w s; do s2 <- in_s w s1; do o <- core s2; do o1 <- out_s w o; post_s w o1.
Proof.
  unfold wrap_stream, pre_s, in_s, out_s, post_s.
  destruct (w_pre w) as [[i h]|]; simpl; [destruct (vT h s); simpl; auto|];
    destruct (core _); reflexivity.
Qed.

Lemma wrap_inner_value_eq w x : wrap_inner_value w x = do x1 <- pre_v w x; in_v w x1.
Proof. unfold wrap_inner_value, pre_v, in_v. destruct (w_pre w) as [[? ?]|]; reflexivity. Qed.

Lemma sim_pre w : wrap_ok w -> sim (fun _ => True) (pre_v w) (pre_s w).
Proof.
  intros (H & _). unfold pre_v, pre_s. destruct (w_pre w) as [[i h]|]; [apply sim_node, H|apply sim_id].
Qed.
Lemma sim_post w : wrap_ok w -> sim (fun _ => True) (post_v w) (post_s w).
Proof.
  intros (_ & H). unfold post_v, post_s. destruct (w_post w) as [[i h]|]; [apply sim_node, H|apply sim_id].
Qed.
Lemma sim_in w :
  sim (fun x => match w_in w with Some k => has_key k x | None => True end) (in_v w) (in_s w).
Proof. unfold in_v, in_s. destruct (w_in w); [apply sim_keyFilter|apply sim_id]. Qed.
Lemma sim_out w : sim (fun _ => True) (out_v w) (out_s w).
Proof. unfold out_v, out_s. destruct (w_out w); [apply sim_withKey|apply sim_id]. Qed.

Lemma inkey_ok_spec w x : inkey_ok w x = true ->
  forall x1, pre_v w x = Ok x1 -> match w_in w with Some k => has_key k x1 | None => True end.
Proof.
  unfold inkey_ok, pre_v. destruct (w_in w) as [k|]; auto.
  intros H x1 E.
  rewrite E in H. destruct x1 as [c|m]; simpl; auto. destruct (m_get k m); [discriminate|discriminate].
Qed.

Lemma sim_wrap w D core_v core_s :
  wrap_ok w -> sim D core_v core_s ->
  sim (fun x => inkey_ok w x = true /\ forall x2, wrap_inner_value w x = Ok x2 -> D x2)
      (wrap_value w core_v) (wrap_stream w core_s).
Proof.
  intros Hw Hc.
  eapply sim_ext; [intros x; symmetry; apply wrap_value_eq|intros s; symmetry; apply wrap_stream_eq|].
  eapply sim_weaken;
    [|eapply sim_comp; [apply sim_pre, Hw|];
      eapply sim_comp; [apply sim_in|];
      eapply sim_comp; [apply Hc|];
      eapply sim_comp; [apply sim_out|apply sim_post, Hw]].
  intros x (Hk & Hd). split; auto. intros x1 E1. split.
  - eapply inkey_ok_spec; eauto.
  - intros x2 E2. split.
    + apply Hd. rewrite wrap_inner_value_eq, E1. exact E2.
    + intros y _. split; auto.
Qed.

(* ------------------------------------------------------------------ mapM *)
Lemma mapM_ok {X Y} (f : X -> res Y) l ys : mapM f l = Ok ys -> Forall2 (fun a y => f a = Ok y) l ys.
Proof.
  revert ys. induction l as [|a l IH]; simpl; intros ys H.
  - inversion H. constructor.
  - apply bind_ok_inv in H as (b & Eb & H). apply bind_ok_inv in H as (bs & Ebs & H).
    inversion H. constructor; auto.
Qed.

Lemma mapM_failed {X Y} (f : X -> res Y) l : failed (mapM f l) -> exists a, In a l /\ failed (f a).
Proof.
  induction l as [|a l IH]; simpl; intros H.
  - exfalso. eapply H; reflexivity.
  - destruct (failed_dec (f a)) as [(b & Eb)|Hf]; [|exists a; auto].
    rewrite Eb in H. simpl in H.
    destruct (failed_dec (mapM f l)) as [(bs & Ebs)|Hf].
    + rewrite Ebs in H. simpl in H. exfalso. eapply H; reflexivity.
    + destruct (IH Hf) as (a' & Ha' & Hf'). exists a'. auto.
Qed.

Lemma mapMi_ok {X Y} (g : nat -> X -> res Y) i l os :
  mapMi g i l = Ok os -> Forall2 (fun a o => exists j, g j a = Ok o) l os.
Proof.
  revert i os. induction l as [|a l IH]; simpl; intros i os H.
  - inversion H. constructor.
  - apply bind_ok_inv in H as (b & Eb & H). apply bind_ok_inv in H as (bs & Ebs & H).
    inversion H. constructor; eauto.
Qed.

Lemma mapMi_failed {X Y} (g : nat -> X -> res Y) i l :
  failed (mapMi g i l) -> exists a j, In a l /\ failed (g j a).
Proof.
  revert i. induction l as [|a l IH]; simpl; intros i H.
  - exfalso. eapply H; reflexivity.
  - destruct (failed_dec (g i a)) as [(b & Eb)|Hf]; [|exists a, i; auto].
    rewrite Eb in H. simpl in H.
    destruct (failed_dec (mapMi g (S i) l)) as [(bs & Ebs)|Hf].
    + rewrite Ebs in H. simpl in H. exfalso. eapply H; reflexivity.
    + destruct (IH _ Hf) as (a' & j & Ha' & Hf'). exists a', j. auto.
Qed.

Lemma nth_apply_spec {X Y} (f : X -> Y) d l i :
  nth_apply f d l i = match nth_error l i with Some a => f a | None => d end.
Proof.
  revert i. induction l as [|a l IH]; intros [|i]; simpl; auto.
Qed.

(* ------------------------------------------------------------------ well-formed graphs *)
Definition cond_ok (c : node val nat) : Prop :=
  has_any c = true /\ exists f, node_consistent val nat vconcat nat_concat c f.

Fixpoint prog_ok (p : prog) : Prop :=
  match p with
  | PNode w _ n => wrap_ok w /\ node_ok n
  | PSeq p q => prog_ok p /\ prog_ok q
  | PPar ps => ps <> [] /\ (fix all (l : list prog) : Prop :=
                              match l with [] => True | a :: r => prog_ok a /\ all r end) ps
  | PBranch _ c alts => cond_ok c /\ (fix all (l : list prog) : Prop :=
                              match l with [] => True | a :: r => prog_ok a /\ all r end) alts
  | PSub w p => wrap_ok w /\ prog_ok p
  | PMap f => fmap_wf f = true
  | PCheck _ => True
  | PId => True
  | PMulti _ c alts => cond_ok c /\ (fix all (l : list prog) : Prop :=
                              match l with [] => True | a :: r => prog_ok a /\ all r end) alts
  | PLoop _ c body _ => cond_ok c /\ prog_ok body
  end.

Lemma all_forall (l : list prog) :
  (fix all (l : list prog) : Prop := match l with [] => True | a :: r => prog_ok a /\ all r end) l
  <-> Forall prog_ok l.
Proof.
  induction l as [|a l IH]; simpl.
  - split; auto.
  - rewrite IH. split; [intros (? & ?); constructor; auto|intros H; inversion H; auto].
Qed.

(* induction principle that reaches the children of PPar / PBranch *)
Lemma prog_ind' (P : prog -> Prop)
  (HN : forall w id n, P (PNode w id n))
  (HS : forall p q, P p -> P q -> P (PSeq p q))
  (HP : forall ps, Forall P ps -> P (PPar ps))
  (HB : forall id c alts, Forall P alts -> P (PBranch id c alts))
  (HU : forall w p, P p -> P (PSub w p))
  (HM : forall f, P (PMap f))
  (HC : forall m, P (PCheck m))
  (HI : P PId)
  (HMu : forall id c alts, Forall P alts -> P (PMulti id c alts))
  (HL : forall id c body fuel, P body -> P (PLoop id c body fuel)) : forall p, P p.
Proof.
  fix IH 1. intros [w id n|p q|ps|id c alts|w p|f|m| |id c alts|id c body fuel].
  - apply HN.
  - apply HS; apply IH.
  - apply HP. induction ps; constructor; auto.
  - apply HB. induction alts; constructor; auto.
  - apply HU, IH.
  - apply HM.
  - apply HC.
  - apply HI.
  - apply HMu. induction alts; constructor; auto.
  - apply HL, IH.
Qed.

(* masked maps are maps over the selected sub-list *)
Lemma mapM_mask_select {X Y} (f : X -> res Y) mask l : forall i,
  mapM_mask f mask i l = mapM f (select mask i l).
Proof.
  induction l as [|a l IH]; intros i; [reflexivity|]. cbn [mapM_mask select].
  destruct (Nat.testbit mask i); cbn [mapM]; rewrite IH; reflexivity.
Qed.

Lemma mapMi_mask_select {X Y} (g : nat -> X -> res Y) mask l : forall i j,
  mapMi_mask g mask i j l = mapMi g j (select mask i l).
Proof.
  induction l as [|a l IH]; intros i j; [reflexivity|]. cbn [mapMi_mask select].
  destruct (Nat.testbit mask i); cbn [mapMi]; rewrite IH; reflexivity.
Qed.

Lemma forallb_mask_select {X} (h : X -> bool) mask l : forall i,
  forallb_mask h mask i l = forallb h (select mask i l).
Proof.
  induction l as [|a l IH]; intros i; [reflexivity|]. cbn [forallb_mask select].
  destruct (Nat.testbit mask i); cbn [forallb]; rewrite IH; reflexivity.
Qed.

Lemma select_Forall {X} (P : X -> Prop) mask l : forall i, Forall P l -> Forall P (select mask i l).
Proof.
  induction l as [|a l IH]; intros i H; [constructor|]. inversion H; subst. cbn [select].
  destruct (Nat.testbit mask i); [constructor|]; auto.
Qed.

Lemma mapM_length {X Y} (f : X -> res Y) l ys : mapM f l = Ok ys -> List.length ys = List.length l.
Proof.
  revert ys. induction l as [|a l IH]; simpl; intros ys H.
  - inversion H. reflexivity.
  - apply bind_ok_inv in H as (b & _ & H). apply bind_ok_inv in H as (bs & Ebs & H).
    inversion H. simpl. f_equal. apply IH, Ebs.
Qed.

Lemma mapMi_length {X Y} (g : nat -> X -> res Y) l : forall i os,
  mapMi g i l = Ok os -> List.length os = List.length l.
Proof.
  induction l as [|a l IH]; simpl; intros i os H.
  - inversion H. reflexivity.
  - apply bind_ok_inv in H as (b & _ & H). apply bind_ok_inv in H as (bs & Ebs & H).
    inversion H. simpl. f_equal. eapply IH, Ebs.
Qed.

(* run-time type check of an any-typed edge *)
Lemma check_bad m s : has_bad s -> has_bad (s_check m s).
Proof. apply has_bad_map. reflexivity. Qed.

Lemma concat_check_lem m s : s <> [] -> sound s ->
  agree (vsconcat (s_check m s)) (res_bind (vsconcat s) (v_check m)) /\ s_check m s <> []
  /\ sound (s_check m s).
Proof.
  intros Hn Hso.
  assert (Hne : s_check m s <> []) by (destruct s; [congruence|discriminate]).
  apply sound_cases in Hso as [Hb|[(ss & Hss & ->)|(ms & Hms & -> & Hok)]].
  - split; [|split; [exact Hne|apply sound_bad, check_bad, Hb]].
    apply agree_failed; [apply vsconcat_bad, check_bad, Hb|apply failed_bind, vsconcat_bad, Hb].
  - rewrite vsconcat_sVS by exact Hss. cbn [res_bind]. unfold v_check. cbn [is_map].
    destruct m; cbn [Bool.eqb].
    + assert (Hb : has_bad (s_check true (sVS ss))).
      { apply all_bad; [exact Hn|]. intros it Hit. apply in_sVS in Hit as (c & ->). simpl. eauto. }
      split; [|split; [exact Hne|apply sound_bad, Hb]].
      apply agree_failed; [apply vsconcat_bad, Hb|apply failed_Err].
    + assert (Es : s_check false (sVS ss) = sVS ss).
      { unfold s_check, sVS. rewrite map_map. reflexivity. }
      rewrite Es, vsconcat_sVS by exact Hss. split; [reflexivity|]. split; [rewrite <- Es; exact Hne|].
      right. eexists. apply vsconcat_sVS, Hss.
  - rewrite vsconcat_sVM_ok by auto. cbn [res_bind]. unfold v_check. cbn [is_map].
    destruct m; cbn [Bool.eqb].
    + assert (Es : s_check true (sVM ms) = sVM ms).
      { unfold s_check, sVM. rewrite map_map. reflexivity. }
      rewrite Es, vsconcat_sVM_ok by auto. split; [reflexivity|]. split; [rewrite <- Es; exact Hne|].
      right. eexists. apply vsconcat_sVM_ok; auto.
    + assert (Hb : has_bad (s_check false (sVM ms))).
      { apply all_bad; [exact Hn|]. intros it Hit. apply in_sVM in Hit as (c & ->). simpl. eauto. }
      split; [|split; [exact Hne|apply sound_bad, Hb]].
      apply agree_failed; [apply vsconcat_bad, Hb|apply failed_Err].
Qed.

Lemma sim_check m : sim (fun _ => True) (v_check m) (fun s => Ok (s_check m s)).
Proof.
  intros s Hs Hso _. destruct (concat_check_lem m s Hs Hso) as (Ha & Hne & Hso').
  split; auto. intros o H. inversion H. subst. auto.
Qed.

Lemma sim_fmap f : fmap_wf f = true ->
  sim (fun x => fmap_dom f x = true) (v_fmap f) (fun s => Ok (s_fmap f s)).
Proof.
  intros Hwf s Hs Hso Hd. destruct (concat_fieldMap_lem f s Hwf Hs Hso Hd) as (Ha & Hne & Hso').
  split; auto. intros o H. inversion H. subst. auto.
Qed.

(* ------------------------------------------------------------------ the run *)
Section Run.
  Variable mrg : list nat -> list (stream val) -> stream val.
  Hypothesis mrg_interleaving : forall pos ls, Interleaving ls (mrg pos ls).

  Definition D (p : prog) (x : val) : Prop := dom_ok p x = true.

  Lemma fanin_ok_spec ys : 2 <= List.length ys -> fanin_ok ys = true ->
    exists ms, ys = map VM ms /\ disjoint_keys [] ms = true /\ forallb mcons ms = true.
  Proof.
    intros Hl H. destruct ys as [|a [|b ys]]; simpl in Hl; try lia.
    unfold fanin_ok in H. destruct (all_map (a :: b :: ys)) as [ms|] eqn:E; [|discriminate].
    apply andb_prop in H as (H1 & H2).
    exists ms. split; auto. apply all_map_some, E.
  Qed.

  Lemma v_merge_single y : v_merge [y] = Ok y.
  Proof. reflexivity. Qed.

  Lemma F2_len {X Y} (R : X -> Y -> Prop) l l' : Forall2 R l l' -> List.length l = List.length l'.
  Proof. induction 1; simpl; auto. Qed.

  Lemma par_general os ys t :
    Interleaving os t -> 2 <= List.length os ->
    Forall2 (fun o y => vsconcat o = Ok y) os ys -> fanin_ok ys = true ->
    vsconcat t = v_merge ys.
  Proof.
    intros Hil Hl HF Hf.
    assert (Hly : 2 <= List.length ys) by (rewrite <- (F2_len _ _ _ HF); exact Hl).
    destruct (fanin_ok_spec ys Hly Hf) as (ms & -> & Hd & Hc).
    apply (concat_merge_lem os ms t); auto.
    clear -HF. remember (map VM ms) as ys eqn:E. revert ms E.
    induction HF as [|o y os ys Ho HF IH]; intros [|m ms] E; try discriminate; constructor.
    - inversion E; subst. exact Ho.
    - apply IH. inversion E; reflexivity.
  Qed.

  Lemma Forall2_in_l {X Y} (R : X -> Y -> Prop) l l' a :
    Forall2 R l l' -> In a l -> exists b, In b l' /\ R a b.
  Proof.
    induction 1 as [|x y l l' Hxy HF IH]; intros []; subst.
    - exists y. split; [left; auto|auto].
    - destruct (IH H) as (b & Hb & Hab). exists b. split; [right; auto|auto].
  Qed.

  Lemma mapM_in_failed {X Y} (f : X -> res Y) l a : In a l -> failed (f a) -> failed (mapM f l).
  Proof.
    induction l as [|b l IH]; intros [] Hf; subst; simpl.
    - apply failed_bind, Hf.
    - destruct (f b); simpl; try apply failed_Err; try apply failed_Panic.
      apply failed_bind. apply IH; auto.
  Qed.

  (* a sound stream that does not concatenate carries an error item *)
  Lemma sound_failed_bad o : o <> [] -> sound o -> failed (vsconcat o) -> has_bad o.
  Proof. intros _ [H|(v & H)] Hf; auto. exfalso. exact (Hf v H). Qed.

  (* fan-out / fan-in *)
  Lemma sim_par pos ps :
    ps <> [] ->
    Forall (fun p => forall pos, sim (D p) (run_value p) (run_stream mrg pos p)) ps ->
    sim (D (PPar ps)) (run_value (PPar ps)) (run_stream mrg pos (PPar ps)).
  Proof.
    intros Hps HF s Hs Hso Hd.
    rewrite Forall_forall in HF.
    cbn [run_value run_stream].
    set (g := fun i p => run_stream mrg (i :: pos) p s).
    set (fv := fun x => do ys <- mapM (fun p => run_value p x) ps; v_merge ys).
    assert (Hchild : forall p i, In p ps ->
              agree (vsconcatR (g i p)) (res_bind (vsconcat s) (run_value p)) /\
              (forall o, g i p = Ok o -> o <> [] /\ sound o)).
    { intros p i Hp. apply (HF p Hp (i :: pos) s Hs Hso).
      intros x Hx. specialize (Hd x Hx). unfold D in *. cbn [dom_ok] in Hd.
      apply andb_prop in Hd as (Hd & _). rewrite forallb_forall in Hd. apply Hd, Hp. }
    (* if some branch fails in value mode, so does the fan-in *)
    assert (Hvfail : forall p, In p ps -> failed (res_bind (vsconcat s) (run_value p)) ->
                               failed (res_bind (vsconcat s) fv)).
    { intros p Hp Hf. destruct (vsconcat s) as [x| |]; simpl in *;
        try apply failed_Err; try apply failed_Panic.
      unfold fv. apply failed_bind. eapply mapM_in_failed; eauto. }
    destruct (failed_dec (mapMi g 0 ps)) as [(os & Eos)|Hfail].
    2:{ (* a call-time failure in some branch *)
      split; [|intros o H; exfalso; destruct (mapMi g 0 ps); simpl in H; try discriminate;
               eapply Hfail; reflexivity].
      destruct (mapMi_failed _ _ _ Hfail) as (p & j & Hp & Hf).
      apply agree_failed.
      - unfold vsconcatR, sconcatR. apply failed_bind, failed_bind, Hfail.
      - apply (Hvfail p Hp). eapply agree_failed_l; [apply (Hchild p j Hp)|].
        unfold vsconcatR, sconcatR. apply failed_bind, Hf. }
    rewrite Eos. cbn [res_bind].
    pose proof (mapMi_ok g 0 ps os Eos) as HF2.
    assert (Hone : forall o, In o os -> o <> [] /\ sound o).
    { clear -HF2 Hchild. induction HF2 as [|p o ps os (j & Ej) HF2 IH]; intros o' [].
      - subst o'. apply (Hchild p j (or_introl eq_refl)), Ej.
      - apply (IH (fun p i Hp => Hchild p i (or_intror Hp)) o' H). }
    assert (Hsrc : forall p, In p ps -> exists o, In o os /\
                     agree (vsconcat o) (res_bind (vsconcat s) (run_value p))).
    { intros p Hp. destruct (Forall2_in_l _ _ _ _ HF2 Hp) as (o & Ho & j & Ej).
      exists o. split; auto. destruct (Hchild p j Hp) as (Ha & _). rewrite Ej in Ha. exact Ha. }
    destruct os as [|o [|o' os']].
    - destruct ps; [congruence|inversion HF2].
    - (* one branch: passed on as it is *)
      destruct ps as [|p [|p' ps']]; try solve [inversion HF2; subst; match goal with H : Forall2 _ _ _ |- _ => inversion H end].
      cbn [s_merge]. split; [|intros o1 H; inversion H; subst; apply Hone; left; reflexivity].
      destruct (Hsrc p (or_introl eq_refl)) as (o1 & [<-|[]] & Ha).
      cbn [vsconcatR sconcatR res_bind]. fold (vsconcat o).
      eapply agree_trans; [exact Ha|].
      apply agree_bind; [apply agree_refl|]. intros x _.
      unfold fv. cbn [mapM]. destruct (run_value p x); simpl; auto.
    - (* several: merged *)
      set (os := o :: o' :: os') in *.
      assert (Hl2 : 2 <= List.length os) by (simpl; lia).
      assert (Et : s_merge (mrg pos) os = mrg pos os) by reflexivity.
      rewrite Et. set (t := mrg pos os).
      assert (Hil : Interleaving os t) by apply mrg_interleaving.
      assert (Htne : t <> []).
      { eapply merge_nonnil; [exact Hil|left; reflexivity|apply Hone; left; reflexivity]. }
      assert (Hbad : forall o1, In o1 os -> failed (vsconcat o1) -> has_bad t).
      { intros o1 Ho Hf. destruct (Hone o1 Ho) as (Hn1 & Hs1).
        eapply merge_bad; eauto. apply sound_failed_bad; auto. }
      cut (agree (vsconcat t) (res_bind (vsconcat s) fv) /\ sound t).
      { intros (Ha & Hst). split; [rewrite vsconcatR_Ok; exact Ha|].
        intros o1 H; inversion H; subst. split; [exact Htne|exact Hst]. }
      destruct (failed_dec (res_bind (vsconcat s) fv)) as [(v & Ev)|Hvf].
      + (* value mode succeeds: every branch does, the keys are disjoint *)
        apply bind_ok_inv in Ev as (x & Ex & Ev). unfold fv in Ev.
        apply bind_ok_inv in Ev as (ys & Eys & Ev).
        rewrite Ex. cbn [res_bind]. unfold fv. rewrite Eys. cbn [res_bind].
        pose proof (mapM_ok _ _ _ Eys) as HFv.
        assert (HFo : Forall2 (fun o y => vsconcat o = Ok y) os ys).
        { clear -HF2 HFv Hchild Ex. revert ys HFv. generalize dependent os. clear o o' os'.
          intros os HF2.
          induction HF2 as [|p1 o1 ps1 os1 (j & Ej) HF2 IH]; intros ys HFv; inversion HFv; subst; constructor.
          - destruct (Hchild p1 j (or_introl eq_refl)) as (Ha & _).
            rewrite Ej, Ex in Ha. rewrite vsconcatR_Ok in Ha. cbn [res_bind] in Ha.
            match goal with H : run_value p1 x = Ok _ |- _ => rewrite H in Ha end.
            apply agree_ok_r in Ha. exact Ha.
          - apply IH; auto. intros p' i Hp'. apply Hchild. right; auto. }
        specialize (Hd x Ex). unfold D in Hd. cbn [dom_ok] in Hd.
        apply andb_prop in Hd as (_ & Hd). rewrite Eys in Hd.
        rewrite (par_general os ys t Hil Hl2 HFo Hd). rewrite Ev.
        split; [apply agree_refl|].
        right. exists v. rewrite (par_general os ys t Hil Hl2 HFo Hd). exact Ev.
      + (* value mode fails: some branch's source carries an error item *)
        assert (Hbt : has_bad t).
        { destruct (failed_dec (vsconcat s)) as [(x & Ex)|Hsf].
          * rewrite Ex in Hvf. cbn [res_bind] in Hvf. unfold fv in Hvf.
            destruct (failed_dec (mapM (fun p => run_value p x) ps)) as [(ys & Eys)|Hmf].
            -- (* all branches fine, the merge of the values fails: impossible inside the domain *)
               exfalso. rewrite Eys in Hvf. cbn [res_bind] in Hvf.
               specialize (Hd x Ex). unfold D in Hd. cbn [dom_ok] in Hd.
               apply andb_prop in Hd as (_ & Hd). rewrite Eys in Hd.
               pose proof (mapM_ok _ _ _ Eys) as HFv.
               assert (Hly : 2 <= List.length ys).
               { rewrite <- (F2_len _ _ _ HFv), (F2_len _ _ _ HF2). exact Hl2. }
               destruct (fanin_ok_spec ys Hly Hd) as (ms & -> & Hdk & _).
               unfold v_merge in Hvf. destruct ms as [|a [|b ms]]; simpl in Hly; try lia.
               change (map VM (a :: b :: ms)) with (VM a :: VM b :: map VM ms) in Hvf.
               change (VM a :: VM b :: map VM ms) with (map VM (a :: b :: ms)) in Hvf.
               rewrite all_map_map, Hdk in Hvf. eapply Hvf; reflexivity.
            -- destruct (mapM_failed _ _ Hmf) as (p & Hp & Hf).
               destruct (Hsrc p Hp) as (o1 & Ho1 & Ha). apply (Hbad o1 Ho1).
               eapply agree_failed_r; [exact Ha|]. rewrite Ex. exact Hf.
          * destruct ps as [|p ps']; [congruence|].
            destruct (Hsrc p (or_introl eq_refl)) as (o1 & Ho1 & Ha). apply (Hbad o1 Ho1).
            eapply agree_failed_r; [exact Ha|]. apply failed_bind, Hsf. }
        split; [|apply sound_bad, Hbt].
        apply agree_failed; auto. apply vsconcat_bad, Hbt.
  Qed.

  (* branch: the condition reads its own copy through the Collect view *)
  Lemma sim_branch pos id c alts :
    cond_ok c ->
    Forall (fun p => forall pos, sim (D p) (run_value p) (run_stream mrg pos p)) alts ->
    sim (D (PBranch id c alts)) (run_value (PBranch id c alts)) (run_stream mrg pos (PBranch id c alts)).
  Proof.
    intros (Hany & f & Hc) HF s Hs Hso Hd.
    rewrite Forall_forall in HF.
    cbn [run_value run_stream].
    assert (Hcond : agree (view_C vconcat nat_concat c s) (res_bind (vsconcat s) (view_I nat_concat c))).
    { apply (views_agree_lem val nat vconcat nat_concat c f Hc Hany s Hs). }
    destruct (failed_dec (vsconcat s)) as [(x & Ex)|Hsf].
    - rewrite Ex in *. cbn [res_bind] in *.
      destruct (failed_dec (view_I nat_concat c x)) as [(i & Ei)|Hif].
      + rewrite Ei in *. apply agree_ok_r in Hcond. rewrite Hcond. cbn [res_bind].
        rewrite !nth_apply_spec.
        destruct (nth_error alts i) as [a|] eqn:En.
        * assert (Ha : In a alts) by (eapply nth_error_In; eauto).
          destruct (HF a Ha (i :: pos) s Hs Hso) as (Hag & Hne).
          { intros x' Ex'. assert (x' = x) by congruence. subst x'.
            specialize (Hd x eq_refl). unfold D in *. cbn [dom_ok] in Hd. rewrite Ei in Hd.
            rewrite nth_apply_spec, En in Hd. exact Hd. }
          rewrite Ex in Hag. split; auto.
        * split; [exact I|discriminate].
      + assert (Hcf : failed (view_C vconcat nat_concat c s)) by (eapply agree_failed_r; eauto).
        split.
        * apply agree_failed; [|apply failed_bind, Hif].
          unfold vsconcatR, sconcatR. apply failed_bind, failed_bind, Hcf.
        * intros o H. exfalso. destruct (view_C vconcat nat_concat c s); simpl in H; try discriminate.
          eapply Hcf; reflexivity.
    - assert (Hcf : failed (view_C vconcat nat_concat c s)).
      { eapply agree_failed_r; eauto. apply failed_bind, Hsf. }
      split.
      + apply agree_failed; [|apply failed_bind, Hsf].
        unfold vsconcatR, sconcatR. apply failed_bind, failed_bind, Hcf.
      + intros o H. exfalso. destruct (view_C vconcat nat_concat c s); simpl in H; try discriminate.
        eapply Hcf; reflexivity.
  Qed.

  (* with a non-empty selection a multi-branch runs like the fan-out / fan-in of the selected alternatives *)
  Lemma multi_value_par ps x : ps <> [] ->
    (do ys <- mapM (fun p => run_value p x) ps; match ys with [] => Err e_branch | _ => v_merge ys end)
    = run_value (PPar ps) x.
  Proof.
    intros Hne. cbn [run_value].
    destruct (mapM (fun p => run_value p x) ps) as [ys| |] eqn:E; cbn [res_bind]; auto.
    apply mapM_length in E. destruct ys; [destruct ps; [congruence|discriminate]|reflexivity].
  Qed.

  Lemma multi_stream_par pos ps s : ps <> [] ->
    (do os <- mapMi (fun j p => run_stream mrg (j :: pos) p s) 0%nat ps;
     match os with [] => Err e_branch | _ => Ok (s_merge (mrg pos) os) end)
    = run_stream mrg pos (PPar ps) s.
  Proof.
    intros Hne. cbn [run_stream].
    destruct (mapMi (fun j p => run_stream mrg (j :: pos) p s) 0%nat ps) as [os| |] eqn:E; cbn [res_bind]; auto.
    apply mapMi_length in E. destruct os; [destruct ps; [congruence|discriminate]|reflexivity].
  Qed.

  Lemma sim_multi pos id c alts :
    cond_ok c ->
    Forall (fun p => forall pos, sim (D p) (run_value p) (run_stream mrg pos p)) alts ->
    sim (D (PMulti id c alts)) (run_value (PMulti id c alts)) (run_stream mrg pos (PMulti id c alts)).
  Proof.
    intros (Hany & f & Hc) HF s Hs Hso Hd.
    cbn [run_value run_stream].
    assert (Hcond : agree (view_C vconcat nat_concat c s) (res_bind (vsconcat s) (view_I nat_concat c))).
    { apply (views_agree_lem val nat vconcat nat_concat c f Hc Hany s Hs). }
    destruct (failed_dec (vsconcat s)) as [(x & Ex)|Hsf].
    - rewrite Ex in *. cbn [res_bind] in *.
      destruct (failed_dec (view_I nat_concat c x)) as [(mask & Ei)|Hif].
      + rewrite Ei in *. apply agree_ok_r in Hcond. rewrite Hcond. cbn [res_bind].
        rewrite mapM_mask_select, mapMi_mask_select.
        set (ps := select mask 0 alts).
        destruct ps as [|p0 ps0] eqn:Eps.
        * cbn [mapM mapMi res_bind]. split; [exact I|discriminate].
        * rewrite <- Eps in *.
          assert (Hne : ps <> []) by (rewrite Eps; discriminate).
          rewrite (multi_value_par ps x Hne), (multi_stream_par pos ps s Hne).
          assert (HFs : Forall (fun p => forall pos, sim (D p) (run_value p) (run_stream mrg pos p)) ps).
          { apply select_Forall, HF. }
          destruct (sim_par pos ps Hne HFs s Hs Hso) as (Ha & Hn).
          { intros x' Ex'. assert (x' = x) by congruence. subst x'.
            specialize (Hd x eq_refl). unfold D in *. cbn [dom_ok] in Hd. rewrite Ei in Hd.
            rewrite forallb_mask_select, mapM_mask_select in Hd. cbn [dom_ok]. exact Hd. }
          rewrite Ex in Ha. split; auto.
      + assert (Hcf : failed (view_C vconcat nat_concat c s)) by (eapply agree_failed_r; eauto).
        split.
        * apply agree_failed; [|apply failed_bind, Hif].
          unfold vsconcatR, sconcatR. apply failed_bind, failed_bind, Hcf.
        * intros o H. exfalso. destruct (view_C vconcat nat_concat c s); simpl in H; try discriminate.
          eapply Hcf; reflexivity.
    - assert (Hcf : failed (view_C vconcat nat_concat c s)).
      { eapply agree_failed_r; eauto. apply failed_bind, Hsf. }
      split.
      + apply agree_failed; [|apply failed_bind, Hsf].
        unfold vsconcatR, sconcatR. apply failed_bind, failed_bind, Hcf.
      + intros o H. exfalso. destruct (view_C vconcat nat_concat c s); simpl in H; try discriminate.
        eapply Hcf; reflexivity.
  Qed.

  (* cycle: the condition reads its own copy of the body's output through the Collect view
     and either sends it round again or lets it leave *)
  Lemma sim_loop pos c body :
    cond_ok c ->
    (forall pos, sim (D body) (run_value body) (run_stream mrg pos body)) ->
    forall fuel,
      sim (fun x => loop_dom (fun _ => run_value body) (again_value c) (dom_ok body) fuel x = true)
          (loop_res (fun _ => run_value body) (again_value c) fuel)
          (loop_res (fun k => run_stream mrg (k :: pos) body) (again_stream c) fuel).
  Proof.
    intros (Hany & f & Hc) Hb. induction fuel as [|fuel IH].
    - intros s Hs Hso Hd. cbn [loop_res]. split; [|discriminate].
      apply agree_failed; [apply vsconcatR_failed, failed_Err|].
      destruct (vsconcat s); simpl; [apply failed_Err|apply failed_Err|apply failed_Panic].
    - cbn [loop_res].
      set (lv := loop_res (fun _ => run_value body) (again_value c) fuel) in *.
      set (ls := loop_res (fun k => run_stream mrg (k :: pos) body) (again_stream c) fuel) in *.
      set (D2 := fun y => again_value c y = Ok true ->
                          loop_dom (fun _ => run_value body) (again_value c) (dom_ok body) fuel y = true).
      assert (Htail : sim D2 (fun y => do b <- again_value c y; if b then lv y else Ok y)
                             (fun o => do b <- again_stream c o; if b then ls o else Ok o)).
      { intros o Ho Hso Hd.
        assert (Hcond : agree (view_C vconcat nat_concat c o) (res_bind (vsconcat o) (view_I nat_concat c))).
        { apply (views_agree_lem val nat vconcat nat_concat c f Hc Hany o Ho). }
        unfold again_stream, again_value.
        destruct (failed_dec (vsconcat o)) as [(y & Ey)|Hof].
        - rewrite Ey in *. cbn [res_bind] in *.
          destruct (failed_dec (view_I nat_concat c y)) as [(i & Ei)|Hif].
          + rewrite Ei in *. apply agree_ok_r in Hcond. rewrite Hcond. cbn [res_bind].
            destruct (Nat.eqb i 0) eqn:Eb.
            * destruct (IH o Ho Hso) as (Ha & Hne).
              { intros y' Ey'. assert (y' = y) by congruence. subst y'.
                apply (Hd y eq_refl). unfold again_value. rewrite Ei. cbn [res_bind]. rewrite Eb. reflexivity. }
              rewrite Ey in Ha. split; auto.
            * split; [rewrite vsconcatR_Ok, Ey; reflexivity|intros o' H; inversion H; subst; auto].
          + assert (Hcf : failed (view_C vconcat nat_concat c o)) by (eapply agree_failed_r; eauto).
            split.
            * apply agree_failed; [apply vsconcatR_failed, failed_bind, failed_bind, Hcf|apply failed_bind, failed_bind, Hif].
            * intros o' H. exfalso. destruct (view_C vconcat nat_concat c o); simpl in H; try discriminate.
              eapply Hcf; reflexivity.
        - assert (Hcf : failed (view_C vconcat nat_concat c o)).
          { eapply agree_failed_r; eauto. apply failed_bind, Hof. }
          split.
          + apply agree_failed; [apply vsconcatR_failed, failed_bind, failed_bind, Hcf|apply failed_bind, Hof].
          + intros o' H. exfalso. destruct (view_C vconcat nat_concat c o); simpl in H; try discriminate.
            eapply Hcf; reflexivity. }
      eapply sim_weaken; [|apply (sim_comp _ _ _ _ _ _ (Hb (fuel :: pos)) Htail)].
      intros x Hx. cbn [loop_dom] in Hx. apply andb_prop in Hx as (H1 & H2). split; [exact H1|].
      intros y Ey. rewrite Ey in H2. unfold D2. intros Eb. rewrite Eb in H2. exact H2.
  Qed.

  (* the graph-level statement, by induction over the graph *)
  Theorem run_sim_lem : forall p, prog_ok p ->
    forall pos, sim (D p) (run_value p) (run_stream mrg pos p).
  Proof.
    induction p as [w id n|p q IHp IHq|ps IH|id c alts IH|w p IHp|f|m| |id c alts IH|id c body fuel IHb] using prog_ind'; intros Hok pos.
    - destruct Hok as (Hw & Hn). cbn [run_value run_stream].
      eapply sim_weaken; [|apply (sim_wrap w _ _ _ Hw (sim_node n Hn))].
      intros x Hx. unfold D in Hx. cbn [dom_ok] in Hx. split; auto.
    - destruct Hok as (Hp & Hq). cbn [run_value run_stream].
      eapply sim_weaken; [|apply (sim_comp _ _ _ _ _ _ (IHp Hp (0 :: pos)%nat) (IHq Hq (1 :: pos)%nat))].
      intros x Hx. unfold D in *. cbn [dom_ok] in Hx. apply andb_prop in Hx as (H1 & H2).
      split; auto. intros y Ey. rewrite Ey in H2. exact H2.
    - destruct Hok as (Hne & Hall). apply all_forall in Hall.
      apply sim_par; auto. rewrite Forall_forall in *. intros p Hp pos'. apply IH; auto.
    - destruct Hok as (Hc & Hall). apply all_forall in Hall.
      apply sim_branch; auto. rewrite Forall_forall in *. intros p Hp pos'. apply IH; auto.
    - destruct Hok as (Hw & Hp). cbn [run_value run_stream].
      eapply sim_weaken; [|apply (sim_wrap w _ _ _ Hw (IHp Hp (0 :: pos)%nat))].
      intros x Hx. unfold D in *. cbn [dom_ok] in Hx. apply andb_prop in Hx as (H1 & H2).
      split; auto. intros x2 E2. rewrite E2 in H2. exact H2.
    - cbn [run_value run_stream]. exact (sim_fmap f Hok).
    - cbn [run_value run_stream]. eapply sim_weaken; [|apply sim_check]. auto.
    - cbn [run_value run_stream]. eapply sim_weaken; [|apply sim_id]. auto.
    - destruct Hok as (Hc & Hall). apply all_forall in Hall.
      apply sim_multi; auto. rewrite Forall_forall in *. intros p Hp pos'. apply IH; auto.
    - destruct Hok as (Hc & Hb). cbn [run_value run_stream].
      eapply sim_weaken; [|apply (sim_loop pos c body Hc (IHb Hb) fuel)].
      intros x Hx. exact Hx.
  Qed.

  (* the four public paradigms of a compiled graph *)
  Theorem four_paradigms_lem : forall p, prog_ok p ->
    forall chunks x, chunks <> [] -> vsconcat (map Val chunks) = Ok x -> dom_ok p x = true ->
      agree (vsconcatR (g_stream mrg p x)) (g_invoke p x)
      /\ agree (g_collect mrg p (map Val chunks)) (g_invoke p x)
      /\ agree (vsconcatR (g_transform mrg p (map Val chunks))) (g_invoke p x).
  Proof.
    intros p Hok chunks x Hn Ex Hd.
    assert (Hs : map Val chunks <> []) by (destruct chunks; [congruence|discriminate]).
    destruct (run_sim_lem p Hok [] (map Val chunks) Hs (sound_ok _ _ Ex)) as (Ha & _).
    { intros x' Ex'. assert (x' = x) by congruence. subst. exact Hd. }
    destruct (run_sim_lem p Hok [] (box x)) as (Hb & _); [discriminate|apply sound_box| |].
    { intros x' Ex'. cbn in Ex'. inversion Ex'. subst. exact Hd. }
    rewrite Ex in Ha. cbn [res_bind] in Ha. cbn in Hb.
    unfold g_stream, g_collect, g_transform, g_invoke. auto.
  Qed.
End Run.

(* what a stream-mode run concatenates to does not depend on how the merges interleave *)
Theorem interleaving_irrelevant_lem
  (mrg1 mrg2 : list nat -> list (stream val) -> stream val)
  (H1 : forall pos ls, Interleaving ls (mrg1 pos ls))
  (H2 : forall pos ls, Interleaving ls (mrg2 pos ls)) :
  forall p, prog_ok p ->
  forall s, s <> [] -> sound s -> (forall x, vsconcat s = Ok x -> dom_ok p x = true) ->
    agree (vsconcatR (g_transform mrg1 p s)) (vsconcatR (g_transform mrg2 p s)).
Proof.
  intros p Hok s Hs Hso Hd.
  destruct (run_sim_lem mrg1 H1 p Hok [] s Hs Hso Hd) as (Ha & _).
  destruct (run_sim_lem mrg2 H2 p Hok [] s Hs Hso Hd) as (Hb & _).
  unfold g_transform. eapply agree_trans; [exact Ha|apply agree_sym, Hb].
Qed.
