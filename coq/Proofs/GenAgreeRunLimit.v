(* Proofs/GenAgreeRunLimit.v — property C01: what tools/go2v regenerated from runner.run (compose/graph_run.go;
   Gen/RunLimit.v: the main loop's counter, the step-limit test and its place in the loop body, the statements
   that compute the limit of a run from the compile-time limit and the call options, translated statement by
   statement) is what the model says (Model/RunLimitTable.v), and that is what the engine model of
   Model/Graph.v / Model/PregelOpts.v does: [step_limit_hit], the [ls_step] of [init_state] and of every
   continuing [step], the limit test before anything is submitted, [rt_graph].
   A changed comparison (`>` for `>=`), a test that forgets `!r.dag`, a counter that starts at 1, a runtime
   option that can only raise the limit, … make a theorem here stop compiling. *)
From Eino Require Import Base.Util Model.Graph Model.ImpGenLib Model.RunLimitTable Model.Chain Model.PregelOpts.
From Eino Require Gen.RunLimit.

(* ---------------------------------------------------------------- generated = table *)

Theorem gen_loop_init_agrees : Gen.RunLimit.loop_init = Model.RunLimitTable.loop_init.
Proof. reflexivity. Qed.

Theorem gen_loop_has_cond_agrees : Gen.RunLimit.loop_has_cond = Model.RunLimitTable.loop_has_cond.
Proof. reflexivity. Qed.

Theorem gen_loop_post_agrees : forall step, Gen.RunLimit.loop_post step = Model.RunLimitTable.loop_post step.
Proof. intros step. first [ reflexivity | unfold Gen.RunLimit.loop_post, Model.RunLimitTable.loop_post; lia ]. Qed.

Theorem gen_limit_test_before_submit_agrees :
  Gen.RunLimit.limit_test_before_submit = Model.RunLimitTable.limit_test_before_submit.
Proof. reflexivity. Qed.

(* whatever an unrecognised operand would evaluate to: the generated condition may not consult one *)
Theorem gen_step_limit_hit_agrees : forall unk dag step maxSteps,
  Gen.RunLimit.step_limit_hit unk dag step maxSteps = Model.RunLimitTable.step_limit_hit dag step maxSteps.
Proof. intros unk [] step maxSteps; first [ reflexivity | unfold Gen.RunLimit.step_limit_hit, Model.RunLimitTable.step_limit_hit; simpl; reflexivity ]. Qed.

Lemma fold_res_unit_exists : forall (ec : N) (p : nat -> bool) (l : list nat),
  fold_res (fun (st_ : unit) i => let _ := st_ in if p i then Err ec else Ok tt) l tt
  = if existsb p l then Err ec else Ok tt.
Proof.
  intros ec p l. unfold fold_res.
  assert (Herr : forall l, fold_left (fun (r : res unit) a => do s <- r; (let _ := s in if p a then Err ec else Ok tt)) l (Err ec) = Err ec).
  { intros l0; induction l0 as [|a l0 IH]; simpl; [reflexivity|exact IH]. }
  induction l as [|a l IH]; simpl; [reflexivity|].
  destruct (p a); simpl; [apply Herr|exact IH].
Qed.

Lemma seq_nth_map : forall (l : list nat) (d : nat), map (fun i => nth i l d) (seq 0 (List.length l)) = l.
Proof.
  intros l d. induction l as [|a l IH]; simpl; [reflexivity|].
  f_equal. rewrite <- seq_shift, map_map. exact IH.
Qed.

Lemma existsb_map : forall {A B} (f : A -> B) (p : B -> bool) l, existsb p (map f l) = existsb (fun a => p (f a)) l.
Proof. intros A B f p l; induction l as [|a l IH]; simpl; [reflexivity|]. rewrite IH. reflexivity. Qed.

Lemma fold_left_map : forall {A B C} (f : A -> B) (g : C -> B -> C) l c,
  fold_left g (map f l) c = fold_left (fun c a => g c (f a)) l c.
Proof. intros A B C f g l; induction l as [|a l IH]; intros c; simpl; [reflexivity|apply IH]. Qed.

Lemma last_positive_by_index : forall opts c,
  fold_left (fun (st_ : nat) i => if Nat.ltb 0 (nth i opts 0%nat) then nth i opts 0%nat else st_) (seq 0 (List.length opts)) c
  = last_positive opts c.
Proof.
  intros opts c. unfold last_positive.
  change (fold_left (fun c a => (fun m o => if Nat.ltb 0 o then o else m) c ((fun i => nth i opts 0%nat) a)) (seq 0 (List.length opts)) c
          = fold_left (fun m o => if Nat.ltb 0 o then o else m) opts c).
  rewrite <- fold_left_map. rewrite seq_nth_map. reflexivity.
Qed.

Theorem gen_run_max_steps_agrees : forall err_code dag compiled opts,
  Gen.RunLimit.run_max_steps err_code dag compiled opts = Model.RunLimitTable.run_max_steps err_code dag compiled opts.
Proof.
  intros ec dag compiled opts.
  try reflexivity. (* the neutral file (translator tie unavailable) re-exports the model's definition *)
  all: unfold Gen.RunLimit.run_max_steps, Model.RunLimitTable.run_max_steps.
  all: destruct dag;
    [ rewrite (fold_res_unit_exists (ec 1%nat) (fun i => Nat.ltb 0 (l_get 0%nat i opts)));
      rewrite <- (seq_nth_map opts 0%nat) at 2; rewrite existsb_map; unfold l_get;
      destruct (existsb _ _); reflexivity
    | unfold l_get; cbv beta zeta; rewrite last_positive_by_index;
      destruct (Nat.ltb (last_positive opts compiled) 1); reflexivity ].
Qed.

(* ---------------------------------------------------------------- table = engine model *)

Definition is_dag (g : graph) : bool := match g_mode g with Dag => true | Pregel => false end.

(* the model's test at the top of [step] is the generated condition on the loop counter and the graph's limit *)
Theorem step_limit_hit_is_gen : forall unk g n,
  Model.Graph.step_limit_hit g n = Gen.RunLimit.step_limit_hit unk (is_dag g) n (max_steps g).
Proof.
  intros unk g n. rewrite gen_step_limit_hit_agrees.
  unfold Model.Graph.step_limit_hit, Model.RunLimitTable.step_limit_hit, is_dag. destruct (g_mode g); reflexivity.
Qed.

Section Loop.
  Variable V : Type.
  Variable St : Type.
  Variable ops : vops V.
  Variable exec : St -> path -> V -> res V * St.
  Variable sub : nat -> path -> V -> St -> outcome V * St.
  Variable sched : nat -> list key -> nat.

  (* the loop counter: starts at the generated initial value, every continuing iteration applies the generated
     post statement, and the loop has no condition of its own (it ends by return only) *)
  Theorem loop_counter_is_gen :
    Gen.RunLimit.loop_has_cond = false
    /\ (forall p cs ready s, ls_step V St (init_state V St p cs ready s) = Gen.RunLimit.loop_init)
    /\ (forall p g ls ls', step V St ops exec sub sched p g ls = Continue ls' ->
          ls_step V St ls' = Gen.RunLimit.loop_post (ls_step V St ls)).
  Proof.
    split; [exact gen_loop_has_cond_agrees|]. split; [intros; rewrite gen_loop_init_agrees; reflexivity|].
    intros p g ls ls' H. rewrite gen_loop_post_agrees. unfold Model.RunLimitTable.loop_post.
    unfold step in H.
    destruct (Model.Graph.step_limit_hit g (ls_step V St ls)); [discriminate|].
    destruct (submit V St ops exec sub p g (ls_next V St ls) (ls_st V St ls)) as [[results sublog] s'].
    destruct (wait_tasks V sched g (ls_step V St ls) (ls_running V St ls ++ results)) as [completed running'].
    destruct (task_errors V completed); [|discriminate].
    destruct completed; [discriminate|].
    destruct (calc_next V ops g (ls_chans V St ls) (task_outputs V (p0 :: completed))) as [[cs' ready]| |]; try discriminate.
    destruct (alookup kEND ready); [discriminate|]. inversion H. reflexivity.
  Qed.

  (* the limit is tested before anything is submitted: when it is hit the iteration ends with the max-steps
     error, the log and the state as they were *)
  Theorem limit_tested_first :
    Gen.RunLimit.limit_test_before_submit = true
    /\ (forall unk p g ls,
          Gen.RunLimit.step_limit_hit unk (is_dag g) (ls_step V St ls) (max_steps g) = true ->
          step V St ops exec sub sched p g ls = Finish (Fail [mkerr eMaxSteps] (ls_log V St ls)) (ls_st V St ls)).
  Proof.
    split; [exact gen_limit_test_before_submit_agrees|].
    intros unk p g ls H. rewrite <- step_limit_hit_is_gen in H. unfold step. rewrite H. reflexivity.
  Qed.
End Loop.

Lemma max_steps_pos : forall g, (1 <= max_steps g)%nat.
Proof. intros g. unfold max_steps, default_limit_of. destruct (g_max g); lia. Qed.

(* the call option: run with WithRuntimeMaxSteps n (n = 0: no such option) an any-predecessor graph has the limit
   the generated statements compute from its compile-time limit, and the run does not fail for the limit's sake *)
Theorem runtime_limit_is_gen : forall err_code g n, g_mode g = Pregel ->
  Gen.RunLimit.run_max_steps err_code (is_dag g) (max_steps g) [n] = Ok (max_steps (rt_graph n g)).
Proof.
  intros ec g n Hm. rewrite gen_run_max_steps_agrees. unfold Model.RunLimitTable.run_max_steps, is_dag, rt_graph. rewrite Hm.
  unfold last_positive. simpl fold_left. pose proof (max_steps_pos g) as Hp.
  destruct n as [|n]; simpl Nat.ltb.
  - destruct (Nat.ltb (max_steps g) 1) eqn:E; [apply Nat.ltb_lt in E; lia|reflexivity].
  - unfold max_steps at 2. simpl. reflexivity.
Qed.

(* several call options (round 5: the harness hands over lists of options): the last positive one counts, a
   non-positive one changes nothing; [last_positive opts 0] is what Corr/C01.v ([mk_ccase]) hands to [with_rtmax] *)
Lemma last_positive_default : forall opts d,
  last_positive opts d = match last_positive opts 0 with O => d | S m => S m end.
Proof.
  unfold last_positive. intros opts; induction opts as [|o opts IH]; intros d; simpl; [reflexivity|].
  destruct o as [|o]; [apply IH|]. change (Nat.ltb 0 (S o)) with true. cbv iota.
  rewrite (IH (S o)). destruct (fold_left _ opts 0%nat); reflexivity.
Qed.

Theorem runtime_limits_are_gen : forall err_code g opts, g_mode g = Pregel ->
  Gen.RunLimit.run_max_steps err_code (is_dag g) (max_steps g) opts
  = Ok (max_steps (rt_graph (last_positive opts 0) g)).
Proof.
  intros ec g opts Hm. rewrite gen_run_max_steps_agrees. unfold Model.RunLimitTable.run_max_steps, is_dag. rewrite Hm.
  rewrite last_positive_default. pose proof (max_steps_pos g) as Hp.
  unfold rt_graph. destruct (last_positive opts 0) as [|m].
  - destruct (Nat.ltb (max_steps g) 1) eqn:E; [apply Nat.ltb_lt in E; lia|reflexivity].
  - rewrite Hm. reflexivity.
Qed.

(* without call options the limit is the compile-time one *)
Theorem no_option_limit_is_gen : forall err_code g, g_mode g = Pregel ->
  Gen.RunLimit.run_max_steps err_code (is_dag g) (max_steps g) [] = Ok (max_steps g).
Proof.
  intros ec g Hm. rewrite gen_run_max_steps_agrees. unfold Model.RunLimitTable.run_max_steps, is_dag. rewrite Hm.
  unfold last_positive. simpl. pose proof (max_steps_pos g) as Hp.
  destruct (Nat.ltb (max_steps g) 1) eqn:E; [apply Nat.ltb_lt in E; lia|reflexivity].
Qed.
