(* Proofs/ConcatDeepOrder.v — the nested model does not depend on the order in which the
   concatMaps calls of the call tree visit their keys (Model/ConcatDeepOrder.v). *)
From Eino Require Import Base.Util Model.Concat Model.ConcatMsg Model.ConcatMsgMap Model.ConcatOrder Model.ConcatDeep Model.ConcatDeepOrder.
From Eino Require Import Proofs.Concat Proofs.ConcatRechunk Proofs.ConcatMsg Proofs.ConcatKeyed Proofs.ConcatDeep.
From Coq Require Import Sorting.Permutation.

(* equal values or both fail *)
Definition wrel {A} (R : A -> A -> Prop) (r r' : res A) : Prop :=
  match r, r' with
  | Ok a, Ok b => R a b
  | Ok _, _ => False
  | _, Ok _ => False
  | _, _ => True
  end.

Definition same_lookup {A} (R : A -> A -> Prop) (a b : list (string * A)) : Prop :=
  (forall k, alist_get k a = None <-> alist_get k b = None) /\
  (forall k v v', alist_get k a = Some v -> alist_get k b = Some v' -> R v v').

Lemma alist_get_In_fst {A} k (m : list (string * A)) : alist_get k m = None <-> ~ In k (map fst m).
Proof.
  induction m as [|[k' v] m IH]; cbn; [tauto|].
  destruct (String.eqb k k') eqn:E.
  - apply String.eqb_eq in E. subst. split; [discriminate|]. intros H. exfalso. apply H. now left.
  - rewrite IH. split; intros H; [intros [->|H']; [rewrite String.eqb_refl in E; discriminate|tauto]|tauto].
Qed.

Section KOrd2.
Context {A : Type}.
Variable R : A -> A -> Prop.
Variable kc1 : string -> list A -> res A.
Variable kc2 : list A -> res A.
Hypothesis kc_rel : forall k vs, wrel R (kc1 k vs) (kc2 vs).
Variable ord : list string -> list string.
Hypothesis ord_perm : forall l, Permutation (ord l) l.

Theorem kstep_order2 (ms : list (list (string * A))) :
  wrel (same_lookup R)
       (res_mapM (fun k => res_map (fun v => (k, v)) (kc1 k (gvals_at k ms))) (ord (gkeys_of ms)))
       (kstep kc2 ms).
Proof.
  assert (HK : forall k, In k (ord (gkeys_of ms)) <-> In k (gkeys_of ms)).
  { intros k. split; apply Permutation_in; [apply ord_perm|apply Permutation_sym, ord_perm]. }
  unfold wrel.
  destruct (res_mapM _ (ord (gkeys_of ms))) as [a|e|] eqn:Ea.
  - apply gmapM_pairs_inv in Ea. destruct Ea as [Hfst Hget].
    destruct (all_ok_mapM (fun k => res_map (fun v => (k, v)) (kc2 (gvals_at k ms))) (gkeys_of ms)) as [b Eb].
    { intros k Hk. apply HK in Hk. destruct (Hget k Hk) as [v [Hv _]].
      pose proof (kc_rel k (gvals_at k ms)) as Hr. rewrite Hv in Hr.
      destruct (kc2 (gvals_at k ms)); cbn in Hr; try contradiction. eexists; reflexivity. }
    unfold kstep. rewrite Eb. apply gmapM_pairs_inv in Eb. destruct Eb as [Hfst' Hget'].
    split.
    + intros k. rewrite !alist_get_In_fst, Hfst, Hfst', HK. tauto.
    + intros k v v' Ga Gb.
      assert (Hin : In k (gkeys_of ms)).
      { destruct (in_dec string_dec k (gkeys_of ms)) as [Hin|Hnin]; [exact Hin|].
        exfalso. assert (N : alist_get k b = None) by (apply alist_get_In_fst; rewrite Hfst'; exact Hnin). congruence. }
      destruct (Hget k (proj2 (HK k) Hin)) as [w [Hw Ga']]. destruct (Hget' k Hin) as [w' [Hw' Gb']].
      pose proof (kc_rel k (gvals_at k ms)) as Hr. rewrite Hw, Hw' in Hr. cbn in Hr. congruence.
  - assert (F : fails (res_mapM (fun k => res_map (fun v => (k, v)) (kc1 k (gvals_at k ms))) (ord (gkeys_of ms))))
      by (rewrite Ea; reflexivity).
    apply res_mapM_fails_inv in F. destruct F as [k [Hin Fk]].
    assert (F' : fails (kstep kc2 ms)).
    { unfold kstep. apply (res_mapM_fails _ _ k); [apply HK, Hin|].
      pose proof (kc_rel k (gvals_at k ms)) as Hr. unfold fails in *.
      destruct (kc1 k (gvals_at k ms)), (kc2 (gvals_at k ms)); cbn in *; try contradiction; try discriminate; reflexivity. }
    unfold fails in F'. destruct (kstep kc2 ms); [discriminate|exact I|exact I].
  - assert (F : fails (res_mapM (fun k => res_map (fun v => (k, v)) (kc1 k (gvals_at k ms))) (ord (gkeys_of ms))))
      by (rewrite Ea; reflexivity).
    apply res_mapM_fails_inv in F. destruct F as [k [Hin Fk]].
    assert (F' : fails (kstep kc2 ms)).
    { unfold kstep. apply (res_mapM_fails _ _ k); [apply HK, Hin|].
      pose proof (kc_rel k (gvals_at k ms)) as Hr. unfold fails in *.
      destruct (kc1 k (gvals_at k ms)), (kc2 (gvals_at k ms)); cbn in *; try contradiction; try discriminate; reflexivity. }
    unfold fails in F'. destruct (kstep kc2 ms); [discriminate|exact I|exact I].
Qed.

End KOrd2.

Section User.
Context {U : UserFn} {L : UserLaw}.

Lemma s_ord_perm s : sched_ok s -> forall l, Permutation (s_ord s l) l.
Proof. intros H. destruct H; cbn; [intros; apply Permutation_refl|assumption]. Qed.

Lemma s_sub_ok s k : sched_ok s -> sched_ok (s_sub s k).
Proof. intros H. destruct H; cbn; [constructor|auto]. Qed.

(* dkey with two recursive calls that agree up to [dmeq] *)
Lemma dkey_rel r1 r2 vs :
  (forall ms, wrel dmeq (r1 ms) (r2 ms)) -> wrel deq (dkey r1 vs) (dkey r2 vs).
Proof.
  intros H. unfold dkey. destruct (filter _ vs) as [|v0 l]; [cbn; constructor|].
  destruct (forallb _ (v0 :: l)); [|exact I].
  destruct (kind_of v0); cbn [dkind_concat].
  - destruct l as [|b l]; [cbn; constructor|]. destruct (concat_msgs _); cbn; auto. constructor.
  - destruct l as [|b l]; [cbn; constructor|]. destruct (concat_msg_arrays _); cbn; auto. constructor.
  - specialize (H (map d_map (v0 :: l))). destruct (r1 _), (r2 _); cbn in *; auto.
  - destruct (concat_key _ _); cbn; auto. constructor.
Qed.

Theorem deep_maps_order fuel : forall s ms, sched_ok s -> wrel dmeq (deep_maps_o fuel s ms) (deep_maps fuel ms).
Proof.
  induction fuel as [|f IH]; intros s ms Hs; cbn [deep_maps_o deep_maps]; [exact I|].
  pose proof (kstep_order2 deq (fun k => dkey (deep_maps_o f (s_sub s k))) (dkey (deep_maps f))
                (fun k vs => dkey_rel _ _ vs (fun ms' => IH (s_sub s k) ms' (s_sub_ok s k Hs)))
                (s_ord s) (s_ord_perm s Hs) ms) as H.
  unfold wrel in *. destruct (res_mapM _ _), (kstep _ ms); auto.
  destruct H as [H1 H2]. apply deq_map; assumption.
Qed.

Theorem deep_maps_o_no_panic f : forall s ms, mdepth ms <= f -> deep_maps_o (S f) s ms <> Panic.
Proof.
  induction f as [|f IH]; intros s ms Hd; cbn [deep_maps_o]; apply res_mapM_no_panic; intros k _.
  - assert (P : dkey (deep_maps_o 0 (s_sub s k)) (gvals_at k ms) <> Panic).
    { apply dkey_no_panic. intros K. exfalso.
      destruct (dnn (gvals_at k ms)) as [|v0 l] eqn:E; [cbn in K; discriminate|]. cbn [hd] in K.
      assert (Hin : In v0 (gvals_at k ms)) by (apply dnn_sub; rewrite E; now left).
      pose proof (gvals_depth k ms v0 Hin). pose proof (kind_map_depth v0 K). lia. }
    destruct (dkey _ _); cbn; congruence.
  - assert (P : dkey (deep_maps_o (S f) (s_sub s k)) (gvals_at k ms) <> Panic).
    { apply dkey_no_panic. intros _. apply IH. apply mdepth_d_map.
      apply dnn_depth. intros v Hv. pose proof (gvals_depth k ms v Hv). lia. }
    destruct (dkey _ _); cbn; congruence.
Qed.

(* concatStreamReader on nested map chunks: whatever order every concatMaps call visits its
   keys in, the result is the same Go value, or both are errors; no panic either way *)
Theorem dmap_stream_order s l : sched_ok s -> rrel dmeq (dmap_stream_o s l) (dmap_stream l).
Proof.
  intros Hs. destruct l as [|x1 [|x2 l]]; cbn [dmap_stream_o dmap_stream rrel]; [exact I|constructor|].
  unfold deep_maps_top.
  pose proof (deep_maps_order (S (mdepth (x1 :: x2 :: l))) s (x1 :: x2 :: l) Hs) as H.
  pose proof (deep_maps_o_no_panic (mdepth (x1 :: x2 :: l)) s (x1 :: x2 :: l) (le_n _)) as P1.
  pose proof (deep_maps_no_panic (mdepth (x1 :: x2 :: l)) (x1 :: x2 :: l) (le_n _)) as P2.
  unfold wrel, rrel in *. destruct (deep_maps_o _ _ _), (deep_maps _ _); auto; congruence.
Qed.

End User.
