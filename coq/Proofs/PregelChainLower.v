(* Proofs/PregelChainLower.v — the imperative lowering of a chain ([lower_stages] / [chain_lower] in
   Model/Chain.v: append node, AddEdge / AddBranch from the previous nodes, END edges at compile time)
   builds exactly the graph [chain_graph] in which every node of a stage points to the next stage. *)
From Eino Require Import Base.Util Model.Graph Model.Chain Model.ChainSpec Proofs.PregelBase.
From Coq Require Import Lia Permutation.
Open Scope N_scope.

(* ---------- the graph, directly ---------- *)
Definition connect (ds : list key) (bs : list branch) (n : node) : node :=
  {| n_key := n_key n; n_kind := n_kind n; n_outkey := n_outkey n;
     n_dsucc := n_dsucc n ++ ds; n_csucc := n_csucc n ++ ds; n_dmap := n_dmap n;
     n_branches := n_branches n ++ bs |}.

Definition cif (fs : list key) (ds : list key) (bs : list branch) (n : node) : node :=
  if memb (n_key n) fs then connect ds bs n else n.

Definition stage_keys (st : stage) : list key := map sn_key (stage_snodes st).
Definition chain_keys (sts : list stage) : list key := flat_map stage_keys sts.

(* edges leaving the nodes that precede [rest]; [tail]: where the last stage points *)
Definition out_ds (tail : list key) (rest : list stage) : list key :=
  match rest with
  | [] => tail
  | SNode s :: _ => [sn_key s]
  | SPar ss :: _ => map sn_key ss
  | SBranch _ _ :: _ => []
  end.
Definition out_bs (rest : list stage) : list branch :=
  match rest with
  | SBranch ss tb :: _ => [branch_of ss tb]
  | _ => []
  end.

Definition mk (tail : list key) (rest : list stage) (s : snode) : node :=
  connect (out_ds tail rest) (out_bs rest) (node_of s).

Fixpoint chain_nodes (tail : list key) (sts : list stage) : list node :=
  match sts with
  | [] => []
  | st :: rest => map (mk tail rest) (stage_snodes st) ++ chain_nodes tail rest
  end.

Definition chain_start (sts : list stage) : node := connect (out_ds [kEND] sts) (out_bs sts) start_node.

Definition chain_graph (sts : list stage) (max : nat) : graph :=
  {| g_nodes := chain_start sts :: chain_nodes [kEND] sts; g_mode := Pregel; g_eager := false; g_max := max |}.

(* ---------- well-formed chains ---------- *)
Definition is_single {A} (l : list A) : bool := match l with [_] => true | _ => false end.

Definition is_nil {A} (l : list A) : bool := match l with [] => true | _ => false end.

(* a Parallel / Branch stage is non-empty and follows START or a single node *)
Fixpoint shape_ok (prev : list key) (sts : list stage) : bool :=
  match sts with
  | [] => true
  | SNode s :: rest => shape_ok [sn_key s] rest
  | SPar ss :: rest => is_single prev && negb (is_nil ss) && shape_ok (map sn_key ss) rest
  | SBranch ss _ :: rest => is_single prev && negb (is_nil ss) && shape_ok (map sn_key ss) rest
  end.

Definition chain_wf (sts : list stage) : Prop :=
  sts <> [] /\ NoDup (kSTART :: kEND :: chain_keys sts) /\ shape_ok [kSTART] sts = true.

Fixpoint last_keys (prev : list key) (sts : list stage) : list key :=
  match sts with
  | [] => prev
  | st :: rest => last_keys (stage_keys st) rest
  end.

(* ---------- small facts ---------- *)
Lemma connect_key : forall ds bs n, n_key (connect ds bs n) = n_key n.
Proof. reflexivity. Qed.
Lemma cif_key : forall fs ds bs n, n_key (cif fs ds bs n) = n_key n.
Proof. intros. unfold cif. destruct (memb (n_key n) fs); reflexivity. Qed.
Lemma map_cif_keys : forall fs ds bs ns, map n_key (map (cif fs ds bs) ns) = map n_key ns.
Proof. intros. rewrite map_map. apply map_ext. intros. apply cif_key. Qed.

Lemma connect_nil : forall n, connect [] [] n = n.
Proof. intros [k kd ok d c dm b]. unfold connect. simpl. rewrite !app_nil_r. reflexivity. Qed.

Lemma connect_connect : forall ds1 bs1 ds2 bs2 n,
  connect ds2 bs2 (connect ds1 bs1 n) = connect (ds1 ++ ds2) (bs1 ++ bs2) n.
Proof. intros. unfold connect. simpl. rewrite !app_assoc. reflexivity. Qed.

Lemma cif_notin : forall fs ds bs n, ~ In (n_key n) fs -> cif fs ds bs n = n.
Proof. intros fs ds bs n H. unfold cif. apply memb_false in H. rewrite H. reflexivity. Qed.
Lemma cif_in : forall fs ds bs n, In (n_key n) fs -> cif fs ds bs n = connect ds bs n.
Proof. intros fs ds bs n H. unfold cif. apply memb_in in H. rewrite H. reflexivity. Qed.

Lemma map_cif_notin : forall fs ds bs ns,
  (forall n, In n ns -> ~ In (n_key n) fs) -> map (cif fs ds bs) ns = ns.
Proof.
  intros fs ds bs ns H. rewrite <- (map_id ns) at 2. apply map_ext_in. intros n Hn. apply cif_notin. apply H. exact Hn.
Qed.

Lemma cif_cif : forall fs ds1 bs1 ds2 bs2 n,
  cif fs ds2 bs2 (cif fs ds1 bs1 n) = cif fs (ds1 ++ ds2) (bs1 ++ bs2) n.
Proof.
  intros. unfold cif at 2 3. destruct (memb (n_key n) fs) eqn:E.
  - unfold cif. rewrite connect_key, E. apply connect_connect.
  - unfold cif. rewrite E. reflexivity.
Qed.

(* AddEdge / AddBranch as conditional connects *)
Lemma add_edge_cif : forall p t ns, add_edge p t ns = map (cif [p] [t] []) ns.
Proof.
  intros p t ns. unfold add_edge. apply map_ext. intros n. unfold cif, memb. simpl.
  rewrite N.eqb_sym. destruct (N.eqb p (n_key n)); simpl; [|reflexivity].
  unfold connect. rewrite app_nil_r. reflexivity.
Qed.

Lemma add_branch_cif : forall p b ns, add_branch p b ns = map (cif [p] [] [b]) ns.
Proof.
  intros p b ns. unfold add_branch. apply map_ext. intros n. unfold cif, memb. simpl.
  rewrite N.eqb_sym. destruct (N.eqb p (n_key n)); simpl; [|reflexivity].
  unfold connect. rewrite !app_nil_r. reflexivity.
Qed.

(* edges from every node of [froms] to t *)
Lemma fold_add_edge : forall froms t ns,
  NoDup froms ->
  fold_left (fun acc p => add_edge p t acc) froms ns = map (cif froms [t] []) ns.
Proof.
  induction froms as [|p froms IH]; intros t ns Hnd; simpl.
  - rewrite map_cif_notin; [reflexivity|]. intros n _ H. exact H.
  - inversion Hnd as [|x y Hnot Hnd']; subst. rewrite IH by exact Hnd'. rewrite add_edge_cif, map_map.
    apply map_ext. intros n. destruct (N.eqb (n_key n) p) eqn:E.
    + apply N.eqb_eq in E.
      rewrite (cif_in [p]) by (left; symmetry; exact E).
      rewrite cif_notin by (rewrite connect_key, E; exact Hnot).
      rewrite cif_in by (left; symmetry; exact E). reflexivity.
    + rewrite (cif_notin [p]) by (intros [H|[]]; rewrite H, N.eqb_refl in E; discriminate).
      unfold cif, memb. simpl. rewrite E. reflexivity.
Qed.

(* AppendParallel: every new node is appended and gets an edge from p *)
Lemma fold_par : forall ss p ns,
  ~ In p (map sn_key ss) ->
  fold_left (fun acc s => add_edge p (sn_key s) (acc ++ [node_of s])) ss ns =
  map (cif [p] (map sn_key ss) []) ns ++ map node_of ss.
Proof.
  induction ss as [|s ss IH]; intros p ns Hp; simpl.
  - rewrite app_nil_r. rewrite <- (map_id ns) at 1. apply map_ext. intros n. unfold cif.
    destruct (memb (n_key n) [p]); [rewrite connect_nil|]; reflexivity.
  - rewrite IH by (intros H; apply Hp; right; exact H).
    rewrite add_edge_cif, map_app, map_app, map_map. simpl.
    rewrite (cif_notin [p] _ _ (node_of s)) by (simpl; intros [H|[]]; apply Hp; left; symmetry; exact H).
    rewrite (cif_notin [p] _ _ (node_of s)) by (simpl; intros [H|[]]; apply Hp; left; symmetry; exact H).
    rewrite <- app_assoc. simpl. f_equal. apply map_ext. intros n. rewrite cif_cif. reflexivity.
Qed.

(* ---------- the lowering loop ---------- *)
Lemma shape_prev_single : forall (prev : list key), is_single prev = true -> exists p, prev = [p].
Proof. intros [|p [|q l]] H; try discriminate. exists p. reflexivity. Qed.

Lemma in_chain_keys_stage : forall st rest k, In k (stage_keys st) -> In k (chain_keys (st :: rest)).
Proof. intros. simpl. apply in_app_iff. left. assumption. Qed.

Lemma NoDup_app_l : forall {A} (l1 l2 : list A), NoDup (l1 ++ l2) -> NoDup l1.
Proof. intros A l1 l2 H. induction l1 as [|a l1 IH]; [constructor|]. simpl in H. inversion H; subst.
  constructor; [intros Hin; apply H2; apply in_app_iff; left; exact Hin|apply IH; exact H3]. Qed.
Lemma NoDup_app_r : forall {A} (l1 l2 : list A), NoDup (l1 ++ l2) -> NoDup l2.
Proof. intros A l1 l2 H. induction l1 as [|a l1 IH]; [exact H|]. simpl in H. inversion H; subst. apply IH; exact H3. Qed.
Lemma NoDup_app_disj : forall {A} (l1 l2 : list A) x, NoDup (l1 ++ l2) -> In x l1 -> In x l2 -> False.
Proof.
  intros A l1 l2 x H H1 H2. induction l1 as [|a l1 IH]; [contradiction|]. simpl in H. inversion H; subst.
  destruct H1 as [->|H1]; [apply H4; apply in_app_iff; right; exact H2|apply IH; assumption].
Qed.

Definition link (prev : list key) (tail : list key) (sts : list stage) : node -> node :=
  cif prev (out_ds tail sts) (out_bs sts).

Lemma lower_stages_spec : forall sts ns prev,
  prev <> [] -> NoDup prev -> incl prev (map n_key ns) ->
  NoDup (map n_key ns ++ chain_keys sts) ->
  shape_ok prev sts = true ->
  lower_stages sts ns prev = Some (map (link prev [] sts) ns ++ chain_nodes [] sts, last_keys prev sts).
Proof.
  induction sts as [|st rest IH]; intros ns prev Hne Hnd Hincl Hkeys Hshape.
  - simpl. rewrite app_nil_r. f_equal. f_equal. unfold link. simpl.
    rewrite <- (map_id ns) at 1. apply map_ext. intros n. unfold cif.
    destruct (memb (n_key n) prev); [rewrite connect_nil|]; reflexivity.
  - destruct st as [s|ss|ss tb].
    + (* node *)
      simpl. simpl in Hshape.
      assert (Hfroms : match prev with [] => [kSTART] | _ :: _ => prev end = prev)
        by (destruct prev; [exfalso; apply Hne; reflexivity|reflexivity]).
      rewrite Hfroms. rewrite fold_add_edge by exact Hnd. rewrite map_app. simpl.
      assert (Hs : ~ In (sn_key s) prev).
      { intros H. apply Hincl in H. eapply (NoDup_app_disj _ _ (sn_key s) Hkeys H). simpl. left. reflexivity. }
      rewrite (cif_notin prev _ _ (node_of s)) by exact Hs.
      rewrite IH; [| discriminate | constructor; [intros []|constructor]
                   | intros k [<-|[]]; rewrite map_app; apply in_app_iff; right; left; reflexivity
                   | | exact Hshape].
      * f_equal. f_equal. rewrite map_app. simpl. rewrite <- app_assoc. simpl. f_equal.
        -- unfold link at 1. rewrite (map_cif_notin [sn_key s] _ _ (map _ ns)); [reflexivity|]. intros n Hn [Hk|[]].
           apply in_map_iff in Hn. destruct Hn as [n0 [<- Hn0]]. rewrite cif_key in Hk.
           eapply (NoDup_app_disj _ _ (sn_key s) Hkeys); [rewrite Hk; apply in_map; exact Hn0|left; reflexivity].
        -- f_equal. unfold link. rewrite cif_in by (left; reflexivity). reflexivity.
      * rewrite map_app, map_cif_keys. simpl. rewrite <- app_assoc. simpl. exact Hkeys.
    + (* parallel *)
      simpl. simpl in Hshape. apply andb_true_iff in Hshape. destruct Hshape as [Hsh Hshape].
      apply andb_true_iff in Hsh. destruct Hsh as [Hsingle Hnn].
      destruct (shape_prev_single _ Hsingle) as [p ->]. simpl.
      assert (Hp : ~ In p (map sn_key ss)).
      { intros H. eapply (NoDup_app_disj _ _ p Hkeys); [apply Hincl; left; reflexivity|].
        simpl. apply in_app_iff. left. exact H. }
      rewrite fold_par by exact Hp.
      assert (Hkss : map n_key (map node_of ss) = map sn_key ss) by (rewrite map_map; reflexivity).
      rewrite IH; [| destruct ss; [discriminate|discriminate]
                   | simpl in Hkeys; apply NoDup_app_r in Hkeys; apply NoDup_app_l in Hkeys; exact Hkeys
                   | intros k Hk; rewrite map_app, Hkss; apply in_app_iff; right; exact Hk
                   | | exact Hshape].
      * f_equal. f_equal. rewrite map_app. rewrite <- app_assoc. f_equal.
        -- unfold link at 1. rewrite (map_cif_notin (map sn_key ss) _ _ (map _ ns)); [reflexivity|]. intros n Hn Hk.
           apply in_map_iff in Hn. destruct Hn as [n0 [<- Hn0]]. rewrite cif_key in Hk.
           eapply (NoDup_app_disj _ _ (n_key n0) Hkeys); [apply in_map; exact Hn0|].
           simpl. apply in_app_iff. left. exact Hk.
        -- simpl. f_equal. rewrite map_map. apply map_ext_in. intros s Hs. unfold link.
           rewrite cif_in by (simpl; apply in_map; exact Hs). reflexivity.
      * rewrite map_app, map_cif_keys, Hkss. rewrite <- app_assoc. exact Hkeys.
    + (* branch *)
      simpl. simpl in Hshape. apply andb_true_iff in Hshape. destruct Hshape as [Hsh Hshape].
      apply andb_true_iff in Hsh. destruct Hsh as [Hsingle Hnn].
      destruct (shape_prev_single _ Hsingle) as [p ->]. simpl.
      assert (Hp : ~ In p (map sn_key ss)).
      { intros H. eapply (NoDup_app_disj _ _ p Hkeys); [apply Hincl; left; reflexivity|].
        simpl. apply in_app_iff. left. exact H. }
      rewrite add_branch_cif, map_app.
      assert (Hkss : map n_key (map node_of ss) = map sn_key ss) by (rewrite map_map; reflexivity).
      rewrite (map_cif_notin [p] _ _ (map node_of ss)).
      2:{ intros n Hn [Hk|[]]. apply Hp. rewrite <- Hkss, Hk. apply in_map. exact Hn. }
      rewrite IH; [| destruct ss; [discriminate|discriminate]
                   | simpl in Hkeys; apply NoDup_app_r in Hkeys; apply NoDup_app_l in Hkeys; exact Hkeys
                   | intros k Hk; rewrite map_app, Hkss; apply in_app_iff; right; exact Hk
                   | | exact Hshape].
      * f_equal. f_equal. rewrite map_app. rewrite <- app_assoc. f_equal.
        -- unfold link at 1. rewrite (map_cif_notin (map sn_key ss) _ _ (map _ ns)); [reflexivity|]. intros n Hn Hk.
           apply in_map_iff in Hn. destruct Hn as [n0 [<- Hn0]]. rewrite cif_key in Hk.
           eapply (NoDup_app_disj _ _ (n_key n0) Hkeys); [apply in_map; exact Hn0|].
           simpl. apply in_app_iff. left. exact Hk.
        -- simpl. f_equal. rewrite map_map. apply map_ext_in. intros s Hs. unfold link.
           rewrite cif_in by (simpl; apply in_map; exact Hs). reflexivity.
      * rewrite map_app, map_cif_keys, Hkss. rewrite <- app_assoc. exact Hkeys.
Qed.

(* ---------- the END edges ---------- *)
Lemma last_keys_in : forall sts prev k, sts <> [] -> In k (last_keys prev sts) -> In k (chain_keys sts).
Proof.
  induction sts as [|st rest IH]; intros prev k Hne H; [exfalso; apply Hne; reflexivity|].
  simpl in H. destruct rest as [|st' rest'].
  - simpl in H. simpl. rewrite app_nil_r. exact H.
  - simpl. apply in_app_iff. right. apply (IH (stage_keys st)); [discriminate|exact H].
Qed.

Lemma out_ds_tail : forall t1 t2 sts, sts <> [] -> out_ds t1 sts = out_ds t2 sts.
Proof. intros t1 t2 [|st rest] H; [exfalso; apply H; reflexivity|]. reflexivity. Qed.

Lemma chain_nodes_keys : forall tail sts, map n_key (chain_nodes tail sts) = chain_keys sts.
Proof.
  intros tail sts. induction sts as [|st rest IH]; simpl; [reflexivity|].
  rewrite map_app, IH. f_equal. unfold stage_keys. rewrite map_map. reflexivity.
Qed.

Lemma end_link : forall sts ns prev,
  NoDup (map n_key ns ++ chain_keys sts) ->
  map (cif (last_keys prev sts) [kEND] []) (map (link prev [] sts) ns ++ chain_nodes [] sts) =
  map (link prev [kEND] sts) ns ++ chain_nodes [kEND] sts.
Proof.
  induction sts as [|st rest IH]; intros ns prev Hkeys.
  - simpl. rewrite !app_nil_r, map_map. apply map_ext. intros n. unfold link. simpl. rewrite cif_cif. reflexivity.
  - simpl. rewrite map_app. f_equal.
    + (* nodes before this stage are not the last ones *)
      unfold link at 2. rewrite (out_ds_tail [kEND] [] (st :: rest)) by discriminate. fold (link prev [] (st :: rest)).
      apply map_cif_notin. intros n Hn Hk.
      apply in_map_iff in Hn. destruct Hn as [n0 [<- Hn0]]. unfold link in Hk. rewrite cif_key in Hk.
      eapply (NoDup_app_disj _ _ (n_key n0) Hkeys); [apply in_map; exact Hn0|].
      change (In (n_key n0) (chain_keys (st :: rest))).
      destruct rest as [|st' rest'].
      * simpl in Hk. simpl. rewrite app_nil_r. exact Hk.
      * simpl. apply in_app_iff. right. apply (last_keys_in (st' :: rest') (stage_keys st)); [discriminate|exact Hk].
    + assert (Hmk : forall tail, map (mk tail rest) (stage_snodes st) =
                                map (link (stage_keys st) tail rest) (map node_of (stage_snodes st))).
      { intros tail. rewrite map_map. apply map_ext_in. intros s Hs. unfold link.
        rewrite cif_in by (simpl; unfold stage_keys; apply in_map; exact Hs). reflexivity. }
      rewrite !Hmk. apply IH.
      rewrite map_map. simpl. simpl in Hkeys. apply NoDup_app_r in Hkeys. exact Hkeys.
Qed.

Lemma last_keys_nonempty : forall sts prev, prev <> [] -> shape_ok prev sts = true -> last_keys prev sts <> [].
Proof.
  induction sts as [|st rest IH]; intros prev Hne Hs; simpl; [exact Hne|].
  destruct st as [s|ss|ss tb]; simpl in Hs.
  - apply IH; [discriminate|exact Hs].
  - apply andb_true_iff in Hs. destruct Hs as [Hs1 Hs]. apply andb_true_iff in Hs1. destruct Hs1 as [_ Hnn].
    apply IH; [destruct ss; [discriminate|discriminate]|exact Hs].
  - apply andb_true_iff in Hs. destruct Hs as [Hs1 Hs]. apply andb_true_iff in Hs1. destruct Hs1 as [_ Hnn].
    apply IH; [destruct ss; [discriminate|discriminate]|exact Hs].
Qed.

Lemma last_keys_nodup : forall sts prev, NoDup prev -> NoDup (chain_keys sts) -> NoDup (last_keys prev sts).
Proof.
  induction sts as [|st rest IH]; intros prev Hp Hk; simpl; [exact Hp|].
  simpl in Hk. apply IH; [apply NoDup_app_l in Hk; exact Hk|apply NoDup_app_r in Hk; exact Hk].
Qed.

Lemma lower_stages_start : forall sts ns, sts <> [] -> lower_stages sts ns [] = lower_stages sts ns [kSTART].
Proof. intros [|[s|ss|ss tb] rest] ns H; [exfalso; apply H; reflexivity|reflexivity|reflexivity|reflexivity]. Qed.

(* ---------- chain_lower builds chain_graph ---------- *)
Theorem chain_lower_graph : forall sts max, chain_wf sts -> chain_lower sts max = Some (chain_graph sts max).
Proof.
  intros sts max [Hne [Hnd Hshape]]. unfold chain_lower.
  rewrite lower_stages_start by exact Hne.
  assert (Hk0 : NoDup (map n_key [start_node] ++ chain_keys sts)).
  { simpl. inversion Hnd as [|x y Hnot Hnd']; subst. constructor.
    - intros H. apply Hnot. right. exact H.
    - inversion Hnd'; subst. assumption. }
  rewrite (lower_stages_spec sts [start_node] [kSTART]);
    [| discriminate | constructor; [intros []|constructor] | intros k [<-|[]]; left; reflexivity | exact Hk0 | exact Hshape].
  pose proof (last_keys_nonempty sts [kSTART] ltac:(discriminate) Hshape) as Hlne.
  destruct (last_keys [kSTART] sts) as [|k0 ks] eqn:El; [exfalso; apply Hlne; reflexivity|].
  f_equal. unfold chain_graph. f_equal.
  rewrite fold_add_edge.
  - rewrite <- El. rewrite end_link by exact Hk0. reflexivity.
  - rewrite <- El. apply last_keys_nodup; [constructor; [intros []|constructor]|].
    inversion Hnd as [|x y _ Hnd']; subst. inversion Hnd'; subst. assumption.
Qed.
