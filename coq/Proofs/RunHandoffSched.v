(* Proofs/RunHandoffSched.v — property C03: the composed system of Model/RunHandoff.v exhibits every
   schedule of the eager order-side model.  For every schedule [pick] (any function choosing which
   task in flight completes next) there is a path of the composed system - an interleaving of
   executors, collector and run loop - that returns exactly what [eager pick] returns, with the same
   executions and the same tasks left in flight.  So the theorems about all paths (the run_eager theorems) cover
   every completion order the functional model ranges over, and the schedules the correspondence
   evaluates ([pick_ok], [pick_first], [pick_seq]) are paths of the composed system. *)
From Eino Require Import Base.Util Model.TaskMgr Model.Confluence Model.RunHandoff.
From Eino Require Import Proofs.TaskMgr Proofs.TaskMgrProgress Proofs.TaskMgrOrders Proofs.Confluence Proofs.Eager.
From Eino Require Import Proofs.RunHandoff Proofs.RunHandoffOrder Proofs.RunHandoffLive.
From Coq Require Import Permutation.

Local Notation length := List.length.

Lemma get_pc_app_list t (m m' : list (task * (stage * bres))) :
  get_pc t (m ++ m') = match get_pc t m with Some x => Some x | None => get_pc t m' end.
Proof.
  induction m as [|[t2 pb] m IH]; simpl; [reflexivity|]. destruct (N.eqb t t2); [reflexivity|exact IH].
Qed.

Lemma split_task_nth (run : list (node * val)) : forall i x,
  NoDup (ids_of run) -> nth_error run i = Some x -> split_task (tid x) run = Some (x, remove_nth i run).
Proof.
  induction run as [|y run IH]; intros [|i] x Nd H; simpl in *; try discriminate.
  - inversion H; subst. unfold tid. rewrite N.eqb_refl. reflexivity.
  - inversion Nd as [|? ? Hni Nd']; subst.
    destruct (N.eqb (tid x) (tid y)) eqn:E.
    + exfalso. apply N.eqb_eq in E. apply Hni. unfold tid in E. rewrite <- E.
      apply (in_ids x run). eapply nth_error_In; exact H.
    + rewrite (IH i x Nd' H). reflexivity.
Qed.

Section Sched.
Variable g : graph.
Hypothesis Hnd : NoDup (map n_id g).
Hypothesis Hstart : ~ In START (map n_id g).
Variable F : nat.

Notation cs := (cstar false Dag g).

(* between two iterations of the run loop: nothing in transit, every task in flight still running *)
Definition QC (s : st) (r : rl) : Prop :=
  quiet s /\ r_exp r = [] /\ r_ph r = PWait /\ r_res r = None /\
  num s = length (r_run r) /\ collected s = r_col r /\
  (forall x, In x (r_run r) -> get_pc (tid x) (epcs s) = Some (ERun, bres_of (fst x))).

(* the run loop starts to wait, task x finishes, is handed over and collected *)
Lemma collect_chosen s r x :
  QC s r -> In x (r_run r) ->
  exists s', cs (s, r) (s', set_ph r PGot) /\ quiet s' /\ S (num s') = num s /\
             collected s' = (tid x, flag_of x) :: collected s /\
             epcs s' = set_st (tid x) EDone (epcs s).
Proof.
  intros ((Ql & Qd & Qk & Qc) & Qe & Qp & Qr & Qn & Qcol & Qrun) Hin.
  pose proof (Qrun x Hin) as G. set (t := tid x) in *. set (b := bres_of (fst x)) in *.
  destruct (num s) as [|n] eqn:Hn.
  { exfalso. destruct (r_run r); [contradiction|simpl in Qn; discriminate]. }
  set (s1 := await_st s n).
  assert (C1 : cstep false Dag g (s, r) (s1, set_ph r PGot)) by (apply c_await; assumption).
  set (s2 := mk (l s1) (done s1) (HExec t) (set_st t ELk (epcs s1)) (cp s1) (num s1) (collected s1)).
  assert (S2 : step s1 s2) by (eapply s_exec_lock; [exact G|exact Qk]).
  assert (G2 : get_pc t (epcs s2) = Some (ELk, b)).
  { simpl. rewrite (get_pc_set t t ELk ERun b _ G), N.eqb_refl. reflexivity. }
  set (s3 := mk (l s2 ++ [(t, err_of b)]) (done s2) (lock s2) (set_st t ETop (epcs s2)) (cp s2) (num s2) (collected s2)).
  assert (S3 : step s2 s3) by (eapply s_exec_push; [reflexivity|exact G2]).
  assert (G3 : get_pc t (epcs s3) = Some (ETop, b)).
  { simpl. simpl in G2. rewrite (get_pc_set t t ETop ELk b _ G2), N.eqb_refl. reflexivity. }
  set (s4 := mk [] (Some (t, err_of b)) (lock s3) (epcs s3) (cp s3) (num s3) (collected s3)).
  assert (S4 : step s3 s4).
  { eapply (s_exec_send s3 t b (t, err_of b) []); [reflexivity|exact G3| |].
    - simpl. rewrite Ql. reflexivity.
    - simpl. exact Qd. }
  set (s5 := mk (l s4) (done s4) HNone (set_st t EDone (epcs s4)) (cp s4) (num s4) (collected s4)).
  assert (S5 : step s4 s5).
  { eapply (s_exec_unlock s4 t b ETop); [reflexivity|exact G3|left; split; reflexivity]. }
  set (s6 := mk (l s5) None (lock s5) (epcs s5) (CGot (t, err_of b)) (num s5) (collected s5)).
  assert (S6 : step s5 s6) by (apply s_recv; reflexivity).
  set (s7 := mk (l s6) (done s6) HColl (epcs s6) (CTop (t, err_of b)) (num s6) (collected s6)).
  assert (S7 : step s6 s7) by (apply s_coll_lock; reflexivity).
  set (s8 := mk (l s7) (done s7) HNone (epcs s7) CIdle (num s7) ((t, err_of b) :: collected s7)).
  assert (S8 : step s7 s8) by (apply s_coll_unlock; left; split; reflexivity).
  exists s8. split.
  { eapply cs_step; [exact C1|].
    eapply cs_step; [apply c_proto; [exact S2|reflexivity]|].
    eapply cs_step; [apply c_proto; [exact S3|reflexivity]|].
    eapply cs_step; [apply c_proto; [exact S4|reflexivity]|].
    eapply cs_step; [apply c_proto; [exact S5|reflexivity]|].
    eapply cs_step; [apply c_proto; [exact S6|reflexivity]|].
    eapply cs_step; [apply c_proto; [exact S7|reflexivity]|].
    eapply cs_step; [apply c_proto; [exact S8|reflexivity]|]. apply cs_refl. }
  split; [repeat split; reflexivity|]. split; [reflexivity|]. split; [reflexivity|].
  simpl. clear -G. induction (epcs s) as [|[t2 [p2 b2]] m IH]; simpl in *; [discriminate|].
  destruct (N.eqb t t2) eqn:E; simpl; rewrite ?E; simpl; rewrite ?E; simpl; rewrite ?E; [reflexivity|].
  f_equal. apply IH. exact G.
Qed.

(* the run loop hands all the new tasks to the task manager, each on a goroutine of its own *)
Lemma submit_all : forall ts s r,
  quiet s -> r_res r = None -> r_exp r = ts -> NoDup (ids_of ts) ->
  (forall t, In t ts -> get_pc (tid t) (epcs s) = None) ->
  exists s', cs (s, r) (s', set_exp r []) /\ quiet s' /\ num s' = num s + length ts /\
             collected s' = collected s /\
             epcs s' = epcs s ++ map (fun t => (tid t, (ERun, bres_of (fst t)))) ts.
Proof.
  induction ts as [|t q IH]; intros s r Q Hn He Nd Hf.
  - exists s. split.
    { replace (set_exp r []) with r; [apply cs_refl|]. destruct r; simpl in *; subst; reflexivity. }
    split; [exact Q|]. simpl. rewrite app_nil_r. split; [lia|]. split; reflexivity.
  - inversion Nd as [|? ? Hni Nd']; subst. destruct Q as (Ql & Qd & Qk & Qc).
    assert (C1 : cstep false Dag g (s, r) (submit1 false t s, set_exp r q)).
    { apply c_sub; [exact Hn| |exact Qc|apply Hf; left; reflexivity].
      rewrite He. simpl. rewrite N.eqb_refl. reflexivity. }
    destruct (IH (submit1 false t s) (set_exp r q)) as (s2 & P2 & Q2 & N2 & C2 & E2).
    + repeat split; assumption.
    + exact Hn.
    + reflexivity.
    + exact Nd'.
    + intros t' Hin. simpl. rewrite get_pc_app. rewrite (Hf t' (or_intror Hin)).
      destruct (N.eqb (tid t') (tid t)) eqn:E; [|reflexivity]. apply N.eqb_eq in E.
      exfalso. apply Hni. unfold tid in E. rewrite <- E. apply (in_ids t' q Hin).
    + exists s2. split; [eapply cs_step; [exact C1|exact P2]|]. split; [exact Q2|].
      split; [rewrite N2; simpl; lia|]. split; [rewrite C2; reflexivity|].
      rewrite E2. simpl. rewrite <- app_assoc. reflexivity.
Qed.

Lemma get_pc_new_tasks (ts : list (node * val)) x :
  NoDup (ids_of ts) -> In x ts ->
  get_pc (tid x) (map (fun t => (tid t, (ERun, bres_of (fst t)))) ts) = Some (ERun, bres_of (fst x)).
Proof.
  induction ts as [|y ts IH]; simpl; intros Nd Hin; [contradiction|]. inversion Nd as [|? ? Hni Nd']; subst.
  destruct Hin as [->|Hin]; [rewrite N.eqb_refl; reflexivity|].
  destruct (N.eqb (tid x) (tid y)) eqn:E; [|apply IH; assumption].
  apply N.eqb_eq in E. exfalso. apply Hni. unfold tid in E. rewrite <- E. apply (in_ids x ts Hin).
Qed.

Lemma remove_nth_length {A} (l : list A) : forall i x, nth_error l i = Some x -> S (length (remove_nth i l)) = length l.
Proof.
  induction l as [|a l IH]; intros [|i] x H; simpl in *; try discriminate; [reflexivity|].
  rewrite (IH i x H). reflexivity.
Qed.

(* from a state between two iterations, the composed system can follow the schedule [pick] to the end *)
Lemma follow_schedule pick : forall fuel s r,
  creach false Dag g F (s, r) -> QC s r ->
  forall out log' lft, run_eager pick g fuel (r_ch r) (r_run r) (r_log r) = (out, log', lft) -> out <> OFuel ->
  exists s' r', cs (s, r) (s', r') /\ r_res r' = Some out /\ r_log r' = log' /\ ids_of (r_run r') = lft.
Proof.
  induction fuel as [|f IH]; intros s r C Q out log' lft E Hno; simpl in E.
  { inversion E; subst. contradiction. }
  set (i := Nat.modulo (pick (r_run r)) (length (r_run r))) in *.
  pose proof Q as ((Ql & Qd & Qk & Qc) & Qe & Qp & Qr & Qn & Qcol & Qrun).
  destruct (nth_error (r_run r) i) as [x|] eqn:En.
  - assert (Hin : In x (r_run r)) by (eapply nth_error_In; exact En).
    destruct (creach_ei g Hnd Hstart F _ C) as [EIr _]. simpl in EIr. unfold EI in EIr. rewrite Qr in EIr.
    destruct EIr as (O & RIr & _).
    assert (Ndr : NoDup (ids_of (r_run r))).
    { pose proof (ri_nd _ _ _ _ _ RIr) as N. apply nodup_app_l in N. exact N. }
    destruct (collect_chosen s r x Q Hin) as (s1 & P1 & Q1 & N1 & C1 & E1).
    assert (Cr1 : creach false Dag g F (s1, set_ph r PGot)) by (eapply creach_star; eassumption).
    assert (Enc : new_col s1 (set_ph r PGot) = [(tid x, flag_of x)]).
    { unfold new_col. simpl. rewrite C1, Qcol. simpl length.
      replace (S (length (r_col r)) - length (r_col r)) with 1 by lia. reflexivity. }
    pose proof (split_task_nth _ _ _ Ndr En) as Esp.
    assert (Q1' := Q1). destruct Q1' as (Ql1 & Qd1 & Qk1 & Qc1).
    destruct (failed x) eqn:Ef.
    + (* the chosen task fails: the run returns the error *)
      inversion E; subst.
      eexists s1, _. split.
      { eapply cstar_trans; [exact P1|]. apply cstar_one. apply c_resolve_e; auto.
        unfold resolve_eager. rewrite Enc. simpl r_run. rewrite Esp. rewrite Bool.eqb_reflx. simpl.
        rewrite Ef. reflexivity. }
      simpl. auto.
    + destruct (calc_next Dag g (r_ch r) [run_task x]) as [v|ts ch'] eqn:Ec.
      * inversion E; subst.
        eexists s1, _. split.
        { eapply cstar_trans; [exact P1|]. apply cstar_one. apply c_resolve_e; auto.
          unfold resolve_eager. rewrite Enc. simpl r_run. rewrite Esp. rewrite Bool.eqb_reflx. simpl.
          rewrite Ef. simpl r_ch. rewrite Ec. reflexivity. }
        simpl. auto.
      * (* new tasks: they are handed over, and the schedule goes on *)
        set (rest := remove_nth i (r_run r)) in *.
        destruct (existsb prefail ts) eqn:Epf.
        { (* a state pre-handler of a new task fails: submit fails, the run returns the error *)
          inversion E; subst.
          eexists s1, _. split.
          { eapply cstar_trans; [exact P1|]. apply cstar_one. apply c_resolve_e; auto.
            unfold resolve_eager. rewrite Enc. simpl r_run. rewrite Esp. rewrite Bool.eqb_reflx. simpl.
            rewrite Ef. simpl r_ch. rewrite Ec. unfold enter. rewrite Epf. reflexivity. }
          simpl. auto. }
        set (r2 := mkrl ch' ts (rest ++ ts) (collected s1) (r_log r ++ log_of ts) (r_fuel r) PWait None).
        assert (St2 : cstep false Dag g (s1, set_ph r PGot) (s1, r2)).
        { apply c_resolve_e; auto.
          unfold resolve_eager. rewrite Enc. simpl r_run. rewrite Esp. rewrite Bool.eqb_reflx. simpl.
          rewrite Ef. simpl r_ch. rewrite Ec. unfold enter. rewrite Epf. reflexivity. }
        assert (Cr2 : creach false Dag g F (s1, r2)) by (eapply cr_step; eassumption).
        (* freshness of the new keys *)
        pose proof (creach_lkid g Hnd Hstart F _ Cr2) as K. simpl in K. specialize (K eq_refl).
        destruct K as (_ & K2 & _ & _). simpl in K2.
        destruct (creach_log_ok g Hnd Hstart F _ Cr2) as [Nl _]. simpl in Nl.
        pose proof (Permutation_NoDup K2 Nl) as N2.
        assert (Ndt : NoDup (ids_of ts)).
        { clear -N2. induction (map fst (epcs s1)) as [|a m IHm]; simpl in N2; [exact N2|].
          inversion N2; auto. }
        assert (Hfresh : forall t, In t ts -> get_pc (tid t) (epcs s1) = None).
        { intros t Ht. apply get_pc_none. intros K.
          clear -N2 K Ht. induction (map fst (epcs s1)) as [|a m IHm]; simpl in *; [contradiction|].
          inversion N2 as [|? ? Hni N2']; subst. destruct K as [->|K]; [|auto].
          apply Hni. apply in_or_app. right. apply (in_ids t ts Ht). }
        destruct (submit_all ts s1 r2 Q1 eq_refl eq_refl Ndt Hfresh) as (s2 & P2 & Q2 & Nn2 & C2 & E2).
        set (r3 := set_exp r2 []) in *.
        assert (Cr3 : creach false Dag g F (s2, r3)) by (eapply creach_star; eassumption).
        assert (Q3 : QC s2 r3).
        { split; [exact Q2|]. split; [reflexivity|]. split; [reflexivity|]. split; [reflexivity|].
          split; [|split].
          - simpl. rewrite Nn2, app_length. pose proof (remove_nth_length _ _ _ En). fold rest in H. lia.
          - simpl. rewrite C2. reflexivity.
          - simpl. intros y Hy. rewrite E2, get_pc_app_list. apply in_app_or in Hy. destruct Hy as [Hy|Hy].
            + assert (Hy' : In y (r_run r)).
              { apply (Permutation_in _ (Permutation_sym (split_task_perm _ _ _ _ Esp))). right; exact Hy. }
              assert (Hne : tid y <> tid x).
              { intros K. assert (y = x) by (apply (nodup_ids_eq (r_run r)); auto). subst y.
                pose proof (split_task_ids _ _ _ _ Esp) as Pi.
                pose proof (Permutation_NoDup Pi Ndr) as Nx. inversion Nx; subst.
                apply H1. apply (in_ids x rest Hy). }
              rewrite E1, (get_pc_set_other _ _ _ _ Hne), (Qrun y Hy'). reflexivity.
            + rewrite (Hfresh y Hy). apply get_pc_new_tasks; assumption. }
        destruct (IH s2 r3 Cr3 Q3 out log' lft) as (s' & r' & P3 & R1 & R2 & R3).
        { simpl. exact E. }
        { exact Hno. }
        exists s', r'. split; [|auto].
        eapply cstar_trans; [exact P1|]. eapply cs_step; [exact St2|]. eapply cstar_trans; [exact P2|exact P3].
  - (* nothing is in flight *)
    inversion E; subst.
    assert (Er : r_run r = []).
    { apply nth_error_None in En. destruct (r_run r) as [|t0 r0] eqn:Er0; [reflexivity|]. exfalso.
      assert (i < length (t0 :: r0)) by (apply Nat.mod_upper_bound; simpl; lia). lia. }
    exists s, (set_res r OFail). split.
    { apply cstar_one. apply c_none; auto. rewrite Qn, Er. reflexivity. }
    simpl. rewrite Er. auto.
Qed.

(* every schedule of the functional model is a path of the composed system *)
Lemma every_schedule_realised pick fuel out log lft :
  eager pick g fuel = (out, log, lft) -> out <> OFuel ->
  exists s r, creach false Dag g F (s, r) /\ r_res r = Some out /\ r_log r = log /\ ids_of (r_run r) = lft.
Proof.
  unfold eager. intros E Hno.
  pose proof (cr_init false Dag g F) as C0. unfold rl_init in C0.
  destruct (start_next Dag g) as [v|ts ch] eqn:Es.
  - inversion E; subst. eexists init, _. split; [exact C0|]. simpl. auto.
  - unfold enter in C0. destruct (existsb prefail ts) eqn:Epf.
    { inversion E; subst. eexists init, _. split; [exact C0|]. simpl. auto. }
    set (r0 := mkrl ch ts ([] ++ ts) [] ([] ++ log_of ts) F PWait None) in *.
    assert (Ndt : NoDup (ids_of ts)) by (eapply calc_next_tasks_ok; [exact Hnd|exact Es]).
    destruct (submit_all ts init r0) as (s1 & P1 & Q1 & N1 & C1 & E1); auto.
    { repeat split; reflexivity. }
    assert (Cr1 : creach false Dag g F (s1, set_exp r0 [])) by (eapply creach_star; eassumption).
    assert (Q : QC s1 (set_exp r0 [])).
    { split; [exact Q1|]. split; [reflexivity|]. split; [reflexivity|]. split; [reflexivity|].
      split; [simpl; rewrite N1; reflexivity|]. split; [simpl; rewrite C1; reflexivity|].
      simpl. intros y Hy. rewrite E1. simpl. apply get_pc_new_tasks; assumption. }
    destruct (follow_schedule pick fuel s1 _ Cr1 Q out log lft) as (s' & r' & P & R1 & R2 & R3).
    { simpl. exact E. }
    { exact Hno. }
    exists s', r'. split; [eapply creach_star; eassumption|auto].
Qed.

End Sched.
