(* Proofs/ConcatSuffixMsg.v — the suffix law  F (xs ++ [F! ys]) ~ F (xs ++ ys)  for chat
   messages (ConcatMessages, the stream entry points, message lists, maps of messages),
   component by component; mirror of the prefix laws of Proofs/ConcatMsg.v,
   Proofs/ConcatMsgList.v and Proofs/ConcatMsgMap.v. *)
From Eino Require Import Base.Util Model.Concat Model.ConcatMsg Model.ConcatMsgMap.
From Eino Require Import Proofs.Concat Proofs.ConcatRechunk Proofs.ConcatMsg Proofs.ConcatMsgList.
From Eino Require Import Proofs.ConcatOrder Proofs.ConcatOrderMsg Proofs.ConcatKeyed Proofs.ConcatMsgMap Proofs.ConcatSuffix.
From Coq Require Import Sorting.Sorted.

(* ------------------------------------------------------------------ pick *)

Definition merge2 (cur r : string) : res string :=
  if str_empty r then Ok cur
  else if str_empty cur then Ok r
  else if String.eqb cur r then Ok cur else Err E_CONFLICT.

Lemma pick_from_err cur l e : pick_from cur l = Err e -> e = E_CONFLICT.
Proof.
  revert cur. induction l as [|s l IH]; intros cur; cbn; [discriminate|].
  destruct (str_empty s); [apply IH|]. destruct (str_empty cur); [apply IH|].
  destruct (String.eqb cur s); [apply IH|]. intros H. inversion H. reflexivity.
Qed.

Lemma merge2_empty_l r : merge2 EmptyString r = Ok r.
Proof.
  unfold merge2. destruct (str_empty r) eqn:E; [|reflexivity].
  apply str_empty_true in E. subst. reflexivity.
Qed.

Lemma pick_from_merge b : forall cur, pick_from cur b = res_bind (pick b) (merge2 cur).
Proof.
  induction b as [|s b IH]; intros cur.
  - cbn. unfold merge2. cbn. reflexivity.
  - destruct (str_empty s) eqn:Es.
    + unfold pick. cbn [pick_from]. rewrite Es. apply IH.
    + rewrite pick_cons. cbn [pick_from]. rewrite Es.
      rewrite (IH s).
      destruct (str_empty cur) eqn:Ec.
      * apply str_empty_true in Ec. subst cur.
        destruct (pick b) as [r| |]; cbn [res_bind]; try reflexivity.
        destruct (merge2 s r) as [x| |]; cbn [res_bind]; try reflexivity. symmetry. apply merge2_empty_l.
      * destruct (String.eqb cur s) eqn:E.
        -- apply String.eqb_eq in E. subst s. rewrite (IH cur).
           destruct (pick b) as [r| |]; cbn [res_bind]; try reflexivity.
           unfold merge2. rewrite Ec. destruct (str_empty r); cbn [res_bind].
           ++ rewrite Ec, String.eqb_refl. reflexivity.
           ++ destruct (String.eqb cur r) eqn:E2; cbn [res_bind]; [|reflexivity].
              rewrite Ec, String.eqb_refl. reflexivity.
        -- destruct (pick b) as [r|e|] eqn:Ep; cbn [res_bind].
           ++ unfold merge2. rewrite Es. destruct (str_empty r); cbn [res_bind].
              ** rewrite Es, Ec, E. reflexivity.
              ** destruct (String.eqb s r); cbn [res_bind]; [|reflexivity].
                 rewrite Es, Ec, E. reflexivity.
           ++ unfold pick in Ep. apply pick_from_err in Ep. subst. reflexivity.
           ++ exfalso. exact (pick_no_panic b Ep).
Qed.

Lemma pick_single x : pick [x] = Ok x.
Proof.
  unfold pick. cbn. destruct (str_empty x) eqn:E; [|reflexivity].
  apply str_empty_true in E. subst. reflexivity.
Qed.

Lemma pick_app_merge a b : pick (a ++ b) = res_bind (pick a) (fun ra => res_bind (pick b) (merge2 ra)).
Proof.
  unfold pick at 1. rewrite pick_from_app. fold (pick a).
  destruct (pick a); cbn [res_bind]; try reflexivity. apply pick_from_merge.
Qed.

Lemma pick_suffix a b :
  match pick b with
  | Ok r => pick (a ++ [r]) = pick (a ++ b)
  | _ => fails (pick (a ++ b))
  end.
Proof.
  destruct (pick b) as [r|e|] eqn:E.
  - rewrite !pick_app_merge, pick_single, E. reflexivity.
  - rewrite pick_app_merge, E. destruct (pick a); reflexivity.
  - exfalso. exact (pick_no_panic b E).
Qed.

(* ------------------------------------------------------------------ multi content, meta *)

Lemma multi_step_assoc a m x : multi_step (multi_step a m) x = multi_step a (multi_step m x).
Proof. destruct x, m; reflexivity. Qed.

Lemma multi_fold b : forall a, fold_left multi_step b a = multi_step a (fold_left multi_step b []).
Proof.
  induction b as [|x b IH]; intros a; cbn [fold_left].
  - destruct a; reflexivity.
  - rewrite (IH (multi_step a x)), (IH (multi_step [] x)), <- multi_step_assoc.
    destruct x; reflexivity.
Qed.

Lemma multi_suffix a b : concat_multi (a ++ [concat_multi b]) = concat_multi (a ++ b).
Proof.
  unfold concat_multi. rewrite !fold_left_app. cbn [fold_left]. symmetry. apply multi_fold.
Qed.

Definition fin_step (fa fx : string) : string := if str_empty fx then fa else fx.
Definition us_step (ua ux : option usage) : option usage :=
  match ux with
  | None => ua
  | Some u => Some (umax (match ua with Some au => au | None => zero_usage end) u)
  end.
Definition lp_step (la lx : option (list string)) : option (list string) :=
  match lx with
  | None => la
  | Some lp => Some ((match la with Some l => l | None => [] end) ++ lp)
  end.
Definition mF (m : option rmeta) : string := match m with Some a => rm_finish a | None => EmptyString end.
Definition mU (m : option rmeta) : option usage := match m with Some a => rm_usage a | None => None end.
Definition mL (m : option rmeta) : option (list string) := match m with Some a => rm_logprobs a | None => None end.

Lemma meta_step_some acc x :
  meta_step acc (Some x) =
  Some (mkMeta (fin_step (mF acc) (rm_finish x)) (us_step (mU acc) (rm_usage x)) (lp_step (mL acc) (rm_logprobs x))).
Proof. destruct acc; reflexivity. Qed.

Lemma mF_step A M : mF (meta_step A M) = fin_step (mF A) (mF M).
Proof. destruct M as [m|]; [rewrite meta_step_some; reflexivity|]. cbn. reflexivity. Qed.
Lemma mU_step A M : mU (meta_step A M) = us_step (mU A) (mU M).
Proof. destruct M as [m|]; [rewrite meta_step_some; reflexivity|]. cbn. reflexivity. Qed.
Lemma mL_step A M : mL (meta_step A M) = lp_step (mL A) (mL M).
Proof. destruct M as [m|]; [rewrite meta_step_some; reflexivity|]. cbn. reflexivity. Qed.

Lemma fin_assoc fa fm fx : fin_step fa (fin_step fm fx) = fin_step (fin_step fa fm) fx.
Proof.
  unfold fin_step. destruct (str_empty fx) eqn:Ex; [reflexivity|]. rewrite Ex. reflexivity.
Qed.

Lemma us_assoc ua um ux :
  match ua with Some u => usage_nonneg u | None => True end ->
  us_step ua (us_step um ux) = us_step (us_step ua um) ux.
Proof.
  intros H. destruct ux as [[px cx tx]|]; [|reflexivity].
  destruct um as [[pm cm tm]|], ua as [[pa ca ta]|]; cbn; unfold usage_nonneg in *; cbn in *;
    f_equal; unfold umax; cbn; f_equal; lia.
Qed.

Lemma lp_assoc la lm lx : lp_step la (lp_step lm lx) = lp_step (lp_step la lm) lx.
Proof.
  destruct lx as [x|]; [|reflexivity]. destruct lm as [m|], la as [a|]; cbn; f_equal;
    rewrite ?app_assoc, ?app_nil_r; reflexivity.
Qed.

Lemma meta_step_assoc A M x :
  meta_ok A -> meta_step A (meta_step M x) = meta_step (meta_step A M) x.
Proof.
  intros HA. destruct x as [x|]; [|reflexivity].
  rewrite (meta_step_some M x), (meta_step_some A), (meta_step_some (meta_step A M) x).
  cbn [rm_finish rm_usage rm_logprobs]. rewrite mF_step, mU_step, mL_step.
  rewrite fin_assoc, lp_assoc, us_assoc; [reflexivity|].
  destruct A as [a|]; cbn in *; [exact HA|exact I].
Qed.

Lemma meta_fold b : forall A M, meta_ok A ->
  meta_step A (fold_left meta_step b M) = fold_left meta_step b (meta_step A M).
Proof.
  induction b as [|x b IH]; intros A M HA; cbn [fold_left]; [reflexivity|].
  rewrite (IH A (meta_step M x) HA), meta_step_assoc by exact HA. reflexivity.
Qed.

Lemma meta_suffix a b : concat_meta (a ++ [concat_meta b]) = concat_meta (a ++ b).
Proof.
  unfold concat_meta. rewrite !fold_left_app. cbn [fold_left].
  rewrite (meta_fold b (fold_left meta_step a None) None) by (apply fold_meta_ok; exact I).
  reflexivity.
Qed.

(* ------------------------------------------------------------------ tool calls *)

Lemma merge_group_suffix i gA gB :
  gB <> [] ->
  match merge_group i gB with
  | Ok m => merge_group i (gA ++ [m]) = merge_group i (gA ++ gB)
  | _ => fails (merge_group i (gA ++ gB))
  end.
Proof.
  intros Hne. destruct gB as [|d0 gB']; [congruence|].
  unfold merge_group. rewrite !map_app.
  pose proof (pick_suffix (map tc_id gA) (map tc_id (d0 :: gB'))) as H1.
  pose proof (pick_suffix (map tc_type gA) (map tc_type (d0 :: gB'))) as H2.
  pose proof (pick_suffix (map tc_name gA) (map tc_name (d0 :: gB'))) as H3.
  destruct (pick (map tc_id (d0 :: gB'))) as [id| |]; cbn [res_bind];
    [|apply fails_bind_l, H1|apply fails_bind_l, H1].
  destruct (pick (map tc_type (d0 :: gB'))) as [ty| |]; cbn [res_bind];
    [|apply fails_bind_r; intro; apply fails_bind_l, H2|apply fails_bind_r; intro; apply fails_bind_l, H2].
  destruct (pick (map tc_name (d0 :: gB'))) as [nm| |]; cbn [res_bind];
    [|apply fails_bind_r; intro; apply fails_bind_r; intro; apply fails_bind_l, H3
     |apply fails_bind_r; intro; apply fails_bind_r; intro; apply fails_bind_l, H3].
  rewrite !map_app. cbn [map tc_id tc_type tc_name tc_args tc_idx tc_extra].
  rewrite H1, H2, H3.
  assert (Ha : concat_strings (map tc_args gA ++ [concat_strings (tc_args d0 :: map tc_args gB')])
               = concat_strings (map tc_args gA ++ tc_args d0 :: map tc_args gB')).
  { rewrite !concat_strings_app. cbn. rewrite append_nil_r. reflexivity. }
  rewrite Ha. destruct gA as [|c0 gA']; reflexivity.
Qed.

Lemma idxs_of_suffix A B merged :
  map tc_idx merged = map Some (idxs_of B) -> idxs_of (A ++ nilp B ++ merged) = idxs_of (A ++ B).
Proof.
  intros Hidx. apply sorted_unique; try apply idxs_of_sorted.
  intros i. rewrite !idxs_of_In. split.
  - intros [c [Hc Hi]]. apply in_app_or in Hc. destruct Hc as [Hc|Hc].
    + exists c. split; [apply in_or_app; now left|exact Hi].
    + apply in_app_or in Hc. destruct Hc as [Hc|Hc].
      * apply filter_In in Hc. destruct Hc as [Hc _]. exists c. split; [apply in_or_app; now right|exact Hi].
      * assert (Hin : In (Some i) (map tc_idx merged)) by (rewrite <- Hi; apply in_map, Hc).
        rewrite Hidx in Hin. apply in_map_iff in Hin. destruct Hin as [j [Ej Hj]]. inversion Ej; subst j.
        apply idxs_of_In in Hj. destruct Hj as [c' [Hc' Hi']]. exists c'. split; [apply in_or_app; now right|exact Hi'].
  - intros [c [Hc Hi]]. apply in_app_or in Hc. destruct Hc as [Hc|Hc].
    + exists c. split; [apply in_or_app; now left|exact Hi].
    + assert (Hj : In i (idxs_of B)) by (apply idxs_of_In; eauto).
      assert (Hin : In (Some i) (map tc_idx merged)) by (rewrite Hidx; apply in_map, Hj).
      apply in_map_iff in Hin. destruct Hin as [m [Em Hm]].
      exists m. split; [|exact Em]. apply in_or_app. right. apply in_or_app. now right.
Qed.

Lemma toolcalls_suffix A B :
  match concat_toolcalls B with
  | Ok r => req (concat_toolcalls (A ++ r)) (concat_toolcalls (A ++ B))
  | _ => fails (concat_toolcalls (A ++ B))
  end.
Proof.
  assert (Hfail : fails (concat_toolcalls B) -> fails (concat_toolcalls (A ++ B))).
  { unfold concat_toolcalls. intros F. apply fails_bind_l.
    assert (F' : fails (res_mapM (fun i => merge_group i (filter (has_idx i) B)) (idxs_of B))).
    { unfold fails in *. destruct (res_mapM _ (idxs_of B)); cbn in *; auto. }
    apply res_mapM_fails_inv in F'. destruct F' as [i [Hin Hi]].
    apply (res_mapM_fails _ _ i).
    - apply idxs_of_In in Hin. destruct Hin as [c [H1 H2]]. apply idxs_of_In. exists c.
      split; [apply in_or_app; now right|exact H2].
    - fold (grp i B) in Hi. fold (grp i (A ++ B)). rewrite grp_app.
      pose proof (merge_group_suffix i (grp i A) (grp i B) (grp_nonempty i B Hin)) as H.
      destruct (merge_group i (grp i B)); [cbn in Hi; discriminate|exact H|exact H]. }
  destruct (concat_toolcalls B) as [r|e|] eqn:E; [|apply Hfail; reflexivity|apply Hfail; reflexivity].
  apply concat_toolcalls_inv in E. destruct E as [merged [-> [HF Hidx]]].
  pose proof (idxs_of_sorted B) as Hs. pose proof (sorted_NoDup _ Hs) as Hnd.
  unfold concat_toolcalls. rewrite (idxs_of_suffix A B merged Hidx).
  fold (nilp (A ++ nilp B ++ merged)). fold (nilp (A ++ B)).
  assert (Hnil : nilp (A ++ nilp B ++ merged) = nilp (A ++ B)).
  { rewrite !nilp_app, nilp_nilp, (nilp_indexed merged _ Hidx), app_nil_r. reflexivity. }
  rewrite Hnil.
  apply req_bind; [|intros a _; apply req_refl].
  apply res_mapM_req. intros i _. apply req_of_eq.
  fold (grp i (A ++ nilp B ++ merged)). fold (grp i (A ++ B)).
  rewrite !grp_app, grp_nilp. cbn [app].
  destruct (grp_merged _ _ _ HF (fun j m Hj Hm => merge_group_idx j B m Hj Hm) Hnd i) as [G1 G2].
  destruct (in_dec Z.eq_dec i (idxs_of B)) as [Hin|Hnin].
  - destruct (G1 Hin) as [m [Hm Hg]]. rewrite Hg.
    pose proof (merge_group_suffix i (grp i A) (grp i B) (grp_nonempty i B Hin)) as H.
    rewrite Hm in H. exact H.
  - rewrite (G2 Hnin), (grp_nil_of i B Hnin). reflexivity.
Qed.

Section User.
Context {U : UserFn} {L : UserLaw} {LS : UserLawS}.

(* ------------------------------------------------------------------ extras *)

Lemma concat_maps_top_snoc_nil ms : concat_maps_top (ms ++ [[]]) = concat_maps_top ms.
Proof.
  rewrite (concat_maps_top_unfold (ms ++ [[]])), (concat_maps_top_unfold ms).
  unfold concat_maps_step.
  assert (K : keys_of (ms ++ [[]]) = keys_of ms).
  { rewrite !keys_of_fold, fold_left_app. reflexivity. }
  rewrite K. apply res_mapM_ext_in. intros k _. rewrite vals_at_app. cbn. rewrite app_nil_r. reflexivity.
Qed.

Lemma extras_suffix Ex Ey :
  match concat_maps_top Ey with
  | Ok ce => req (concat_maps_top (Ex ++ (if nonempty_map ce then [ce] else []))) (concat_maps_top (Ex ++ Ey))
  | _ => fails (concat_maps_top (Ex ++ Ey))
  end.
Proof.
  pose proof (concat_maps_suffix Ex Ey) as H. unfold suffix_ok in H.
  destruct (concat_maps_top Ey) as [ce| |]; [|exact H|exact H].
  destruct ce as [|kv ce]; cbn [nonempty_map]; [|exact H].
  rewrite app_nil_r. rewrite concat_maps_top_snoc_nil in H. exact H.
Qed.

(* ------------------------------------------------------------------ ConcatMessages *)

Definition msgs_suffix_stmt (xs ys : list (option msg)) : Prop :=
  match concat_msgs ys with
  | Ok c => req (concat_msgs (xs ++ [Some c])) (concat_msgs (xs ++ ys))
  | _ => fails (concat_msgs (xs ++ ys))
  end.

Ltac fail_with' H :=
  repeat first [ apply fails_bind_l; exact H | apply fails_bind_r; intro ].

(* ConcatMessages on non-nil chunks *)
Definition cm (ms : list msg) : res msg :=
  do role <- pick (map m_role ms);
  do name <- pick (map m_name ms);
  do tcid <- pick (map m_tcid ms);
  do tcs <- concat_toolcalls (flat_map m_tcs ms);
  do extra <- concat_maps_top (filter nonempty_map (map m_extra ms));
  Ok (mkMsg role name tcid
            (concat_strings (map m_content ms))
            (concat_multi (map m_multi ms))
            tcs
            (concat_meta (map m_meta ms))
            extra).

Lemma concat_msgs_cm l : concat_msgs l = match all_some l with Some ms => cm ms | None => Err E_NILMSG end.
Proof. reflexivity. Qed.

Lemma cm_suffix mx my :
  match cm my with
  | Ok c => req (cm (mx ++ [c])) (cm (mx ++ my))
  | _ => fails (cm (mx ++ my))
  end.
Proof.
  unfold cm at 1 3 4 5.
  fold (extras my). fold (extras (mx ++ my)). rewrite extras_app.
  rewrite !map_app, flat_map_app.
  pose proof (pick_suffix (map m_role mx) (map m_role my)) as H1.
  pose proof (pick_suffix (map m_name mx) (map m_name my)) as H2.
  pose proof (pick_suffix (map m_tcid mx) (map m_tcid my)) as H3.
  pose proof (toolcalls_suffix (flat_map m_tcs mx) (flat_map m_tcs my)) as H4.
  pose proof (extras_suffix (extras mx) (extras my)) as H5.
  destruct (pick (map m_role my)) as [role| |]; cbn [res_bind]; [|fail_with' H1|fail_with' H1].
  destruct (pick (map m_name my)) as [name| |]; cbn [res_bind]; [|fail_with' H2|fail_with' H2].
  destruct (pick (map m_tcid my)) as [tcid| |]; cbn [res_bind]; [|fail_with' H3|fail_with' H3].
  destruct (concat_toolcalls (flat_map m_tcs my)) as [tcs| |]; cbn [res_bind]; [|fail_with' H4|fail_with' H4].
  destruct (concat_maps_top (extras my)) as [ce| |]; cbn [res_bind]; [|fail_with' H5|fail_with' H5].
  unfold cm.
  fold (extras (mx ++ [mkMsg role name tcid (concat_strings (map m_content my)) (concat_multi (map m_multi my)) tcs
                         (concat_meta (map m_meta my)) ce])).
  rewrite extras_app, !map_app, flat_map_app.
  cbn [map flat_map m_role m_name m_tcid m_content m_multi m_tcs m_meta m_extra].
  rewrite app_nil_r, H1, H2, H3.
  apply req_bind; [apply req_refl|intros role' _].
  apply req_bind; [apply req_refl|intros name' _].
  apply req_bind; [apply req_refl|intros tcid' _].
  apply req_bind; [exact H4|intros tcs' _].
  apply req_bind.
  - unfold extras at 2. cbn [map filter m_extra].
    destruct (nonempty_map ce); exact H5.
  - intros ce' _. cbn [req]. f_equal.
    + rewrite !concat_strings_app. cbn. rewrite append_nil_r. reflexivity.
    + apply multi_suffix.
    + apply meta_suffix.
Qed.

Theorem msgs_suffix xs ys : msgs_suffix_stmt xs ys.
Proof.
  unfold msgs_suffix_stmt. rewrite (concat_msgs_cm ys), (concat_msgs_cm (xs ++ ys)), all_some_app.
  destruct (all_some ys) as [my|].
  2:{ destruct (all_some xs); reflexivity. }
  destruct (all_some xs) as [mx|] eqn:Ex.
  - pose proof (cm_suffix mx my) as H.
    destruct (cm my) as [c| |]; [|exact H|exact H].
    rewrite concat_msgs_cm, all_some_app, Ex. cbn [all_some]. exact H.
  - destruct (cm my) as [c| |]; [|reflexivity|reflexivity].
    rewrite concat_msgs_cm, all_some_app, Ex. reflexivity.
Qed.

(* stream level *)
Theorem msg_stream_suffix xs ys : ys <> [] -> suffix_ok msg_stream xs ys.
Proof.
  intros Hne. unfold suffix_ok.
  destruct ys as [|y1 [|y2 l]]; [congruence| |].
  - cbn [msg_stream]. apply req_refl.
  - change (msg_stream (y1 :: y2 :: l)) with (res_map Some (concat_msgs (y1 :: y2 :: l))).
    destruct xs as [|x xs].
    + cbn [app]. change (msg_stream (y1 :: y2 :: l)) with (res_map Some (concat_msgs (y1 :: y2 :: l))).
      destruct (concat_msgs (y1 :: y2 :: l)); cbn [res_map msg_stream]; reflexivity.
    + pose proof (msgs_suffix (x :: xs) (y1 :: y2 :: l)) as H. unfold msgs_suffix_stmt in H.
      assert (W : forall zs, zs <> [] -> msg_stream ((x :: xs) ++ zs) = res_map Some (concat_msgs ((x :: xs) ++ zs))).
      { intros zs Hz. destruct xs as [|x2 xs]; cbn [app]; [destruct zs; [congruence|reflexivity]|reflexivity]. }
      rewrite (W (y1 :: y2 :: l)) by discriminate.
      destruct (concat_msgs (y1 :: y2 :: l)) as [c| |]; cbn [res_map].
      * rewrite (W [Some c]) by discriminate. apply req_res_map. exact H.
      * apply fails_res_map. exact H.
      * apply fails_res_map. exact H.
Qed.

End User.

(* ------------------------------------------------------------------ message lists *)

Section UserLists.
Context {U : UserFn} {L : UserLaw} {LS : UserLawS}.

Lemma column_suffix cx cy :
  match concat_column cy with
  | Ok ci => req (concat_column (cx ++ (match ci with Some m => [m] | None => [] end))) (concat_column (cx ++ cy))
  | _ => fails (concat_column (cx ++ cy))
  end.
Proof.
  destruct cy as [|m1 [|m2 s]]; cbn [concat_column].
  - apply req_refl.
  - apply req_refl.
  - pose proof (msgs_suffix (map Some cx) (map Some (m1 :: m2 :: s))) as R.
    unfold msgs_suffix_stmt in R.
    assert (W : forall zs, zs <> [] -> cx <> [] ->
                concat_column (cx ++ zs) = res_map Some (concat_msgs (map Some (cx ++ zs)))).
    { intros zs Hz Hc. destruct cx as [|x [|x2 cx]]; [congruence| |reflexivity].
      destruct zs; [congruence|reflexivity]. }
    destruct (concat_msgs (map Some (m1 :: m2 :: s))) as [cm| |] eqn:E; cbn [res_map].
    + destruct cx as [|x cx].
      * cbn [app concat_column]. rewrite E. reflexivity.
      * rewrite (W [cm]), (W (m1 :: m2 :: s)) by discriminate.
        apply req_res_map. rewrite !map_app. cbn [map app] in R |- *. exact R.
    + destruct cx as [|x cx].
      * cbn [app concat_column]. rewrite E. reflexivity.
      * rewrite (W (m1 :: m2 :: s)) by discriminate. apply fails_res_map. rewrite map_app. exact R.
    + destruct cx as [|x cx].
      * cbn [app concat_column]. rewrite E. reflexivity.
      * rewrite (W (m1 :: m2 :: s)) by discriminate. apply fails_res_map. rewrite map_app. exact R.
Qed.

Lemma lens_ok_app n a b : lens_ok n (a ++ b) = lens_ok n a && lens_ok n b.
Proof. unfold lens_ok. apply forallb_app. Qed.

Lemma lens_ok_other n n' ys : ys <> [] -> lens_ok n' ys = true -> lens_ok n ys = Nat.eqb n' n.
Proof.
  intros Hne H. destruct (Nat.eqb n' n) eqn:E.
  - apply Nat.eqb_eq in E. subst. exact H.
  - destruct ys as [|y ys]; [congruence|]. unfold lens_ok in *. cbn [forallb] in *.
    apply andb_prop in H. destruct H as [H _]. apply Nat.eqb_eq in H. rewrite H, E. reflexivity.
Qed.

Lemma arrays_unfold_app x xs zs :
  concat_msg_arrays ((x :: xs) ++ zs) =
  if lens_ok (List.length x) ((x :: xs) ++ zs)
  then res_mapM (fun i => concat_column (column i ((x :: xs) ++ zs))) (seq 0 (List.length x))
  else Err E_LEN.
Proof. reflexivity. Qed.

(* concatMessageArray: suffix law *)
Theorem msg_arrays_suffix xs ys : ys <> [] -> suffix_ok concat_msg_arrays xs ys.
Proof.
  intros Hne. unfold suffix_ok.
  destruct xs as [|x xs].
  - (* nothing before the suffix *)
    cbn [app]. destruct (concat_msg_arrays ys) as [c| |] eqn:E; [|reflexivity|reflexivity].
    rewrite arrays_single. reflexivity.
  - destruct ys as [|y ys]; [congruence|]. clear Hne.
    rewrite (arrays_unfold y ys). rewrite (arrays_unfold_app x xs (y :: ys)).
    set (n := List.length x). set (n' := List.length y).
    rewrite lens_ok_app.
    destruct (lens_ok n' (y :: ys)) eqn:Ly.
    + rewrite (lens_ok_other n n' (y :: ys) ltac:(discriminate) Ly).
      destruct (res_mapM _ (seq 0 n')) as [c| |] eqn:Ec.
      * apply res_mapM_Forall2 in Ec.
        assert (Hlen : List.length c = n') by (apply Forall2_length' in Ec; rewrite seq_length in Ec; congruence).
        rewrite (arrays_unfold_app x xs [c]). fold n. rewrite lens_ok_app.
        unfold lens_ok at 2. cbn [forallb]. rewrite Hlen, andb_true_r.
        destruct (lens_ok n (x :: xs)); cbn [andb]; [|reflexivity].
        destruct (Nat.eqb n' n) eqn:En; [|reflexivity].
        apply Nat.eqb_eq in En.
        apply res_mapM_req. intros i Hi. apply in_seq in Hi.
        destruct (Forall2_nth_seq _ _ _ _ Ec i) as [ci [Hn Hci]]; [lia|]. cbn [Nat.add] in Hci.
        rewrite !column_app. rewrite cell_single_column. unfold cell. rewrite Hn.
        pose proof (column_suffix (column i (x :: xs)) (column i (y :: ys))) as R.
        rewrite Hci in R. destruct ci; exact R.
      * destruct (lens_ok n (x :: xs)); cbn [andb]; [|reflexivity].
        destruct (Nat.eqb n' n) eqn:En; [|reflexivity]. apply Nat.eqb_eq in En.
        assert (F : fails (res_mapM (fun i => concat_column (column i (y :: ys))) (seq 0 n'))) by (rewrite Ec; reflexivity).
        apply res_mapM_fails_inv in F. destruct F as [i [Hi F]].
        apply res_mapM_fails with (a := i); [rewrite <- En; exact Hi|].
        rewrite column_app.
        pose proof (column_suffix (column i (x :: xs)) (column i (y :: ys))) as R.
        unfold fails in *. destruct (concat_column (column i (y :: ys))); cbn in *; [discriminate|exact R|exact R].
      * destruct (lens_ok n (x :: xs)); cbn [andb]; [|reflexivity].
        destruct (Nat.eqb n' n) eqn:En; [|reflexivity]. apply Nat.eqb_eq in En.
        assert (F : fails (res_mapM (fun i => concat_column (column i (y :: ys))) (seq 0 n'))) by (rewrite Ec; reflexivity).
        apply res_mapM_fails_inv in F. destruct F as [i [Hi F]].
        apply res_mapM_fails with (a := i); [rewrite <- En; exact Hi|].
        rewrite column_app.
        pose proof (column_suffix (column i (x :: xs)) (column i (y :: ys))) as R.
        unfold fails in *. destruct (concat_column (column i (y :: ys))); cbn in *; [discriminate|exact R|exact R].
    + (* the suffix alone has lists of different lengths: so has the whole *)
      destruct (lens_ok n (x :: xs)); cbn [andb]; [|reflexivity].
      destruct (lens_ok n (y :: ys)) eqn:Ly'; [|reflexivity].
      exfalso. assert (n = n').
      { unfold lens_ok in Ly'. cbn [forallb] in Ly'. apply andb_prop in Ly'. destruct Ly' as [H _].
        apply Nat.eqb_eq in H. symmetry. exact H. }
      subst. congruence.
Qed.

Theorem msglist_stream_suffix xs ys : ys <> [] -> suffix_ok msglist_stream xs ys.
Proof.
  intros Hne. unfold suffix_ok.
  destruct ys as [|y1 [|y2 l]]; [congruence| |].
  - cbn [msglist_stream]. apply req_refl.
  - change (msglist_stream (y1 :: y2 :: l)) with (concat_msg_arrays (y1 :: y2 :: l)).
    pose proof (msg_arrays_suffix xs (y1 :: y2 :: l) ltac:(discriminate)) as H. unfold suffix_ok in H.
    destruct xs as [|x xs].
    + cbn [app] in *. change (msglist_stream (y1 :: y2 :: l)) with (concat_msg_arrays (y1 :: y2 :: l)).
      destruct (concat_msg_arrays (y1 :: y2 :: l)); cbn [msglist_stream]; reflexivity.
    + assert (W : forall zs, zs <> [] -> msglist_stream ((x :: xs) ++ zs) = concat_msg_arrays ((x :: xs) ++ zs)).
      { intros zs Hz. destruct xs as [|x2 xs]; cbn [app]; [destruct zs; [congruence|reflexivity]|reflexivity]. }
      rewrite (W (y1 :: y2 :: l)) by discriminate.
      destruct (concat_msg_arrays (y1 :: y2 :: l)) as [c| |]; [|exact H|exact H].
      rewrite (W [c]) by discriminate. exact H.
Qed.

End UserLists.
