(* Proofs/BuilderDag.v — property C20, stretch: correctness of validateDAG.
   graph.go validateDAG keeps a counter per node (number of control predecessors other than
   START that have not been "fired" yet), repeatedly sweeps over the counter map in Go's map
   order, fires every node it meets with counter 0 (counter := -1, successors decremented)
   and reports a loop when a positive counter is left.

   Here: for EVERY firing order ([reach]: any sequence of firings that ends in a [stable]
   state, i.e. one where no counter is 0) the final verdict is the same, namely
       accepted  <->  a topological order of the nodes exists,
   and the model's [dag_final] (sweeps in insertion order, |nodes|+1 times) is such a run.
   Soundness (accepted -> topological order) needs nothing but distinct node keys that are
   not START/END; completeness needs that every predecessor is START or a node. *)
From Eino Require Import Base.Util Model.Builder.
Local Open Scope string_scope.
Local Open Scope list_scope.

(* ------------------------------------------------------------------ association-list facts *)
Lemma alist_get_map_upd : forall (f : string -> Z -> Z) x (m : list (string * Z)),
  alist_get x (map (fun kv => (fst kv, f (fst kv) (snd kv))) m) = option_map (f x) (alist_get x m).
Proof.
  intros f x m. induction m as [|[k z] m IH]; simpl; [reflexivity|].
  destruct (String.eqb x k) eqn:E; [apply String.eqb_eq in E; subst; reflexivity|assumption].
Qed.

Lemma alist_get_in : forall x (m : list (string * Z)),
  In x (map fst m) -> alist_get x m = Some (zget x m).
Proof.
  intros x m H. unfold zget. induction m as [|[k z] m IH]; simpl in *; [contradiction|].
  destruct (String.eqb x k) eqn:E; [reflexivity|].
  destruct H as [H|H]; [subst; rewrite String.eqb_refl in E; discriminate|auto].
Qed.

Lemma dec1_as_upd : forall s m,
  dec1 s m = map (fun kv => (fst kv, (fun k z => if String.eqb k s then (z - 1)%Z else z) (fst kv) (snd kv))) m.
Proof. intros. unfold dec1. apply map_ext. intros [k z]; simpl. destruct (String.eqb k s); reflexivity. Qed.

Lemma zset_as_upd : forall s v m,
  zset s v m = map (fun kv => (fst kv, (fun k z => if String.eqb k s then v else z) (fst kv) (snd kv))) m.
Proof. intros. unfold zset. apply map_ext. intros [k z]; simpl. destruct (String.eqb k s); reflexivity. Qed.

Lemma fst_dec1 : forall s m, map fst (dec1 s m) = map fst m.
Proof. intros. unfold dec1. rewrite map_map. apply map_ext. intros [k z]; simpl. destruct (String.eqb k s); reflexivity. Qed.

Lemma fst_zset : forall s v m, map fst (zset s v m) = map fst m.
Proof. intros. unfold zset. rewrite map_map. apply map_ext. intros [k z]; simpl. destruct (String.eqb k s); reflexivity. Qed.

Lemma fst_fold_dec : forall l m, map fst (fold_left (fun m' s => dec1 s m') l m) = map fst m.
Proof. induction l as [|s l IH]; intros m; simpl; [reflexivity|]. rewrite IH. apply fst_dec1. Qed.

Lemma zget_dec1 : forall x s m, In x (map fst m) ->
  zget x (dec1 s m) = if String.eqb x s then (zget x m - 1)%Z else zget x m.
Proof.
  intros x s m H. unfold zget at 1. rewrite dec1_as_upd.
  rewrite (alist_get_map_upd (fun k z => if String.eqb k s then (z - 1)%Z else z)), (alist_get_in _ _ H). reflexivity.
Qed.

Lemma zget_zset : forall x s v m, In x (map fst m) ->
  zget x (zset s v m) = if String.eqb x s then v else zget x m.
Proof.
  intros x s v m H. unfold zget at 1. rewrite zset_as_upd.
  rewrite (alist_get_map_upd (fun k z => if String.eqb k s then v else z)), (alist_get_in _ _ H). reflexivity.
Qed.

Definition occ (x : string) (l : list string) : nat := List.length (filter (String.eqb x) l).

Lemma zget_fold_dec : forall x l m, In x (map fst m) ->
  zget x (fold_left (fun m' s => dec1 s m') l m) = (zget x m - Z.of_nat (occ x l))%Z.
Proof.
  intros x l. induction l as [|s l IH]; intros m H; simpl.
  - unfold occ; simpl. lia.
  - rewrite IH by (rewrite fst_dec1; assumption). rewrite zget_dec1 by assumption.
    unfold occ. simpl filter. destruct (String.eqb x s); cbn [List.length]; rewrite ?Nat2Z.inj_succ; lia.
Qed.

Lemma smem_app : forall k a b, smem k (a ++ b) = smem k a || smem k b.
Proof. intros k a b. induction a as [|x a IH]; simpl; [reflexivity|]. rewrite IH. destruct (String.eqb k x); reflexivity. Qed.

Lemma smem_In : forall k l, smem k l = true <-> In k l.
Proof.
  intros k l. induction l as [|x l IH]; simpl; [split; [discriminate|contradiction]|].
  rewrite orb_true_iff, IH, String.eqb_eq. split; intros [H|H]; auto.
Qed.

Lemma smem_false : forall k l, smem k l = false <-> ~ In k l.
Proof. intros. rewrite <- smem_In. destruct (smem k l); split; congruence. Qed.

Lemma NoDup_pair_get : forall (m : list (string * Z)) k z,
  NoDup (map fst m) -> In (k, z) m -> zget k m = z.
Proof.
  intros m k z N H. unfold zget. induction m as [|[k0 z0] m IH]; simpl in *; [contradiction|].
  inversion N as [|? ? N1 N2]; subst.
  destruct H as [H|H].
  - inversion H; subst. rewrite String.eqb_refl. reflexivity.
  - destruct (String.eqb k k0) eqn:E; [|auto].
    apply String.eqb_eq in E; subst. exfalso. apply N1. apply (in_map fst) in H. assumption.
Qed.

Lemma in_pair_of_key : forall (m : list (string * Z)) k, In k (map fst m) -> In (k, zget k m) m.
Proof.
  intros m k H. unfold zget. induction m as [|[k0 z0] m IH]; simpl in *; [contradiction|].
  destruct (String.eqb k k0) eqn:E.
  - apply String.eqb_eq in E; subst. left; reflexivity.
  - right. apply IH. destruct H as [H|H]; [subst; rewrite String.eqb_refl in E; discriminate|assumption].
Qed.

Lemma iter_succ_r' : forall {A} (f : A -> A) n x, Nat.iter (S n) f x = Nat.iter n f (f x).
Proof. intros A f n x. induction n as [|n IH]; [reflexivity|]. simpl in *. rewrite IH. reflexivity. Qed.

(* "a occurs before b" in a list *)
Definition before (a b : string) (l : list string) : Prop :=
  exists l1 l2, l = l1 ++ b :: l2 /\ In a l1.

Lemma before_app_r : forall a b l r, before a b l -> before a b (l ++ r).
Proof. intros a b l r [l1 [l2 [E I]]]. exists l1, (l2 ++ r). subst. rewrite <- app_assoc. simpl. auto. Qed.

Lemma NoDup_split_unique : forall (b : string) l1 l2 x1 x2,
  NoDup (l1 ++ b :: l2) -> l1 ++ b :: l2 = x1 ++ b :: x2 -> l1 = x1.
Proof.
  induction l1 as [|h l1 IH]; intros l2 x1 x2 N E.
  - destruct x1 as [|h' x1]; [reflexivity|]. simpl in E. inversion E; subst.
    inversion N as [|? ? N1 N2]; subst. exfalso. apply N1. apply in_or_app. right. left. reflexivity.
  - destruct x1 as [|h' x1]; simpl in E.
    + inversion E; subst. simpl in N. inversion N as [|? ? N1 N2]; subst. exfalso. apply N1.
      apply in_or_app. right. left. reflexivity.
    + inversion E; subst. f_equal. simpl in N. inversion N; subst. eapply IH; eassumption.
Qed.

(* ================================================================== the algorithm *)
Section Dag.
  Variable ps : list (string * string).
  Variable keys : list string.
  Hypothesis keys_nodup : NoDup keys.
  Hypothesis keys_no_start : ~ In START keys.
  Hypothesis keys_no_end : ~ In END_ keys.

  Definition fire (m : list (string * Z)) (k : string) : list (string * Z) :=
    zset k (-1)%Z (fold_left (fun m' s => dec1 s m') (succs ps k) m).

  Lemma process1_fire : forall m k,
    dag_process1 ps m k = if Z.eqb (zget k m) 0 then fire m k else m.
  Proof. reflexivity. Qed.

  Definition init : list (string * Z) := map (fun k => (k, init_count ps k)) keys.

  (* predecessors of [k] other than START that are not in [done], with multiplicity *)
  Definition cntl (l : list (string * string)) (done : list string) (k : string) : nat :=
    List.length (filter (fun p => String.eqb (snd p) k && negb (String.eqb (fst p) START) && negb (smem (fst p) done)) l).
  Definition cnt (done : list string) (k : string) : Z := Z.of_nat (cntl ps done k).

  Definition succl (l : list (string * string)) (n : string) : list string :=
    filter (fun e => negb (String.eqb e END_)) (map snd (filter (fun p => String.eqb (fst p) n) l)).

  Lemma cntl_fire : forall l done k x,
    x <> END_ -> k <> START -> ~ In k done ->
    (cntl l done x = cntl l (done ++ [k]) x + occ x (succl l k))%nat.
  Proof.
    intros l done k x XE KS KD. unfold cntl, succl, occ.
    induction l as [|[a b] l IH]; simpl; [reflexivity|].
    rewrite smem_app. simpl. rewrite orb_false_r.
    destruct (String.eqb a k) eqn:Eak.
    - apply String.eqb_eq in Eak; subst a.
      assert (S1 : String.eqb k START = false) by (apply String.eqb_neq; assumption).
      assert (S2 : smem k done = false) by (apply smem_false; assumption).
      rewrite S1, S2. rewrite orb_true_r. simpl negb. rewrite !andb_true_r, andb_false_r.
      destruct (String.eqb b x) eqn:Ebx.
      + apply String.eqb_eq in Ebx; subst b.
        assert (S3 : String.eqb x END_ = false) by (apply String.eqb_neq; assumption).
        cbn [map snd filter]. rewrite S3. cbn [negb filter]. rewrite String.eqb_refl.
        cbn [List.length]. rewrite IH. lia.
      + cbn [map snd filter]. destruct (String.eqb b END_); cbn [negb filter]; [assumption|].
        rewrite String.eqb_sym, Ebx. assumption.
    - rewrite orb_false_r. cbn [filter map].
      destruct (String.eqb b x && negb (String.eqb a START) && negb (smem a done)); cbn [List.length]; rewrite IH; reflexivity.
  Qed.

  Record Inv (done : list string) (m : list (string * Z)) : Prop := {
    inv_nodup : NoDup done;
    inv_incl : forall k, In k done -> In k keys;
    inv_keys : map fst m = keys;
    inv_val : forall k, In k keys -> zget k m = if smem k done then (-1)%Z else cnt done k;
    inv_ord : forall a b, In (a, b) ps -> In b done -> a <> START -> before a b done
  }.

  Lemma init_get_gen : forall (l : list string) k, In k l ->
    zget k (map (fun k => (k, init_count ps k)) l) = init_count ps k.
  Proof.
    intros l k H. unfold zget.
    induction l as [|k0 l IH]; simpl in *; [contradiction|].
    destruct (String.eqb k k0) eqn:E; [apply String.eqb_eq in E; subst; reflexivity|].
    destruct H as [H|H]; [subst; rewrite String.eqb_refl in E; discriminate|].
    apply IH; assumption.
  Qed.

  Lemma init_get : forall k, In k keys -> zget k init = init_count ps k.
  Proof. intros k H. apply init_get_gen; assumption. Qed.

  Lemma init_cnt : forall k, init_count ps k = cnt [] k.
  Proof.
    intros k. unfold init_count, cnt, cntl. do 2 f_equal.
    apply filter_ext. intros [a b]; simpl. rewrite andb_true_r. reflexivity.
  Qed.

  Lemma inv_init : Inv [] init.
  Proof.
    split.
    - constructor.
    - intros k [].
    - unfold init. rewrite map_map. simpl. apply map_id.
    - intros k H. simpl. rewrite init_get by assumption. apply init_cnt.
    - intros a b _ [].
  Qed.

  Lemma cnt_zero_preds : forall done k, cnt done k = 0%Z ->
    forall a, In (a, k) ps -> a <> START -> In a done.
  Proof.
    intros done k H a I NS. unfold cnt, cntl in H.
    assert (L : List.length (filter (fun p => String.eqb (snd p) k && negb (String.eqb (fst p) START) && negb (smem (fst p) done)) ps) = 0%nat) by lia.
    apply length_zero_iff_nil in L.
    destruct (smem a done) eqn:S; [apply smem_In; assumption|].
    exfalso.
    assert (X : In (a, k) (filter (fun p => String.eqb (snd p) k && negb (String.eqb (fst p) START) && negb (smem (fst p) done)) ps)).
    { apply filter_In. split; [assumption|]. simpl. rewrite String.eqb_refl, S.
      apply String.eqb_neq in NS. rewrite NS. reflexivity. }
    rewrite L in X. contradiction.
  Qed.

  Lemma filter_nil_all : forall {A} (f : A -> bool) l, (forall x, In x l -> f x = false) -> filter f l = [].
  Proof.
    intros A f l H. induction l as [|x l IH]; simpl; [reflexivity|].
    rewrite (H x (or_introl eq_refl)). apply IH. intros y I. apply H. right; assumption.
  Qed.

  Lemma preds_done_cnt_zero : forall done k,
    (forall a, In (a, k) ps -> a <> START -> In a done) -> cnt done k = 0%Z.
  Proof.
    intros done k H. unfold cnt, cntl. rewrite filter_nil_all; [reflexivity|].
    intros [a b] I. simpl.
    destruct (String.eqb b k) eqn:E1; [|reflexivity]. apply String.eqb_eq in E1; subst b.
    destruct (String.eqb a START) eqn:E2; [reflexivity|]. apply String.eqb_neq in E2.
    simpl. apply negb_false_iff. apply smem_In. apply H; assumption.
  Qed.

  Lemma fire_keys : forall m k, map fst (fire m k) = map fst m.
  Proof. intros. unfold fire. rewrite fst_zset, fst_fold_dec. reflexivity. Qed.

  Lemma succs_succl : forall k, succs ps k = succl ps k.
  Proof. reflexivity. Qed.

  (* one firing keeps the invariant, the fired node being appended to the order *)
  Lemma inv_fire : forall done m k,
    Inv done m -> In k keys -> zget k m = 0%Z -> Inv (done ++ [k]) (fire m k).
  Proof.
    intros done m k I K Z0. destruct I as [I1 I2 I3 I4 I5].
    assert (KD : ~ In k done).
    { intros C. specialize (I4 k K). apply smem_In in C. rewrite C in I4. lia. }
    assert (KS : k <> START) by (intros C; subst; contradiction).
    assert (C0 : cnt done k = 0%Z).
    { specialize (I4 k K). apply smem_false in KD. rewrite KD in I4. lia. }
    split.
    - clear - I1 KD. induction done as [|d done IH]; simpl.
      + constructor; [intros []|constructor].
      + inversion I1; subst. constructor.
        * intros C. apply in_app_or in C. destruct C as [C|[C|[]]]; [contradiction|].
          subst. apply KD. left; reflexivity.
        * apply IH; [assumption|]. intros C. apply KD. right; assumption.
    - intros x H. apply in_app_or in H. destruct H as [H|[H|[]]]; [auto|subst; assumption].
    - rewrite fire_keys. assumption.
    - intros x X. unfold fire.
      assert (XM : In x (map fst m)) by (rewrite I3; assumption).
      rewrite zget_zset by (rewrite fst_fold_dec; assumption).
      rewrite smem_app. simpl. rewrite orb_false_r.
      destruct (String.eqb x k) eqn:E.
      + rewrite orb_true_r. reflexivity.
      + rewrite orb_false_r. rewrite zget_fold_dec by assumption. rewrite (I4 x X).
        assert (XE : x <> END_) by (intros C; subst; contradiction).
        destruct (smem x done) eqn:SD.
        * (* a node already fired is not a successor of [k] *)
          assert (O : occ x (succs ps k) = 0%nat).
          { unfold occ. rewrite filter_nil_all; [reflexivity|].
            intros y Y. destruct (String.eqb x y) eqn:Exy; [|reflexivity].
            apply String.eqb_eq in Exy; subst y. exfalso.
            unfold succs in Y. apply filter_In in Y. destruct Y as [Y _].
            apply in_map_iff in Y. destruct Y as [[a b] [Y1 Y2]]. simpl in Y1; subst b.
            apply filter_In in Y2. destruct Y2 as [Y2 Y3]. simpl in Y3. apply String.eqb_eq in Y3; subst a.
            apply smem_In in SD. destruct (I5 k x Y2 SD KS) as [l1 [l2 [E1 E2]]].
            apply KD. rewrite E1. apply in_or_app. left; assumption. }
          rewrite O. lia.
        * pose proof (cntl_fire ps done k x XE KS KD) as CF. unfold cnt. change (succs ps k) with (succl ps k). lia.
    - intros a b P B NS. apply in_app_or in B. destruct B as [B|[B|[]]].
      + apply before_app_r. apply I5; assumption.
      + subst b. exists done, []. split; [reflexivity|].
        apply (cnt_zero_preds done k C0 a P NS).
  Qed.

  (* ------------------------------------------------------------------ runs in any order *)
  Inductive reach : list (string * Z) -> list (string * Z) -> Prop :=
  | reach_refl : forall m, reach m m
  | reach_fire : forall m k m', In k keys -> zget k m = 0%Z -> reach (fire m k) m' -> reach m m'.

  Lemma reach_trans : forall a b c, reach a b -> reach b c -> reach a c.
  Proof. intros a b c H. induction H; intros; [assumption|]. eapply reach_fire; eauto. Qed.

  Definition stable (m : list (string * Z)) : Prop := forall k, In k keys -> zget k m <> 0%Z.
  Definition accepted (m : list (string * Z)) : bool := forallb (fun kv => Z.leb (snd kv) 0) m.

  Lemma reach_inv : forall m m', reach m m' -> forall done, Inv done m ->
    exists done', Inv done' m' /\ (List.length done <= List.length done')%nat.
  Proof.
    intros m m' H. induction H as [m|m k m' K Z0 R IH]; intros done I.
    - exists done. split; [assumption|lia].
    - destruct (IH _ (inv_fire done m k I K Z0)) as [done' [I' L]].
      exists done'. split; [assumption|]. rewrite app_length in L. simpl in L. lia.
  Qed.

  Definition topo (order : list string) : Prop :=
    NoDup order /\ (forall k, In k order <-> In k keys) /\
    (forall a b, In (a, b) ps -> In a keys -> In b keys -> before a b order).

  Definition closed : Prop := forall a b, In (a, b) ps -> a = START \/ In a keys.

  Lemma accepted_iff : forall done m, Inv done m ->
    (accepted m = true <-> forall k, In k keys -> (zget k m <= 0)%Z).
  Proof.
    intros done m I. unfold accepted. rewrite forallb_forall. destruct I as [_ _ I3 _ _]. split.
    - intros H k K. rewrite <- I3 in K. specialize (H _ (in_pair_of_key m k K)). simpl in H. lia.
    - intros H [k z] P. simpl.
      assert (K : In k keys) by (rewrite <- I3; apply (in_map fst) in P; assumption).
      rewrite <- (NoDup_pair_get m k z) by (try rewrite I3; assumption). specialize (H k K). lia.
  Qed.

  Lemma cnt_nonneg : forall done k, (0 <= cnt done k)%Z.
  Proof. intros. unfold cnt. lia. Qed.

  (* a stable accepted state has fired every node: the firing order is a topological order *)
  Lemma stable_accepted_topo : forall done m,
    Inv done m -> stable m -> accepted m = true -> topo done.
  Proof.
    intros done m I S A. pose proof (proj1 (accepted_iff done m I) A) as A'.
    assert (ALL : forall k, In k keys -> In k done).
    { intros k K. destruct (smem k done) eqn:E; [apply smem_In; assumption|]. exfalso.
      pose proof (inv_val _ _ I k K) as V. rewrite E in V.
      pose proof (cnt_nonneg done k). specialize (A' k K). specialize (S k K). lia. }
    split; [apply (inv_nodup _ _ I)|]. split.
    - intros k; split; [apply (inv_incl _ _ I)|apply ALL].
    - intros a b P Ka Kb. apply (inv_ord _ _ I a b P (ALL b Kb)). intros C; subst; contradiction.
  Qed.

  (* conversely, with a topological order a stable state has fired every node *)
  Lemma topo_stable_all_fired : forall order done m,
    closed -> topo order -> Inv done m -> stable m -> forall k, In k keys -> In k done.
  Proof.
    intros order done m CL [T1 [T2 T3]] I S.
    assert (P : forall l1 l2, order = l1 ++ l2 -> forall k, In k l1 -> In k done).
    { induction l1 as [|x l1 IH] using rev_ind; intros l2 E k K; [contradiction|].
      rewrite <- app_assoc in E. simpl in E.
      apply in_app_or in K. destruct K as [K|[K|[]]]; [eapply IH; eassumption|]. subst x.
      assert (KK : In k keys). { apply T2. rewrite E. apply in_or_app. right. left. reflexivity. }
      destruct (smem k done) eqn:SD; [apply smem_In; assumption|]. exfalso.
      apply (S k KK). rewrite (inv_val _ _ I k KK), SD.
      apply preds_done_cnt_zero. intros a PA NS.
      destruct (CL a k PA) as [C|Ka]; [contradiction|].
      destruct (T3 a k PA Ka KK) as [x1 [x2 [E1 E2]]].
      assert (X : l1 = x1). { eapply NoDup_split_unique; [rewrite <- E; exact T1|rewrite <- E; exact E1]. }
      subst x1. eapply IH; eassumption. }
    intros k K. apply (P order [] (eq_sym (app_nil_r order))). apply T2. assumption.
  Qed.

  Lemma all_fired_accepted : forall done m,
    Inv done m -> (forall k, In k keys -> In k done) -> accepted m = true.
  Proof.
    intros done m I ALL. apply (proj2 (accepted_iff done m I)). intros k K.
    rewrite (inv_val _ _ I k K). pose proof (proj2 (smem_In k done) (ALL k K)) as E. rewrite E. lia.
  Qed.

  (* THE order-independent statement: whatever order the nodes are fired in, the verdict
     of a run that has come to rest is "a topological order exists" *)
  Theorem any_order_sound : forall m,
    reach init m -> stable m -> accepted m = true -> exists order, topo order.
  Proof.
    intros m R S A. destruct (reach_inv _ _ R [] inv_init) as [done [I _]].
    exists done. eapply stable_accepted_topo; eassumption.
  Qed.

  Theorem any_order_complete : forall m,
    closed -> reach init m -> stable m -> (exists order, topo order) -> accepted m = true.
  Proof.
    intros m CL R S [order T]. destruct (reach_inv _ _ R [] inv_init) as [done [I _]].
    eapply all_fired_accepted; [eassumption|]. eapply topo_stable_all_fired; eassumption.
  Qed.

  (* ------------------------------------------------------------------ the model's run *)
  Lemma process1_reach : forall m k, In k keys -> reach m (dag_process1 ps m k).
  Proof.
    intros m k K. rewrite process1_fire. destruct (Z.eqb (zget k m) 0) eqn:E; [|apply reach_refl].
    apply Z.eqb_eq in E. eapply reach_fire; [eassumption|assumption|apply reach_refl].
  Qed.

  Lemma sweep_reach_gen : forall l m, (forall k, In k l -> In k keys) -> reach m (fold_left (dag_process1 ps) l m).
  Proof.
    induction l as [|k l IH]; intros m H; simpl; [apply reach_refl|].
    eapply reach_trans; [apply process1_reach; apply H; left; reflexivity|].
    apply IH. intros x X. apply H. right; assumption.
  Qed.

  Lemma sweep_reach : forall m, reach m (dag_sweep ps keys m).
  Proof. intros m. unfold dag_sweep. apply sweep_reach_gen. auto. Qed.

  Lemma iter_reach : forall n m, reach m (Nat.iter n (dag_sweep ps keys) m).
  Proof.
    induction n as [|n IH]; intros m; simpl; [apply reach_refl|].
    eapply reach_trans; [apply IH|apply sweep_reach].
  Qed.

  (* a sweep over a stable state changes nothing *)
  Lemma sweep_stable_gen : forall l m, (forall k, In k l -> zget k m <> 0%Z) -> fold_left (dag_process1 ps) l m = m.
  Proof.
    induction l as [|k l IH]; intros m H; simpl; [reflexivity|].
    rewrite process1_fire. destruct (Z.eqb (zget k m) 0) eqn:E.
    - apply Z.eqb_eq in E. exfalso. apply (H k (or_introl eq_refl)). assumption.
    - apply IH. intros x X. apply H. right; assumption.
  Qed.

  Lemma sweep_stable : forall m, stable m -> dag_sweep ps keys m = m.
  Proof. intros m S. unfold dag_sweep. apply sweep_stable_gen. intros k K. apply S; assumption. Qed.

  Lemma iter_stable : forall n m, stable m -> Nat.iter n (dag_sweep ps keys) m = m.
  Proof. induction n as [|n IH]; intros m S; simpl; [reflexivity|]. rewrite IH by assumption. apply sweep_stable; assumption. Qed.

  (* a sweep over a state with a ready node fires at least one node *)
  Lemma sweep_progress_gen : forall l m done,
    Inv done m -> (forall k, In k l -> In k keys) ->
    exists done', Inv done' (fold_left (dag_process1 ps) l m) /\
      (List.length done <= List.length done')%nat /\
      ((exists k, In k l /\ zget k m = 0%Z) -> (List.length done < List.length done')%nat).
  Proof.
    induction l as [|h l IH]; intros m done I H; simpl.
    - exists done. split; [assumption|]. split; [lia|]. intros [k [[] _]].
    - assert (Hl : forall k, In k l -> In k keys) by (intros x X; apply H; right; assumption).
      rewrite process1_fire. destruct (Z.eqb (zget h m) 0) eqn:E.
      + apply Z.eqb_eq in E.
        pose proof (inv_fire done m h I (H h (or_introl eq_refl)) E) as I'.
        destruct (IH _ _ I' Hl) as [done' [I'' [L _]]].
        exists done'. rewrite app_length in L. simpl in L. split; [assumption|]. split; lia.
      + destruct (IH _ _ I Hl) as [done' [I'' [L P]]].
        exists done'. split; [assumption|]. split; [assumption|].
        intros [k [[K|K] Z0]]; [subst; apply Z.eqb_neq in E; contradiction|].
        apply P. exists k. auto.
  Qed.

  Definition ready (m : list (string * Z)) : bool := existsb (fun k => Z.eqb (zget k m) 0) keys.

  Lemma ready_false_stable : forall m, ready m = false -> stable m.
  Proof.
    intros m H k K C. unfold ready in H.
    assert (X : existsb (fun k => Z.eqb (zget k m) 0) keys = true).
    { apply existsb_exists. exists k. split; [assumption|apply Z.eqb_eq; assumption]. }
    congruence.
  Qed.

  Lemma iter_settles : forall j m done,
    Inv done m -> (List.length keys <= j + List.length done)%nat ->
    stable (Nat.iter j (dag_sweep ps keys) m).
  Proof.
    induction j as [|j IH]; intros m done I L.
    - simpl. intros k K.
      assert (INC : incl keys done).
      { apply NoDup_length_incl; [apply (inv_nodup _ _ I)|simpl in L; lia|].
        intros x X. apply (inv_incl _ _ I); assumption. }
      rewrite (inv_val _ _ I k K). pose proof (proj2 (smem_In k done) (INC k K)) as E. rewrite E. lia.
    - destruct (ready m) eqn:R.
      + rewrite iter_succ_r'.
        destruct (sweep_progress_gen keys m done I (fun k K => K)) as [done' [I' [_ P]]].
        apply (IH _ done' I').
        assert (LT : (List.length done < List.length done')%nat).
        { apply P. unfold ready in R. apply existsb_exists in R. destruct R as [k [K Z0]].
          exists k. split; [assumption|apply Z.eqb_eq; assumption]. }
        lia.
      + rewrite iter_stable by (apply ready_false_stable; assumption). apply ready_false_stable; assumption.
  Qed.

  Lemma final_reach : reach init (dag_final ps keys).
  Proof. unfold dag_final. apply iter_reach. Qed.

  Lemma final_stable : stable (dag_final ps keys).
  Proof. unfold dag_final. apply (iter_settles _ _ [] inv_init). simpl. lia. Qed.

  Definition validate : bool := accepted (dag_final ps keys).

  Theorem validate_sound : validate = true -> exists order, topo order.
  Proof. apply any_order_sound; [apply final_reach|apply final_stable]. Qed.

  Theorem validate_complete : closed -> (exists order, topo order) -> validate = true.
  Proof. intros CL. apply any_order_complete; [assumption|apply final_reach|apply final_stable]. Qed.

  (* every run, in whatever order Go's map iteration fires the nodes, ends with the model's verdict *)
  Theorem validate_order_independent : forall m,
    closed -> reach init m -> stable m -> accepted m = validate.
  Proof.
    intros m CL R S. destruct (accepted m) eqn:A.
    - symmetry. apply validate_complete; [assumption|]. eapply any_order_sound; eassumption.
    - destruct validate eqn:V; [|reflexivity].
      rewrite <- A. apply any_order_complete; try assumption. apply validate_sound; assumption.
  Qed.

  (* a topological order rules out every cycle, in particular self loops and 2-cycles *)
  Lemma topo_irrefl : forall order a, topo order -> In a keys -> ~ In (a, a) ps.
  Proof.
    intros order a [T1 [T2 T3]] K P. destruct (T3 a a P K K) as [l1 [l2 [E I]]].
    rewrite E in T1. apply NoDup_remove_2 in T1. apply T1. apply in_or_app. left; assumption.
  Qed.
End Dag.
