(* Proofs/StreamWeaveRun.v — property C19: the run theorems with the callback copies woven in
   (Proofs/StreamWeave.v applied to the history of a finished run of Model/StreamResume.v). *)
From Eino Require Import Base.Util Model.StreamAcct Proofs.StreamAcct Model.StreamRun Proofs.StreamRun
  Model.StreamResume Proofs.StreamResume Proofs.StreamWeave.
Open Scope N_scope.

Lemma every_stream_released_with_callbacks_s :
  forall (isites osites : handle -> nat) nxt g cfg start tms out dropped st s',
  NoDup (all_keys g) -> ~ In kEND (all_keys g) ->
  (g_dag g = true -> covered g = true /\ all_finished g st = true) ->
  (g_dag g = false -> dropped = [] /\ g_eager g = false) ->
  run_int g cfg start tms = Ok (SDone out dropped st) ->
  consume out (rs_store st) = Ok s' ->
  let W := weave isites osites nxt (s_hist s') in
  (forall h, created W h -> released W h)
  /\ (forall h, created (s_hist s') h -> released W h)
  /\ (forall h, created W h -> created (s_hist s') h \/ nxt <= h).
Proof.
  intros isites osites nxt g cfg start tms out dropped st s' Hn He Hd Hp H Hc W.
  destruct (every_stream_released_resumed_s g cfg start tms out dropped st s' Hn He Hd Hp H Hc) as (_ & Hrel).
  split; [|split].
  - apply weave_all_released. exact Hrel.
  - intros h Hh. apply weave_released. now apply Hrel.
  - intros h Hh. now apply (weave_names_ge isites osites (s_hist s') nxt h).
Qed.

Lemma every_stream_drained_or_closed_with_callbacks_s :
  forall (drains : handle -> bool) (isites osites : handle -> nat) nxt g cfg start tms out dropped st s',
  NoDup (all_keys g) -> ~ In kEND (all_keys g) ->
  (g_dag g = true -> covered g = true /\ all_finished g st = true) ->
  (g_dag g = false -> dropped = [] /\ g_eager g = false) ->
  run_int g cfg start tms = Ok (SDone out dropped st) ->
  consume out (rs_store st) = Ok s' ->
  let W := weave isites osites nxt (s_hist s') in
  forall h, created W h -> sclosed drains W h \/ sdrained drains W h.
Proof.
  intros drains isites osites nxt g cfg start tms out dropped st s' Hn He Hd Hp H Hc W h Hh.
  apply released_closed_or_drained.
  destruct (every_stream_released_with_callbacks_s isites osites nxt g cfg start tms out dropped st s' Hn He Hd Hp H Hc) as (Hall & _).
  apply Hall. exact Hh.
Qed.
