(* Proofs/InterruptRerunProgress.v — property C05: PROGRESS of the run with rerun nodes in the model the
   correspondence evaluates (flat graph in any-predecessor mode, lambda nodes with arbitrary rerun tables).
   The budget of aborted attempts is what the rerun tables still hold: for every node, the listed attempt
   numbers greater than the number of executions of the node so far. (owner: C05) *)
From Eino Require Import Base.Util Model.Graph Model.RunLoop Model.Interrupt
     Proofs.DagChan Proofs.RunLoop Proofs.RunLoopRerun Proofs.InterruptChan Proofs.InterruptChanPregel Proofs.Interrupt
     Proofs.InterruptRerun.
From Coq Require Import Permutation.
Open Scope N_scope.

Definition att_of (e : env) (k : N) : N := match nlist_get k (e_att e) with Some a => a | None => 0 end.
(* the entries of a rerun table still ahead of a node that has run [a] times *)
Definition ahead (a : N) (l : list N) : nat := List.length (filter (fun x => N.ltb a x) l).
Fixpoint table_budget (T : list (N * list N)) (e : env) : nat :=
  match T with
  | [] => O
  | (k, l) :: T' => (ahead (att_of e k) l + table_budget T' e)%nat
  end.
Definition mbudget (g : gspec) (e : env) : nat := table_budget (gs_rerun g) e.

Lemma ahead_mono : forall a l, (ahead (a + 1) l <= ahead a l)%nat.
Proof.
  unfold ahead. induction l as [|x l IH]; simpl; [lia|].
  destruct (N.ltb (a + 1) x) eqn:E1; destruct (N.ltb a x) eqn:E2; simpl; try lia.
  apply N.ltb_lt in E1. apply N.ltb_ge in E2. lia.
Qed.

Lemma ahead_strict : forall a l, memN (a + 1) l = true -> (ahead (a + 1) l + 1 <= ahead a l)%nat.
Proof.
  unfold ahead, memN. induction l as [|x l IH]; simpl; intros H; [discriminate|].
  pose proof (ahead_mono a l) as Hm. unfold ahead in Hm.
  destruct (N.eqb (a + 1) x) eqn:Ex.
  - apply N.eqb_eq in Ex. subst x. rewrite N.ltb_irrefl.
    replace (N.ltb a (a + 1)) with true by (symmetry; apply N.ltb_lt; lia). simpl. lia.
  - simpl in H. specialize (IH H).
    destruct (N.ltb (a + 1) x) eqn:E1; destruct (N.ltb a x) eqn:E2; simpl; try lia.
    apply N.ltb_lt in E1. apply N.ltb_ge in E2. lia.
Qed.

Section ProgressInst.
  Variable g : gspec.

  Lemma att_after : forall k v e k',
    att_of (snd (lambda_exec g k v e)) k' = if N.eqb k' k then att_of e k + 1 else att_of e k'.
  Proof.
    intros k v e k'. unfold lambda_exec, att_of; simpl. rewrite alookup_ainsert.
    destruct (N.eqb k' k) eqn:E; [|reflexivity].
    destruct (nlist_get k (e_att e)); reflexivity.
  Qed.

  Lemma table_budget_mono : forall T k v e, (table_budget T (snd (lambda_exec g k v e)) <= table_budget T e)%nat.
  Proof.
    induction T as [|[k' l] T IH]; intros k v e; cbn [table_budget]; [lia|].
    specialize (IH k v e). rewrite att_after.
    destruct (N.eqb k' k) eqn:E; [|lia].
    apply N.eqb_eq in E. subst k'. pose proof (ahead_mono (att_of e k) l). lia.
  Qed.

  Lemma table_budget_step : forall T k v e,
    (table_budget T (snd (lambda_exec g k v e)) +
     (match nlist_get k T with Some l => if memN (att_of e k + 1) l then 1 else 0 | None => 0 end)
     <= table_budget T e)%nat.
  Proof.
    induction T as [|[k' l] T IH]; intros k v e; cbn [table_budget nlist_get]; [lia|].
    rewrite att_after. rewrite (N.eqb_sym k k').
    destruct (N.eqb k' k) eqn:E.
    - apply N.eqb_eq in E. subst k'. pose proof (table_budget_mono T k v e) as Hm.
      destruct (memN (att_of e k + 1) l) eqn:Hmem.
      + pose proof (ahead_strict (att_of e k) l Hmem). lia.
      + pose proof (ahead_mono (att_of e k) l). lia.
    - specialize (IH k v e). lia.
  Qed.

  Lemma lam_ex_budget : forall k cp v e r e', lam_ex g k cp v e = (r, e') ->
    (mbudget g e' + (if is_rerun r then 1 else 0) <= mbudget g e)%nat.
  Proof.
    intros k cp v e r e' H. unfold lam_ex in H.
    pose proof (table_budget_step (gs_rerun g) k v e) as Hs. rewrite H in Hs. simpl in Hs.
    unfold mbudget. unfold lambda_exec in H. inversion H as [[Hr He]]. clear H.
    unfold att_of in Hs.
    destruct (nlist_get k (gs_rerun g)) as [l|]; simpl.
    - destruct (nlist_get k (e_att e)) as [a|]; simpl in *; rewrite He.
      + destruct (memN (a + 1) l); simpl; lia.
      + destruct (memN 1 l); simpl; lia.
    - simpl in *. rewrite He. lia.
  Qed.
End ProgressInst.

Section ProgressModel.
  Variable g : gspec.
  Hypothesis H_ok : rerun_ok g.
  Let gr := gs_graph g.

  (* a run of the model with rerun tables and interrupt points that is still interrupted after its last call has
     made at most  (executions of the uninterrupted run) + (table entries still ahead)  further calls *)
  Lemma rerun_progress_model_l : forall gi x e n fuelU cs0 vU lU cos e' cos' co,
    g_mode gr = Pregel -> g_eager gr = false ->
    init_chans value gr = Ok cs0 ->
    start VNil (ifold gr) (igetr gr) (pre_fn g) (execU (SCP := ncp) (SINFO := ninfo) (lam_body g)) [] [] fuelU
          cs0 (gs0 g) x tt = (ODone vU, lU, tt) ->
    (fuelU <= seg_fuel gr)%nat ->
    drive (fun c : cpt => c) (fun c => Some c) (seg_fresh (lam_ex g) gi g x) (seg_resumed (lam_ex g) gi g)
          (fun _ e => e) true n 0 (fun _ s => s) None e = (cos, e') ->
    cos = cos' ++ [co] ->
    is_interrupt (co_out co) ->
    (n <= List.length lU + mbudget g e)%nat.
  Proof.
    intros gi x e n fuelU cs0 vU lU cos e' cos' co Hm He Hi HU Hle Hd Hcos Hint.
    rewrite (drive_ext (fun c : cpt => c) (fun c => Some c) (seg_fresh (lam_ex g) gi g x)
               (start VNil (ifold gr) (igetr gr) (pre_fn g) (lam_ex g)
                      (gs_before g) (gs_after g) (seg_fuel gr) cs0 (gs0 g) x)
               (seg_resumed (lam_ex g) gi g)
               (resume VNil (ifold gr) (igetr gr) (pre_fn g) (lam_ex g)
                       (gs_before g) (gs_after g) (seg_fuel gr))) in Hd.
    - assert (Hex : forall k v e0, (exists e1, lam_ex g k None v e0 = (TDone (lam_body g k v), e1)) \/
                                   (memN k (gs_st g) = true /\ exists e1, lam_ex g k None v e0 = (TRerun, e1)))
        by (intros; apply lambda_exec_shape; exact H_ok).
      assert (H1 : forall cs l cs', pinv cs -> ifold gr cs l = Ok cs' -> pinv cs')
        by (intros; eapply (ifold_pinv gr); eauto).
      assert (H2 : forall cs cs' r, pinv cs -> igetr gr cs = Ok (cs', r) -> pinv cs')
        by (intros; eapply (igetr_pinv gr); eauto).
      assert (H3 : forall cs, pinv cs -> ifold gr cs [] = Ok cs) by (intros; apply ifold_nil).
      assert (H4 : forall cs cs' r, pinv cs -> igetr gr cs = Ok (cs', r) -> igetr gr cs' = Ok (cs', [])).
      { intros cs cs' r _ Hg. eapply igetr_idem; eauto. unfold chan_inv. fold gr. rewrite Hm. exact I. }
      assert (H5 : forall cs cs' r, pinv cs -> igetr gr cs = Ok (cs', r) -> NoDup (map fst r))
        by (intros; eapply (igetr_nodup gr); eauto).
      assert (H6 : forall cs A B cs1, pinv cs -> ifold gr cs A = Ok cs1 -> ifold gr cs (A ++ B) = ifold gr cs1 B)
        by (intros; apply ifold_app_pregel; auto).
      assert (H7 : forall cs A B r, pinv cs -> ifold gr cs (A ++ B) = Ok r -> exists cs1, ifold gr cs A = Ok cs1)
        by (intros; eapply ifold_prefix_pregel; eauto).
      assert (H8 : forall cs A B r, pinv cs -> NoDup (map fst A) -> Permutation A B ->
                   ifold gr cs A = Ok r -> ifold gr cs B = Ok r)
        by (intros; eapply ifold_perm_pregel; eauto).
      assert (Hser : forall c : cpt, (fun c : cpt => Some c) ((fun c : cpt => c) c) = Some c) by reflexivity.
      assert (Hp0 : pinv cs0) by (eapply init_chans_pinv; eauto).
      assert (Hg0 : has_state (gs0 g)) by (unfold gs0; destruct H_ok as [-> _]; eexists; reflexivity).
      exact (rerun_progress_l VNil (ifold gr) (igetr gr) (pre_fn g) (lam_body g) (fun k => memN k (gs_st g) = true)
               (lam_ex g) (gs_before g) (gs_after g) Hex pinv H1 H2 H3 H4 H5 H6 H7 H8
               has_state (pre_fn_has_state g) (pre_fn_rebuild g H_ok) (fun c : cpt => c) (fun c => Some c) Hser
               (seg_fuel gr) cs0 (gs0 g) x (mbudget g) (lam_ex_budget g)
               fuelU vU lU n e cos e' cos' co Hp0 Hg0 HU Hle Hd Hcos Hint).
    - intros e0. apply (seg_fresh_batch (lam_ex g) gi g cs0 x e0 He Hi).
    - intros sm c e0. apply (seg_resumed_batch (lam_ex g) gi g sm c e0 He).
  Qed.
End ProgressModel.
