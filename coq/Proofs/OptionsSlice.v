(* Proofs/OptionsSlice.v — property C16, F-C16a: the repaired DesignateNodeWithPath never writes
   memory that another Option can see; the old one did. *)
From Coq Require Import List Arith NArith Bool Lia.
Import ListNotations.
From Eino Require Import Base.GoSlice Proofs.CallbacksSlice Model.OptionsSlice.

(* For every growth policy: the derived option sees the base's paths followed by the new ones,
   and no array that existed before is written — every option built earlier (base, siblings,
   anything) reads exactly what it read before. *)
Lemma designate_go_spec pol h s ps :
  wf h s ->
  let r := designate_go pol h s ps in
  read (fst r) (snd r) = read h s ++ ps /\ wf (fst r) (snd r) /\
  keeps (length h) h (fst r) /\
  (forall t, wf h t -> read (fst r) t = read h t /\ wf (fst r) t).
Proof.
  intros W. unfold designate_go.
  destruct (make_spec h 0 (len s + length ps)) as [K0 [W0 [F0 [L0 C0]]]].
  set (m := make h 0 (len s + length ps)) in *.
  destruct (append_spec pol (fst m) (snd m) (read h s) W0) as [R1 W1].
  assert (Hle0 : len (snd m) <= cap (snd m)) by (destruct W0; assumption).
  assert (Hn0 : length h <= length (fst m)) by (destruct K0; assumption).
  destruct (append_frame pol (length h) (fst m) (snd m) (read h s) Hn0 Hle0 F0) as [K1 F1].
  set (a1 := append pol (fst m) (snd m) (read h s)) in *.
  destruct (append_spec pol (fst a1) (snd a1) ps W1) as [R2 W2].
  assert (Hle1 : len (snd a1) <= cap (snd a1)) by (destruct W1; assumption).
  assert (Hn1 : length h <= length (fst a1)).
  { destruct K1 as [L1 _]. lia. }
  destruct (append_frame pol (length h) (fst a1) (snd a1) ps Hn1 Hle1 F1) as [K2 F2].
  assert (K : keeps (length h) h (fst (append pol (fst a1) (snd a1) ps))).
  { eapply keeps_trans; [exact K0|]. eapply keeps_trans; [exact K1|exact K2]. }
  cbv zeta. split; [|split; [exact W2|split; [exact K|]]].
  - rewrite R2, R1. unfold read at 1. rewrite L0. reflexivity.
  - intros t Wt. split.
    + apply (keeps_read (length h) h _ t K Wt eq_refl).
    + apply (keeps_wf (length h) h _ t K Wt eq_refl).
Qed.

Lemma designate_v0_aliases :
  let '(h, o1, o2) := v0_script in
  read h o1 = [1; 2; 3; 5]%N /\ read h o2 = [1; 2; 3; 5]%N.
Proof. vm_compute. split; reflexivity. Qed.

Lemma designate_v0_refuted_l :
  ~ (forall pol h s ps t, wf h s -> wf h t ->
       read (fst (designate_v0 pol h s ps)) t = read h t).
Proof.
  intros H.
  (* the heap after o1 was built, x the base, o1 the option built from it *)
  set (st := let '(h0, s0) := make [] 0 0 in
             let '(h1, s1) := designate_v0 pol_double h0 s0 [1%N] in
             let '(h2, s2) := designate_v0 pol_double h1 s1 [2%N] in
             let '(h3, x)  := designate_v0 pol_double h2 s2 [3%N] in
             let '(h4, o1) := designate_v0 pol_double h3 x [4%N] in (h4, x, o1)).
  specialize (H pol_double (fst (fst st)) (snd (fst st)) [5%N] (snd st)).
  assert (W1 : wf (fst (fst st)) (snd (fst st))).
  { vm_compute. split; [lia|]. right. split; lia. }
  assert (W2 : wf (fst (fst st)) (snd st)).
  { vm_compute. split; [lia|]. right. split; lia. }
  specialize (H W1 W2). vm_compute in H. discriminate.
Qed.
