(* Proofs/StateTask.v — C11: the pipeline of the task manager's programs (Model/StateTask.v;
   Proofs/GenAgreeStateTask.v proves that the source, re-read on every run, is these programs): the
   pre-handler is called exactly once, on the task's input, and what it returns is what the node is
   called with; the post-handler is called exactly once, on the node's output, and what it returns is the
   task's output; a skipped pre-handler and a failed node call neither; a failing pre-handler fails the
   submit before the node is called.  And the transition system does the same with its registers. *)
From Eino Require Import Base.Util Model.StateLock Model.StateLockLTS Model.StateTask.

Section Pipeline.
  Variable X : Type.
  Variables (has_pre skip has_post : bool).
  Variable proc : tproc -> X -> X * bool.

  Notation texec := (texec X has_pre skip has_post proc).

  (* submit, then (unless submit failed) the executor, then the collection *)
  Definition run_task (x d : X) : tres X :=
    match texec submit_prog (mkTS x d false d false []) with
    | RFail st => RFail st
    | RRun st1 | RRet st1 =>
        match texec exec_prog st1 with
        | RFail st => RFail st
        | RRun st2 | RRet st2 => texec collect_prog st2
        end
    end.

  Definition pre_runs : bool := has_pre && negb skip.

  Theorem task_pipeline : forall x d,
    let x1 := if pre_runs then fst (proc TPre x) else x in
    let pre_call := if pre_runs then [(TPre, x)] else [] in
    if pre_runs && snd (proc TPre x) then
      exists st, run_task x d = RFail st /\ ts_calls st = [(TPre, x)]
    else
      exists st, run_task x d = RRet st /\ ts_in st = x1 /\
      if snd (proc TAction x1) then
        ts_err st = true /\ ts_out st = fst (proc TAction x1) /\ ts_calls st = pre_call ++ [(TAction, x1)]
      else if has_post then
        ts_out st = fst (proc TPost (fst (proc TAction x1))) /\
        ts_err st = snd (proc TPost (fst (proc TAction x1))) /\
        ts_calls st = pre_call ++ [(TAction, x1); (TPost, fst (proc TAction x1))]
      else
        ts_out st = fst (proc TAction x1) /\ ts_err st = false /\ ts_calls st = pre_call ++ [(TAction, x1)].
  Proof.
    intros x d. unfold run_task, pre_runs.
    destruct has_pre, skip, has_post; lazy;
      repeat match goal with
             | |- context [proc ?p ?a] => destruct (proc p a) as [? [|]]; lazy
             end; eexists; repeat split; reflexivity.
  Qed.
End Pipeline.

Section Link.
  Variables (S X : Type).

  (* the registers of the transition system: after a pre-handler the node's input is what the handler
     returned, after a post-handler the final output is what the handler returned, after a ProcessState
     callback the lambda goes on with what the callback returned *)
  Lemma handler_result_is_register : forall (x x' : X) (j : nat),
    after_cs X (set_x X (PReady x) x') = PPred x' /\
    after_cs X (set_x X (PDone x) x') = PFin x' /\
    after_cs X (set_x X (PRun x j) x') = PRun x' (Datatypes.S j).
  Proof. intros. repeat split; reflexivity. Qed.

  Variable gen : nat -> S.
  Variable hfun : kind -> N -> X -> S -> X * S.
  Variable lout : N -> X -> X.
  Variable mrg : list X -> X.
  Variable f : forest.
  Variable x0 : X.

  (* ... and the store step puts exactly the handler's result there *)
  Lemma store_sets_register : forall c i n J a p l k x o r,
    lookup S X f c i n = Some (J, a, mkNs p (Some (CsLoaded l))) ->
    next_cs X a p = Some k -> pos_x X p = Some x -> i_obj J = Some o -> nth_error (c_objs c) o = Some r ->
    pstep S X gen hfun lout mrg f x0 c (ChStore i n) =
    Some (set_inst S X (add_trace S X (set_obj S X c o (with_val S r (snd (hfun k (n_id a) x l))))
                                  (mkT o i a k x l (fst (hfun k (n_id a) x l)))) i
                   (set_ns S X J n (mkNs (set_x X p (fst (hfun k (n_id a) x l))) (Some CsStored)))).
  Proof.
    intros c i n J a p l k x o r Hl Hk Hx Ho Hr. cbn [pstep]. rewrite Hl, Hk, Hx, Ho, Hr.
    destruct (hfun k (n_id a) x l); reflexivity.
  Qed.
End Link.
