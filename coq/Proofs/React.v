(* Proofs/React.v — lemmas about Model/React.v (property C18). *)
From Eino Require Import Base.Util Model.Tools Model.React.
Local Open Scope string_scope.

Definition nonempty {A} (l : list A) : bool := match l with [] => false | _ => true end.

(* ---- chunk concatenation and the checkers ------------------------------------------------ *)
Lemma upsert_nonempty : forall f acc l, upsert_frag f acc = Some l -> l <> [].
Proof.
  intros f acc. revert f. induction acc as [|g acc IH]; intros f l H; simpl in H.
  - inversion H. discriminate.
  - destruct (N.ltb (f_index f) (f_index g)).
    + inversion H. discriminate.
    + destruct (N.eqb (f_index f) (f_index g)).
      * destruct (merge_field (f_id g) (f_id f)); try discriminate.
        destruct (merge_field (f_name g) (f_name f)); try discriminate.
        inversion H. discriminate.
      * destruct (upsert_frag f acc); simpl in H; try discriminate. inversion H. discriminate.
Qed.

Lemma merge_frags_nonempty : forall fs acc l,
  merge_frags fs acc = Some l -> nonempty l = nonempty fs || nonempty acc.
Proof.
  induction fs as [|f fs IH]; intros acc l H; simpl in H.
  - inversion H. reflexivity.
  - destruct (upsert_frag f acc) as [acc'|] eqn:E; try discriminate.
    rewrite (IH _ _ H). apply upsert_nonempty in E. destruct acc'; [congruence|].
    simpl. rewrite orb_true_r. reflexivity.
Qed.

Lemma nonempty_flat_map : forall cs, nonempty (flat_map k_frags cs) = existsb has_frags cs.
Proof.
  induction cs as [|c cs IH]; simpl; auto. unfold has_frags at 1.
  destruct (k_frags c); simpl; auto.
Qed.

(* a checker that reads the whole stream is exact on every chunking *)
Lemma exact_checker_exact : forall cs content calls,
  concat_chunks cs = Some (content, calls) -> exact_checker cs = nonempty calls.
Proof.
  intros cs content calls H. unfold concat_chunks in H.
  destruct (merge_frags (flat_map k_frags cs) []) as [fs|] eqn:E; try discriminate.
  inversion H; subst. apply merge_frags_nonempty in E. rewrite orb_false_r in E.
  unfold exact_checker. rewrite <- nonempty_flat_map. rewrite <- E. destruct fs; reflexivity.
Qed.

Lemma whole_chunk_frags : forall content calls, has_frags (whole_chunk content calls) = nonempty calls.
Proof. intros. unfold has_frags, whole_chunk. simpl. destruct calls; reflexivity. Qed.

(* on a whole message (Generate) both checkers are exact *)
Lemma default_checker_whole : forall content calls,
  default_checker [whole_chunk content calls] = nonempty calls.
Proof.
  intros. simpl. rewrite whole_chunk_frags. destruct calls; simpl; auto.
  destruct (String.eqb content ""); reflexivity.
Qed.

Lemma exact_checker_whole : forall content calls,
  exact_checker [whole_chunk content calls] = nonempty calls.
Proof. intros. unfold exact_checker. simpl. rewrite whole_chunk_frags. apply orb_false_r. Qed.

(* ---- traces --------------------------------------------------------------------------- *)
Lemma inputs_tr_input : forall h t, t_inputs (tr_input h t) = h :: t_inputs t. Proof. reflexivity. Qed.
Lemma inputs_tr_round : forall c t, t_inputs (tr_round c t) = t_inputs t. Proof. reflexivity. Qed.
Lemma rounds_tr_input : forall h t, t_rounds (tr_input h t) = t_rounds t. Proof. reflexivity. Qed.
Lemma rounds_tr_round : forall c t, t_rounds (tr_round c t) = c :: t_rounds t. Proof. reflexivity. Qed.
Lemma out_tr_input : forall h t, t_out (tr_input h t) = t_out t. Proof. reflexivity. Qed.
Lemma out_tr_round : forall c t, t_out (tr_round c t) = t_out t. Proof. reflexivity. Qed.
Lemma inputs_tr_emit : forall ms t, t_inputs (tr_emit ms t) = t_inputs t. Proof. reflexivity. Qed.
Lemma rounds_tr_emit : forall ms t, t_rounds (tr_emit ms t) = t_rounds t. Proof. reflexivity. Qed.
Lemma out_tr_emit : forall ms t, t_out (tr_emit ms t) = t_out t. Proof. reflexivity. Qed.
Lemma emits_tr_emit : forall ms t, t_emits (tr_emit ms t) = (ms ++ t_emits t)%list. Proof. reflexivity. Qed.
Lemma emits_tr_input : forall h t, t_emits (tr_input h t) = t_emits t. Proof. reflexivity. Qed.
Lemma emits_tr_round : forall c t, t_emits (tr_round c t) = t_emits t. Proof. reflexivity. Qed.

Section ReactProofs.
  Variable tn : list call -> res (list tmsg).
  Variable tns : list call -> res (list string * list emitted * option N).
  Variable rd : string -> bool.
  Variable rd_nonempty : bool.
  Variable modifier : list msg -> list msg.
  Variable visible : call -> bool.

  Notation react_spec := (react_spec tn rd rd_nonempty modifier visible).
  Notation agent_loop := (agent_loop tn tns rd rd_nonempty modifier visible).
  Notation agent_run := (agent_run tn tns rd rd_nonempty modifier visible).

  (* the position of the first call to a return-directly tool, if the agent has a return-directly set *)
  Definition rd_index_of (calls : list call) : option nat :=
    if rd_nonempty then rd_call_index rd calls else None.

  (* with enough budget the answer is returned *)
  Fixpoint steps_needed (script : list step) : nat :=
    match script with
    | SMsg _ [] _ :: _ => 1
    | SMsg _ calls _ :: rest => match rd_index_of calls with None => 2 + steps_needed rest | Some _ => 3 end
    | _ => 1
    end.

  Lemma spec_unfold_calls : forall content calls chunks script b2 hist,
    calls <> [] ->
    react_spec (SMsg content calls chunks :: script) (S (S b2)) hist =
    tr_input (modifier hist)
      (tr_emit [assistant content calls]
      (tr_round calls
         match tn calls with
         | Ok results =>
             tr_emit (emitted_results visible calls results)
             match rd_index_of calls with
             | None =>
               react_spec script b2 (hist ++ assistant content calls :: map tool_msg results)
             | Some i =>
               match b2 with
               | O => tr_fail EStepLimit
               | S _ =>
                   match nth_error results i with
                   | Some r => tr_final (tool_msg r)
                   | None => tr_fail ENoDirect
                   end
               end
             end
         | r => tr_fail (tools_err r)
         end)).
  Proof. intros. destruct calls; [congruence|]. reflexivity. Qed.

  Lemma spec_unfold_calls_1 : forall content calls chunks script hist,
    calls <> [] ->
    react_spec (SMsg content calls chunks :: script) 1 hist
    = tr_input (modifier hist) (tr_emit [assistant content calls] (tr_fail EStepLimit)).
  Proof. intros. destruct calls; [congruence|]. reflexivity. Qed.

  Lemma steps_needed_calls : forall content calls chunks rest,
    calls <> [] ->
    steps_needed (SMsg content calls chunks :: rest)
    = match rd_index_of calls with None => 2 + steps_needed rest | Some _ => 3 end.
  Proof. intros. destruct calls; [congruence|]. reflexivity. Qed.

  (* a scripted reply is handled exactly in mode [md] by [checker]: what is delivered
     downstream is the scripted message, and the checker says "tool calls" iff it has some *)
  Definition step_exact (checker : list chunk -> bool) (md : mode) (s : step) : Prop :=
    match s with
    | SFail => True
    | SMsg content calls chunks =>
        delivered md content calls chunks = Some (assistant content calls)
        /\ checker (emitted_chunks md content calls chunks) = nonempty calls
    end.

  (* the tools node's two forms agree on the calls of a reply: in Stream mode what the consumers
     of its output stream obtain - the position-wise concatenation of the frames for the chat node,
     the frame-by-frame filter of direct_return at the return-directly position - is what Invoke
     returns resp. the message at that position; and the two forms fail alike, when the tools
     are called (a tool whose stream fails after it was opened is outside: streams are lazy, the
     failure reaches the agent one node later - or its caller -, so a run at its step limit ends
     with the step-limit error in Stream mode and with the tool's error in Generate mode; both
     fail).  Generate mode uses Invoke itself.  (That compose.ToolsNode satisfies this is property C17:
     tools_node_stream_exact in Proofs/ReactStream.v derives it from C17's theorems for the model of
     the tools node that the correspondence check runs.) *)
  Definition tools_exact (md : mode) (calls : list call) : Prop :=
    match md with
    | Generate => True
    | Stream =>
        match tn calls with
        | Ok results =>
            exists ids em, tns calls = Ok (ids, em, None)
              /\ tout_results (TFrames ids em None) = Ok results
              /\ forall i, rd_index_of calls = Some i -> tout_direct i (TFrames ids em None) = Ok (nth_error results i)
        | r => match tns calls with
               | Ok _ => False
               | r' => @tools_err (list tmsg) r = @tools_err (list string * list emitted * option N) r'
               end
        end
    end.

  Definition reply_exact (checker : list chunk -> bool) (md : mode) (s : step) : Prop :=
    step_exact checker md s
    /\ match s with SMsg _ calls _ => calls <> [] -> tools_exact md calls | SFail => True end.

  (* ---- the graph-level loop refines the specification ---- *)
  Lemma tools_round : forall md calls, tools_exact md calls ->
    match tn calls with
    | Ok results =>
        exists o, tools_out tn tns md calls = Ok o /\ tout_results o = Ok results
                  /\ forall i, rd_index_of calls = Some i -> tout_direct i o = Ok (nth_error results i)
    | r => match tools_out tn tns md calls with
           | Ok _ => False
           | r' => @tools_err tout r' = @tools_err (list tmsg) r
           end
    end.
  Proof.
    intros md calls H. destruct md; simpl in *.
    - destruct (tn calls) as [results|e|]; simpl; auto.
      exists (TWhole results). repeat split; auto.
    - destruct (tn calls) as [results|e|].
      + destruct H as [ids [em [H1 [H2 H3]]]]. exists (TFrames ids em None). rewrite H1. auto.
      + destruct (tns calls) as [p|e'|]; simpl in *; auto.
      + destruct (tns calls) as [p|e'|]; simpl in *; auto.
  Qed.

  Lemma loop_refines : forall checker md script,
    Forall (reply_exact checker md) script ->
    forall fuel h0 rid input,
      agent_loop checker md fuel script (TChat (Ok input)) (mkState h0 rid)
      = react_spec script fuel (h0 ++ input).
  Proof.
    intros checker md. induction script as [|s script IH]; intros HF fuel h0 rid input.
    - destruct fuel; reflexivity.
    - inversion HF as [|? ? Hs HF']; subst.
      destruct fuel as [|b1]; [reflexivity|]. simpl.
      destruct s as [|content calls chunks]; [reflexivity|].
      destruct Hs as [[Hd Hc] Ht]. rewrite Hd, Hc. f_equal. f_equal.
      destruct calls as [|c0 calls']; [reflexivity|].
      remember (c0 :: calls') as calls. assert (Hne : nonempty calls = true) by (subst; reflexivity).
      rewrite Hne. replace (match calls with [] => tr_final (assistant content []) | _ :: _ => _ end)
        with (match b1 with
              | O => tr_fail EStepLimit
              | S b2 =>
                  tr_round calls
                    match tn calls with
                    | Ok results =>
                        tr_emit (emitted_results visible calls results)
                        match (if rd_nonempty then rd_call_index rd calls else None) with
                        | None =>
                          react_spec script b2 ((h0 ++ input) ++ assistant content calls :: map tool_msg results)
                        | Some i =>
                          match b2 with
                          | O => tr_fail EStepLimit
                          | S _ =>
                              match nth_error results i with
                              | Some r => tr_final (tool_msg r)
                              | None => tr_fail ENoDirect
                              end
                          end
                        end
                    | r => tr_fail (tools_err r)
                    end
              end) by (subst; reflexivity).
      destruct b1 as [|b2]; [reflexivity|]. simpl. f_equal.
      assert (Hne' : calls <> []) by (subst; discriminate).
      pose proof (tools_round md calls (Ht Hne')) as Hr.
      destruct (tn calls) as [results|e|].
      + destruct Hr as [o [Ho [Hres Hdir]]]. rewrite Ho, Hres. cbn [res_map]. f_equal.
        unfold rd_index_of in Hdir.
        destruct rd_nonempty.
        * destruct (rd_call_index rd calls) as [i|] eqn:E.
          -- destruct b2; [reflexivity|]. simpl. rewrite (Hdir i eq_refl). reflexivity.
          -- rewrite (IH HF'). rewrite <- app_assoc. reflexivity.
        * rewrite (IH HF'). rewrite <- app_assoc. reflexivity.
      + destruct (tools_out tn tns md calls) as [o|e'|]; [destruct Hr| |]; simpl in *; congruence.
      + destruct (tools_out tn tns md calls) as [o|e'|]; [destruct Hr| |]; simpl in *; congruence.
  Qed.

  Theorem agent_refines_spec : forall checker md script max_steps input,
    Forall (reply_exact checker md) script ->
    agent_run checker md max_steps script input = react_spec script max_steps input.
  Proof.
    intros. unfold React.agent_run. rewrite loop_refines by auto. reflexivity.
  Qed.

  (* Generate: any checker that is exact on whole messages (both real ones are) *)
  Lemma generate_steps_exact : forall checker script,
    (forall content calls, checker [whole_chunk content calls] = nonempty calls) ->
    Forall (reply_exact checker Generate) script.
  Proof.
    intros checker script H. apply Forall_forall. intros s _. destruct s; split; simpl; auto.
  Qed.

  Theorem generate_refines_spec : forall checker script max_steps input,
    (forall content calls, checker [whole_chunk content calls] = nonempty calls) ->
    agent_run checker Generate max_steps script input = react_spec script max_steps input.
  Proof. intros. apply agent_refines_spec. apply generate_steps_exact. auto. Qed.

  (* the chunks of every scripted reply concatenate to the reply *)
  Definition chunking_valid (s : step) : Prop :=
    match s with
    | SFail => True
    | SMsg content calls chunks => concat_chunks chunks = Some (content, calls)
    end.
  (* checker_exact: on the chunks of every scripted reply the checker says "tool calls" iff there are some *)
  Definition checker_exact (checker : list chunk -> bool) (s : step) : Prop :=
    match s with
    | SFail => True
    | SMsg content calls chunks => checker chunks = nonempty calls
    end.

  (* the streamed form of the tools node agrees with the invoked one on the calls of every reply *)
  Definition tools_stream_exact (s : step) : Prop :=
    match s with
    | SFail => True
    | SMsg _ calls _ => calls <> [] -> tools_exact Stream calls
    end.

  Theorem generate_stream_agree_gen : forall checker script max_steps input,
    (forall content calls, checker [whole_chunk content calls] = nonempty calls) ->
    Forall chunking_valid script ->
    Forall (checker_exact checker) script ->
    Forall tools_stream_exact script ->
    agent_run checker Stream max_steps script input = agent_run checker Generate max_steps script input.
  Proof.
    intros checker script max_steps input Hw Hv He Ht.
    rewrite generate_refines_spec by auto. apply agent_refines_spec.
    rewrite Forall_forall in *. intros s Hs. specialize (Hv s Hs). specialize (He s Hs). specialize (Ht s Hs).
    destruct s; [split; simpl; auto|]. split; [|exact Ht]. simpl in *. rewrite Hv. split; auto.
  Qed.

  (* ... in particular with a checker that reads the whole stream *)
  Theorem generate_stream_agree_exact_checker : forall script max_steps input,
    Forall chunking_valid script ->
    Forall tools_stream_exact script ->
    agent_run exact_checker Stream max_steps script input
    = agent_run exact_checker Generate max_steps script input.
  Proof.
    intros script max_steps input Hv Ht. apply generate_stream_agree_gen; auto.
    - apply exact_checker_whole.
    - rewrite Forall_forall in *. intros s Hs. specialize (Hv s Hs). destruct s; simpl in *; auto.
      eapply exact_checker_exact; eauto.
  Qed.

  (* ---- corollaries, stated on the specification ---- *)

  (* the history after k complete rounds: original messages, then every earlier assistant
     message followed by its tool results, in order *)
  Fixpoint history (script : list step) (k : nat) (hist : list msg) : option (list msg) :=
    match k with
    | O => Some hist
    | S k' =>
        match script with
        | SMsg content calls _ :: script' =>
            match tn calls with
            | Ok results => history script' k' (hist ++ assistant content calls :: map tool_msg results)
            | _ => None
            end
        | _ => None
        end
    end.

  Theorem kth_input : forall script budget hist k h,
    nth_error (t_inputs (react_spec script budget hist)) k = Some h ->
    exists h', history script k hist = Some h' /\ h = modifier h'.
  Proof.
    induction script as [|s script IH]; intros budget hist k h H.
    - destruct budget; simpl in H.
      + destruct k; discriminate.
      + destruct k as [|[|]]; simpl in H; try discriminate. inversion H. exists hist. auto.
    - destruct budget as [|b1]; simpl in H; [destruct k; discriminate|].
      destruct k as [|k'].
      + simpl in H. inversion H. exists hist. auto.
      + simpl in H. destruct s as [|content calls chunks]; [destruct k'; discriminate|].
        destruct calls as [|c0 calls']; [destruct k'; discriminate|].
        remember (c0 :: calls') as calls.
        destruct b1 as [|b2]; [destruct k'; discriminate|].
        rewrite inputs_tr_emit, inputs_tr_round in H. simpl.
        destruct (tn calls) as [results| |]; try (destruct k'; discriminate).
        rewrite inputs_tr_emit in H. simpl in H. destruct (if rd_nonempty then rd_call_index rd calls else None) as [i|].
        * destruct b2; [destruct k'; discriminate|].
          destruct (nth_error results i); destruct k'; discriminate.
        * apply (IH _ _ _ _ H).
  Qed.

  (* the answer: the first plain message, or the result of the first return-directly call *)
  Inductive answers : list step -> msg -> Prop :=
  | ans_plain : forall content chunks rest,
      answers (SMsg content [] chunks :: rest) (assistant content [])
  | ans_direct : forall content calls chunks rest results i r,
      calls <> [] -> tn calls = Ok results ->
      rd_index_of calls = Some i -> nth_error results i = Some r ->
      answers (SMsg content calls chunks :: rest) (tool_msg r)
  | ans_later : forall content calls chunks rest results m,
      calls <> [] -> tn calls = Ok results ->
      rd_index_of calls = None -> answers rest m ->
      answers (SMsg content calls chunks :: rest) m.

  Theorem final_is_answer : forall script budget hist m,
    t_out (react_spec script budget hist) = Final m -> answers script m.
  Proof.
    induction script as [|s script IH]; intros budget hist m H.
    - destruct budget; simpl in H; discriminate.
    - destruct budget as [|b1]; simpl in H; [discriminate|].
      destruct s as [|content calls chunks]; [discriminate|].
      destruct calls as [|c0 calls'].
      + simpl in H. inversion H. constructor.
      + remember (c0 :: calls') as calls. assert (Hne : calls <> []) by (subst; discriminate).
        destruct b1 as [|b2]; [discriminate|].
        rewrite out_tr_emit, out_tr_round in H.
        destruct (tn calls) as [results| |] eqn:Et; try discriminate.
        rewrite out_tr_emit in H. fold (rd_index_of calls) in H.
        destruct (rd_index_of calls) as [i|] eqn:E.
        * destruct b2; [discriminate|].
          destruct (nth_error results i) eqn:Ef; [|discriminate].
          simpl in H. inversion H. eapply ans_direct; eauto.
        * eapply ans_later; eauto.
  Qed.

  Theorem answer_is_final : forall script m,
    answers script m -> forall budget hist, steps_needed script <= budget ->
    t_out (react_spec script budget hist) = Final m.
  Proof.
    induction 1; intros budget hist Hb.
    - destruct budget; simpl in *; [lia|reflexivity].
    - rewrite steps_needed_calls, H1 in Hb by auto. destruct budget as [|[|[|b]]]; try lia.
      rewrite spec_unfold_calls by auto. rewrite out_tr_input, out_tr_emit, out_tr_round.
      rewrite H0, out_tr_emit, H1, H2. reflexivity.
    - rewrite steps_needed_calls, H1 in Hb by auto. destruct budget as [|[|b]]; try lia.
      rewrite spec_unfold_calls by auto. rewrite out_tr_input, out_tr_emit, out_tr_round.
      rewrite H0, out_tr_emit, H1. apply IHanswers. lia.
  Qed.

  (* never more node executions than the step limit *)
  Definition executions (t : trace) : nat :=
    List.length (t_inputs t) + List.length (t_rounds t)
    + match t_out t with Final (mkMsg RTool _ _ _) => 1 | _ => 0 end.

  Theorem steps_bounded : forall script budget hist,
    executions (react_spec script budget hist) <= budget.
  Proof.
    unfold executions. induction script as [|s script IH]; intros budget hist.
    - destruct budget; simpl; lia.
    - destruct budget as [|b1]; [simpl; lia|].
      destruct s as [|content calls chunks]; [simpl; lia|].
      destruct calls as [|c0 calls']; [simpl; lia|].
      remember (c0 :: calls') as calls. assert (Hne : calls <> []) by (subst; discriminate).
      destruct b1 as [|b2]; [rewrite spec_unfold_calls_1 by auto; simpl; lia|].
      rewrite spec_unfold_calls by auto.
      rewrite inputs_tr_input, rounds_tr_input, out_tr_input, inputs_tr_emit, rounds_tr_emit, out_tr_emit,
        inputs_tr_round, rounds_tr_round, out_tr_round.
      destruct (tn calls) as [results| |]; simpl; try lia.
      destruct (rd_index_of calls) as [i|].
      + destruct b2; simpl; [lia|]. destruct (nth_error results i) as [[? ?]|]; simpl; lia.
      + specialize (IH b2 (hist ++ assistant content calls :: map tool_msg results)%list). lia.
  Qed.

  (* a model that keeps calling tools is stopped by the step-limit error *)
  Definition looping (s : step) : Prop :=
    match s with
    | SMsg _ calls _ => calls <> [] /\ (exists results, tn calls = Ok results) /\ rd_index_of calls = None
    | SFail => False
    end.

  Theorem step_limit_stops : forall script budget hist,
    Forall looping script -> budget <= 2 * List.length script ->
    t_out (react_spec script budget hist) = Failed EStepLimit.
  Proof.
    induction script as [|s script IH]; intros budget hist HF Hb.
    - simpl in Hb. assert (budget = 0) by lia. subst. reflexivity.
    - inversion HF as [|? ? Hs HF']; subst. destruct budget as [|b1]; [reflexivity|].
      destruct s as [|content calls chunks]; [destruct Hs|].
      destruct Hs as [Hne [[results Ht] Hr]].
      destruct b1 as [|b2]; [rewrite spec_unfold_calls_1 by auto; reflexivity|].
      rewrite spec_unfold_calls by auto. rewrite out_tr_input, out_tr_emit, out_tr_round.
      rewrite Ht, out_tr_emit, Hr. simpl. apply IH; auto. simpl in Hb. lia.
  Qed.

  (* ---- the corollaries for the agent itself ---- *)
  Theorem agent_kth_input : forall checker md script max_steps input k h,
    Forall (reply_exact checker md) script ->
    nth_error (t_inputs (agent_run checker md max_steps script input)) k = Some h ->
    exists h', history script k input = Some h' /\ h = modifier h'.
  Proof. intros until h. intros HF. rewrite agent_refines_spec by auto. apply kth_input. Qed.

  Theorem agent_final_is_answer : forall checker md script max_steps input m,
    Forall (reply_exact checker md) script ->
    t_out (agent_run checker md max_steps script input) = Final m -> answers script m.
  Proof. intros until m. intros HF. rewrite agent_refines_spec by auto. apply final_is_answer. Qed.

  Theorem agent_answer_is_final : forall checker md script max_steps input m,
    Forall (reply_exact checker md) script ->
    answers script m -> steps_needed script <= max_steps ->
    t_out (agent_run checker md max_steps script input) = Final m.
  Proof. intros. rewrite agent_refines_spec by auto. apply answer_is_final; auto. Qed.

  Theorem agent_steps_bounded : forall checker md script max_steps input,
    Forall (reply_exact checker md) script ->
    executions (agent_run checker md max_steps script input) <= max_steps.
  Proof. intros. rewrite agent_refines_spec by auto. apply steps_bounded. Qed.

  Theorem agent_step_limit_stops : forall checker md script max_steps input,
    Forall (reply_exact checker md) script ->
    Forall looping script -> max_steps <= 2 * List.length script ->
    t_out (agent_run checker md max_steps script input) = Failed EStepLimit.
  Proof. intros. rewrite agent_refines_spec by auto. apply step_limit_stops; auto. Qed.
End ReactProofs.

(* ---- the known finding: the default first-chunk checker is not exact -------------------- *)
Definition w_call : call := mkCall "k0_0" "search" "{""q"":""a""}".
Definition w_script : list step :=
  [ SMsg "Let me check. " [w_call]
         [ mkChunk "Let me check. " [];
           mkChunk "" [mkFrag 0 "k0_0" "search" "{""q"":""a""}"] ];
    SMsg "The answer is 42" [] [mkChunk "The answer is 42" []] ].
Definition w_tn (calls : list call) : res (list tmsg) :=
  Ok (map (fun c => (c_name c ++ "(" ++ c_args c ++ ")", c_id c)) calls).
(* the same tools streamed: one frame per call, in call order *)
Definition w_tns (calls : list call) : res (list string * list emitted * option N) :=
  Ok (map c_id calls,
      map (fun p => (fst p, c_name (snd p) ++ "(" ++ c_args (snd p) ++ ")")) (combine (seq 0 (List.length calls)) calls),
      None).
Definition w_input : list msg := [mkMsg RUser "what is 6*7?" [] ""].
Definition w_run (checker : list chunk -> bool) (md : mode) : trace :=
  agent_run w_tn w_tns (fun _ => false) false (fun h => h) (fun _ => true) checker md 12 w_script w_input.

Lemma witness_refutes_default :
  Forall chunking_valid w_script
  /\ t_out (w_run default_checker Generate) = Final (assistant "The answer is 42" [])
  /\ t_out (w_run default_checker Stream) = Final (assistant "Let me check. " [w_call])
  /\ t_rounds (w_run default_checker Generate) = [[w_call]]
  /\ t_rounds (w_run default_checker Stream) = []
  /\ w_run exact_checker Stream = w_run exact_checker Generate.
Proof. vm_compute. repeat split; repeat constructor. Qed.
