(* Proofs/GenAgreeC07Runtime.v — property C07, translator tie for the run-time checks of a compiled
   graph (tools/go2v extractor "c07_runtime", Gen/RuntimeCode.v, translated statement by statement):

     default_value_checker   compose/generic_helper.go defaultValueChecker[T]: the converter installed
                             on a may-assignable connection and behind the any-typed state handlers of
                             a passthrough node;
     edge_handle, pre_branch_handle, pre_node_handle
                             compose/graph_manager.go: the three handler managers' handle methods;
     runnable_entry          compose/runnable.go toComposableRunnable: the invoke wrapper of every node
                             and every state handler (entry assertion, panic);
     branch_entry            compose/branch.go newGraphBranch: the invoke wrapper of a branch condition.

   For every assertion function, every value, every type and every list of installed converters they
   are what the run loop of Model/TypeBuilder.v assumes: a converter for type t lets a value pass,
   UNCHANGED, exactly when the assertion holds and reports an ordinary error otherwise; the handlers
   of a connection are applied one after the other and the first failure ends the run with that
   ordinary error -- [conv_all] of the model ([edges_ok], [eval_branches]); no registered handler: the
   value passes as it is; the entry wrappers hand the value to the user's function exactly when the
   assertion holds and panic otherwise ([node_out], [run_handler], [eval_branches]).
   A source that lets some value through unchecked (nil, a zero value), stops at another handler
   than the first failing one, turns the failure of a converter into a panic or the failure of an
   entry assertion into an ordinary error, makes this stop compiling.  The stream halves of the
   managers and of the converters (lazy conversion of chunks) are outside the value model
   ([RStream]); they are tied by the correspondence / the direct oracles only. *)
From Eino Require Import Base.Util Model.Types Model.TypesGenLib Model.TypeBuilder Model.TypeBuilderGenLib.
From Eino Require Gen.RuntimeCode.
Module R := Gen.RuntimeCode.

Theorem gen_default_value_checker_agrees : forall asrt v t,
  R.default_value_checker asrt v t = if asrt v t then EVal v else EErr.
Proof. intros asrt v t. unfold R.default_value_checker. destruct (asrt v t); reflexivity. Qed.

Theorem gen_runnable_entry_agrees : forall asrt v t,
  R.runnable_entry asrt v t = if asrt v t then EVal v else EPanic.
Proof. intros asrt v t. unfold R.runnable_entry. destruct (asrt v t); reflexivity. Qed.

Theorem gen_branch_entry_agrees : forall asrt v t,
  R.branch_entry asrt v t = if asrt v t then EVal v else EPanic.
Proof. intros asrt v t. unfold R.branch_entry. destruct (asrt v t); reflexivity. Qed.

(* the converters of a connection, one after the other, are the model's [conv_all]; the value
   that comes out is the value that went in *)
Lemma run_handlers_conv_all : forall asrt hs d,
  run_handlers (fun t v => R.default_value_checker asrt v t) hs d = if conv_all asrt d hs then Some d else None.
Proof.
  intros asrt hs d. unfold conv_all. induction hs as [|h r IH]; simpl; [reflexivity|].
  rewrite gen_default_value_checker_agrees. destruct (asrt d h); simpl; [exact IH | reflexivity].
Qed.

Theorem gen_edge_handle_agrees : forall asrt has0 has1 hs d,
  (has0 && has1 = false -> hs = []) ->
  R.edge_handle (fun t v => R.default_value_checker asrt v t) has0 has1 hs d false =
  if conv_all asrt d hs then RPass d else RStop.
Proof.
  intros asrt has0 has1 hs d E. unfold R.edge_handle.
  destruct has0; simpl in *; [destruct has1; simpl in *|]; try (rewrite (E eq_refl); reflexivity).
  rewrite run_handlers_conv_all. destruct (conv_all asrt d hs); reflexivity.
Qed.

Theorem gen_pre_branch_handle_agrees : forall asrt has0 hs d,
  (has0 = false -> hs = []) ->
  R.pre_branch_handle (fun t v => R.default_value_checker asrt v t) has0 hs d false =
  if conv_all asrt d hs then RPass d else RStop.
Proof.
  intros asrt has0 hs d E. unfold R.pre_branch_handle.
  destruct has0; simpl; [|rewrite (E eq_refl); reflexivity].
  rewrite run_handlers_conv_all. destruct (conv_all asrt d hs); reflexivity.
Qed.

Theorem gen_pre_node_handle_agrees : forall asrt has0 hs d,
  (has0 = false -> hs = []) ->
  R.pre_node_handle (fun t v => R.default_value_checker asrt v t) has0 hs d false =
  if conv_all asrt d hs then RPass d else RStop.
Proof.
  intros asrt has0 hs d E. unfold R.pre_node_handle.
  destruct has0; simpl; [|rewrite (E eq_refl); reflexivity].
  rewrite run_handlers_conv_all. destruct (conv_all asrt d hs); reflexivity.
Qed.

(* in stream mode the managers do not touch values *)
Theorem gen_handles_stream : forall inv hs d,
  R.edge_handle inv true true hs d true = RStream /\
  R.pre_branch_handle inv true hs d true = RStream /\ R.pre_node_handle inv true hs d true = RStream.
Proof. intros; repeat split; reflexivity. Qed.

(* non-vacuity: a nil value and a value of another type are stopped by the converter of a concrete
   type, a value of the type passes unchanged; nil passes the converter of an interface type *)
Example gen_runtime_examples :
  let u := {| u_conc := [(0, [2]); (1, [])]%N; u_iface := [(1, [2])]%N |} in
  let chk := fun t v => R.default_value_checker (assert_type u) v t in
  R.edge_handle chk true true [TConc 0] DNil false = RStop /\
  R.edge_handle chk true true [TConc 0] (DVal 1) false = RStop /\
  R.edge_handle chk true true [TConc 0] (DVal 0) false = RPass (DVal 0) /\
  R.edge_handle chk true true [TIface 1] DNil false = RPass DNil /\
  R.edge_handle chk true false [] (DVal 1) false = RPass (DVal 1) /\
  R.pre_branch_handle chk true [TIface 1; TConc 0] (DVal 0) false = RPass (DVal 0) /\
  R.pre_branch_handle chk true [TIface 1; TConc 0] (DVal 1) false = RStop /\
  R.runnable_entry (assert_type u) (DVal 1) (TConc 0) = EPanic /\
  R.branch_entry (assert_type u) DNil TAny = EVal DNil.
Proof. repeat split; reflexivity. Qed.
