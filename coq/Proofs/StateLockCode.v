(* Proofs/StateLockCode.v — C11: the programs of Model/StateLockCode.v (what the five wrappers of
   compose/state.go are assumed to be; Proofs/GenAgreeStateLock.v proves that the source, re-read on
   every run, behaves like them) realise the protocol the transition system is built on, and the
   critical section the replay performs is the script of that protocol. *)
From Eino Require Import Base.Util Model.StateLock Model.StateLockLTS Model.StateLockCode.

(* every wrapper, whatever getState answers and whatever the user function does: nothing when no
   state is found, otherwise acquire; user function; release *)
Lemma wrappers_meet_protocol : forall w found h,
  run_prog found h (cs_prog w) = cs_spec found h.
Proof. intros w [|] [| |]; reflexivity. Qed.

(* what the protocol gives: the user function is called at most once, only while the mutex is held
   and only with the state that getState found next to that mutex; the mutex is free on every exit
   (return, error, panic); a wrapper never deadlocks on its own mutex and never unlocks a free one *)
Lemma protocol_safe : forall found h,
  let o := cs_spec found h in
  (forall held have, In (ACall held have) (o_trace o) -> held = true /\ have = true) /\
  o_held o = false /\
  (o_exit o = ERet \/ o_exit o = EPanic) /\
  (found = false -> o_trace o = []) /\
  (found = true -> o_trace o = [AAcq; ACall true true; ARel]).
Proof.
  intros [|] h; cbn.
  - split; [|split; [|split; [|split]]]; try congruence.
    + intros held have [H|[H|[H|[]]]]; try discriminate. inversion H; auto.
    + destruct h; auto.
  - split; [|split; [|split; [|split]]]; try congruence; try tauto.
Qed.

Section Link.
  Variables (S X : Type).
  Variable gen : nat -> S.
  Variable hfun : kind -> N -> X -> S -> X * S.
  Variable lout : N -> X -> X.
  Variable mrg : list X -> X.
  Variable f : forest.
  Variable x0 : X.

  Notation pstp := (pstep S X gen hfun lout mrg f x0).
  Notation docs := (do_cs S X gen hfun lout mrg f x0).

  (* the critical section of the transition system (and of the replay of every observed log) is the
     script of the trace of the wrapper's code - whatever the user function does: when it returns an
     error or panics it has made its update, the lock is released on the way out (the deferred
     unlock), and the node goes no further (the harness injects both kinds of failure and the replay
     performs [do_cs] for such a section like for any other) *)
  Lemma do_cs_is_wrapper_script : forall w h c i n,
    docs c i n = run_steps S X pstp c (script (o_trace (run_prog true h (cs_prog w))) i n).
  Proof.
    intros w h c i n. rewrite wrappers_meet_protocol. cbn [cs_spec o_trace script flat_map app].
    unfold do_cs. cbn [run_steps].
    destruct (pstp c (ChAcq i n)) as [c1|]; [|reflexivity].
    destruct (pstp c1 (ChLoad i n)) as [c2|]; [|reflexivity].
    destruct (pstp c2 (ChStore i n)) as [c3|]; [|reflexivity].
    destruct (pstp c3 (ChRel i n)) as [c4|]; reflexivity.
  Qed.

  (* ... and when getState finds nothing the wrapper touches nothing: the empty script *)
  Lemma no_state_empty_script : forall w h i n,
    script (S:=S) (o_trace (run_prog false h (cs_prog w))) i n = [].
  Proof. intros. rewrite wrappers_meet_protocol. reflexivity. Qed.

  (* getState over the context of an instance: the holder is the object the instance sees *)
  Definition gs (c : config S X) (J : inst S X) : gs_res (objrec S) nat :=
    get_state nat (objrec S) nat (ctx_of J) (nth_error (c_objs c)) (fun o => o).

  (* the lock the transition system takes is the mutex getState returns, and it belongs to the
     very holder whose state the user function will be given *)
  Lemma acq_locks_what_get_state_finds : forall c i n c' J a s,
    lookup S X f c i n = Some (J, a, s) ->
    pstp c (ChAcq i n) = Some c' ->
    exists o r, gs c J = GsOk r o /\ o_holder r = None /\
                nth_error (c_objs c') o = Some (with_holder S r (Some (i, n))).
  Proof.
    intros c i n c' J a s Hl Hp. cbn [pstep] in Hp. rewrite Hl in Hp.
    destruct s as [p [ph|]]; [discriminate|].
    destruct (next_cs X a p) as [k|]; [|discriminate].
    destruct (pos_x X p) as [x|]; [|discriminate].
    destruct (i_obj J) as [o|] eqn:Ho; [|discriminate].
    destruct (nth_error (c_objs c) o) as [r|] eqn:Hr; [|discriminate].
    destruct (o_holder r) eqn:Hh; [discriminate|].
    inversion Hp; subst c'; clear Hp.
    exists o, r. unfold gs, get_state, ctx_of. rewrite Ho, Hr. repeat split; auto.
    cbn. clear - Hr.
    revert o Hr. generalize (c_objs c) as l. induction l as [|b l IH]; intros [|o] Hr; cbn in *; try discriminate.
    - now inversion Hr.
    - now apply IH.
  Qed.

  (* "have not set state": no critical section can begin *)
  Lemma no_state_no_section : forall c i n J a s,
    lookup S X f c i n = Some (J, a, s) ->
    gs c J = GsErr ENoState ->
    pstp c (ChAcq i n) = None.
  Proof.
    intros c i n J a s Hl Hg. cbn [pstep]. rewrite Hl.
    destruct s as [p [ph|]]; [reflexivity|].
    unfold gs, get_state, ctx_of in Hg.
    destruct (i_obj J) as [o|].
    - destruct (nth_error (c_objs c) o); discriminate.
    - destruct (next_cs X a p); [|reflexivity]. destruct (pos_x X p); reflexivity.
  Qed.
End Link.
