From Eino Require Import Base.Util Model.Graph Model.RunLoop Model.Interrupt
     Proofs.RunLoop Proofs.RunLoopEager Proofs.RunLoopDrive Proofs.Interrupt Proofs.InterruptDrive.
Open Scope N_scope.

(* a segment resumed from a checkpoint that belongs together with an interrupt information executes
   an interrupt-before node only if that information reports it — at whatever nesting level the pair
   was found, whatever the node bodies, the schedule and the state modifier *)
Lemma paired_resume_honours : forall F g (i : inf) (c : cpt),
  paired F g i c ->
  forall (ex : N -> option ncp -> value -> env -> tex * env) gi sm e o l e',
    seg_resumed ex gi g sm c e = (o, l, e') ->
    forall ev, In ev l -> memN (ev_key ev) (gs_before g) = true -> reported i (ev_key ev).
Proof.
  intros F g i c Hp ex gi sm e o l e' Hs ev Hin Hm.
  inversion Hp as [g' i' c' Hrep Hsubs]; subst.
  apply Hrep; auto.
  eapply seg_resumed_before_only_pending; eauto.
Qed.

(* every nested checkpoint of a pair sits under a graph node, beside the nested information reported
   under the same key, and the two belong together for the nested graph *)
Lemma paired_descends : forall F g (i : inf) (c : cpt),
  paired F g i c ->
  forall k sc, In (k, sc) (cp_subs c) ->
    exists si n j sub, In (k, si) (ii_subs i) /\
      find_node (gs_graph g) k = Some n /\ n_kind n = KSub j /\ nth_error F j = Some sub /\
      paired F sub (un_info si) (un_cp sc).
Proof.
  intros F g i c Hp k sc Hin.
  inversion Hp as [g' i' c' Hrep Hsubs]; subst. clear Hp Hrep.
  induction Hsubs as [|ki kc li lc [Hk (n & j & sub & Hn & Hkind & Hj & Hpair)] _ IH]; [destruct Hin|].
  destruct Hin as [Heq|Hin].
  - subst kc. simpl in *. exists (snd ki), n, j, sub. repeat split; auto.
    left. destruct ki as [k' si']; simpl in *; subst; reflexivity.
  - destruct (IH Hin) as (si & n' & j' & sub' & Hi & H1 & H2 & H3 & H4).
    exists si, n', j', sub'. repeat split; auto. right; exact Hi.
Qed.
