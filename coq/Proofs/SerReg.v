(* Proofs/SerReg.v — the registry as GenericRegister builds it: names and types stay
   unique, registered types carry no pointer, so the hypothesis [registry_names_unique] of
   the round-trip theorems holds for every registry obtained from init() by registrations. *)
From Coq Require Import List Bool Arith NArith ZArith String Ascii Lia.
From Eino Require Import Base.Util Base.Universe Model.Ser Model.SerCheckpoint.
Import ListNotations.
Local Open Scope bool_scope.

Definition reg_wf (reg : registry) : Prop :=
  NoDup (map fst reg) /\ NoDup (map snd reg) /\ Forall (fun e => is_ptr (snd e) = false) reg.

Lemma m_lookup_none : forall reg k, m_lookup reg k = None -> ~ In k (map fst reg).
Proof.
  induction reg as [|[k0 t0] r IH]; simpl; intros k H Hin; [assumption|].
  destruct (String.eqb k k0) eqn:E; [discriminate H|].
  destruct Hin as [->|Hin]; [now rewrite String.eqb_refl in E | now apply (IH k)].
Qed.
Lemma rm_lookup_none : forall reg t, rm_lookup reg t = None -> ~ In t (map snd reg).
Proof.
  induction reg as [|[k0 t0] r IH]; simpl; intros t H Hin; [assumption|].
  destruct (ty_eqb t t0) eqn:E; [discriminate H|].
  destruct Hin as [->|Hin]; [now rewrite ty_eqb_refl in E | now apply (IH t)].
Qed.

Lemma NoDup_snoc {A} : forall (l : list A) a, NoDup l -> ~ In a l -> NoDup (l ++ [a]).
Proof.
  induction l as [|x l IH]; simpl; intros a ND Hn; [repeat constructor; auto|].
  inversion ND; subst. constructor.
  - intro Hin. apply in_app_or in Hin. destruct Hin as [Hin|[->|[]]]; [contradiction|]. apply Hn. now left.
  - apply IH; [assumption|]. intro Hin. apply Hn. now right.
Qed.

Lemma register_wf : forall reg k t reg',
  reg_wf reg -> register reg k t = Ok reg' -> reg_wf reg'.
Proof.
  intros reg k t reg' [Hn [Ht Hp]] H. unfold register in H.
  destruct (m_lookup reg k) eqn:Ek; simpl in H; [discriminate H|].
  destruct (rm_lookup reg (snd (strip_ptr t))) eqn:Et; simpl in H; [discriminate H|].
  inversion H; subst. clear H. repeat split.
  - rewrite map_app. simpl. apply NoDup_snoc; [assumption | now apply m_lookup_none].
  - rewrite map_app. simpl. apply NoDup_snoc; [assumption | now apply rm_lookup_none].
  - apply Forall_app. split; [assumption|]. constructor; [|constructor]. simpl. apply strip_ptr_not_ptr.
Qed.

(* a refused registration: the key or the (pointer-stripped) type was already there *)
Lemma register_refuses : forall reg k t,
  In k (map fst reg) \/ In (snd (strip_ptr t)) (map snd reg) -> exists e, register reg k t = Err e.
Proof.
  intros reg k t H. unfold register.
  destruct (m_lookup reg k) eqn:Ek; simpl; [eauto|].
  destruct (rm_lookup reg (snd (strip_ptr t))) eqn:Et; simpl; [eauto|].
  exfalso. destruct H as [H|H]; [eapply m_lookup_none | eapply rm_lookup_none]; eauto.
Qed.

Lemma register_all_wf : forall l reg, reg_wf reg -> reg_wf (register_all reg l).
Proof.
  induction l as [|[k t] l IH]; simpl; intros reg H; [assumption|].
  destruct (register reg k t) as [reg'| |] eqn:E; [|now apply IH|now apply IH].
  apply IH. eapply register_wf; eauto.
Qed.

(* registrations only add entries: what was registered stays registered under its name *)
Lemma rm_lookup_app : forall reg x t k, rm_lookup reg t = Some k -> rm_lookup (reg ++ x) t = Some k.
Proof.
  induction reg as [|[k0 t0] r IH]; simpl; intros x t k H; [discriminate H|].
  destruct (ty_eqb t t0); [assumption | now apply IH].
Qed.
Lemma register_all_keeps : forall l reg t k,
  rm_lookup reg t = Some k -> rm_lookup (register_all reg l) t = Some k.
Proof.
  induction l as [|[k0 t0] l IH]; simpl; intros reg t k H; [assumption|].
  destruct (register reg k0 t0) as [reg'| |] eqn:E; [|now apply IH|now apply IH].
  apply IH. unfold register in E.
  destruct (opt_some (m_lookup reg k0)); [discriminate E|].
  destruct (opt_some (rm_lookup reg (snd (strip_ptr t0)))); [discriminate E|].
  inversion E; subst. now apply rm_lookup_app.
Qed.

(* executable check of reg_wf, for the concrete registries *)
Fixpoint ty_mem (t : ty) (l : list ty) : bool :=
  match l with [] => false | x :: r => ty_eqb t x || ty_mem t r end.
Fixpoint ty_nodup (l : list ty) : bool :=
  match l with [] => true | x :: r => negb (ty_mem x r) && ty_nodup r end.
Lemma ty_mem_in : forall t l, ty_mem t l = false -> ~ In t l.
Proof.
  induction l as [|x r IH]; simpl; intros H Hin; [assumption|].
  apply orb_false_iff in H. destruct H as [H1 H2]. destruct Hin as [->|Hin].
  - rewrite ty_eqb_refl in H1. discriminate.
  - now apply IH.
Qed.
Lemma ty_nodup_ok : forall l, ty_nodup l = true -> NoDup l.
Proof.
  induction l as [|x r IH]; simpl; intro H; constructor.
  - apply andb_true_iff in H. destruct H as [H _]. apply negb_true_iff in H. now apply ty_mem_in.
  - apply andb_true_iff in H. destruct H as [_ H]. now apply IH.
Qed.

(* a registration with a fresh key and a fresh (pointer-stripped) type is accepted, and from
   then on the type is found under the key and the key under the type *)
Lemma m_lookup_notin : forall reg k, ~ In k (map fst reg) -> m_lookup reg k = None.
Proof.
  induction reg as [|[k0 t0] r IH]; simpl; intros k H; [reflexivity|].
  destruct (String.eqb k k0) eqn:E.
  - apply String.eqb_eq in E. subst. exfalso. apply H. now left.
  - apply IH. intro Hin. apply H. now right.
Qed.
Lemma rm_lookup_notin : forall reg t, ~ In t (map snd reg) -> rm_lookup reg t = None.
Proof.
  induction reg as [|[k0 t0] r IH]; simpl; intros t H; [reflexivity|].
  destruct (ty_eqb t t0) eqn:E.
  - apply ty_eqb_eq in E. subst. exfalso. apply H. now left.
  - apply IH. intro Hin. apply H. now right.
Qed.
Lemma rm_lookup_snoc : forall reg k t, rm_lookup reg t = None -> rm_lookup (reg ++ [(k, t)]) t = Some k.
Proof.
  induction reg as [|[k0 t0] r IH]; simpl; intros k t H.
  - now rewrite ty_eqb_refl.
  - destruct (ty_eqb t t0); [discriminate H | now apply IH].
Qed.
Lemma m_lookup_snoc : forall reg k t, m_lookup reg k = None -> m_lookup (reg ++ [(k, t)]) k = Some t.
Proof.
  induction reg as [|[k0 t0] r IH]; simpl; intros k t H.
  - now rewrite String.eqb_refl.
  - destruct (String.eqb k k0); [discriminate H | now apply IH].
Qed.
Lemma register_accepts_fresh : forall reg k t,
  ~ In k (map fst reg) -> ~ In (snd (strip_ptr t)) (map snd reg) ->
  exists reg', register reg k t = Ok reg' /\
               rm_lookup reg' (snd (strip_ptr t)) = Some k /\ m_lookup reg' k = Some (snd (strip_ptr t)) /\
               forall t0 k0, rm_lookup reg t0 = Some k0 -> rm_lookup reg' t0 = Some k0.
Proof.
  intros reg k t Hk Ht. unfold register.
  rewrite (m_lookup_notin _ _ Hk), (rm_lookup_notin _ _ Ht). simpl.
  eexists. split; [reflexivity|]. split; [|split].
  - apply rm_lookup_snoc. now apply rm_lookup_notin.
  - apply m_lookup_snoc. now apply m_lookup_notin.
  - intros t0 k0 H. now apply rm_lookup_app.
Qed.
