(* Proofs/InterruptChan.v — the Pregel and DAG channels of Model/Graph.v satisfy what the generic
   run-loop theorems of Proofs/RunLoop.v ask of a channel layer (owner: C05/C06). *)
From Eino Require Import Base.Util Model.Graph Model.RunLoop Model.Interrupt.
Open Scope N_scope.

(* the projections of [chan] take the value type explicitly in Model/Graph.v; make it implicit here *)
#[local] Arguments c_ctrl {V} _.
#[local] Arguments c_data {V} _.
#[local] Arguments c_skipped {V} _.
#[local] Arguments c_vals {V} _.

(* a DAG channel without any predecessor is skipped (initChannelManager skips such nodes up front) *)
Definition dag_ok (c : chan value) : Prop := c_ctrl c = [] -> c_data c = [] -> c_skipped c = true.

Definition chan_inv (g : graph) (cs : chans value) : Prop :=
  match g_mode g with
  | Pregel => True
  | Dag => Forall (fun kc => dag_ok (snd kc)) cs
  end.

(* ================= ifold_nil ================= *)
Lemma update_chan_nil : forall g kc, update_chan value g [] [] kc = kc.
Proof.
  intros g [k c]. unfold update_chan, incoming_vals, incoming_deps. simpl.
  destruct (g_mode g).
  - unfold pregel_report_values, set_vals. simpl. destruct c; reflexivity.
  - unfold dag_report_values. destruct (c_skipped c) eqn:Hs.
    + unfold dag_report_deps. rewrite Hs. reflexivity.
    + simpl. unfold dag_report_deps. rewrite Hs. reflexivity.
Qed.

Lemma ifold_nil : forall g cs, ifold g cs [] = Ok cs.
Proof.
  intros g cs. unfold ifold. simpl. unfold update_chans. simpl.
  f_equal. rewrite <- (map_id cs) at 2. apply map_ext. intro kc. apply update_chan_nil.
Qed.

(* ================= per-channel facts ================= *)
Lemma ainsert_nonnil : forall (A : Type) (k : N) (a : A) (l : list (N * A)), ainsert k a l <> [].
Proof.
  intros A k a l. destruct l as [|[k' a'] l']; simpl.
  - discriminate.
  - destruct (N.ltb k k'); [discriminate|]. destruct (N.eqb k k'); discriminate.
Qed.

Lemma alookup_nil_none : forall (A : Type) (k : N) (l : list (N * A)) (a : A), l = [] -> alookup k l = Some a -> False.
Proof. intros A k l a Hl Hk. subst l. simpl in Hk. discriminate. Qed.

Definition same_shape (c c' : chan value) : Prop :=
  (c_ctrl c' = [] <-> c_ctrl c = []) /\ (c_data c' = [] <-> c_data c = []) /\ c_skipped c' = c_skipped c.

Lemma same_shape_refl : forall c, same_shape c c.
Proof. intro c. unfold same_shape. tauto. Qed.

Lemma same_shape_trans : forall c1 c2 c3, same_shape c1 c2 -> same_shape c2 c3 -> same_shape c1 c3.
Proof.
  unfold same_shape. intros c1 c2 c3 [Ha [Hb Hc]] [Hd [He Hf]].
  split; [tauto|]. split; [tauto|]. congruence.
Qed.

Lemma same_shape_ok : forall c c', same_shape c c' -> dag_ok c -> dag_ok c'.
Proof.
  unfold same_shape, dag_ok. intros c c' [Ha [Hb Hc]] Hok H1 H2.
  rewrite Hc. apply Hok; tauto.
Qed.

Lemma fold_left_shape : forall (X : Type) (f : chan value -> X -> chan value),
  (forall c x, same_shape c (f c x)) -> forall l c, same_shape c (fold_left f l c).
Proof.
  intros X f Hf l. induction l as [|x l IH]; intro c; simpl.
  - apply same_shape_refl.
  - eapply same_shape_trans; [apply Hf|apply IH].
Qed.

Lemma dag_report_values_shape : forall c ins, same_shape c (dag_report_values value c ins).
Proof.
  intros c ins. unfold dag_report_values.
  destruct (c_skipped c); [apply same_shape_refl|].
  apply fold_left_shape. intros c0 kv.
  destruct (alookup (fst kv) (c_data c0)) as [b|] eqn:Hl; [|apply same_shape_refl].
  unfold same_shape. simpl. split; [tauto|]. split; [|reflexivity].
  split; intro H.
  - exfalso. eapply ainsert_nonnil. exact H.
  - exfalso. eapply alookup_nil_none; eassumption.
Qed.

Lemma dag_report_deps_shape : forall c deps, same_shape c (dag_report_deps value c deps).
Proof.
  intros c deps. unfold dag_report_deps.
  destruct (c_skipped c); [apply same_shape_refl|].
  apply fold_left_shape. intros c0 d.
  destruct (alookup d (c_ctrl c0)) as [b|] eqn:Hl; [|apply same_shape_refl].
  unfold same_shape. simpl. split; [|tauto].
  split; intro H.
  - exfalso. eapply ainsert_nonnil. exact H.
  - exfalso. eapply alookup_nil_none; eassumption.
Qed.

Lemma map_nil_iff : forall (A B : Type) (f : A -> B) (l : list A), map f l = [] <-> l = [].
Proof. intros A B f l. destruct l; simpl; split; intro H; try reflexivity; discriminate. Qed.

Lemma dag_reset_shape : forall c, same_shape c (dag_reset value c).
Proof.
  intro c. unfold same_shape, dag_reset. simpl.
  split; [apply map_nil_iff|]. split; [apply map_nil_iff|reflexivity].
Qed.

Lemma dag_report_skip_ok : forall c ks, dag_ok (fst (dag_report_skip value c ks)).
Proof.
  intros c ks. unfold dag_report_skip, dag_ok. simpl. intros H _. rewrite H. reflexivity.
Qed.

(* ================= lists of channels ================= *)
Definition all_ok (cs : chans value) : Prop := forall k c, In (k, c) cs -> dag_ok c.

Lemma all_ok_Forall : forall cs, all_ok cs <-> Forall (fun kc => dag_ok (snd kc)) cs.
Proof.
  intro cs. unfold all_ok. rewrite Forall_forall. split.
  - intros H [k c] Hin. simpl. eapply H. exact Hin.
  - intros H k c Hin. apply (H (k, c) Hin).
Qed.

Lemma alookup_none_notin : forall (A : Type) (k : N) (l : list (N * A)),
  alookup k l = None -> forall a, ~ In (k, a) l.
Proof.
  intros A k l. induction l as [|[k' a'] l IH]; simpl; intros Hl a Hin.
  - exact Hin.
  - destruct (N.eqb k k') eqn:He; [discriminate|].
    destruct Hin as [Heq|Hin].
    + inversion Heq. subst k'. rewrite N.eqb_refl in He. discriminate.
    + eapply IH; eassumption.
Qed.

(* one step of report_skip_to: entries are ok, or old entries in B whose key is not the target *)
Definition rst_step (from : key) (acc : chans value * list key) (t : key) : chans value * list key :=
  let '(cs0, nw) := acc in
  match alookup t cs0 with
  | None => acc
  | Some c =>
      let '(c', sk) := dag_report_skip value c [from] in
      (upd_chan value cs0 t (fun _ => c'), if (sk && negb (c_skipped c))%bool then nw ++ [t] else nw)
  end.

Lemma report_skip_to_eq : forall cs from targets,
  report_skip_to value cs from targets = fold_left (rst_step from) targets (cs, []).
Proof. reflexivity. Qed.

Lemma rst_step_inv : forall from t cs nw cs' nw' (B : key -> Prop),
  (forall k c, In (k, c) cs -> dag_ok c \/ B k) ->
  rst_step from (cs, nw) t = (cs', nw') ->
  forall k c, In (k, c) cs' -> dag_ok c \/ (B k /\ k <> t).
Proof.
  intros from t cs nw cs' nw' B HB Hstep k c Hin. unfold rst_step in Hstep.
  destruct (alookup t cs) as [c0|] eqn:Hl.
  - pose proof (dag_report_skip_ok c0 [from]) as Hok.
    destruct (dag_report_skip value c0 [from]) as [c1 sk]. simpl in Hok.
    inversion Hstep. subst cs' nw'. clear Hstep.
    unfold upd_chan in Hin. apply in_map_iff in Hin. destruct Hin as [[k0 c2] [Heq Hin0]].
    simpl in Heq. destruct (N.eqb k0 t) eqn:He.
    + inversion Heq. subst. left. exact Hok.
    + inversion Heq. subst k0 c2. apply N.eqb_neq in He.
      destruct (HB k c Hin0) as [H|H]; [left; exact H|right; split; assumption].
  - inversion Hstep. subst cs' nw'.
    assert (Hne : k <> t).
    { intro Heq. subst k. eapply alookup_none_notin; eassumption. }
    destruct (HB k c Hin) as [H|H]; [left; exact H|right; split; assumption].
Qed.

Lemma rst_fold_inv : forall from targets cs nw cs' nw' (B : key -> Prop),
  (forall k c, In (k, c) cs -> dag_ok c \/ B k) ->
  fold_left (rst_step from) targets (cs, nw) = (cs', nw') ->
  forall k c, In (k, c) cs' -> dag_ok c \/ (B k /\ ~ In k targets).
Proof.
  intros from targets. induction targets as [|t ts IH]; intros cs nw cs' nw' B HB Hf k c Hin.
  - simpl in Hf. inversion Hf. subst cs' nw'.
    destruct (HB k c Hin) as [H|H]; [left; exact H|right; split; [exact H|intros []]].
  - change (fold_left (rst_step from) ts (rst_step from (cs, nw) t) = (cs', nw')) in Hf.
    destruct (rst_step from (cs, nw) t) as [cs1 nw1] eqn:Hs.
    pose proof (rst_step_inv from t cs nw cs1 nw1 B HB Hs) as H1.
    destruct (IH cs1 nw1 cs' nw' (fun k => B k /\ k <> t) H1 Hf k c Hin) as [H|[[Hb Hne] Hni]].
    + left. exact H.
    + right. split; [exact Hb|]. simpl. intros [Heq|Hi]; [apply Hne; symmetry; exact Heq|apply Hni; exact Hi].
Qed.

Lemma report_skip_to_inv : forall cs from targets cs' nw' (B : key -> Prop),
  (forall k c, In (k, c) cs -> dag_ok c \/ B k) ->
  report_skip_to value cs from targets = (cs', nw') ->
  forall k c, In (k, c) cs' -> dag_ok c \/ (B k /\ ~ In k targets).
Proof.
  intros cs from targets cs' nw' B HB Hr. rewrite report_skip_to_eq in Hr.
  eapply rst_fold_inv; eassumption.
Qed.

Lemma report_skip_to_ok : forall cs from targets cs' nw',
  all_ok cs -> report_skip_to value cs from targets = (cs', nw') -> all_ok cs'.
Proof.
  intros cs from targets cs' nw' Hok Hr k c Hin.
  destruct (report_skip_to_inv cs from targets cs' nw' (fun _ => False)
              (fun k0 c0 Hi => or_introl (Hok k0 c0 Hi)) Hr k c Hin) as [H|[[] _]].
  exact H.
Qed.

Lemma propagate_ok : forall g fuel work cs cs',
  all_ok cs -> propagate value g fuel work cs = Ok cs' -> all_ok cs'.
Proof.
  intros g fuel. induction fuel as [|fuel IH]; intros work cs cs' Hok Hp.
  - destruct work as [|k work']; simpl in Hp; [|discriminate].
    inversion Hp. subst cs'. exact Hok.
  - destruct work as [|k work']; simpl in Hp.
    + inversion Hp. subst cs'. exact Hok.
    + destruct (find_node g k) as [n|]; [|discriminate].
      destruct (report_skip_to value cs k (succs n)) as [cs1 newly] eqn:Hr.
      eapply IH; [|exact Hp]. eapply report_skip_to_ok; eassumption.
Qed.

Lemma report_branch_ok : forall g from skipped cs cs',
  g_mode g = Dag -> all_ok cs -> report_branch value g from skipped cs = Ok cs' -> all_ok cs'.
Proof.
  intros g from skipped cs cs' Hm Hok Hr. unfold report_branch in Hr. rewrite Hm in Hr.
  destruct (report_skip_to value cs from skipped) as [cs1 newly] eqn:Hs.
  eapply propagate_ok; [|exact Hr]. eapply report_skip_to_ok; eassumption.
Qed.

Lemma resolve_one_ok : forall g n out cs cs' ws ds,
  g_mode g = Dag -> all_ok cs -> resolve_one value tree_ops g n out cs = Ok (cs', ws, ds) -> all_ok cs'.
Proof.
  intros g n out cs cs' ws ds Hm Hok Hr. unfold resolve_one in Hr.
  destruct (eval_branches value tree_ops n out) as [[selected skipped]| |]; simpl in Hr; try discriminate.
  destruct (report_branch value g (n_key n) skipped cs) as [cs1| |] eqn:Hb; simpl in Hr; try discriminate.
  inversion Hr. subst cs1. eapply report_branch_ok; eassumption.
Qed.

Lemma resolve_all_ok : forall g completed cs cs' ws ds,
  g_mode g = Dag -> all_ok cs -> resolve_all value tree_ops g completed cs = Ok (cs', ws, ds) -> all_ok cs'.
Proof.
  intros g completed. induction completed as [|[k out] rest IH]; intros cs cs' ws ds Hm Hok Hr; simpl in Hr.
  - inversion Hr. subst cs'. exact Hok.
  - destruct (find_node g k) as [n|]; [|discriminate].
    destruct (resolve_one value tree_ops g n out cs) as [[[cs1 w1] d1]| |] eqn:H1; simpl in Hr; try discriminate.
    destruct (resolve_all value tree_ops g rest cs1) as [[[cs2 w2] d2]| |] eqn:H2; simpl in Hr; try discriminate.
    inversion Hr. subst cs2. eapply IH; [exact Hm| |exact H2].
    eapply resolve_one_ok; eassumption.
Qed.

Lemma update_chans_ok : forall g ws ds cs cs',
  g_mode g = Dag -> all_ok cs -> update_chans value g ws ds cs = Ok cs' -> all_ok cs'.
Proof.
  intros g ws ds cs cs' Hm Hok Hu. unfold update_chans in Hu.
  destruct (targets_exist value cs ws ds); [|discriminate].
  inversion Hu. subst cs'. clear Hu. intros k c Hin.
  apply in_map_iff in Hin. destruct Hin as [[k0 c0] [Heq Hin0]].
  unfold update_chan in Heq. rewrite Hm in Heq. inversion Heq. subst k c. clear Heq.
  eapply same_shape_ok; [apply dag_report_deps_shape|].
  eapply same_shape_ok; [apply dag_report_values_shape|].
  eapply Hok. exact Hin0.
Qed.

Lemma ifold_inv : forall g cs l cs', chan_inv g cs -> ifold g cs l = Ok cs' -> chan_inv g cs'.
Proof.
  intros g cs l cs'. unfold chan_inv. destruct (g_mode g) eqn:Hm; [trivial|].
  rewrite <- !all_ok_Forall. intros Hok Hf. unfold ifold in Hf.
  destruct (resolve_all value tree_ops g l cs) as [[[cs1 ws] ds]| |] eqn:Hr; simpl in Hf; try discriminate.
  eapply update_chans_ok; [exact Hm| |exact Hf].
  eapply resolve_all_ok; eassumption.
Qed.

(* ================= igetr ================= *)
Lemma chan_get_ok : forall g c ov c',
  g_mode g = Dag -> dag_ok c -> chan_get value tree_ops g c = Ok (ov, c') -> dag_ok c'.
Proof.
  intros g c ov c' Hm Hok Hg. unfold chan_get in Hg. rewrite Hm in Hg. unfold dag_get in Hg.
  destruct (dag_ready value c).
  - destruct (get_merge value tree_ops (c_vals c)) as [v| |]; simpl in Hg; try discriminate.
    inversion Hg. subst. eapply same_shape_ok; [apply dag_reset_shape|exact Hok].
  - inversion Hg. subst. exact Hok.
Qed.

Lemma get_all_ok : forall g cs cs' r,
  g_mode g = Dag -> all_ok cs -> get_all value tree_ops g cs = Ok (cs', r) -> all_ok cs'.
Proof.
  intros g cs. induction cs as [|[k c] cs IH]; intros cs' r Hm Hok Hg; simpl in Hg.
  - inversion Hg. subst. exact Hok.
  - destruct (chan_get value tree_ops g c) as [[ov c1]| |] eqn:Hc; simpl in Hg; try discriminate.
    destruct (get_all value tree_ops g cs) as [[cs2 rd]| |] eqn:Hr; simpl in Hg; try discriminate.
    inversion Hg. subst cs' r. clear Hg.
    intros k0 c0 [Heq|Hin].
    + inversion Heq. subst k0 c0. eapply chan_get_ok; [exact Hm| |exact Hc].
      eapply Hok. left. reflexivity.
    + eapply IH; [exact Hm| |reflexivity|exact Hin].
      intros k1 c2 Hi. eapply Hok. right. exact Hi.
Qed.

Lemma igetr_inv : forall g cs cs' r, chan_inv g cs -> igetr g cs = Ok (cs', r) -> chan_inv g cs'.
Proof.
  intros g cs cs' r. unfold chan_inv. destruct (g_mode g) eqn:Hm; [trivial|].
  rewrite <- !all_ok_Forall. intros Hok Hg. unfold igetr in Hg.
  eapply get_all_ok; eassumption.
Qed.

Lemma dag_ready_reset : forall c,
  dag_ok c -> dag_ready value c = true -> dag_ready value (dag_reset value c) = false.
Proof.
  intros c Hok Hr. unfold dag_ready in Hr.
  apply andb_true_iff in Hr. destruct Hr as [Hr _].
  apply andb_true_iff in Hr. destruct Hr as [Hs _].
  apply negb_true_iff in Hs.
  unfold dag_ready, dag_reset. simpl. unfold dag_ok in Hok.
  destruct (c_ctrl c) as [|[k d] l].
  - destruct (c_data c) as [|[k b] l'].
    + specialize (Hok eq_refl eq_refl). congruence.
    + simpl. apply andb_false_r.
  - simpl. rewrite andb_false_r. reflexivity.
Qed.

Lemma chan_get_idem : forall g c ov c',
  (g_mode g = Dag -> dag_ok c) -> chan_get value tree_ops g c = Ok (ov, c') ->
  chan_get value tree_ops g c' = Ok (None, c').
Proof.
  intros g c ov c' Hok Hg. unfold chan_get in *. destruct (g_mode g) eqn:Hm.
  - unfold pregel_get in *. destruct (c_vals c) as [|kv vals] eqn:Hv.
    + inversion Hg. subst. rewrite Hv. reflexivity.
    + destruct (get_merge value tree_ops (kv :: vals)) as [v| |]; simpl in Hg; try discriminate.
      inversion Hg. subst. simpl. reflexivity.
  - specialize (Hok eq_refl). unfold dag_get in *. destruct (dag_ready value c) eqn:Hr.
    + destruct (get_merge value tree_ops (c_vals c)) as [v| |]; simpl in Hg; try discriminate.
      inversion Hg. subst. rewrite (dag_ready_reset c Hok Hr). reflexivity.
    + inversion Hg. subst. rewrite Hr. reflexivity.
Qed.

Lemma get_all_idem : forall g cs cs' r,
  (g_mode g = Dag -> all_ok cs) -> get_all value tree_ops g cs = Ok (cs', r) ->
  get_all value tree_ops g cs' = Ok (cs', []).
Proof.
  intros g cs. induction cs as [|[k c] cs IH]; intros cs' r Hok Hg; simpl in Hg.
  - inversion Hg. subst. reflexivity.
  - destruct (chan_get value tree_ops g c) as [[ov c1]| |] eqn:Hc; simpl in Hg; try discriminate.
    destruct (get_all value tree_ops g cs) as [[cs2 rd]| |] eqn:Hr; simpl in Hg; try discriminate.
    inversion Hg. subst cs' r. clear Hg. simpl.
    assert (Hc1 : chan_get value tree_ops g c1 = Ok (None, c1)).
    { eapply chan_get_idem; [|exact Hc]. intro Hm. eapply (Hok Hm). left. reflexivity. }
    assert (Hr2 : get_all value tree_ops g cs2 = Ok (cs2, [])).
    { eapply IH; [|reflexivity]. intros Hm k1 c2 Hi. eapply (Hok Hm). right. exact Hi. }
    rewrite Hc1. simpl. rewrite Hr2. simpl. reflexivity.
Qed.

Lemma igetr_idem : forall g cs cs' r, chan_inv g cs -> igetr g cs = Ok (cs', r) -> igetr g cs' = Ok (cs', []).
Proof.
  intros g cs cs' r Hinv Hg. unfold igetr in *. eapply get_all_idem; [|exact Hg].
  intro Hm. unfold chan_inv in Hinv. rewrite Hm in Hinv. apply all_ok_Forall. exact Hinv.
Qed.

(* ================= init_chans ================= *)
Lemma in_ainsert : forall (A : Type) (k k' : N) (a a' : A) (m : list (N * A)),
  In (k', a') (ainsert k a m) -> (k' = k /\ a' = a) \/ In (k', a') m.
Proof.
  intros A k k' a a' m. induction m as [|[k0 a0] m IH]; simpl; intro Hin.
  - destruct Hin as [Heq|[]]. inversion Heq. left. split; reflexivity.
  - destruct (N.ltb k k0).
    + destruct Hin as [Heq|Hin]; [inversion Heq; left; split; reflexivity|right; exact Hin].
    + destruct (N.eqb k k0).
      * destruct Hin as [Heq|Hin]; [inversion Heq; left; split; reflexivity|right; right; exact Hin].
      * destruct Hin as [Heq|Hin]; [right; left; exact Heq|].
        destruct (IH Hin) as [H|H]; [left; exact H|right; right; exact H].
Qed.

Lemma init_v0_entries : forall g ks k c,
  In (k, c) (fold_right (fun k0 m => ainsert k0 (chan_init value g k0) m) [] ks) ->
  In k ks /\ c = chan_init value g k.
Proof.
  intros g ks. induction ks as [|k0 ks IH]; simpl; intros k c Hin.
  - destruct Hin.
  - apply in_ainsert in Hin. destruct Hin as [[Hk Hc]|Hin].
    + subst k0. split; [left; reflexivity|exact Hc].
    + destruct (IH k c Hin) as [H1 H2]. split; [right; exact H1|exact H2].
Qed.

Lemma fold_ainsert_nil : forall (A : Type) (a : A) (l : list N),
  fold_right (fun p m => ainsert p a m) [] l = [] -> l = [].
Proof.
  intros A a l H. destruct l as [|p l]; [reflexivity|].
  simpl in H. exfalso. eapply ainsert_nonnil. exact H.
Qed.

Lemma chan_init_ok : forall g k,
  g_mode g = Dag -> (cpreds g k <> [] \/ dpreds g k <> []) -> dag_ok (chan_init value g k).
Proof.
  intros g k Hm Hne. unfold chan_init. rewrite Hm. unfold dag_ok. simpl. intros H1 H2.
  exfalso. destruct Hne as [Hne|Hne]; apply Hne; eapply fold_ainsert_nil; eassumption.
Qed.

Lemma init_v0_ok_or_unreachable : forall g k c,
  g_mode g = Dag -> (cpreds g kEND <> [] \/ dpreds g kEND <> []) ->
  In (k, c) (init_chans_v0 value g) -> dag_ok c \/ In k (unreachable_nodes g).
Proof.
  intros g k c Hm Hend Hin. unfold init_chans_v0 in Hin.
  apply init_v0_entries in Hin. destruct Hin as [Hk Hc]. subst c.
  unfold chan_keys in Hk. apply in_app_or in Hk. destruct Hk as [Hk|Hk].
  - destruct (cpreds g k) as [|p ps] eqn:Hcp.
    + destruct (dpreds g k) as [|q qs] eqn:Hdp.
      * right. unfold unreachable_nodes.
        apply in_map_iff in Hk. destruct Hk as [n [Hn Hnin]].
        apply in_map_iff. exists n. split; [exact Hn|].
        apply filter_In. split; [exact Hnin|]. rewrite Hn, Hcp, Hdp. reflexivity.
      * left. apply chan_init_ok; [exact Hm|]. right. rewrite Hdp. discriminate.
    + left. apply chan_init_ok; [exact Hm|]. left. rewrite Hcp. discriminate.
  - destruct Hk as [Hk|[]]. subst k. left. apply chan_init_ok; assumption.
Qed.

Lemma init_chans_inv : forall g cs0,
  (g_mode g = Dag -> cpreds g kEND <> [] \/ dpreds g kEND <> []) ->
  init_chans value g = Ok cs0 -> chan_inv g cs0.
Proof.
  intros g cs0 Hend Hi. unfold chan_inv. destruct (g_mode g) eqn:Hm; [trivial|].
  specialize (Hend eq_refl). apply all_ok_Forall.
  unfold init_chans in Hi. rewrite Hm in Hi. unfold report_branch in Hi. rewrite Hm in Hi.
  destruct (report_skip_to value (init_chans_v0 value g) kSTART (unreachable_nodes g)) as [cs1 newly] eqn:Hs.
  eapply propagate_ok; [|exact Hi].
  intros k c Hin.
  destruct (report_skip_to_inv _ _ _ _ _ (fun k0 => In k0 (unreachable_nodes g))
              (fun k0 c0 Hi0 => init_v0_ok_or_unreachable g k0 c0 Hm Hend Hi0) Hs k c Hin) as [H|[Hb Hnb]].
  - exact H.
  - exfalso. apply Hnb. exact Hb.
Qed.
