(* Proofs/InterruptChanDagSkip.v — the skip propagation of the all-predecessor channels (reportBranch:
   [report_skip_to] + the work list [propagate] of Model/Graph.v) computes a LEAST FIXPOINT that does not
   depend on the order in which completed tasks are resolved (owner: C05).

   A run of [resolve_all] from a table cs performs a set of MARKS (from, target): the base marks (a completed
   task and the branch ends it did not select) and the marks of the nodes that become skipped on the way to
   all their successors. The table it ends in is described entry by entry from cs and the marks performed
   ([marked_tab]); the marks performed are exactly [Mk]: the base marks plus the successor marks of [NS], the
   least set of channels all of whose control entries are skipped in cs or marked. Two runs over permuted task
   lists therefore end in the same table. *)
From Eino Require Import Base.Util Model.Graph Model.RunLoop Model.Interrupt
     Proofs.RunLoop Proofs.RunLoopSusp Proofs.InterruptChan Proofs.InterruptChanPregel
     Proofs.DagChan Proofs.DagInv Proofs.DagLoop Proofs.DagTrig Proofs.DagVals Proofs.DagFuel Proofs.InterruptChanDag.
From Coq Require Import Permutation.
Open Scope N_scope.

#[local] Arguments c_ctrl {V} _.
#[local] Arguments c_data {V} _.
#[local] Arguments c_skipped {V} _.
#[local] Arguments c_vals {V} _.

Definition mark := (key * key)%type.
Definition mark_eqb (a b : mark) : bool := N.eqb (fst a) (fst b) && N.eqb (snd a) (snd b).
Definition mem_mark (m : mark) (ms : list mark) : bool := existsb (mark_eqb m) ms.
Definition hit (t : key) (ms : list mark) : bool := existsb (fun m : mark => N.eqb (snd m) t) ms.

Lemma mark_eqb_eq : forall a b, mark_eqb a b = true <-> a = b.
Proof.
  intros [a1 a2] [b1 b2]. unfold mark_eqb. simpl. rewrite andb_true_iff, !N.eqb_eq. split.
  - intros [-> ->]. reflexivity.
  - intros H. inversion H. auto.
Qed.

Lemma mem_mark_in : forall m ms, mem_mark m ms = true <-> In m ms.
Proof.
  intros m ms. unfold mem_mark. rewrite existsb_exists. split.
  - intros (x & Hx & He). apply mark_eqb_eq in He. subst. exact Hx.
  - intros H. exists m. split; auto. apply mark_eqb_eq. reflexivity.
Qed.

Lemma mem_mark_app : forall m a b, mem_mark m (a ++ b) = mem_mark m a || mem_mark m b.
Proof. intros. unfold mem_mark. apply existsb_app. Qed.

Lemma mem_mark_snoc : forall p t ms from t0,
  mem_mark (p, t) (ms ++ [(from, t0)]) = mem_mark (p, t) ms || (N.eqb p from && N.eqb t t0).
Proof. intros. rewrite mem_mark_app. simpl. unfold mark_eqb. simpl. rewrite orb_false_r. reflexivity. Qed.

Lemma hit_snoc : forall t ms from t0, hit t (ms ++ [(from, t0)]) = hit t ms || N.eqb t0 t.
Proof. intros. unfold hit. rewrite existsb_app. simpl. rewrite orb_false_r. reflexivity. Qed.

Lemma hit_app : forall t a b, hit t (a ++ b) = hit t a || hit t b.
Proof. intros. unfold hit. apply existsb_app. Qed.

Lemma hit_in : forall t ms, hit t ms = true <-> exists p, In (p, t) ms.
Proof.
  intros t ms. unfold hit. rewrite existsb_exists. split.
  - intros ([p t'] & Hx & He). simpl in He. apply N.eqb_eq in He. subst. eauto.
  - intros (p & H). exists (p, t). split; auto. simpl. apply N.eqb_refl.
Qed.

Lemma bool_eq_iff : forall a b : bool, (a = true <-> b = true) -> a = b.
Proof. intros [|] [|] H; auto; [symmetry; apply H; auto|apply H; auto]. Qed.

Ltac case_mem H Em :=
  match type of H with context [if ?b then _ else _] => destruct b eqn:Em end.

Section DagSkip.
  Variable g : graph.
  Hypothesis Hdag : g_mode g = Dag.

  Notation skipped := (DagInv.skipped value).
  Notation ctrl_st := (DagChan.ctrl_st value).
  Notation data_st := (DagChan.data_st value).
  Notation chan_wf := (DagInv.chan_wf value g).
  Notation chans_wf := (DagInv.chans_wf value g).

  (* ---------- a table described from an original table and the marks performed since ---------- *)
  Record marked_ch (t : key) (ms : list mark) (c c' : chan value) : Prop := {
    mc_vals : c_vals c' = c_vals c;
    mc_ctrl : forall p, ctrl_st c' p = if mem_mark (p, t) ms then option_map (fun _ => Skipped) (ctrl_st c p) else ctrl_st c p;
    mc_data : forall p, data_st c' p = if mem_mark (p, t) ms then option_map (fun _ => true) (data_st c p) else data_st c p;
    mc_skip : c_skipped c' = if hit t ms then all_skipped (c_ctrl c') else c_skipped c;
    mc_wf : chan_wf t c';
  }.

  Definition marked_tab (cs cur : chans value) (ms : list mark) : Prop :=
    chans_wf cs /\ chans_wf cur /\ akeys cur = akeys cs /\
    forall t c, alookup t cs = Some c -> exists c', alookup t cur = Some c' /\ marked_ch t ms c c'.

  Lemma marked_tab_refl : forall cs, chans_wf cs -> marked_tab cs cs [].
  Proof.
    intros cs Hwf. split; [exact Hwf|]. split; [exact Hwf|]. split; [reflexivity|]. intros t c E. exists c. split; [exact E|].
    destruct Hwf as (_ & _ & Hall). constructor; simpl; auto.
  Qed.

  Lemma lookup_same_keys : forall (cs cur : chans value) t, akeys cur = akeys cs ->
    (alookup t cs = None <-> alookup t cur = None).
  Proof. intros cs cur t E. apply alookup_same_keys. symmetry. exact E. Qed.

  (* one target of report_skip_to *)
  Lemma rst_body_marked : forall cs cur ms from t nw cur1 nw1,
    marked_tab cs cur ms -> rst_body value from (cur, nw) t = (cur1, nw1) ->
    (alookup t cs = None /\ cur1 = cur /\ nw1 = nw) \/
    (alookup t cs <> None /\ marked_tab cs cur1 (ms ++ [(from, t)]) /\
     exists c0 c1, alookup t cur = Some c0 /\ alookup t cur1 = Some c1 /\
       (forall t', t' <> t -> alookup t' cur1 = alookup t' cur) /\
       nw1 = nw ++ (if (c_skipped c1 && negb (c_skipped c0))%bool then [t] else [])).
  Proof.
    intros cs cur ms from t nw cur1 nw1 (Hwf0 & Hwf & Hk & Hall) Hb.
    destruct (rst_body_spec value g from cur nw t cur1 nw1 Hwf Hb)
      as [(En & -> & ->)|(c0 & c1 & E0 & Hlk & Hc & Hd & Hv & Hs & Hwf1 & Hnw)].
    - left. split; auto. apply (lookup_same_keys cs cur t Hk). exact En.
    - right.
      assert (Ecs : alookup t cs <> None).
      { intro En. apply (lookup_same_keys cs cur t Hk) in En. congruence. }
      split; [exact Ecs|]. split.
      + (* the table *)
        assert (Hk1 : akeys cur1 = akeys cur).
        { destruct Hwf as (Hks & _). unfold rst_body in Hb. rewrite E0 in Hb.
          destruct (dag_report_skip value c0 [from]) as [c' sk]. inversion Hb; subst. apply akeys_upd_chan. }
        split; [exact Hwf0|]. split; [|split; [congruence|]].
        * destruct Hwf as (Hks & Hst & Hw). split; [|split].
          -- eapply ksorted_akeys_eq; [symmetry; exact Hk1|exact Hks].
          -- rewrite Hlk. destruct (N.eqb kSTART t) eqn:E; [apply N.eqb_eq in E; subst; congruence|exact Hst].
          -- intros t' c'. rewrite Hlk. destruct (N.eqb t' t) eqn:E.
             ++ apply N.eqb_eq in E. subst. intros [= <-]. exact Hwf1.
             ++ apply Hw.
        * intros t' c E. destruct (Hall t' c E) as (c' & E' & Hm). rewrite Hlk.
          destruct (N.eqb t' t) eqn:Et.
          -- apply N.eqb_eq in Et. subst t'. rewrite E0 in E'. inversion E'; subst c'. clear E'.
             exists c1. split; [reflexivity|]. destruct Hm as [Mv Mc Md Ms Mw]. constructor.
             ++ congruence.
             ++ intros p. rewrite Hc, Mc, mem_mark_snoc. rewrite N.eqb_refl, andb_true_r.
                destruct (N.eqb p from); destruct (mem_mark (p, t) ms); simpl; try reflexivity;
                  destruct (ctrl_st c p); reflexivity.
             ++ intros p. rewrite Hd, Md, mem_mark_snoc. rewrite N.eqb_refl, andb_true_r.
                destruct (N.eqb p from); destruct (mem_mark (p, t) ms); simpl; try reflexivity;
                  destruct (data_st c p); reflexivity.
             ++ rewrite hit_snoc. rewrite N.eqb_refl, orb_true_r. exact Hs.
             ++ exact Hwf1.
          -- exists c'. split; [exact E'|]. destruct Hm as [Mv Mc Md Ms Mw]. constructor; auto.
             ++ intros p. rewrite Mc, mem_mark_snoc. rewrite Et, andb_false_r, orb_false_r. reflexivity.
             ++ intros p. rewrite Md, mem_mark_snoc. rewrite Et, andb_false_r, orb_false_r. reflexivity.
             ++ rewrite hit_snoc. rewrite N.eqb_sym, Et, orb_false_r. exact Ms.
      + exists c0, c1. split; [exact E0|]. split; [rewrite Hlk, N.eqb_refl; reflexivity|]. split; [|exact Hnw].
        intros t' Hne. rewrite Hlk. destruct (N.eqb t' t) eqn:E; [apply N.eqb_eq in E; contradiction|reflexivity].
  Qed.

  (* ---------- the least set of newly skipped channels ---------- *)
  Definition succ_of (p t : key) : Prop := exists nd, find_node g p = Some nd /\ In t (succs nd).
  (* the marks, given the set S of nodes whose skip is propagated: base marks and successor marks *)
  Definition MkOf (S : key -> Prop) (B : list mark) (p t : key) : Prop := In (p, t) B \/ (S p /\ succ_of p t).
  Definition closedS (cs : chans value) (B : list mark) (S : key -> Prop) : Prop :=
    forall t c, alookup t cs = Some c -> c_skipped c = false ->
      (exists p, MkOf S B p t) ->
      (forall p d, ctrl_st c p = Some d -> d = Skipped \/ MkOf S B p t) -> S t.
  Definition NS (cs : chans value) (B : list mark) (t : key) : Prop := forall S, closedS cs B S -> S t.
  Definition Mk (cs : chans value) (B : list mark) : key -> key -> Prop := MkOf (NS cs B) B.

  Lemma MkOf_mono : forall (S S' : key -> Prop) B p t, (forall k, S k -> S' k) -> MkOf S B p t -> MkOf S' B p t.
  Proof. intros S S' B p t H [Hb|[Hs Hsu]]; [left; exact Hb|right; split; auto]. Qed.

  Lemma NS_closed : forall cs B, closedS cs B (NS cs B).
  Proof.
    intros cs B t c E Hs Hex Hall S HS. apply (HS t c E Hs).
    - destruct Hex as (p & Hp). exists p. eapply MkOf_mono; [|exact Hp]. intros k Hk. apply Hk. exact HS.
    - intros p d Hd. destruct (Hall p d Hd) as [->|Hm]; [left; reflexivity|right].
      eapply MkOf_mono; [|exact Hm]. intros k Hk. apply Hk. exact HS.
  Qed.

  Lemma NS_ext : forall cs B B' t, (forall m, In m B <-> In m B') -> NS cs B t -> NS cs B' t.
  Proof.
    intros cs B B' t HB Hn S HS. apply Hn. intros t0 c E Hs Hex Hall. apply (HS t0 c E Hs).
    - destruct Hex as (p & [Hb|Hp]); exists p; [left; apply HB; exact Hb|right; exact Hp].
    - intros p d Hd. destruct (Hall p d Hd) as [->|[Hb|Hp]]; [left; reflexivity|right; left; apply HB; exact Hb|right; right; exact Hp].
  Qed.

  (* ---------- the invariant of the work-list algorithm ---------- *)
  Definition has_chan (cs : chans value) (t : key) : Prop := alookup t cs <> None.

  Record AI (cs : chans value) (B : list mark) (cur : chans value) (W Ex : list key) (ms : list mark) : Prop := {
    ai_tab : marked_tab cs cur ms;
    ai_mk  : forall p t, In (p, t) ms -> Mk cs B p t /\ has_chan cs t;
    ai_W   : forall s, In s W -> skipped cur s /\ ~ skipped cs s;
    ai_ns  : forall s, skipped cur s -> ~ skipped cs s -> NS cs B s;
    ai_pr  : forall s, skipped cur s -> ~ skipped cs s -> In s W \/ In s Ex \/
               (find_node g s <> None /\ forall u, succ_of s u -> has_chan cs u -> In (s, u) ms);
  }.

  (* what is skipped stays skipped under marks *)
  Definition skc (cs : chans value) : Prop :=
    forall t c, alookup t cs = Some c -> c_skipped c = true -> all_skipped (c_ctrl c) = true.

  Lemma marked_skipped_mono : forall cs cur ms s, skc cs -> marked_tab cs cur ms -> skipped cs s -> skipped cur s.
  Proof.
    intros cs cur ms s Hskc (Hwf0 & Hwf & Hk & Hall) (c & E & Hs).
    destruct (Hall s c E) as (c' & E' & [Mv Mc Md Ms Mw]). exists c'. split; [exact E'|].
    rewrite Ms. destruct (hit s ms); [|exact Hs].
    destruct Mw as ((Hkc & _) & _). apply all_skipped_iff; [exact Hkc|].
    intros p d Hd. fold (ctrl_st c' p) in Hd. rewrite Mc in Hd.
    destruct Hwf0 as (_ & _ & Hw0). destruct (Hw0 s c E) as ((Hkc0 & _) & _).
    pose proof (proj1 (all_skipped_iff _ Hkc0) (Hskc s c E Hs)) as Ha.
    case_mem Hd Em.
    - destruct (ctrl_st c p); simpl in Hd; [inversion Hd; reflexivity|discriminate].
    - eapply Ha. exact Hd.
  Qed.

  Lemma skipped_unique : forall (cs : chans value) s c, alookup s cs = Some c -> skipped cs s -> c_skipped c = true.
  Proof. intros cs s c E (c' & E' & Hs). congruence. Qed.

  (* ---------- report_skip_to: a fold of marks from one node ---------- *)
  Lemma rst_fold_AI : forall targets cs B cur W Ex ms nw cur1 nw1 from,
    skc cs -> AI cs B cur (W ++ nw) Ex ms ->
    (forall t, In t targets -> has_chan cs t -> Mk cs B from t) ->
    fold_left (rst_body value from) targets (cur, nw) = (cur1, nw1) ->
    exists ms1, AI cs B cur1 (W ++ nw1) Ex ms1 /\ (forall m, In m ms -> In m ms1) /\
                (forall t, In t targets -> has_chan cs t -> In (from, t) ms1).
  Proof.
    induction targets as [|t targets IH]; intros cs B cur W Ex ms nw cur1 nw1 from Hskc HA Hmk Hf.
    - simpl in Hf. inversion Hf; subst. exists ms. split; [exact HA|]. split; [auto|]. intros t [].
    - cbn [fold_left] in Hf. destruct (rst_body value from (cur, nw) t) as [curm nwm] eqn:Eb.
      destruct HA as [Ht Hm HW Hns Hpr].
      destruct (rst_body_marked cs cur ms from t nw curm nwm Ht Eb)
        as [(En & -> & ->)|(Ec & Htm & c0 & c1 & E0 & E1 & Hoth & Hnw)].
      + (* no channel: nothing happens *)
        destruct (IH cs B cur W Ex ms nw cur1 nw1 from Hskc) as (ms1 & HA1 & Hinc & Hdone); auto.
        { constructor; auto. } { intros t' Ht'. apply Hmk. right; exact Ht'. }
        exists ms1. split; [exact HA1|]. split; [exact Hinc|].
        intros t' [<-|Ht'] Hc; [contradiction|auto].
      + set (ms' := ms ++ [(from, t)]) in *.
        assert (Hch : has_chan cs t) by exact Ec.
        assert (Hsk_other : forall s, s <> t -> (skipped curm s <-> skipped cur s)).
        { intros s Hne. unfold DagInv.skipped. rewrite (Hoth s Hne). tauto. }
        assert (Hmono : forall s, skipped cur s -> skipped curm s).
        { intros s Hs. destruct (N.eq_dec s t) as [->|Hne]; [|apply Hsk_other; auto].
          (* t was skipped already: it stays skipped *)
          destruct (N.eq_dec 0 0) as [_|]; [|congruence].
          destruct Htm as (Hw0 & Hwm & Hkm & Hallm).
          destruct (alookup t cs) as [c|] eqn:Ecs; [|congruence].
          destruct (Hallm t c Ecs) as (c' & E' & [Mv Mc Md Ms Mw]). rewrite E1 in E'. inversion E'; subst c'.
          exists c1. split; [exact E1|]. rewrite Ms. unfold ms'. rewrite hit_snoc, N.eqb_refl, orb_true_r.
          (* all control entries of the channel were skipped before the mark *)
          destruct Ht as (_ & Hwc & Hkc & Hallc). destruct (Hallc t c Ecs) as (c0' & E0' & [Nv Nc Nd Ns Nw]).
          rewrite E0 in E0'. inversion E0'; subst c0'.
          assert (Hs0 : c_skipped c0 = true) by (eapply skipped_unique; eauto).
          destruct Mw as ((Hk1 & _) & _). apply all_skipped_iff; [exact Hk1|].
          intros p d Hd. fold (ctrl_st c1 p) in Hd. rewrite Mc in Hd. unfold ms' in Hd. rewrite mem_mark_snoc in Hd.
          assert (Hall0 : forall d0, ctrl_st c0 p = Some d0 -> d0 = Skipped).
          { destruct (hit t ms) eqn:Eh.
            - rewrite Ns in Hs0. destruct Nw as ((Hk0 & _) & _).
              intros d0 Hd0. eapply (proj1 (all_skipped_iff _ Hk0) Hs0); eauto.
            - rewrite Ns in Hs0.
              destruct Hw0 as (_ & _ & Hw00). destruct (Hw00 t c Ecs) as ((Hkc0 & _) & _).
              pose proof (proj1 (all_skipped_iff _ Hkc0) (Hskc t c Ecs Hs0)) as Ha.
              intros d0 Hd0. rewrite Nc in Hd0.
              case_mem Hd0 Em0.
              + destruct (ctrl_st c p); simpl in Hd0; [inversion Hd0; reflexivity|discriminate].
              + eapply Ha. exact Hd0. }
          case_mem Hd Em.
          - destruct (ctrl_st c p); simpl in Hd; [inversion Hd; reflexivity|discriminate].
          - apply orb_false_elim in Em as [Em _]. apply Hall0. rewrite Nc, Em. exact Hd. }
        assert (HAm : AI cs B curm (W ++ nwm) Ex ms').
        { constructor.
          - exact Htm.
          - intros p t' Hin. unfold ms' in Hin. apply in_app_or in Hin as [Hin|[Heq|[]]]; [apply Hm; exact Hin|].
            inversion Heq; subst. split; [apply Hmk; [left; reflexivity|exact Hch]|exact Hch].
          - intros s Hs. rewrite Hnw, app_assoc in Hs. apply in_app_or in Hs as [Hs|Hs].
            + destruct (HW s Hs) as [H1 H2]. split; [apply Hmono; exact H1|exact H2].
            + destruct (c_skipped c1 && negb (c_skipped c0))%bool eqn:En; [|destruct Hs].
              destruct Hs as [<-|[]]. apply andb_prop in En as [En1 En2]. apply negb_true_iff in En2. split.
              * exists c1. split; [exact E1|exact En1].
              * intros Hsk. apply (marked_skipped_mono cs cur ms t Hskc Ht) in Hsk.
                rewrite (skipped_unique cur t c0 E0 Hsk) in En2. discriminate.
          - intros s Hs Hns0. destruct (N.eq_dec s t) as [->|Hne].
            + destruct (c_skipped c0) eqn:Es0.
              * apply Hns; [exists c0; split; [exact E0|exact Es0]|exact Hns0].
              * (* newly skipped by this mark *)
                destruct (alookup t cs) as [c|] eqn:Ecs; [|congruence].
                apply (NS_closed cs B t c Ecs).
                -- destruct (c_skipped c) eqn:Esc; [|reflexivity]. exfalso. apply Hns0. exists c. auto.
                -- exists from. apply Hmk; [left; reflexivity|exact Hch].
                -- intros p d Hd.
                   destruct Htm as (_ & _ & _ & Hallm). destruct (Hallm t c Ecs) as (c' & E' & [Mv Mc Md Ms Mw]).
                   rewrite E1 in E'. inversion E'; subst c'.
                   assert (Hs1 : c_skipped c1 = true) by (eapply skipped_unique; eauto).
                   rewrite Ms in Hs1. unfold ms' in Hs1. rewrite hit_snoc, N.eqb_refl, orb_true_r in Hs1.
                   destruct Mw as ((Hk1 & _) & _).
                   pose proof (proj1 (all_skipped_iff _ Hk1) Hs1 p) as Ha. fold (ctrl_st c1 p) in Ha. rewrite Mc in Ha.
                   case_mem Ha Em.
                   ++ right. apply mem_mark_in in Em. unfold ms' in Em. apply in_app_or in Em as [Em|[Heq|[]]].
                      ** apply Hm. exact Em.
                      ** inversion Heq; subst. apply Hmk; [left; reflexivity|exact Hch].
                   ++ left. apply Ha. exact Hd.
            + apply Hns; [apply Hsk_other; auto|exact Hns0].
          - intros s Hs Hns0. destruct (N.eq_dec s t) as [->|Hne].
            + destruct (c_skipped c0) eqn:Es0.
              * destruct (Hpr t) as [Hw|[He|(Hf1 & Hf2)]]; [exists c0; auto|exact Hns0| | |].
                -- left. apply in_or_app. apply in_app_or in Hw as [Hw|Hw]; [left; exact Hw|right; rewrite Hnw; apply in_or_app; left; exact Hw].
                -- right; left; exact He.
                -- right; right. split; [exact Hf1|]. intros u Hu Hc. unfold ms'. apply in_or_app. left. apply Hf2; auto.
              * left. rewrite Hnw. rewrite app_assoc. apply in_or_app. right.
                assert (Hs1 : c_skipped c1 = true) by (eapply skipped_unique; eauto).
                rewrite Hs1. simpl. left. reflexivity.
            + destruct (Hpr s) as [Hw|[He|(Hf1 & Hf2)]]; [apply Hsk_other; auto|exact Hns0| | |].
              * left. apply in_or_app. apply in_app_or in Hw as [Hw|Hw]; [left; exact Hw|right; rewrite Hnw; apply in_or_app; left; exact Hw].
              * right; left; exact He.
              * right; right. split; [exact Hf1|]. intros u Hu Hc. unfold ms'. apply in_or_app. left. apply Hf2; auto. }
        destruct (IH cs B curm W Ex ms' nwm cur1 nw1 from Hskc HAm) as (ms1 & HA1 & Hinc & Hdone); auto.
        { intros t' Ht'. apply Hmk. right; exact Ht'. }
        exists ms1. split; [exact HA1|]. split.
        * intros m Hin. apply Hinc. unfold ms'. apply in_or_app. left. exact Hin.
        * intros t' [<-|Ht'] Hc; [apply Hinc; unfold ms'; apply in_or_app; right; left; reflexivity|auto].
  Qed.

  Lemma report_skip_to_fold : forall cur from targets,
    report_skip_to value cur from targets = fold_left (rst_body value from) targets (cur, []).
  Proof. reflexivity. Qed.

  (* what a failing skip propagation means *)
  Definition bad_skip (cs : chans value) (B : list mark) (e : N) : Prop :=
    e = eLoopFuel \/ (e = eSkipEnd /\ exists s, NS cs B s /\ find_node g s = None).

  (* ---------- the work list ---------- *)
  Lemma propagate_AI : forall fuel W cs B cur ms,
    skc cs -> AI cs B cur W [] ms ->
    match propagate value g fuel W cur with
    | Ok cur' => exists ms', AI cs B cur' [] [] ms' /\ (forall m, In m ms -> In m ms')
    | Err e => bad_skip cs B e
    | Panic => False
    end.
  Proof.
    induction fuel as [|fuel IH]; intros W cs B cur ms Hskc HA; destruct W as [|k work]; simpl.
    - exists ms. auto.
    - left. reflexivity.
    - exists ms. auto.
    - destruct (find_node g k) as [n|] eqn:Ef.
      2:{ right. split; [reflexivity|]. exists k. split; [|exact Ef].
          destruct (ai_W _ _ _ _ _ _ HA k (or_introl eq_refl)) as [H1 H2]. apply (ai_ns _ _ _ _ _ _ HA); auto. }
      destruct (report_skip_to value cur k (succs n)) as [cur1 newly] eqn:Er.
      rewrite report_skip_to_fold in Er.
      assert (Hk : skipped cur k /\ ~ skipped cs k) by (apply (ai_W _ _ _ _ _ _ HA); left; reflexivity).
      assert (Hnk : NS cs B k) by (destruct Hk; apply (ai_ns _ _ _ _ _ _ HA); auto).
      assert (HA' : AI cs B cur (work ++ []) [k] ms).
      { destruct HA as [Ht Hm HW Hns Hpr]. constructor; auto.
        - intros s Hs. rewrite app_nil_r in Hs. apply HW. right. exact Hs.
        - intros s Hs Hn. destruct (Hpr s Hs Hn) as [[<-|Hw]|[[]|H3]].
          + right. left. left. reflexivity.
          + left. rewrite app_nil_r. exact Hw.
          + right. right. exact H3. }
      destruct (rst_fold_AI (succs n) cs B cur work [k] ms [] cur1 newly k Hskc HA') as (ms1 & HA1 & Hinc & Hdone); auto.
      { intros t Ht Hc. right. split; [exact Hnk|]. exists n. auto. }
      assert (HA2 : AI cs B cur1 (work ++ newly) [] ms1).
      { destruct HA1 as [Ht Hm HW Hns Hpr]. constructor; auto.
        intros s Hs Hn. destruct (Hpr s Hs Hn) as [Hw|[[<-|[]]|H3]]; [left; exact Hw| |right; right; exact H3].
        right. right. split; [congruence|]. intros u (nd & Hnd & Hu) Hc. rewrite Ef in Hnd. inversion Hnd; subst nd.
        apply Hdone; auto. }
      specialize (IH (work ++ newly) cs B cur1 ms1 Hskc HA2).
      destruct (propagate value g fuel (work ++ newly) cur1) as [cur'|e|]; auto.
      destruct IH as (ms' & HA3 & Hinc3). exists ms'. split; [exact HA3|]. intros m Hm. apply Hinc3. apply Hinc. exact Hm.
  Qed.

  Lemma report_branch_AI : forall cs B cur ms from sk,
    skc cs -> AI cs B cur [] [] ms -> (forall t, In t sk -> In (from, t) B) ->
    match report_branch value g from sk cur with
    | Ok cur' => exists ms', AI cs B cur' [] [] ms' /\ (forall m, In m ms -> In m ms') /\
                             (forall t, In t sk -> has_chan cs t -> In (from, t) ms')
    | Err e => bad_skip cs B e
    | Panic => False
    end.
  Proof.
    intros cs B cur ms from sk Hskc HA HB. unfold report_branch. rewrite Hdag.
    destruct (report_skip_to value cur from sk) as [cur1 newly] eqn:Er. rewrite report_skip_to_fold in Er.
    assert (HA' : AI cs B cur ([] ++ []) [] ms) by exact HA.
    destruct (rst_fold_AI sk cs B cur [] [] ms [] cur1 newly from Hskc HA') as (ms1 & HA1 & Hinc & Hdone); auto.
    { intros t Ht Hc. left. apply HB. exact Ht. }
    simpl in HA1.
    pose proof (propagate_AI (S (List.length (g_nodes g))) newly cs B cur1 ms1 Hskc HA1) as Hp.
    destruct (propagate value g (S (List.length (g_nodes g))) newly cur1) as [cur'|e|]; auto.
    destruct Hp as (ms' & HA2 & Hinc2). exists ms'. split; [exact HA2|]. split.
    - intros m Hm. apply Hinc2. apply Hinc. exact Hm.
    - intros t Ht Hc. apply Hinc2. apply Hdone; auto.
  Qed.

  (* ---------- resolving a list of completed tasks ---------- *)
  Definition skl1 (kv : key * value) : list key :=
    match find_node g (fst kv) with
    | Some n => match eval_branches value tree_ops n (snd kv) with Ok (_, sk) => sk | _ => [] end
    | None => []
    end.
  Definition bmarks (A : list (key * value)) : list mark :=
    flat_map (fun kv => map (fun t => (fst kv, t)) (skl1 kv)) A.

  Lemma find_node_key' : forall k n, find_node g k = Some n -> n_key n = k.
  Proof. intros k n H. apply find_node_in in H. tauto. Qed.

  Lemma resolve_all_AI : forall A cs B cur ms,
    skc cs -> AI cs B cur [] [] ms -> incl (bmarks A) B ->
    match resolve_all value tree_ops g A cur with
    | Ok (cur', ws, ds) => rw g A = Ok (ws, ds) /\
        exists ms', AI cs B cur' [] [] ms' /\ (forall m, In m ms -> In m ms') /\
                    (forall m, In m (bmarks A) -> has_chan cs (snd m) -> In m ms')
    | Err e => bad_skip cs B e \/ rw g A = Err e
    | Panic => rw g A = Panic
    end.
  Proof.
    induction A as [|[k out] A IH]; intros cs B cur ms Hskc HA HB; cbn [resolve_all rw].
    - split; [reflexivity|]. exists ms. split; [exact HA|]. split; [auto|]. intros m [].
    - unfold tw. cbn [fst snd].
      destruct (find_node g k) as [n|] eqn:Ef; [|right; reflexivity].
      unfold resolve_one.
      destruct (eval_branches value tree_ops n out) as [[sel sk]|e|] eqn:Eb; cbn [res_bind]; [|right; reflexivity|reflexivity].
      rewrite (find_node_key' k n Ef).
      assert (Hsk : skl1 (k, out) = sk) by (unfold skl1; cbn [fst snd]; rewrite Ef, Eb; reflexivity).
      assert (HBk : forall t, In t sk -> In (k, t) B).
      { intros t Ht. apply HB. cbn [bmarks flat_map]. apply in_or_app. left. rewrite Hsk. apply in_map_iff. exists t. auto. }
      pose proof (report_branch_AI cs B cur ms k sk Hskc HA HBk) as Hr.
      destruct (report_branch value g k sk cur) as [cur1|e|]; cbn [res_bind]; [|left; exact Hr|destruct Hr].
      destruct Hr as (ms1 & HA1 & Hinc1 & Hdone1).
      assert (HB' : incl (bmarks A) B).
      { intros m Hm. apply HB. cbn [bmarks flat_map]. apply in_or_app. right. exact Hm. }
      specialize (IH cs B cur1 ms1 Hskc HA1 HB').
      destruct (resolve_all value tree_ops g A cur1) as [[[cur2 w2] d2]|e|]; cbn [res_bind].
      + destruct IH as (Hrw & ms2 & HA2 & Hinc2 & Hdone2). rewrite Hrw. cbn [res_bind fst snd].
        split; [reflexivity|]. exists ms2. split; [exact HA2|]. split.
        * intros m Hm. apply Hinc2. apply Hinc1. exact Hm.
        * intros m Hm Hc. cbn [bmarks flat_map] in Hm. apply in_app_or in Hm as [Hm|Hm].
          -- rewrite Hsk in Hm. apply in_map_iff in Hm as (t & <- & Ht). apply Hinc2. apply Hdone1; auto.
          -- apply Hdone2; auto.
      + destruct IH as [Hb|Hrw]; [left; exact Hb|right]. rewrite Hrw. reflexivity.
      + rewrite IH. reflexivity.
  Qed.

  (* ---------- at the end: the marks performed are exactly Mk, the newly skipped channels exactly NS ---------- *)
  Definition base_done (cs : chans value) (B : list mark) (ms : list mark) : Prop :=
    forall m, In m B -> has_chan cs (snd m) -> In m ms.

  Lemma AI_mk_in : forall cs B cur ms, AI cs B cur [] [] ms -> base_done cs B ms ->
    forall p t, MkOf (fun s => skipped cur s /\ ~ skipped cs s) B p t -> has_chan cs t -> In (p, t) ms.
  Proof.
    intros cs B cur ms HA Hb p t [Hin|[[Hs Hn] Hsu]] Hc.
    - apply (Hb (p, t) Hin Hc).
    - destruct (ai_pr _ _ _ _ _ _ HA p Hs Hn) as [[]|[[]|(_ & H3)]]. apply H3; auto.
  Qed.

  Lemma AI_closed : forall cs B cur ms, AI cs B cur [] [] ms -> base_done cs B ms ->
    closedS cs B (fun s => skipped cur s /\ ~ skipped cs s).
  Proof.
    intros cs B cur ms HA Hb t c E Hs (p0 & Hp0) Hall.
    assert (Hc : has_chan cs t) by (unfold has_chan; congruence).
    split.
    2:{ intros (c0 & E0 & Hs0). congruence. }
    destruct (ai_tab _ _ _ _ _ _ HA) as (_ & _ & _ & Hallt).
    destruct (Hallt t c E) as (c' & E' & [Mv Mc Md Ms Mw]). exists c'. split; [exact E'|].
    rewrite Ms.
    assert (Hh : hit t ms = true) by (apply hit_in; exists p0; eapply AI_mk_in; eauto).
    rewrite Hh. destruct Mw as ((Hk1 & _) & _). apply all_skipped_iff; [exact Hk1|].
    intros p d Hd. fold (ctrl_st c' p) in Hd. rewrite Mc in Hd.
    case_mem Hd Em.
    - destruct (ctrl_st c p); simpl in Hd; [inversion Hd; reflexivity|discriminate].
    - destruct (Hall p d Hd) as [->|Hm]; [reflexivity|].
      exfalso. assert (Hin : In (p, t) ms) by (eapply AI_mk_in; eauto).
      apply mem_mark_in in Hin. unfold key in *. congruence.
  Qed.

  Lemma AI_complete : forall cs B cur ms, AI cs B cur [] [] ms -> base_done cs B ms ->
    (forall s, NS cs B s -> skipped cur s /\ ~ skipped cs s /\ find_node g s <> None) /\
    (forall p t, has_chan cs t -> (In (p, t) ms <-> Mk cs B p t)).
  Proof.
    intros cs B cur ms HA Hb.
    assert (Hns : forall s, NS cs B s -> skipped cur s /\ ~ skipped cs s).
    { intros s Hs. apply (Hs _ (AI_closed cs B cur ms HA Hb)). }
    split.
    - intros s Hs. destruct (Hns s Hs) as [H1 H2]. split; [exact H1|]. split; [exact H2|].
      destruct (ai_pr _ _ _ _ _ _ HA s H1 H2) as [[]|[[]|(H3 & _)]]. exact H3.
    - intros p t Hc. split.
      + intros Hin. apply (ai_mk _ _ _ _ _ _ HA). exact Hin.
      + intros Hm. eapply AI_mk_in; eauto. eapply MkOf_mono; [|exact Hm]. exact Hns.
  Qed.

  (* ---------- a marked table is determined by the set of marks ---------- *)
  Lemma marked_ch_unique : forall t ms1 ms2 c c1 c2,
    marked_ch t ms1 c c1 -> marked_ch t ms2 c c2 ->
    (forall p, In (p, t) ms1 <-> In (p, t) ms2) -> c1 = c2.
  Proof.
    intros t ms1 ms2 c c1 c2 [Mv1 Mc1 Md1 Ms1 Mw1] [Mv2 Mc2 Md2 Ms2 Mw2] Hm.
    assert (Hmem : forall p, mem_mark (p, t) ms1 = mem_mark (p, t) ms2).
    { intros p. apply bool_eq_iff. rewrite !mem_mark_in. apply Hm. }
    assert (Hhit : hit t ms1 = hit t ms2).
    { apply bool_eq_iff. rewrite !hit_in. split; intros (p & Hp); exists p; apply Hm; exact Hp. }
    assert (Hctrl : forall p, ctrl_st c1 p = ctrl_st c2 p) by (intros p; rewrite Mc1, Mc2, Hmem; reflexivity).
    destruct Mw1 as (Hok1 & _). destruct Mw2 as (Hok2 & _).
    assert (Ec : c_ctrl c1 = c_ctrl c2).
    { destruct Hok1 as (K1 & _). destruct Hok2 as (K2 & _). apply (ksorted_ext _ _ K1 K2). exact Hctrl. }
    apply chan_ext; auto.
    - intros p. rewrite Md1, Md2, Hmem. reflexivity.
    - intros p. rewrite Mv1, Mv2. reflexivity.
    - rewrite Ms1, Ms2, Hhit, Ec. reflexivity.
  Qed.

  Lemma marked_tab_unique : forall cs cur1 cur2 ms1 ms2,
    marked_tab cs cur1 ms1 -> marked_tab cs cur2 ms2 ->
    (forall p t, has_chan cs t -> (In (p, t) ms1 <-> In (p, t) ms2)) -> cur1 = cur2.
  Proof.
    intros cs cur1 cur2 ms1 ms2 (_ & Hw1 & Hk1 & Ha1) (_ & Hw2 & Hk2 & Ha2) Hm.
    destruct Hw1 as (Hs1 & _). destruct Hw2 as (Hs2 & _).
    apply (ksorted_ext _ _ Hs1 Hs2). intros t.
    destruct (alookup t cs) as [c|] eqn:E.
    - destruct (Ha1 t c E) as (c1 & E1 & M1). destruct (Ha2 t c E) as (c2 & E2 & M2). rewrite E1, E2. f_equal.
      eapply marked_ch_unique; eauto. intros p. apply Hm. unfold has_chan. congruence.
    - pose proof (proj1 (lookup_same_keys cs cur1 t Hk1) E) as N1.
      pose proof (proj1 (lookup_same_keys cs cur2 t Hk2) E) as N2. congruence.
  Qed.

  Lemma AI_init : forall cs B, chans_wf cs -> AI cs B cs [] [] [].
  Proof.
    intros cs B Hwf. constructor.
    - apply marked_tab_refl. exact Hwf.
    - intros p t [].
    - intros s [].
    - intros s H1 H2. contradiction.
    - intros s H1 H2. contradiction.
  Qed.

  Lemma bmarks_perm : forall A B, Permutation A B -> forall m, In m (bmarks A) <-> In m (bmarks B).
  Proof.
    intros A B Hp m. unfold bmarks. rewrite !in_flat_map. split; intros (kv & Hkv & Hm); exists kv; split; auto.
    - eapply Permutation_in; eauto.
    - eapply Permutation_in; [apply Permutation_sym|]; eauto.
  Qed.

  (* ---------- resolving the completed tasks in another order ends in the same table ---------- *)
  Lemma resolve_all_perm : forall cs R G A B csA wA dA,
    Inv value g cs R G [] -> akeys cs = akeys (init_chans_v0 value g) ->
    (forall k, In k (akeys A) -> In k R /\ npred g G k) ->
    Permutation A B ->
    resolve_all value tree_ops g A cs = Ok (csA, wA, dA) ->
    exists wB dB, resolve_all value tree_ops g B cs = Ok (csA, wB, dB) /\ Permutation wA wB /\ Permutation dA dB.
  Proof.
    intros cs R G A B csA wA dA HI Hkeys Hnp Hp HA.
    pose proof (inv_wf _ _ _ _ _ _ HI) as Hwf.
    assert (Hskc : skc cs) by (intros t c E Hs; eapply (inv_skc _ _ _ _ _ _ HI); eauto).
    pose proof (resolve_all_AI A cs (bmarks A) cs [] Hskc (AI_init cs (bmarks A) Hwf) (incl_refl _)) as HrA.
    rewrite HA in HrA. destruct HrA as (HrwA & msA & HAA & _ & HdoneA).
    assert (HbA : base_done cs (bmarks A) msA) by (intros m Hm Hc; apply HdoneA; auto).
    destruct (AI_complete cs (bmarks A) csA msA HAA HbA) as (HnsA & HmkA).
    assert (HinclB : incl (bmarks B) (bmarks A)) by (intros m Hm; apply (bmarks_perm A B Hp); exact Hm).
    pose proof (resolve_all_AI B cs (bmarks A) cs [] Hskc (AI_init cs (bmarks A) Hwf) HinclB) as HrB.
    destruct (rw_perm g A B Hp wA dA HrwA) as (wB & dB & HrwB & Hpw & Hpd).
    assert (HfuelB : resolve_all value tree_ops g B cs <> Err eLoopFuel).
    { apply (resolve_all_fuel value tree_ops g Hdag B cs R G HI Hkeys).
      intros k Hk. apply Hnp. unfold akeys in *. eapply Permutation_in; [|exact Hk].
      apply Permutation_map. apply Permutation_sym. exact Hp. }
    destruct (resolve_all value tree_ops g B cs) as [[[csB wB'] dB']|e|] eqn:EB.
    - destruct HrB as (HrwB' & msB & HAB & _ & HdoneB).
      rewrite HrwB in HrwB'. inversion HrwB'; subst wB' dB'.
      assert (HbB : base_done cs (bmarks A) msB).
      { intros m Hm Hc. apply HdoneB; auto. apply (bmarks_perm A B Hp). exact Hm. }
      destruct (AI_complete cs (bmarks A) csB msB HAB HbB) as (_ & HmkB).
      assert (E : csB = csA).
      { apply (marked_tab_unique cs csB csA msB msA (ai_tab _ _ _ _ _ _ HAB) (ai_tab _ _ _ _ _ _ HAA)).
        intros p t Hc. rewrite (HmkA p t Hc), (HmkB p t Hc). tauto. }
      subst csB. exists wB, dB. auto.
    - exfalso. destruct HrB as [[->|(-> & s & Hs & Hf)]|Hrw].
      + apply HfuelB. reflexivity.
      + destruct (HnsA s Hs) as (_ & _ & Hfn). contradiction.
      + congruence.
    - congruence.
  Qed.

  (* ================= the channel layer of a Graph in all-predecessor mode ================= *)
  Hypothesis Hend : exists q, gpred g kEND q.
  (* every edge of a Graph carries data and control, every branch carries data (Workflows are eager) *)
  Hypothesis Hgb : forall n, In n (g_nodes g) ->
    n_dsucc n = n_csucc n /\ forall b, In b (n_branches n) -> b_nodata b = false.

  Notation Inv := (DagInv.Inv value g).
  Notation upd1 := (DagInv.upd1 value g).
  Notation reported := (DagInv.reported value).
  Definition Utab (ws : writes_t value) (ds : deps_t) (cs : chans value) : chans value :=
    map (fun kv => (fst kv, upd1 ws ds (fst kv) (snd kv))) cs.

  Lemma Utab_lookup : forall ws ds cs t, alookup t (Utab ws ds cs) = option_map (upd1 ws ds t) (alookup t cs).
  Proof. intros. unfold Utab. exact (alookup_map_snd (fun kv => upd1 ws ds (fst kv) (snd kv)) t cs). Qed.

  Lemma Utab_keys : forall ws ds cs, akeys (Utab ws ds cs) = akeys cs.
  Proof. intros. unfold Utab. exact (akeys_map_snd (fun kv => upd1 ws ds (fst kv) (snd kv)) cs). Qed.

  Lemma update_chans_U : forall ws ds cs cs', update_chans value g ws ds cs = Ok cs' -> cs' = Utab ws ds cs.
  Proof.
    intros ws ds cs cs' H. unfold update_chans in H. destruct (targets_exist value cs ws ds); [|discriminate].
    inversion H. apply (update_chans_eq value g Hdag).
  Qed.

  Lemma branch_ends_data : forall n, In n (g_nodes g) -> branch_ends_of n true = branch_ends_of n false.
  Proof.
    intros n Hn. destruct (Hgb n Hn) as [_ Hb]. unfold branch_ends_of.
    induction (n_branches n) as [|b l IH]; simpl; auto.
    rewrite (Hb b (or_introl eq_refl)). simpl. f_equal. apply IH. intros b' Hb'. apply Hb. right. exact Hb'.
  Qed.

  Lemma dpreds_cpreds : forall t, dpreds g t = cpreds g t.
  Proof.
    intros t. unfold dpreds, cpreds. f_equal. apply filter_ext_in. intros n Hn.
    unfold is_dpred, is_cpred. destruct (Hgb n Hn) as [-> _]. rewrite (branch_ends_data n Hn). reflexivity.
  Qed.

  (* the tasks handed out have not reported to any channel *)
  Definition NRp (cs : chans value) (P : list N) : Prop :=
    forall k t c, In k P -> alookup t cs = Some c -> ~ reported c k.

  Definition dagJ2 (cs : chans value) (P : list N) : Prop :=
    dagJ g cs P /\ akeys cs = akeys (init_chans_v0 value g) /\ NRp cs P.

  (* the structure of a successful fold *)
  Lemma ifold_struct : forall cs A cs1, ifold g cs A = Ok cs1 ->
    exists csA wA dA, resolve_all value tree_ops g A cs = Ok (csA, wA, dA) /\ cs1 = Utab wA dA csA /\
                      targets_exist value csA wA dA = true.
  Proof.
    intros cs A cs1 H. unfold ifold in H.
    destruct (resolve_all value tree_ops g A cs) as [[[csA wA] dA]|e|]; simpl in H; try discriminate.
    exists csA, wA, dA. split; [reflexivity|]. split; [apply update_chans_U; exact H|].
    unfold update_chans in H. destruct (targets_exist value csA wA dA); [reflexivity|discriminate].
  Qed.

  Lemma ifold_of_struct : forall cs A csA wA dA, resolve_all value tree_ops g A cs = Ok (csA, wA, dA) ->
    targets_exist value csA wA dA = true -> ifold g cs A = Ok (Utab wA dA csA).
  Proof.
    intros cs A csA wA dA H Ht. unfold ifold. rewrite H. simpl. unfold update_chans. rewrite Ht.
    f_equal. apply (update_chans_eq value g Hdag).
  Qed.

  (* everything known about the table in the middle of a fold: after the skip reports of A, before its writes *)
  Record mid_fold (cs : chans value) (A : list (key * value)) (R G : list key) (csA : chans value)
         (wA : writes_t value) (dA : deps_t) (msA : list mark) : Prop := {
    mf_rw : rw g A = Ok (wA, dA);
    mf_ai : AI cs (bmarks A) csA [] [] msA;
    mf_done : base_done cs (bmarks A) msA;
    mf_inv : Inv csA (map fst A ++ R) G [];
    mf_ws : forall w, In w wA -> In (fst (snd w)) (map fst A);
    mf_ds : forall d, In d dA -> In (snd d) (map fst A);
    mf_keys : akeys csA = akeys cs;
  }.

  Lemma mid_fold_intro : forall cs A R G csA wA dA,
    Inv cs R G [] -> incl (map fst A) G -> (forall k, In k (map fst A) -> npred g G k) ->
    resolve_all value tree_ops g A cs = Ok (csA, wA, dA) ->
    exists msA, mid_fold cs A R G csA wA dA msA.
  Proof.
    intros cs A R G csA wA dA HI Hin Hnp HA.
    pose proof (inv_wf _ _ _ _ _ _ HI) as Hwf.
    assert (Hskc : skc cs) by (intros t c E Hs; eapply (inv_skc _ _ _ _ _ _ HI); eauto).
    pose proof (resolve_all_AI A cs (bmarks A) cs [] Hskc (AI_init cs (bmarks A) Hwf) (incl_refl _)) as Hr.
    rewrite HA in Hr. destruct Hr as (Hrw & msA & HAA & _ & Hdone).
    set (R' := map fst A ++ R).
    assert (HR' : incl R' G).
    { intros x Hx. apply in_app_iff in Hx. destruct Hx as [Hx|Hx]; [auto|now apply (inv_RG _ _ _ _ _ _ HI)]. }
    assert (HI' : Inv cs R' G []).
    { apply Inv_grow_R with R; [|assumption..]. intros x Hx. apply in_app_iff. now right. }
    assert (Hnp' : forall k, In k (akeys A) -> In k R' /\ npred g G k).
    { intros k Hk. split; [apply in_app_iff; now left|]. apply Hnp. exact Hk. }
    destruct (resolve_all_inv value tree_ops g Hdag A cs R' G csA wA dA HI' Hnp' HA) as (HI1 & [Ek _] & Hws & Hds).
    exists msA. constructor; auto.
  Qed.

  (* where the writes and dependencies of a fold come from *)
  Lemma rw_spec : forall A wA dA, rw g A = Ok (wA, dA) ->
    (forall t p, In (t, p) dA -> exists out n sel sk, In (p, out) A /\ find_node g p = Some n /\
        eval_branches value tree_ops n out = Ok (sel, sk) /\ In t (n_csucc n ++ sel)) /\
    (forall t p v, In (t, (p, v)) wA -> exists out n sel sk, In (p, out) A /\ find_node g p = Some n /\
        eval_branches value tree_ops n out = Ok (sel, sk) /\ In t (sel ++ n_dsucc n)).
  Proof.
    induction A as [|[k out] A IH]; intros wA dA H; cbn [rw] in H.
    - inversion H; subst. split; intros; contradiction.
    - unfold tw in H. cbn [fst snd] in H.
      destruct (find_node g k) as [n|] eqn:Ef; cbn [res_bind] in H; try discriminate.
      destruct (eval_branches value tree_ops n out) as [[sel sk]|e|] eqn:Eb; cbn [res_bind fst snd] in H; try discriminate.
      destruct (rw g A) as [[w2 d2]| |] eqn:HrA; cbn [res_bind] in H; try discriminate.
      inversion H; subst wA dA. clear H. destruct (IH w2 d2 eq_refl) as [IHd IHw].
      pose proof (find_node_key' k n Ef) as Ek.
      split.
      + intros t p Hin. apply in_app_or in Hin as [Hin|Hin].
        * apply in_map_iff in Hin as (t1 & Heq & Ht1). inversion Heq; subst t1 p. rewrite Ek.
          exists out, n, sel, sk. split; [left; reflexivity|]. auto.
        * destruct (IHd t p Hin) as (o & n' & s' & k' & Hi & H'). exists o, n', s', k'. split; [right; exact Hi|exact H'].
      + intros t p v Hin. apply in_app_or in Hin as [Hin|Hin].
        * apply in_map_iff in Hin as (t1 & Heq & Ht1). inversion Heq; subst t1 p v. rewrite Ek.
          exists out, n, sel, sk. split; [left; reflexivity|]. auto.
        * destruct (IHw t p v Hin) as (o & n' & s' & k' & Hi & H'). exists o, n', s', k'. split; [right; exact Hi|exact H'].
  Qed.

  (* a source of the fold does not mark the nodes it routes to: it is not skipped, and its base marks go to
     the branch ends it did not select *)
  Lemma mid_fold_source_unmarked : forall cs A R G csA wA dA msA k t,
    mid_fold cs A R G csA wA dA msA -> incl (map fst A) G -> NoDup (map fst A) ->
    (In (t, k) dA \/ exists v, In (t, (k, v)) wA) -> ~ In (k, t) msA.
  Proof.
    intros cs A R G csA wA dA msA k t [Hrw HAI Hdone HI Hws Hds Hkeys] Hin Hnd Hroute Hm.
    destruct (rw_spec A wA dA Hrw) as [Sd Sw].
    assert (Hr : exists out n sel sk, In (k, out) A /\ find_node g k = Some n /\
                   eval_branches value tree_ops n out = Ok (sel, sk) /\ (In t (n_csucc n) \/ In t sel)).
    { destruct Hroute as [Hd|(v & Hw)].
      - destruct (Sd t k Hd) as (o & n & sel & sk & Hi & Hf & He & Ht). exists o, n, sel, sk. repeat split; auto.
        apply in_app_or in Ht. exact Ht.
      - destruct (Sw t k v Hw) as (o & n & sel & sk & Hi & Hf & He & Ht). exists o, n, sel, sk. repeat split; auto.
        apply in_app_or in Ht as [Ht|Ht]; [right; exact Ht|left].
        assert (Hn : In n (g_nodes g)) by (apply find_node_in in Hf; tauto).
        destruct (Hgb n Hn) as [<- _]. exact Ht. }
    destruct Hr as (out & n & sel & sk & Hi & Hf & He & Ht).
    assert (HkA : In k (map fst A)) by (apply (in_map fst) in Hi; exact Hi).
    destruct (ai_mk _ _ _ _ _ _ HAI k t Hm) as [[Hb|[Hns _]] Hc].
    - unfold bmarks in Hb. apply in_flat_map in Hb as ([k' out'] & Hkv & Hb). cbn [fst] in Hb.
      apply in_map_iff in Hb as (t' & Heq & Ht'). inversion Heq; subst k' t'. clear Heq.
      assert (out' = out) by (eapply (nodup_keys_functional _ A Hnd); eauto). subst out'.
      unfold skl1 in Ht'. cbn [fst snd] in Ht'. rewrite Hf, He in Ht'.
      destruct (eval_branches_skipped value tree_ops n out sel sk t He Ht') as [_ Hnsel].
      pose proof (eval_branches_skipped_csucc value tree_ops n out sel sk t He Ht') as Hncs.
      destruct Ht; contradiction.
    - (* k is not skipped: it has been handed out *)
      destruct (AI_complete cs (bmarks A) csA msA HAI Hdone) as (Hn1 & _).
      destruct (Hn1 k Hns) as (Hsk & _).
      apply (gotten_not_skipped value g csA _ G [] k HI); auto.
  Qed.

  Lemma bmarks_from : forall A p t, In (p, t) (bmarks A) -> In p (map fst A).
  Proof.
    intros A p t H. unfold bmarks in H. apply in_flat_map in H as ([k out] & Hkv & Hb). cbn [fst] in Hb.
    apply in_map_iff in Hb as (t' & Heq & _). inversion Heq; subst. apply (in_map fst) in Hkv. exact Hkv.
  Qed.

  (* who marks in a fold: a completed task, or a node that became skipped *)
  Lemma mark_from : forall cs A R G csA wA dA msA p t,
    mid_fold cs A R G csA wA dA msA -> In (p, t) msA -> In p (map fst A) \/ skipped csA p.
  Proof.
    intros cs A R G csA wA dA msA p t [Hrw HAI Hdone HI Hws Hds Hkeys] Hm.
    destruct (ai_mk _ _ _ _ _ _ HAI p t Hm) as [[Hb|[Hns _]] _].
    - left. eapply bmarks_from; eauto.
    - right. destruct (AI_complete cs (bmarks A) csA msA HAI Hdone) as (Hn1 & _). destruct (Hn1 p Hns) as (H1 & _). exact H1.
  Qed.

  Lemma routed_cpred : forall A wA dA k t, rw g A = Ok (wA, dA) ->
    (In (t, k) dA \/ exists v, In (t, (k, v)) wA) -> In k (cpreds g t) /\ In k (map fst A).
  Proof.
    intros A wA dA k t Hrw Hroute. destruct (rw_spec A wA dA Hrw) as [Sd Sw].
    assert (Hr : exists out n sel sk, In (k, out) A /\ find_node g k = Some n /\
                   eval_branches value tree_ops n out = Ok (sel, sk) /\ (In t (n_csucc n) \/ In t sel)).
    { destruct Hroute as [Hd|(v & Hw)].
      - destruct (Sd t k Hd) as (o & n & sel & sk & Hi & Hf & He & Ht). exists o, n, sel, sk. repeat split; auto.
        apply in_app_or in Ht. exact Ht.
      - destruct (Sw t k v Hw) as (o & n & sel & sk & Hi & Hf & He & Ht). exists o, n, sel, sk. repeat split; auto.
        apply in_app_or in Ht as [Ht|Ht]; [right; exact Ht|left].
        assert (Hn : In n (g_nodes g)) by (apply find_node_in in Hf; tauto).
        destruct (Hgb n Hn) as [<- _]. exact Ht. }
    destruct Hr as (out & n & sel & sk & Hi & Hf & He & Ht). split.
    - destruct Ht as [Ht|Ht]; [eapply csucc_cpred; eauto|].
      eapply branch_end_cpred; eauto. eapply eval_branches_selected; eauto.
    - apply (in_map fst) in Hi. exact Hi.
  Qed.

  (* in the middle of a fold the entries of a source are still waiting, and the channels it routes to are not skipped *)
  Lemma mid_fold_source_entry : forall cs A R G csA wA dA msA k t cA,
    mid_fold cs A R G csA wA dA msA -> incl (map fst A) G -> NoDup (map fst A) -> NRp cs (map fst A) ->
    (In (t, k) dA \/ exists v, In (t, (k, v)) wA) -> alookup t csA = Some cA ->
    ctrl_st cA k = Some Waiting /\ c_skipped cA = false.
  Proof.
    intros cs A R G csA wA dA msA k t cA Hmf Hin Hnd Hnr Hroute EA.
    pose proof (mid_fold_source_unmarked cs A R G csA wA dA msA k t Hmf Hin Hnd Hroute) as Hum.
    destruct Hmf as [Hrw HAI Hdone HI Hws Hds Hkeys].
    destruct (routed_cpred A wA dA k t Hrw Hroute) as [Hcp HkA].
    destruct (ai_tab _ _ _ _ _ _ HAI) as (Hw0 & HwA & _ & Hall).
    destruct (alookup t cs) as [c|] eqn:E.
    2:{ apply (lookup_same_keys cs csA t Hkeys) in E. congruence. }
    destruct (Hall t c E) as (cA' & EA' & [Mv Mc Md Ms Mw]). rewrite EA in EA'. inversion EA'; subst cA'.
    assert (Hmem : mem_mark (k, t) msA = false).
    { destruct (mem_mark (k, t) msA) eqn:Em; [|reflexivity]. apply mem_mark_in in Em. contradiction. }
    assert (Hent : ctrl_st cA k = Some Waiting).
    { rewrite Mc, Hmem. destruct Hw0 as (_ & _ & Hw00). destruct (Hw00 t c E) as (_ & Hc & _).
      destruct (ctrl_st c k) as [d|] eqn:Ed.
      - destruct d; [reflexivity| |].
        + exfalso. apply (Hnr k t c HkA E). left. exists Ready. split; [exact Ed|discriminate].
        + exfalso. apply (Hnr k t c HkA E). left. exists Skipped. split; [exact Ed|discriminate].
      - exfalso. apply (proj2 (Hc k) Hcp). exact Ed. }
    split; [exact Hent|].
    destruct (c_skipped cA) eqn:Es; [|reflexivity]. exfalso.
    pose proof (inv_skc _ _ _ _ _ _ HI t cA EA Es) as Ha.
    destruct Mw as ((Hk1 & _) & _). pose proof (proj1 (all_skipped_iff _ Hk1) Ha k Waiting Hent). discriminate.
  Qed.

  (* ---------- (A) the invariant through a fold ---------- *)
  Lemma dagJ2_fold : forall cs A Q cs1, dagJ2 cs (map fst A ++ Q) -> ifold g cs A = Ok cs1 -> dagJ2 cs1 Q.
  Proof.
    intros cs A Q cs1 (HJ & Hkeys & Hnr) Hf.
    split; [eapply dagJ_fold; eauto|].
    destruct HJ as (R & G & HI & Ho & Hn & Hi & Hd & Hnp).
    destruct (ifold_struct cs A cs1 Hf) as (csA & wA & dA & HA & -> & Ht).
    assert (HiA : incl (map fst A) G) by (intros k Hk; apply Hi; apply in_or_app; auto).
    assert (HnpA : forall k, In k (map fst A) -> npred g G k) by (intros k Hk; apply Hd; apply in_or_app; auto).
    destruct (mid_fold_intro cs A R G csA wA dA HI HiA HnpA HA) as (msA & Hmf).
    pose proof Hmf as [Hrw HAI Hdone HIA Hws Hds HkA].
    split; [rewrite Utab_keys; congruence|].
    intros k t c1 Hk E1 Hrep. rewrite Utab_lookup in E1.
    destruct (alookup t csA) as [cA|] eqn:EA; [|discriminate]. simpl in E1. inversion E1; subst c1. clear E1.
    destruct (alookup t cs) as [c|] eqn:E.
    2:{ apply (lookup_same_keys cs csA t HkA) in E. congruence. }
    destruct (ai_tab _ _ _ _ _ _ HAI) as (_ & _ & _ & Hall).
    destruct (Hall t c E) as (cA' & EA' & [Mv Mc Md Ms Mw]). rewrite EA in EA'. inversion EA'; subst cA'.
    assert (HkQ : ~ In k (map fst A)) by (intro Hi'; eapply (nodup_app_disj (map fst A) Q k); eauto).
    assert (HkG : In k G) by (apply Hi; apply in_or_app; auto).
    assert (Hmem : mem_mark (k, t) msA = false).
    { destruct (mem_mark (k, t) msA) eqn:Em; [|reflexivity]. apply mem_mark_in in Em.
      destruct (mark_from cs A R G csA wA dA msA k t Hmf Em) as [Hx|Hx]; [contradiction|].
      exfalso. apply (gotten_not_skipped value g csA _ G [] k HIA); auto. }
    apply (Hnr k t c (in_or_app _ _ _ (or_intror Hk)) E).
    destruct Hrep as [(d & Hd1 & Hd2)|Hd1].
    - left. exists d. split; [|exact Hd2]. rewrite (upd1_ctrl value g) in Hd1.
      destruct (negb (c_skipped cA) && memb k (incoming_deps g t dA))%bool eqn:Eb.
      + exfalso. apply andb_prop in Eb as [_ Eb]. apply memb_in in Eb.
        apply (in_incoming_deps g) in Eb as (_ & d0 & Hd0 & _ & Hs). apply HkQ. rewrite <- Hs. apply Hds. exact Hd0.
      + rewrite Mc in Hd1. unfold key in *. rewrite Hmem in Hd1. exact Hd1.
    - right. rewrite (upd1_data value g) in Hd1.
      destruct (negb (c_skipped cA) && memb k (akeys (incoming_vals value g t wA)))%bool eqn:Eb.
      + exfalso. apply andb_prop in Eb as [_ Eb]. apply memb_in in Eb.
        apply (in_incoming_vals value g) in Eb as (_ & w0 & Hw0 & _ & Hs). apply HkQ. rewrite <- Hs. apply Hws. exact Hw0.
      + rewrite Md in Hd1. unfold key in *. rewrite Hmem in Hd1. exact Hd1.
  Qed.

  (* ---------- (B) through a get ---------- *)
  Lemma dagJ2_getr : forall cs cs2 r, dagJ2 cs [] -> igetr g cs = Ok (cs2, r) -> dagJ2 cs2 (map fst r).
  Proof.
    intros cs cs2 r (HJ & Hkeys & _) Hg.
    split; [eapply dagJ_getr; eauto|].
    destruct HJ as (R & G & HI & Ho & Hn & _). unfold igetr in Hg.
    destruct (get_all_inv value tree_ops g Hdag cs R G cs2 r HI Ho Hn Hg) as (HI3 & [Ek _] & Hnd3 & _).
    assert (HI3' : Inv cs2 R (G ++ akeys r) []) by (apply HI3; right; exact Hend).
    split; [congruence|].
    intros k t c Hk E Hrep.
    destruct (inv_A _ _ _ _ _ _ HI3' t c k E Hrep) as [Hr|Hs].
    - apply (nodup_app_disj G (akeys r) k Hnd3); auto. now apply (inv_RG _ _ _ _ _ _ HI).
    - apply (gotten_not_skipped value g cs2 R (G ++ akeys r) [] k HI3'); auto. apply in_or_app; right; exact Hk.
  Qed.

  Lemma dagJ2_perm : forall cs P Q, Permutation P Q -> dagJ2 cs P -> dagJ2 cs Q.
  Proof.
    intros cs P Q Hp (HJ & Hk & Hnr). split; [eapply dagJ_perm; eauto|]. split; [exact Hk|].
    intros k t c Hin. apply Hnr. eapply Permutation_in; [apply Permutation_sym; exact Hp|exact Hin].
  Qed.

  (* ---------- (C) order independence ---------- *)
  Lemma ifold_perm_dag : forall cs A B Q r,
    dagJ2 cs (map fst A ++ Q) -> NoDup (map fst A) -> Permutation A B ->
    ifold g cs A = Ok r -> ifold g cs B = Ok r.
  Proof.
    intros cs A B Q r (HJ & Hkeys & Hnr) Hnd Hp Hf.
    destruct HJ as (R & G & HI & Ho & Hn & Hi & Hd & Hnp).
    destruct (ifold_struct cs A r Hf) as (csA & wA & dA & HA & -> & Ht).
    assert (HiA : incl (map fst A) G) by (intros k Hk; apply Hi; apply in_or_app; auto).
    assert (HnpA : forall k, In k (map fst A) -> npred g G k) by (intros k Hk; apply Hd; apply in_or_app; auto).
    set (R' := map fst A ++ R).
    assert (HR' : incl R' G).
    { intros x Hx. apply in_app_iff in Hx. destruct Hx as [Hx|Hx]; [auto|now apply (inv_RG _ _ _ _ _ _ HI)]. }
    assert (HI' : Inv cs R' G []).
    { apply Inv_grow_R with R; [|assumption..]. intros x Hx. apply in_app_iff. now right. }
    assert (Hnp' : forall k, In k (akeys A) -> In k R' /\ npred g G k).
    { intros k Hk. split; [apply in_app_iff; now left|]. apply HnpA. exact Hk. }
    destruct (resolve_all_perm cs R' G A B csA wA dA HI' Hkeys Hnp' Hp HA) as (wB & dB & HB & Hpw & Hpd).
    destruct (mid_fold_intro cs A R G csA wA dA HI HiA HnpA HA) as (msA & [Hrw HAI _ _ _ _ _]).
    assert (HtB : targets_exist value csA wB dB = true) by (rewrite <- (targets_exist_perm csA wA wB dA dB Hpw Hpd); exact Ht).
    rewrite (ifold_of_struct cs B csA wB dB HB HtB). f_equal.
    destruct (ai_tab _ _ _ _ _ _ HAI) as (_ & (Hks & _ & HwA) & _).
    unfold Utab. apply map_ext_in. intros [k c] Hin. cbn [fst snd]. f_equal.
    assert (E : alookup k csA = Some c) by (apply ksorted_in_alookup; auto).
    destruct (HwA k c E) as (Hok & _). unfold DagInv.upd1.
    rewrite (dag_vals_perm c (incoming_vals value g k wB) (incoming_vals value g k wA) Hok).
    - apply dag_deps_perm; [apply dag_report_values_ok; exact Hok|]. apply incoming_deps_perm. apply Permutation_sym. exact Hpd.
    - assert (HrwB : rw g B = Ok (wB, dB)).
      { destruct (rw_perm g A B Hp wA dA Hrw) as (wB' & dB' & HrB & _).
        pose proof (resolve_all_AI B cs (bmarks B) cs [] (fun t c0 E0 Hs => inv_skc _ _ _ _ _ _ HI t c0 E0 Hs)
                      (AI_init cs (bmarks B) (inv_wf _ _ _ _ _ _ HI)) (incl_refl _)) as Hr.
        rewrite HB in Hr. destruct Hr as (Hr & _). exact Hr. }
      eapply incoming_vals_functional; [exact HrwB|].
      eapply Permutation_NoDup; [apply Permutation_map; exact Hp|exact Hnd].
    - apply incoming_vals_perm. apply Permutation_sym. exact Hpw.
  Qed.

  (* ---------- (D) compositionality ---------- *)
  Lemma upd1_app : forall w1 w2 d1 d2 t c, upd1 (w1 ++ w2) (d1 ++ d2) t c = upd1 w2 d2 t (upd1 w1 d1 t c).
  Proof.
    intros. unfold DagInv.upd1. rewrite incoming_vals_app, incoming_deps_app, dag_vals_app, dag_deps_app.
    rewrite dag_vals_deps_comm. reflexivity.
  Qed.

  Lemma Utab_app : forall w1 w2 d1 d2 cs, Utab (w1 ++ w2) (d1 ++ d2) cs = Utab w2 d2 (Utab w1 d1 cs).
  Proof. intros. unfold Utab. rewrite map_map. apply map_ext. intros [k c]. cbn [fst snd]. f_equal. apply upd1_app. Qed.

  Lemma val_steps_vals_congr : forall ins (c1 c2 : chan value),
    (forall p, data_st c1 p = None <-> data_st c2 p = None) -> c_vals c1 = c_vals c2 ->
    c_vals (fold_left (val_step value) ins c1) = c_vals (fold_left (val_step value) ins c2).
  Proof.
    induction ins as [|kv ins IH]; intros c1 c2 Hd Hv; simpl; auto. apply IH.
    - intros p. rewrite !val_step_data. destruct (N.eqb p (fst kv)); [|apply Hd].
      specialize (Hd p). destruct (data_st c1 p), (data_st c2 p); simpl; split; intro H; try discriminate; auto.
      + destruct Hd as [_ Hd]. specialize (Hd eq_refl). discriminate.
      + destruct Hd as [Hd _]. specialize (Hd eq_refl). discriminate.
    - unfold val_step. specialize (Hd (fst kv)). unfold DagChan.data_st in Hd.
      destruct (alookup (fst kv) (c_data c1)) eqn:E1; destruct (alookup (fst kv) (c_data c2)) eqn:E2; simpl; auto.
      + rewrite Hv. reflexivity.
      + destruct Hd as [_ Hd]. specialize (Hd eq_refl). discriminate.
      + destruct Hd as [Hd _]. specialize (Hd eq_refl). discriminate.
  Qed.

  (* writes and skip marks that do not meet commute: the description of a channel by marks survives the writes *)
  Lemma upd1_marked_ch : forall ws ds t ms cA cAB,
    marked_ch t ms cA cAB ->
    ((incoming_deps g t ds <> [] \/ incoming_vals value g t ws <> []) -> c_skipped cA = false /\ c_skipped cAB = false) ->
    (forall p, In p (incoming_deps g t ds) \/ In p (akeys (incoming_vals value g t ws)) -> mem_mark (p, t) ms = false) ->
    marked_ch t ms (upd1 ws ds t cA) (upd1 ws ds t cAB).
  Proof.
    intros ws ds t ms cA cAB [Mv Mc Md Ms Mw] Hsk Hun.
    assert (Hmemb : forall p l, memb p l = true -> l <> []).
    { intros p l H E. subst. discriminate. }
    constructor.
    - (* values *)
      rewrite !(upd1_vals value g). rewrite !dag_report_values_eq.
      destruct (incoming_vals value g t ws) as [|kv ins] eqn:Ei.
      + destruct (c_skipped cAB), (c_skipped cA); simpl; exact Mv.
      + destruct Hsk as [H1 H2]; [right; discriminate|]. rewrite H1, H2.
        apply val_steps_vals_congr; [|exact Mv].
        intros p. rewrite Md. destruct (mem_mark (p, t) ms); [|tauto]. destruct (data_st cA p); simpl; split; intro H; try discriminate; auto.
    - intros p. rewrite !(upd1_ctrl value g).
      destruct (memb p (incoming_deps g t ds)) eqn:Em.
      + destruct Hsk as [H1 H2]; [left; eapply Hmemb; eauto|]. rewrite H1, H2. simpl.
        rewrite (Hun p) by (left; apply memb_in; exact Em). rewrite Mc.
        rewrite (Hun p) by (left; apply memb_in; exact Em). reflexivity.
      + rewrite !andb_false_r. apply Mc.
    - intros p. rewrite !(upd1_data value g).
      destruct (memb p (akeys (incoming_vals value g t ws))) eqn:Em.
      + destruct Hsk as [H1 H2].
        { right. intro E. rewrite E in Em. discriminate. }
        rewrite H1, H2. simpl.
        rewrite (Hun p) by (right; apply memb_in; exact Em). rewrite Md.
        rewrite (Hun p) by (right; apply memb_in; exact Em). reflexivity.
      + rewrite !andb_false_r. apply Md.
    - rewrite !(upd1_skipped value g). rewrite Ms. destruct (hit t ms) eqn:Eh; [|reflexivity].
      destruct (incoming_deps g t ds) as [|p0 dl] eqn:Ed.
      + (* no dependency written: the control entries are unchanged *)
        unfold DagInv.upd1. rewrite Ed.
        assert (E : forall c : chan value, dag_report_deps value c [] = c).
        { intros c. rewrite dag_report_deps_eq. destruct (c_skipped c); reflexivity. }
        rewrite E. destruct (dag_report_values_rest value cAB (incoming_vals value g t ws)) as (E1 & _). rewrite E1. reflexivity.
      + (* a dependency is written: neither side is all-skipped *)
        destruct Hsk as [H1 H2]; [left; discriminate|].
        rewrite <- Ms. rewrite H2. symmetry.
        destruct (all_skipped (c_ctrl (upd1 ws ds t cAB))) eqn:Ea; [|reflexivity]. exfalso.
        assert (Hwf' : chan_wf t (upd1 ws ds t cAB)) by (apply (upd1_wf value g); exact Mw).
        destruct Hwf' as ((Hk1 & _) & _).
        pose proof (proj1 (all_skipped_iff _ Hk1) Ea p0) as Hall. fold (ctrl_st (upd1 ws ds t cAB) p0) in Hall.
        rewrite (upd1_ctrl value g) in Hall. rewrite H2, Ed in Hall. simpl in Hall. rewrite N.eqb_refl in Hall. simpl in Hall.
        assert (Hin : In p0 (incoming_deps g t ds)) by (rewrite Ed; left; reflexivity).
        apply (in_incoming_deps g) in Hin as (Hcp & _).
        destruct Mw as (_ & Hc & _). apply Hc in Hcp.
        destruct (ctrl_st cAB p0) as [d|]; [|congruence]. simpl in Hall. specialize (Hall Ready eq_refl). discriminate.
    - apply (upd1_wf value g). exact Mw.
  Qed.

  (* the least fixpoint only looks at which entries are skipped *)
  Lemma NS_transfer : forall (cs1 cs2 : chans value) B,
    (forall t c1, alookup t cs1 = Some c1 -> exists c2, alookup t cs2 = Some c2 /\ c_skipped c1 = c_skipped c2 /\
        forall p, (ctrl_st c1 p = None <-> ctrl_st c2 p = None) /\ (ctrl_st c1 p = Some Skipped <-> ctrl_st c2 p = Some Skipped)) ->
    forall s, NS cs1 B s -> NS cs2 B s.
  Proof.
    intros cs1 cs2 B H s Hn S HS. apply Hn. intros t c1 E1 Hs1 Hex Hall.
    destruct (H t c1 E1) as (c2 & E2 & Hsk & Hent).
    apply (HS t c2 E2); [congruence|exact Hex|].
    intros p d Hd. destruct (Hent p) as [Hn0 Hs0].
    destruct (ctrl_st c1 p) as [d1|] eqn:Ed1.
    - destruct (Hall p d1 Ed1) as [->|Hm]; [|right; exact Hm].
      left. destruct Hs0 as [Hs0 _]. specialize (Hs0 eq_refl). congruence.
    - exfalso. destruct Hn0 as [Hn0 _]. specialize (Hn0 eq_refl). congruence.
  Qed.

  Lemma Mk_transfer : forall (cs1 cs2 : chans value) B p t,
    (forall s, NS cs1 B s -> NS cs2 B s) -> Mk cs1 B p t -> Mk cs2 B p t.
  Proof. intros cs1 cs2 B p t H Hm. eapply MkOf_mono; [|exact Hm]. exact H. Qed.

  Lemma ifold_app_dag : forall cs A B Q cs1 r,
    dagJ2 cs (map fst A ++ map fst B ++ Q) ->
    ifold g cs A = Ok cs1 -> ifold g cs (A ++ B) = Ok r -> ifold g cs1 B = Ok r.
  Proof.
    intros cs A B Q cs1 r (HJ & Hkeys & Hnr) HfA HfAB.
    destruct HJ as (R & G & HI & Ho & Hn & Hi & Hd & Hnp).
    destruct (ifold_struct cs A cs1 HfA) as (csA & wA & dA & HA & -> & HtA).
    destruct (ifold_struct cs (A ++ B) r HfAB) as (csAB & wAB & dAB & HAB & -> & HtAB).
    rewrite resolve_all_app in HAB. rewrite HA in HAB. cbn [res_bind] in HAB.
    destruct (resolve_all value tree_ops g B csA) as [[[csAB' wB] dB]|e|] eqn:HB; cbn [res_bind] in HAB; try discriminate.
    inversion HAB; subst csAB' wAB dAB. clear HAB.
    rewrite Utab_app.
    assert (HiA : incl (map fst A) G) by (intros k Hk; apply Hi; apply in_or_app; auto).
    assert (HiB : incl (map fst B) G) by (intros k Hk; apply Hi; apply in_or_app; right; apply in_or_app; auto).
    assert (HnpA : forall k, In k (map fst A) -> npred g G k) by (intros k Hk; apply Hd; apply in_or_app; auto).
    assert (HnpB : forall k, In k (map fst B) -> npred g G k) by (intros k Hk; apply Hd; apply in_or_app; right; apply in_or_app; auto).
    assert (HndA : NoDup (map fst A)) by (eapply nodup_app_l; eauto).
    assert (HnrA : NRp cs (map fst A)) by (intros k t c Hk; apply Hnr; apply in_or_app; auto).
    assert (HdisjAB : forall k, In k (map fst A) -> ~ In k (map fst B)).
    { intros k Hk Hk'. apply (nodup_app_disj (map fst A) (map fst B ++ Q) k Hnp Hk). apply in_or_app; auto. }
    destruct (mid_fold_intro cs A R G csA wA dA HI HiA HnpA HA) as (msA & HmfA).
    pose proof HmfA as [HrwA HAIA HdoneA HIA HwsA HdsA HkA].
    (* the run of B from csA *)
    destruct (mid_fold_intro csA B (map fst A ++ R) G csAB wB dB HIA HiB HnpB HB) as (msB & HmfB).
    pose proof HmfB as [HrwB HAIB HdoneB HIAB HwsB HdsB HkB].
    destruct (AI_complete csA (bmarks B) csAB msB HAIB HdoneB) as (HnsB & HmkB).
    (* the table X = csA with the writes of A *)
    set (X := Utab wA dA csA).
    destruct (ifold_parts g Hdag cs A R G HI Ho HiA HnpA X HfA) as (HIX & HoX & HkX).
    (* the description of (Utab wA dA csAB) from X by the marks of B's run on csA *)
    assert (Hsrc : forall k t cA, (In (t, k) dA \/ exists v, In (t, (k, v)) wA) -> alookup t csA = Some cA ->
                   ctrl_st cA k = Some Waiting /\ c_skipped cA = false).
    { intros k t cA Hr E. exact (mid_fold_source_entry cs A R G csA wA dA msA k t cA HmfA HiA HndA HnrA Hr E). }
    assert (Hroute_d : forall t p, In p (incoming_deps g t dA) -> In (t, p) dA).
    { intros t p Hp. apply (in_incoming_deps g) in Hp as (_ & d0 & Hd0 & E1 & E2). destruct d0; simpl in *; subst. exact Hd0. }
    assert (Hroute_w : forall t p, In p (akeys (incoming_vals value g t wA)) -> exists v, In (t, (p, v)) wA).
    { intros t p Hp. apply (in_incoming_vals value g) in Hp as (_ & w0 & Hw0 & E1 & E2).
      destruct w0 as [t0 [p0 v0]]; simpl in *; subst. eauto. }
    assert (HunB : forall t p, (In p (incoming_deps g t dA) \/ In p (akeys (incoming_vals value g t wA))) -> ~ In (p, t) msB).
    { intros t p Hp Hm.
      assert (HpA : In p (map fst A)).
      { destruct Hp as [Hp|Hp].
        - apply Hroute_d in Hp. apply (HdsA _ Hp).
        - apply Hroute_w in Hp as (v & Hw). apply (HwsA _ Hw). }
      destruct (mark_from csA B (map fst A ++ R) G csAB wB dB msB p t HmfB Hm) as [Hx|Hx].
      - apply (HdisjAB p HpA Hx).
      - apply (gotten_not_skipped value g csAB _ G [] p HIAB); auto. }
    assert (HtabX : marked_tab X (Utab wA dA csAB) msB).
    { destruct (ai_tab _ _ _ _ _ _ HAIB) as (HwA0 & HwAB & HkAB & HallAB).
      split; [exact (inv_wf _ _ _ _ _ _ HIX)|]. split; [|split].
      - destruct HwAB as (Hks & Hst & Hw). split; [|split].
        + eapply ksorted_akeys_eq; [symmetry; apply Utab_keys|exact Hks].
        + rewrite Utab_lookup, Hst. reflexivity.
        + intros t c. rewrite Utab_lookup. destruct (alookup t csAB) as [c0|] eqn:E0; [|discriminate]. simpl.
          intros [= <-]. apply (upd1_wf value g). apply Hw. exact E0.
      - unfold X. rewrite !Utab_keys. exact HkAB.
      - intros t cX EX. unfold X in EX. rewrite Utab_lookup in EX.
        destruct (alookup t csA) as [cA|] eqn:EA; [|discriminate]. simpl in EX. inversion EX; subst cX. clear EX.
        destruct (HallAB t cA EA) as (cAB & EAB & Hm). exists (upd1 wA dA t cAB). split.
        + rewrite Utab_lookup, EAB. reflexivity.
        + apply upd1_marked_ch; auto.
          * intros Htouch.
            assert (Hex : exists k, In (t, k) dA \/ exists v, In (t, (k, v)) wA).
            { destruct Htouch as [Hd0|Hw0].
              - destruct (incoming_deps g t dA) as [|p0 l] eqn:E0; [congruence|]. exists p0. left. apply Hroute_d. rewrite E0. left; reflexivity.
              - destruct (incoming_vals value g t wA) as [|[p0 v0] l] eqn:E0; [congruence|]. exists p0. right.
                apply Hroute_w. rewrite E0. left. reflexivity. }
            destruct Hex as (k & Hr). destruct (Hsrc k t cA Hr EA) as [Hw1 Hs1]. split; [exact Hs1|].
            (* the entry of k is still waiting after B's marks: not all skipped *)
            destruct Hm as [Mv Mc Md Ms Mw]. rewrite Ms. destruct (hit t msB); [|exact Hs1].
            destruct (all_skipped (c_ctrl cAB)) eqn:Ea; [|reflexivity]. exfalso.
            destruct Mw as ((Hk1 & _) & _).
            pose proof (proj1 (all_skipped_iff _ Hk1) Ea k) as Hall. fold (ctrl_st cAB k) in Hall. rewrite Mc in Hall.
            assert (Hmem : mem_mark (k, t) msB = false).
            { destruct (mem_mark (k, t) msB) eqn:Em; [|reflexivity]. apply mem_mark_in in Em. exfalso.
              destruct (routed_cpred A wA dA k t HrwA Hr) as [_ HkA'].
              destruct (mark_from csA B (map fst A ++ R) G csAB wB dB msB k t HmfB Em) as [Hx|Hx].
              - apply (HdisjAB k HkA' Hx).
              - apply (gotten_not_skipped value g csAB _ G [] k HIAB); auto. }
            unfold key in *. rewrite Hmem, Hw1 in Hall. specialize (Hall Waiting eq_refl). discriminate.
          * intros p Hp. match goal with |- ?x = false => destruct x eqn:Em end; [|reflexivity]. apply mem_mark_in in Em.
            exfalso. exact (HunB t p Hp Em). }
    (* the run of B from X *)
    assert (HskcX : skc X) by (intros t c E Hs; eapply (inv_skc _ _ _ _ _ _ HIX); eauto).
    pose proof (resolve_all_AI B X (bmarks B) X [] HskcX (AI_init X (bmarks B) (inv_wf _ _ _ _ _ _ HIX)) (incl_refl _)) as HrX.
    assert (HkeysX : akeys X = akeys (init_chans_v0 value g)) by congruence.
    assert (HfuelX : resolve_all value tree_ops g B X <> Err eLoopFuel).
    { apply (resolve_all_fuel value tree_ops g Hdag B X ((map fst A ++ map fst B) ++ R) G).
      - apply Inv_grow_R with (map fst A ++ R); auto.
        + intros x Hx. apply in_app_iff in Hx as [Hx|Hx]; apply in_or_app; [left; apply in_or_app; auto|right; exact Hx].
        + intros x Hx. apply in_app_iff in Hx as [Hx|Hx]; [|now apply (inv_RG _ _ _ _ _ _ HI)].
          apply in_app_iff in Hx as [Hx|Hx]; auto.
      - exact HkeysX.
      - intros k Hk. split; [apply in_or_app; left; apply in_or_app; right; exact Hk|apply HnpB; exact Hk]. }
    (* NS over X and over csA coincide *)
    assert (HentXA : forall t cA, alookup t csA = Some cA ->
              c_skipped (upd1 wA dA t cA) = c_skipped cA /\
              forall p, (ctrl_st (upd1 wA dA t cA) p = None <-> ctrl_st cA p = None) /\
                        (ctrl_st (upd1 wA dA t cA) p = Some Skipped <-> ctrl_st cA p = Some Skipped)).
    { intros t cA EA. split; [apply (upd1_skipped value g)|]. intros p. rewrite (upd1_ctrl value g).
      destruct (negb (c_skipped cA) && memb p (incoming_deps g t dA))%bool eqn:Eb; [|tauto].
      apply andb_prop in Eb as [_ Eb]. apply memb_in in Eb. apply Hroute_d in Eb.
      destruct (Hsrc p t cA (or_introl Eb) EA) as [Hw1 _]. rewrite Hw1. simpl. split; split; intro H; discriminate. }
    assert (HnsXA : forall s, NS X (bmarks B) s -> NS csA (bmarks B) s).
    { apply NS_transfer. intros t cX EX. unfold X in EX. rewrite Utab_lookup in EX.
      destruct (alookup t csA) as [cA|] eqn:EA; [|discriminate]. simpl in EX. inversion EX; subst cX.
      exists cA. split; [reflexivity|]. destruct (HentXA t cA EA) as [H1 H2]. split; [exact H1|exact H2]. }
    assert (HnsAX : forall s, NS csA (bmarks B) s -> NS X (bmarks B) s).
    { apply NS_transfer. intros t cA EA. exists (upd1 wA dA t cA). split; [unfold X; rewrite Utab_lookup, EA; reflexivity|].
      destruct (HentXA t cA EA) as [H1 H2]. split; [symmetry; exact H1|]. intros p. destruct (H2 p) as [H3 H4]. split; tauto. }
    destruct (resolve_all value tree_ops g B X) as [[[Y wB'] dB']|e|] eqn:EBX.
    - destruct HrX as (HrwB' & msX & HAIX & _ & HdoneX).
      rewrite HrwB in HrwB'. inversion HrwB'; subst wB' dB'.
      assert (HbX : base_done X (bmarks B) msX) by (intros m Hm Hc; apply HdoneX; auto).
      destruct (AI_complete X (bmarks B) Y msX HAIX HbX) as (_ & HmkX).
      assert (EY : Y = Utab wA dA csAB).
      { apply (marked_tab_unique X Y (Utab wA dA csAB) msX msB (ai_tab _ _ _ _ _ _ HAIX) HtabX).
        intros p t Hc.
        assert (HcA : has_chan csA t).
        { unfold has_chan in *. intro En. apply Hc. unfold X. rewrite Utab_lookup, En. reflexivity. }
        rewrite (HmkX p t Hc), (HmkB p t HcA). split; apply Mk_transfer; auto. }
      subst Y.
      apply (ifold_of_struct X B (Utab wA dA csAB) wB dB EBX).
      rewrite (targets_exist_keys csAB (Utab wA dA csAB)) by (apply Utab_keys).
      rewrite targets_exist_app in HtAB. apply andb_prop in HtAB as [_ H2]. exact H2.
    - exfalso. destruct HrX as [[->|(-> & s & Hs & Hfn)]|Hrw].
      + apply HfuelX. reflexivity.
      + destruct (HnsB s (HnsXA s Hs)) as (_ & _ & Hf). contradiction.
      + congruence.
    - congruence.
  Qed.

  (* ---------- (E) the initial table, and the layer ---------- *)
  Lemma unreachable_no_pred : forall t, In t (unreachable_nodes g) -> cpreds g t = [] /\ dpreds g t = [].
  Proof.
    intros t Ht. unfold unreachable_nodes in Ht. apply in_map_iff in Ht as (n & <- & Hn).
    apply filter_In in Hn as [_ Hn]. destruct (cpreds g (n_key n)); [|discriminate]. destruct (dpreds g (n_key n)); [auto|discriminate].
  Qed.

  Lemma dagJ2_init : forall cs0, init_chans value g = Ok cs0 -> dagJ2 cs0 [kStart].
  Proof.
    intros cs0 Hi. split; [apply dagJ_init; auto|]. split; [apply (init_chans_keys value g Hdag); exact Hi|].
    intros k t c' [<-|[]] E' Hrep. change kStart with kSTART in *.
    pose proof (init_v0_inv value g Hdag) as HI0.
    set (c0s := init_chans_v0 value g) in *.
    assert (Hskc : skc c0s) by (intros t0 c0 E0 Hs; eapply (inv_skc _ _ _ _ _ _ HI0); eauto).
    set (B := map (fun u => (kSTART, u)) (unreachable_nodes g)).
    pose proof (report_branch_AI c0s B c0s [] kSTART (unreachable_nodes g) Hskc (AI_init c0s B (inv_wf _ _ _ _ _ _ HI0))) as Hr.
    unfold init_chans in Hi. rewrite Hdag in Hi. fold c0s in Hi. rewrite Hi in Hr.
    destruct Hr as (ms & HAI & _ & Hdone).
    { intros u Hu. unfold B. apply in_map_iff. exists u. auto. }
    assert (Hb : base_done c0s B ms).
    { intros [p u] Hm Hc. unfold B in Hm. apply in_map_iff in Hm as (u' & Heq & Hu'). inversion Heq; subst. apply Hdone; auto. }
    destruct (AI_complete c0s B cs0 ms HAI Hb) as (Hns & _).
    destruct (ai_tab _ _ _ _ _ _ HAI) as (_ & _ & Hk & Hall).
    destruct (alookup t c0s) as [c|] eqn:E.
    2:{ apply (lookup_same_keys c0s cs0 t Hk) in E. congruence. }
    destruct (Hall t c E) as (c'' & E'' & [Mv Mc Md Ms Mw]). rewrite E' in E''. inversion E''; subst c''.
    assert (Hc0 : c = chan_init value g t).
    { unfold c0s in E. rewrite (init_v0_lookup value g) in E. destruct (memb t (chan_keys g)); congruence. }
    assert (Hfresh : ~ reported c kSTART) by (rewrite Hc0; apply fresh_not_reported; apply chan_init_fresh; exact Hdag).
    destruct (mem_mark (kSTART, t) ms) eqn:Em.
    - apply mem_mark_in in Em. destruct (ai_mk _ _ _ _ _ _ HAI kSTART t Em) as [[Hbm|[Hn0 _]] _].
      + unfold B in Hbm. apply in_map_iff in Hbm as (u & Heq & Hu). inversion Heq; subst u.
        destruct (unreachable_no_pred t Hu) as [Hc Hd0].
        assert (E1 : ctrl_st c kSTART = None).
        { rewrite Hc0. rewrite (chan_init_dag_ctrl value g t kSTART Hdag), Hc. reflexivity. }
        assert (E2 : data_st c kSTART = None).
        { rewrite Hc0. rewrite (chan_init_dag_data value g t kSTART Hdag), Hd0. reflexivity. }
        destruct Hrep as [(d & Hd1 & _)|Hd1].
        * rewrite Mc, E1 in Hd1. simpl in Hd1. case_mem Hd1 Em0; discriminate.
        * rewrite Md, E2 in Hd1. simpl in Hd1. case_mem Hd1 Em0; discriminate.
      + destruct (Hns kSTART Hn0) as ((cS & ES & _) & _).
        pose proof (ifold_parts g Hdag) as _.
        assert (HIc : alookup kSTART cs0 = None).
        { destruct (ai_tab _ _ _ _ _ _ HAI) as (_ & (_ & Hst & _) & _). exact Hst. }
        congruence.
    - apply Hfresh. destruct Hrep as [(d & Hd1 & Hd2)|Hd1].
      + left. exists d. rewrite Mc in Hd1. unfold key in *. rewrite Em in Hd1. auto.
      + right. rewrite Md in Hd1. unfold key in *. rewrite Em in Hd1. exact Hd1.
  Qed.

  (* the DAG channels of a Graph in all-predecessor mode are a channel layer *)
  Theorem chan_layer_dag : chan_layer (ifold g) (igetr g) dagJ2.
  Proof.
    constructor.
    - exact dagJ2_perm.
    - exact dagJ2_fold.
    - exact dagJ2_getr.
    - intros; apply ifold_nil.
    - intros cs cs' r (HJ & _) Hg. eapply dagJ_getr_idem; eauto.
    - intros cs cs' r (HJ & _) Hg. eapply dagJ_getr_nodup; eauto.
    - exact ifold_app_dag.
    - intros cs A B Q r (HJ & _) Hf. eapply dagJ_fold_prefix; eauto.
    - exact ifold_perm_dag.
  Qed.
End DagSkip.
