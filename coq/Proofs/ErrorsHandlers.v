(* Proofs/ErrorsHandlers.v — property C13, part 10: state handlers of a node.
   The pre-handlers of a step run on the run loop's goroutine before any task of the step starts
   (taskManager.submit); a failing one fails the run under the key of its node (repair of F-C13e).
   The post-handler of a task that ended without error runs when the task is collected
   (taskManager.waitOne); its failure is the task's error.  Both keep the handler's own error
   recoverable. *)
From Eino Require Import Base.Util Model.Errors Proofs.Errors Proofs.ErrorsRun.

Lemma in_pre_fails_intro : forall stream items st k f u, In (NLam k f (BPreFail u)) st ->
  In (wrap_node k (Wrapf (pre_error stream items u))) (pre_fails stream items st).
Proof.
  intros stream items st k f u H. unfold pre_fails. apply in_flat_map.
  exists (NLam k f (BPreFail u)). split; [exact H|]. left. reflexivity.
Qed.

(* the step fails, before any task starts, with exactly the failing pre-handlers' errors as legal
   answers, each under its node's key *)
Lemma pre_handler_failure_lemma : forall F stream rec all loop br k st rest items key f u,
  In (NLam key f (BPreFail u)) st -> pre_panic stream items = None ->
  exists es, steps F stream rec all loop br (S k) (st :: rest) items false = GFail es /\
    In (wrap_node key (Wrapf (pre_error stream items u))) es /\
    (forall e, In e es -> exists key' f' u', In (NLam key' f' (BPreFail u')) st /\
                                             e = wrap_node key' (Wrapf (pre_error stream items u'))).
Proof.
  intros F stream rec all loop br k st rest items key f u Hin Hpp.
  pose proof (in_pre_fails_intro stream items st key f u Hin) as Hpf.
  cbn [steps]. destruct (pre_fails stream items st) as [|pf0 pfs] eqn:Epf; [contradiction|].
  cbv beta iota. rewrite Hpp. exists (pf0 :: pfs). split; [reflexivity|]. split; [exact Hpf|].
  intros e He. rewrite <- Epf in He. apply in_pre_fails in He. exact He.
Qed.

(* with nothing on the input stream the reported error is the handler's own error under key-free
   wrappers (so errors.Is / errors.As find it, [orig_recoverable]) and names exactly the node *)
Lemma pre_error_shape : forall stream u, exists ws, Wrapf (pre_error stream [] u) = apply_ws ws u /\ keys_of ws = [].
Proof.
  intros stream u. destruct stream; cbn.
  - exists [WWrapf; WStream TransformByInvoke]. split; reflexivity.
  - exists [WWrapf]. split; reflexivity.
Qed.

Lemma np_of_Wrapf : forall e, np_of (Wrapf e) = np_of e.
Proof. intros e. reflexivity. Qed.

Lemma interrupt_Wrapf : forall e, is_interrupt_error (Wrapf e) = is_interrupt_error e.
Proof. intros e. change (Wrapf e) with (apply_ws [WWrapf] e). apply interrupt_through_wrappers. Qed.

Lemma pre_failure_names_node : forall stream key u, is_interrupt_error u = false ->
  np_of (wrap_node key (Wrapf (pre_error stream [] u))) = key :: np_of u.
Proof.
  intros stream key u Hni. destruct stream; cbn [pre_error negb].
  - rewrite wrap_node_path.
    + rewrite np_of_Wrapf, wrap_stream_path. reflexivity.
    + rewrite interrupt_Wrapf. change (wrap_stream TransformByInvoke u) with (apply_ws [WStream TransformByInvoke] u).
      rewrite interrupt_through_wrappers. exact Hni.
  - rewrite wrap_node_path; [rewrite np_of_Wrapf; reflexivity|]. rewrite interrupt_Wrapf. exact Hni.
Qed.

Lemma post_failure_shape : forall stream f u,
  exists ws, with_post stream (BPostFail u) (exec_lambda stream [] f (BPostFail u)) = NErr [apply_ws ws u] /\ keys_of ws = [].
Proof.
  intros stream f u. destruct stream, f; cbn.
  all: try (exists [WWrapf; WStream TransformByInvoke]; split; reflexivity).
  all: exists [WWrapf]; split; reflexivity.
Qed.
