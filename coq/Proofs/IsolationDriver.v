(* Proofs/IsolationDriver.v — property C09: soundness of the driver used by Corr/C09.v, and
   isolation as an inductive invariant of the product system. *)
From Eino Require Import Base.Util Model.Isolation Proofs.Isolation.
From Coq Require Import Lia.

(* ---------------------------------------------------------------- the driver of the correspondence check *)

Section Driver.
  Variables Sh R : Type.
  Variable stepw : Sh -> R -> option (Sh * R).

  Lemma grun_app_gen : forall (sa sb : list nat) g,
    grun stepw (sa ++ sb) g = match grun stepw sa g with None => None | Some g' => grun stepw sb g' end.
  Proof.
    induction sa as [|i sa IH]; simpl; intros sb g; auto.
    destruct (gstep stepw i g); auto.
  Qed.

  (* the steps [gdrive] takes form a schedule of the product system, leading to the state it returns *)
  Lemma gdrive_is_grun : forall sched g gf tk,
    gdrive stepw sched g = (gf, tk) -> grun stepw tk g = Some gf.
  Proof.
    induction sched as [|i sc IH]; simpl; intros g gf tk H.
    - inversion H; subst; reflexivity.
    - destruct (gstep stepw i g) as [g'|] eqn:E.
      + destruct (gdrive stepw sc g') as [gf' tk'] eqn:D. inversion H; subst. simpl. rewrite E. eapply IH; eauto.
      + eapply IH; eauto.
  Qed.

  Lemma gfinish1_is_grun : forall fuel i g gf tk,
    gfinish1 stepw fuel i g = (gf, tk) -> grun stepw tk g = Some gf.
  Proof.
    induction fuel as [|f IH]; simpl; intros i g gf tk H.
    - inversion H; subst; reflexivity.
    - destruct (gstep stepw i g) as [g'|] eqn:E.
      + destruct (gfinish1 stepw f i g') as [gf' tk'] eqn:D. inversion H; subst. simpl. rewrite E. eapply IH; eauto.
      + inversion H; subst; reflexivity.
  Qed.

  Lemma gfinish_is_grun : forall fuel runs g gf tk,
    gfinish stepw fuel runs g = (gf, tk) -> grun stepw tk g = Some gf.
  Proof.
    induction runs as [|i rs IH]; simpl; intros g gf tk H.
    - inversion H; subst; reflexivity.
    - destruct (gfinish1 stepw fuel i g) as [g1 t1] eqn:E1.
      destruct (gfinish stepw fuel rs g1) as [g2 t2] eqn:E2. inversion H; subst.
      rewrite grun_app_gen. rewrite (gfinish1_is_grun _ _ _ _ _ E1). eapply IH; eauto.
  Qed.

  (* [gdrive] only drops entries: what it takes is a subsequence of the observed interleaving *)
  Inductive subseq : list nat -> list nat -> Prop :=
  | sub_nil : subseq [] []
  | sub_skip : forall a l m, subseq l m -> subseq l (a :: m)
  | sub_take : forall a l m, subseq l m -> subseq (a :: l) (a :: m).

  Lemma gdrive_subseq : forall sched g gf tk, gdrive stepw sched g = (gf, tk) -> subseq tk sched.
  Proof.
    induction sched as [|i sc IH]; simpl; intros g gf tk H.
    - inversion H; constructor.
    - destruct (gstep stepw i g) as [g'|] eqn:E.
      + destruct (gdrive stepw sc g') as [gf' tk'] eqn:D. inversion H; subst. apply sub_take. eapply IH; eauto.
      + apply sub_skip. eapply IH; eauto.
  Qed.
End Driver.

Section DriverPure.
  Variables C R : Type.
  Variable step : C -> R -> option R.

  (* What Corr/C09.v computes: drive the product by the observed interleaving, finish every
     run, require that all are final.  Then every run is where it ends ALONE. *)
  Theorem driver_result_is_solo : forall (c : C) (rs : list R) sched fuel runs g1 t1 g2 t2,
    gdrive (lift step) sched (c, rs) = (g1, t1) ->
    gfinish (lift step) fuel runs g1 = (g2, t2) ->
    all_final (lift step) g2 = true ->
    fst g2 = c /\
    forall i r, nth_error rs i = Some r ->
      exists r', nth_error (snd g2) i = Some r' /\
                 forall f, count i (t1 ++ t2) <= f -> run_alone step c f r = Some r'.
  Proof.
    intros c rs sched fuel runs g1 t1 g2 t2 D F A.
    assert (G : grun (lift step) (t1 ++ t2) (c, rs) = Some g2).
    { rewrite grun_app_gen. rewrite (gdrive_is_grun _ _ _ _ _ _ _ D). eapply gfinish_is_grun; eauto. }
    destruct g2 as [c2 rs2].
    destruct (runs_non_interfering_pure _ _ step _ _ _ _ _ G) as (Ec & _ & _). subst c2.
    split; [reflexivity|].
    intros i r Hr.
    exact (complete_runs_equal_solo _ _ step c c (t1 ++ t2) rs rs2 G A i r Hr).
  Qed.

  (* run_alone and the fuel-bounded iteration used for the solo prediction agree *)
  Fixpoint iter_some (n : nat) (f : R -> option R) (a : R) : R :=
    match n with
    | O => a
    | S n' => match f a with None => a | Some a' => iter_some n' f a' end
    end.

  Lemma run_alone_iter_some : forall c fuel r r',
    run_alone step c fuel r = Some r' -> iter_some (S fuel) (step c) r = r' /\ step c r' = None.
  Proof.
    induction fuel as [|f IH]; intros r r' H; simpl in H.
    - destruct (step c r) as [r1|] eqn:E; try discriminate. inversion H; subst. simpl. rewrite E. auto.
    - destruct (step c r) as [r1|] eqn:E.
      + destruct (IH _ _ H) as (A & B). split; auto. simpl. rewrite E. simpl in A. exact A.
      + inversion H; subst. simpl. rewrite E. auto.
  Qed.

  (* ---- isolation as an inductive invariant of the product system ---- *)

  (* r is a state run i can be in when it runs alone from r0 *)
  Definition solo_reach (c : C) (r0 r : R) : Prop := exists n, iter step c n r0 = Some r.

  Definition isolated (c : C) (rs0 : list R) (g : gstate C R) : Prop :=
    fst g = c /\ Forall2 (solo_reach c) rs0 (snd g).

  Lemma iter_snoc : forall c n r r1 r2, iter step c n r = Some r1 -> step c r1 = Some r2 -> iter step c (S n) r = Some r2.
  Proof.
    induction n as [|n IH]; intros r r1 r2 H S1.
    - simpl in H. inversion H; subst. simpl. rewrite S1. reflexivity.
    - simpl in H. simpl. destruct (step c r) as [r'|] eqn:E; try discriminate. exact (IH _ _ _ H S1).
  Qed.

  Lemma isolated_init : forall c rs0, isolated c rs0 (c, rs0).
  Proof.
    intros c rs0; split; simpl; auto.
    induction rs0 as [|r l IH]; constructor; auto. exists O; reflexivity.
  Qed.

  Lemma Forall2_upd : forall (P : R -> R -> Prop) l m i a b,
    Forall2 P l m -> nth_error l i = Some a -> P a b -> Forall2 P l (upd i b m).
  Proof.
    intros P l m i a b H; revert i. induction H as [|x y l m Pxy Hl IH]; intros [|i] Ha Pab; simpl in *; try discriminate.
    - inversion Ha; subst. constructor; auto.
    - constructor; auto.
  Qed.

  Lemma Forall2_nth : forall (P : R -> R -> Prop) l m i b,
    Forall2 P l m -> nth_error m i = Some b -> exists a, nth_error l i = Some a /\ P a b.
  Proof.
    intros P l m i b H; revert i. induction H as [|x y l m Pxy Hl IH]; intros [|i] Hb; simpl in *; try discriminate.
    - inversion Hb; subst. eauto.
    - eauto.
  Qed.

  (* any step of any run preserves it: no run can bring another run (or itself) into a state
     it could not reach alone, and the compiled record stays what it is *)
  Lemma isolated_step : forall c rs0 g i g',
    isolated c rs0 g -> gstep (lift step) i g = Some g' -> isolated c rs0 g'.
  Proof.
    intros c rs0 [s rs] i g' [Hc Hf] H. simpl in *. subst s.
    unfold gstep in H; simpl in H.
    destruct (nth_error rs i) as [r|] eqn:Er; try discriminate.
    unfold lift in H. destruct (step c r) as [r1|] eqn:Es; try discriminate.
    inversion H; subst; clear H. split; simpl; auto.
    destruct (Forall2_nth _ _ _ _ _ Hf Er) as (r0 & Hr0 & (n & Hn)).
    eapply Forall2_upd; eauto. exists (S n). eapply iter_snoc; eauto.
  Qed.

  Theorem isolated_invariant : forall c rs0 sched g',
    grun (lift step) sched (c, rs0) = Some g' -> isolated c rs0 g'.
  Proof.
    intros c rs0 sched. 
    assert (Hgen : forall g g', isolated c rs0 g -> grun (lift step) sched g = Some g' -> isolated c rs0 g').
    { induction sched as [|i sc IH]; simpl; intros g g' Hi H.
      - inversion H; subst; auto.
      - destruct (gstep (lift step) i g) as [g1|] eqn:E; try discriminate.
        eapply IH; [eapply isolated_step; eauto|exact H]. }
    intros g' H. eapply Hgen; eauto. apply isolated_init.
  Qed.
End DriverPure.

(* ---------------------------------------------------------------- shapes of shared mutable state (instance 4) *)

(* (a) buffer reuse: run 0 (options [1]) sees run 1's options [2;3] under 0,1,0,1 *)
Lemma buffer_reuse_foreign_options :
  exists sched g g',
    grun bstep_shared sched g = Some g' /\ all_final bstep_shared g' = true /\
    exists r r' s rs,
      nth_error (snd g) 0 = Some r /\ nth_error (snd g') 0 = Some r' /\
      solo_run bstep_shared 2 (fst g) r = Some (s, rs) /\
      b_seen rs = Some (b_opts r) /\ b_seen r' <> Some (b_opts r).
Proof.
  exists [0; 1; 0; 1]%nat,
         ([], [ {| b_pc := 0; b_opts := [1%N]; b_seen := None |}; {| b_pc := 0; b_opts := [2%N; 3%N]; b_seen := None |} ]).
  eexists. split; [vm_compute; reflexivity|]. split; [vm_compute; reflexivity|].
  do 4 eexists. repeat split; try (vm_compute; reflexivity). vm_compute. discriminate.
Qed.

(* (b) sticky limit: SEQUENTIAL schedule 0,0,1,1: run 1 (no override) uses run 0's limit 5, alone it uses 30 *)
Lemma sticky_limit_inherited :
  exists g g',
    grun lstep_sticky [0; 0; 1; 1]%nat g = Some g' /\ all_final lstep_sticky g' = true /\
    exists r r' s rs,
      nth_error (snd g) 1 = Some r /\ nth_error (snd g') 1 = Some r' /\
      solo_run lstep_sticky 2 (fst g) r = Some (s, rs) /\
      l_used rs = Some 30%N /\ l_used r' = Some 5%N /\ fst g' <> fst g.
Proof.
  exists (30%N, [ {| l_pc := 0; l_override := Some 5%N; l_used := None |}; {| l_pc := 0; l_override := None; l_used := None |} ]).
  eexists. split; [vm_compute; reflexivity|]. split; [vm_compute; reflexivity|].
  do 4 eexists. repeat split; try (vm_compute; reflexivity). vm_compute. discriminate.
Qed.

(* the code as it is satisfies H1/H2 with view = the whole store, hence the theorem applies *)
Lemma lstep_local_no_write : forall s r s' r', lstep_local s r = Some (s', r') -> (fun x : N => x) s' = (fun x : N => x) s.
Proof.
  unfold lstep_local; intros s r s' r' H.
  destruct (N.eqb (l_pc r) 0); [inversion H; auto|]. destruct (N.eqb (l_pc r) 1); inversion H; auto.
Qed.
Lemma lstep_local_reads_view : forall s1 s2 r, (fun x : N => x) s1 = (fun x : N => x) s2 ->
  option_map snd (lstep_local s1 r) = option_map snd (lstep_local s2 r).
Proof. intros s1 s2 r H; simpl in H; subst; auto. Qed.

Lemma lstep_local_uses_own_limit : forall sched g g',
  grun lstep_local sched g = Some g' ->
  fst g' = fst g /\
  forall i r, nth_error (snd g) i = Some r -> l_pc r = 0%N ->
  forall r', nth_error (snd g') i = Some r' -> final lstep_local (fst g') r' = true ->
  l_used r' = Some (match l_override r with Some m => m | None => fst g end).
Proof.
  intros sched g g' H. split.
  - exact (grun_view _ _ _ lstep_local (fun x : N => x) lstep_local_no_write sched g g' H).
  - intros i r Hr Hpc r' Hr' Hf.
    destruct (project_run _ _ _ lstep_local (fun x : N => x) lstep_local_no_write lstep_local_reads_view
                sched g g' H i r Hr (fst g) eq_refl) as (sf & rf & A & B & _).
    rewrite Hr' in B; inversion B; subst rf; clear B.
    destruct r as [pc ov us]; simpl in *; subst pc.
    remember (count i sched) as n. destruct n as [|[|[|n]]]; simpl in A.
    + inversion A; subst r'. unfold final, lstep_local in Hf; simpl in Hf. discriminate.
    + unfold lstep_local in A; simpl in A. inversion A; subst r'. unfold final, lstep_local in Hf; simpl in Hf. discriminate.
    + unfold lstep_local in A; simpl in A. inversion A; subst r'. reflexivity.
    + unfold lstep_local in A; simpl in A. discriminate.
Qed.
