(* Proofs/DagProgress.v — C02: an all-predecessor run does not stall: in every state the loop of runner.run
   reaches there is a task to submit or to collect, and runner.run never returns "no tasks to execute"
   (for graphs whose control and data dependencies have a topological order).
   Part 1 (SN): a skipped channel belongs to a real node (reportBranch fails with "unknown node: end" when the
   skip reaches END), so in every state the loop reaches END is not skipped. *)
From Eino Require Import Base.Util Model.Graph Model.DagSpec Proofs.DagChan Proofs.DagInv Proofs.DagLoop Proofs.DagTrig
     Proofs.DagVals Proofs.DagSkip Proofs.DagTrigLoop Proofs.DagDen Proofs.DagDenFun.
From Coq Require Import Lia Permutation Wf_nat.
Open Scope N_scope.

Section SkippedAreNodes.
  Variable V : Type.
  Variable ops : vops V.
  Variable g : graph.
  Hypothesis Hdag : g_mode g = Dag.

  Notation chans := (chans V).
  Notation skipped := (skipped V).

  (* W: skipped, still on the work list of reportBranch *)
  Definition SN (cs : chans) (W : list key) : Prop :=
    forall k, skipped cs k -> In k W \/ find_node g k <> None.

  Lemma SN_weaken cs W W' : incl W W' -> SN cs W -> SN cs W'.
  Proof. intros Hi H k Hk. destruct (H k Hk); [left; now apply Hi|now right]. Qed.

  Lemma rst_body_SN from cs0 nw0 W t cs1 nw1 :
    SN cs0 (W ++ nw0) -> rst_body V from (cs0, nw0) t = (cs1, nw1) -> SN cs1 (W ++ nw1).
  Proof.
    intros HS. unfold rst_body. destruct (alookup t cs0) as [c|] eqn:Et; [|intros [= <- <-]; exact HS].
    destruct (dag_report_skip V c [from]) as [c' sk] eqn:Esk. intros [= <- <-].
    assert (Hsk : c_skipped V c' = sk) by (unfold dag_report_skip in Esk; injection Esk as <- <-; reflexivity).
    assert (Hext : forall z, In z (W ++ nw0) -> In z (W ++ (if (sk && negb (c_skipped V c))%bool then nw0 ++ [t] else nw0))).
    { intros z Hz. apply in_app_iff in Hz. apply in_app_iff. destruct Hz as [Hz|Hz]; [now left|right].
      destruct (sk && negb (c_skipped V c))%bool; [apply in_app_iff; now left|assumption]. }
    intros k (ck & Ek & Sk). rewrite alookup_upd_chan in Ek. destruct (N.eqb_spec k t) as [->|Hne].
    - rewrite Et in Ek. simpl in Ek. injection Ek as <-. rewrite Hsk in Sk. subst sk.
      destruct (c_skipped V c) eqn:Sc.
      + assert (Hk : skipped cs0 t) by (exists c; auto).
        destruct (HS t Hk) as [Hin|Hf]; [left; now apply Hext|now right].
      + left. rewrite Sk. simpl. apply in_app_iff. right. apply in_app_iff. right. now left.
    - assert (Hk : skipped cs0 k) by (exists ck; auto).
      destruct (HS k Hk) as [Hin|Hf]; [left; now apply Hext|now right].
  Qed.

  Lemma rst_fold_SN from targets : forall cs0 nw0 W cs1 nw1,
    SN cs0 (W ++ nw0) -> fold_left (rst_body V from) targets (cs0, nw0) = (cs1, nw1) -> SN cs1 (W ++ nw1).
  Proof.
    induction targets as [|t targets IH]; intros cs0 nw0 W cs1 nw1 HS H; cbn [fold_left] in H.
    - injection H as <- <-. exact HS.
    - destruct (rst_body V from (cs0, nw0) t) as [csm nwm] eqn:Eb.
      eapply IH; [eapply rst_body_SN; eassumption|exact H].
  Qed.

  Lemma propagate_SN fuel : forall work cs cs', SN cs work -> propagate V g fuel work cs = Ok cs' -> SN cs' [].
  Proof.
    induction fuel as [|fuel IH]; intros work cs cs' HS; destruct work as [|k work]; simpl.
    - intros [= <-]. exact HS.
    - discriminate.
    - intros [= <-]. exact HS.
    - destruct (find_node g k) as [n|] eqn:Ef; [|discriminate].
      destruct (report_skip_to V cs k (succs n)) as [cs1 newly] eqn:Er. intros Hp.
      rewrite report_skip_to_eq in Er.
      apply (IH (work ++ newly) cs1 cs'); [|exact Hp].
      pose proof (rst_fold_SN k (succs n) cs [] (k :: work) cs1 newly) as H.
      rewrite app_nil_r in H. specialize (H HS Er).
      intros k' Hk'. destruct (H k' Hk') as [[<-|Hin]|Hf]; [right; congruence|now left|now right].
  Qed.

  Lemma report_branch_SN from sk cs cs' : SN cs [] -> report_branch V g from sk cs = Ok cs' -> SN cs' [].
  Proof.
    intros HS. unfold report_branch. rewrite Hdag.
    destruct (report_skip_to V cs from sk) as [cs1 newly] eqn:Er. intros Hp.
    rewrite report_skip_to_eq in Er.
    eapply propagate_SN; [|exact Hp].
    exact (rst_fold_SN from sk cs [] [] cs1 newly HS Er).
  Qed.

  Lemma resolve_all_SN completed : forall cs cs' ws ds,
    SN cs [] -> resolve_all V ops g completed cs = Ok (cs', ws, ds) -> SN cs' [].
  Proof.
    induction completed as [|[k out] completed IH]; intros cs cs' ws ds HS; cbn [resolve_all].
    - intros [= <- _ _]. exact HS.
    - destruct (find_node g k) as [n|]; [|discriminate].
      destruct (resolve_one V ops g n out cs) as [[[cs1 w1] d1]|e|] eqn:E1; simpl; [|discriminate..].
      destruct (resolve_all V ops g completed cs1) as [[[cs2 w2] d2]|e|] eqn:E2; simpl; [|discriminate..].
      intros [= <- _ _]. eapply IH; [|exact E2].
      unfold resolve_one in E1. destruct (eval_branches V ops n out) as [[sel sk]|e|]; simpl in E1; [|discriminate..].
      destruct (report_branch V g (n_key n) sk cs) as [cs1'|e|] eqn:Erb; simpl in E1; [|discriminate..].
      injection E1 as <- _ _. eapply report_branch_SN; eassumption.
  Qed.

  Lemma update_chans_SN ws ds cs cs' : SN cs [] -> update_chans V g ws ds cs = Ok cs' -> SN cs' [].
  Proof.
    intros HS. unfold update_chans. destruct (targets_exist V cs ws ds); [|discriminate].
    intros [= <-]. rewrite (update_chans_eq V g Hdag).
    assert (Hlk : forall t, alookup t (map (fun kv : N * chan V => (fst kv, upd1 V g ws ds (fst kv) (snd kv))) cs)
                           = option_map (upd1 V g ws ds t) (alookup t cs)).
    { intros t. exact (alookup_map_snd (fun kv => upd1 V g ws ds (fst kv) (snd kv)) t cs). }
    intros k (c' & E' & S'). rewrite Hlk in E'.
    destruct (alookup k cs) as [c|] eqn:E; [|discriminate]. simpl in E'. injection E' as <-.
    rewrite upd1_skipped in S'. apply HS. exists c. auto.
  Qed.

  Lemma get_all_SN cs cs' ready : ksorted cs -> SN cs [] -> get_all V ops g cs = Ok (cs', ready) -> SN cs' [].
  Proof.
    intros Hks HS Hg. destruct (get_all_spec V ops g Hdag cs cs' ready Hks Hg) as (_ & _ & _ & Hspec).
    intros k (c' & E' & S'). specialize (Hspec k). destruct (alookup k cs) as [c|] eqn:E.
    - destruct Hspec as (ov & c2 & G1 & G2 & _). rewrite E' in G2. injection G2 as <-.
      apply HS. exists c. split; [assumption|].
      destruct (dag_get_cases V ops c ov c' G1) as [(_ & -> & _)|(v & _ & -> & _)]; [assumption|exact S'].
    - destruct Hspec as [En _]. congruence.
  Qed.

  Lemma calc_next_SN cs completed cs' ready :
    ksorted cs -> SN cs [] -> calc_next V ops g cs completed = Ok (cs', ready) -> SN cs' [].
  Proof.
    intros Hks HS. unfold calc_next.
    destruct (resolve_all V ops g completed cs) as [[[cs1 ws] ds]|e|] eqn:E1; simpl; [|discriminate..].
    destruct (update_chans V g ws ds cs1) as [cs2|e|] eqn:E2; simpl; [|discriminate..].
    intros E3.
    pose proof (resolve_all_SN completed cs cs1 ws ds HS E1) as H1.
    pose proof (update_chans_SN ws ds cs1 cs2 H1 E2) as H2.
    eapply get_all_SN; [|exact H2|exact E3].
    (* the key list, hence sortedness, is unchanged by resolve_all and update_chans *)
    assert (K1 : akeys cs1 = akeys cs) by (destruct (resolve_all_frame V ops g Hdag completed cs cs1 ws ds E1) as [K _]; exact K).
    assert (K2 : akeys cs2 = akeys cs1).
    { unfold update_chans in E2. destruct (targets_exist V cs1 ws ds); [|discriminate]. injection E2 as <-.
      rewrite (update_chans_eq V g Hdag). exact (akeys_map_snd (fun kv => upd1 V g ws ds (fst kv) (snd kv)) cs1). }
    eapply ksorted_akeys_eq; [|exact Hks]. congruence.
  Qed.

  Lemma init_chans_SN cs : init_chans V g = Ok cs -> SN cs [].
  Proof.
    unfold init_chans. rewrite Hdag. apply report_branch_SN.
    intros k (c & E & S). exfalso. rewrite (init_v0_lookup V g) in E. destruct (memb k (chan_keys g)); [|discriminate].
    injection E as <-. unfold chan_init in S. rewrite Hdag in S. discriminate.
  Qed.
End SkippedAreNodes.

(* ================= Part 2: the loop never runs out of tasks =================
   In every state the loop of runner.run reaches there is a task to submit or to collect: the exit "no tasks to
   execute" is dead code for graphs whose dependencies (control and data) have a topological order.
   Argument: in a state with nothing to submit and nothing running, every executed node is resolved (XR). Take a
   channel that is neither handed out nor skipped, of minimal rank: all its predecessors are handed out (hence
   executed, hence resolved) or skipped, so it is triggered, so (dag_runs_iff_triggered) it was executed or is
   scheduled — it was handed out after all. So every channel is handed out or skipped, END included; but END is
   never executed in a state the loop continues from, and END is never skipped (SN: reportBranch fails first). *)
Section Progress.
  Variable V : Type.
  Variable St : Type.
  Variable ops : vops V.
  Variable g : graph.
  Hypothesis Hdag : g_mode g = Dag.
  Hypothesis Hnk : NoDup (map n_key (g_nodes g)).
  Hypothesis Hcd : api_built g.
  Hypothesis HendN : find_node g kEND = None.                         (* END is not a node *)
  Variable rank : key -> nat.
  Hypothesis Hrank : forall t q, gpred g t q -> (rank q < rank t)%nat.
  Variable nout : node -> V -> tres V.
  Hypothesis Hnz : forall n v, nout n v <> TErr [].                   (* a failing node reports an error *)
  Variable x : V.
  Variable exec : St -> path -> V -> res V * St.
  Variable sub : nat -> path -> V -> St -> outcome V * St.
  Variable sched : nat -> list key -> nat.
  Variable p : path.
  Hypothesis Hsub : forall i k v s, Forall (fun e : logentry V => fst e <> p) (outcome_log V (fst (sub i (p ++ [k]) v s))).
  Hypothesis Hpure : forall n v s, fst (fst (run_task V St ops exec sub p n v s)) = nout n v.

  Notation reach := (reach V St ops g exec sub sched p).
  Notation step := (step V St ops exec sub sched p g).
  Notation skipped := (skipped V).
  Notation LX := (LX V St ops g nout x p).

  Lemma LT_ksorted ls Rv : LT V St ops g p ls Rv -> ksorted (ls_chans V St ls).
  Proof. intros (X & G & HL & _). destruct HL as (HI & _). exact (proj1 (inv_wf _ _ _ _ _ _ HI)). Qed.

  Lemma reach_SN s0 ls Rv : reach x s0 ls Rv -> SN V g (ls_chans V St ls) [].
  Proof.
    induction 1 as [cs0 cs1 ready Hi Hc Hend|ls Rv ls' Hr IH Hstep].
    - cbn [init_state ls_chans]. eapply calc_next_SN; [exact Hdag| |eapply init_chans_SN; eassumption|exact Hc].
      destruct (init_chans_inv V g Hdag cs0 Hi) as [HI _]. exact (proj1 (inv_wf _ _ _ _ _ _ HI)).
    - destruct (step_continue_unfold V St ops g Hdag exec sub sched p ls ls' Hstep)
        as (results & sublog & s' & completed & running' & cs' & ready & Es & Ew & Ecn & Eend & Eso & ->).
      cbn [ls_chans]. eapply calc_next_SN; [exact Hdag| |exact IH|exact Ecn].
      eapply LT_ksorted. eapply (reach_LT V St ops g Hdag Hnk Hcd exec sub sched p Hsub); eassumption.
  Qed.

  Lemma reach_start_resolved s0 ls Rv : reach x s0 ls Rv -> In kSTART (akeys Rv).
  Proof.
    induction 1 as [cs0 cs1 ready Hi Hc Hend|ls Rv ls' Hr IH Hstep]; [now left|].
    unfold akeys. rewrite map_app. apply in_app_iff. now left.
  Qed.

  Lemma reach_end_not_next s0 ls Rv : reach x s0 ls Rv -> ~ In kEND (akeys (ls_next V St ls)).
  Proof.
    induction 1 as [cs0 cs1 ready Hi Hc Hend|ls Rv ls' Hr IH Hstep].
    - cbn [init_state ls_next]. now apply alookup_none.
    - destruct (step_continue_unfold V St ops g Hdag exec sub sched p ls ls' Hstep)
        as (results & sublog & s' & completed & running' & cs' & ready & Es & Ew & Ecn & Eend & Eso & ->).
      cbn [ls_next]. now apply alookup_none.
  Qed.

  Lemma own_paths_step ls results sublog s' :
    submit V St ops exec sub p g (ls_next V St ls) (ls_st V St ls) = (results, sublog, s') ->
    own_paths V p (ls_log V St ls ++ next_entry V St p ls ++ sublog)
    = own_paths V p (ls_log V St ls) ++ map (fun k => p ++ [k]) (akeys (ls_next V St ls)).
  Proof.
    intros Es. destruct (submit_spec V St ops g exec sub p _ Hsub _ _ _ _ _ Es) as [_ Hsl].
    now rewrite !own_paths_app, (own_paths_foreign V p sublog Hsl), app_nil_r, own_paths_next.
  Qed.

  Lemma in_map_path (X : list key) k : In (p ++ [k]) (map (fun k => p ++ [k]) X) <-> In k X.
  Proof.
    rewrite in_map_iff. split.
    - intros (k' & E & Hk'). apply app_inv_head in E. now injection E as <-.
    - intros Hk. exists k. auto.
  Qed.

  Lemma reach_end_not_executed s0 ls Rv : reach x s0 ls Rv -> ~ In (p ++ [kEND]) (own_paths V p (ls_log V St ls)).
  Proof.
    induction 1 as [cs0 cs1 ready Hi Hc Hend|ls Rv ls' Hr IH Hstep].
    - cbn [init_state ls_log]. rewrite own_paths_marker. intros [].
    - destruct (step_continue_unfold V St ops g Hdag exec sub sched p ls ls' Hstep)
        as (results & sublog & s' & completed & running' & cs' & ready & Es & Ew & Ecn & Eend & Eso & ->).
      cbn [ls_log]. rewrite (own_paths_step ls results sublog s' Es). intros Hin. apply in_app_iff in Hin.
      destruct Hin as [Hin|Hin]; [now apply IH|]. apply in_map_path in Hin.
      exact (reach_end_not_next s0 ls Rv Hr Hin).
  Qed.

  Lemma reach_chan_keys s0 ls Rv : reach x s0 ls Rv -> akeys (ls_chans V St ls) = akeys (init_chans_v0 V g).
  Proof.
    induction 1 as [cs0 cs1 ready Hi Hc Hend|ls Rv ls' Hr IH Hstep].
    - cbn [init_state ls_chans].
      destruct (init_chans_inv V g Hdag cs0 Hi) as [HI0 Ho0].
      assert (Hpre0 : forall k, In k (akeys [(kSTART, x)]) -> In k [kSTART] /\ npred g [kSTART] k).
      { intros k [<-|[]]. split; [now left|]. intros t [<-|[]] Hne. congruence. }
      assert (Hnd : NoDup [kSTART]) by (constructor; [intros []|constructor]).
      destruct (calc_next_inv V ops g Hdag _ _ _ _ _ _ HI0 Ho0 Hnd Hpre0 Hc) as (_ & _ & _ & [K1 _]).
      rewrite K1. unfold init_chans in Hi. rewrite Hdag in Hi.
      assert (HtG : forall t c, In t (unreachable_nodes g) -> alookup t (init_chans_v0 V g) = Some c -> ~ In t [kSTART]).
      { intros t c _ E [<-|[]]. rewrite (start_no_chan V g _ _ _ _ (init_v0_inv V g Hdag)) in E. discriminate. }
      destruct (report_branch_inv V g Hdag _ [kSTART] [kSTART] kSTART _ cs0 (init_v0_inv V g Hdag) (or_introl eq_refl) HtG Hi)
        as (_ & [K0 _] & _). exact K0.
    - destruct (step_continue_unfold V St ops g Hdag exec sub sched p ls ls' Hstep)
        as (results & sublog & s' & completed & running' & cs' & ready & Es & Ew & Ecn & Eend & Eso & ->).
      cbn [ls_chans]. rewrite <- IH.
      destruct (reach_LT V St ops g Hdag Hnk Hcd exec sub sched p Hsub x s0 ls Rv Hr) as (X & G & HL & _).
      pose proof HL as (HI & Ho & Hnd & _).
      destruct (step_completed_pre V St ops g exec sub sched p Hsub ls (akeys Rv) X G _ _ _ _ _ HL Es Ew) as (_ & Hpre).
      assert (Hpre' : forall k, In k (akeys (task_outputs V completed)) -> In k G /\ npred g G k).
      { intros k Hk. destruct (Hpre k Hk) as (A & B & _). auto. }
      destruct (calc_next_inv V ops g Hdag _ _ _ _ _ _ HI Ho Hnd Hpre' Ecn) as (_ & _ & _ & [K _]). exact K.
  Qed.

  Lemma chan_exists s0 ls Rv k :
    reach x s0 ls Rv -> In k (chan_keys g) -> exists c, alookup k (ls_chans V St ls) = Some c.
  Proof.
    intros Hr Hk. apply alookup_key_some. rewrite (reach_chan_keys s0 ls Rv Hr).
    destruct (alookup k (init_chans_v0 V g)) as [c|] eqn:E; [eapply alookup_some_key; eassumption|].
    rewrite (init_v0_lookup V g) in E. apply memb_in in Hk. rewrite Hk in E. discriminate.
  Qed.

  Lemma gpred_chan_key t q : gpred g t q -> q <> kSTART -> In q (chan_keys g).
  Proof.
    intros Hq Hne. unfold chan_keys. apply in_app_iff. left.
    assert (Hex : exists n, In n (g_nodes g) /\ n_key n = q).
    { destruct Hq as [Hq|Hq]; [unfold cpreds in Hq|unfold dpreds in Hq]; apply in_map_iff in Hq;
        destruct Hq as (n & Hk & Hn); apply filter_In in Hn; destruct Hn as [Hn _]; eauto. }
    destruct Hex as (n & Hn & <-). apply in_map. unfold real_nodes. apply filter_In. split; [assumption|].
    apply negb_true_iff. now apply N.eqb_neq.
  Qed.

  (* a step that continues collected no failed task ... *)
  Lemma step_continue_noerr ls ls' results sublog s' completed running' :
    step ls = Continue ls' ->
    submit V St ops exec sub p g (ls_next V St ls) (ls_st V St ls) = (results, sublog, s') ->
    wait_tasks V sched g (ls_step V St ls) (ls_running V St ls ++ results) = (completed, running') ->
    task_errors V completed = [].
  Proof.
    unfold Graph.step, step_limit_hit. rewrite Hdag. intros H Es Ew. rewrite Es, Ew in H.
    destruct (task_errors V completed); [reflexivity|discriminate].
  Qed.

  (* ... so every collected task delivered an output *)
  Lemma completed_ok ls Rv results sublog s' completed running' :
    LX ls Rv ->
    submit V St ops exec sub p g (ls_next V St ls) (ls_st V St ls) = (results, sublog, s') ->
    wait_tasks V sched g (ls_step V St ls) (ls_running V St ls ++ results) = (completed, running') ->
    task_errors V completed = [] ->
    forall k r, In (k, r) completed -> exists v, r = TOk v.
  Proof.
    intros HLX Es Ew Hte k r Hin. destruct r as [v|es]; [eauto|exfalso].
    destruct (LX_submitted V St ops g nout x exec sub p Hsub Hpure ls Rv results sublog s' HLX Es) as [_ HRE].
    assert (Hin' : In (k, TErr es) (ls_running V St ls ++ results)).
    { eapply Permutation_in; [exact (wait_tasks_perm V g sched _ _ _ _ Ew)|]. apply in_app_iff. now left. }
    assert (Hes : es <> []).
    { destruct (HRE k es Hin') as [(n & w & _ & _ & Ho)|(_ & ->)]; [|discriminate]. intros ->. exact (Hnz n w Ho). }
    destruct es as [|e es]; [congruence|].
    assert (He : In e (task_errors V completed)).
    { unfold task_errors. apply in_flat_map. exists (k, TErr (e :: es)). split; [assumption|]. now left. }
    rewrite Hte in He. destruct He.
  Qed.

  (* XR: every executed node is resolved or still running *)
  Lemma reach_XR s0 ls Rv :
    reach x s0 ls Rv ->
    forall k, In (p ++ [k]) (own_paths V p (ls_log V St ls)) -> In k (akeys Rv) \/ In k (akeys (ls_running V St ls)).
  Proof.
    induction 1 as [cs0 cs1 ready Hi Hc Hend|ls Rv ls' Hr IH Hstep]; intros k Hk.
    - cbn [init_state ls_log] in Hk. rewrite own_paths_marker in Hk. destruct Hk.
    - pose proof Hstep as Hstep0.
      destruct (step_continue_unfold V St ops g Hdag exec sub sched p ls ls' Hstep)
        as (results & sublog & s' & completed & running' & cs' & ready & Es & Ew & Ecn & Eend & Eso & ->).
      pose proof (step_continue_noerr ls _ results sublog s' completed running' Hstep0 Es Ew) as Hte.
      pose proof (reach_LX V St ops g Hdag Hnk Hcd nout x exec sub sched p Hsub Hpure s0 ls Rv Hr) as HLX.
      pose proof (completed_ok ls Rv results sublog s' completed running' HLX Es Ew Hte) as Hok.
      pose proof (wait_tasks_perm V g sched _ _ _ _ Ew) as Hwp.
      destruct (submit_spec V St ops g exec sub p _ Hsub _ _ _ _ _ Es) as [Hkeys _].
      cbn [ls_log ls_running] in *. rewrite Eso. rewrite (own_paths_step ls results sublog s' Es) in Hk.
      (* a task among running ++ results is collected (and resolved) or still running *)
      assert (Hsplit : forall r, In (k, r) (ls_running V St ls ++ results) ->
                 In k (akeys (Rv ++ task_outputs V completed)) \/ In k (akeys running')).
      { intros r Hin. apply (Permutation_in _ (Permutation_sym Hwp)) in Hin. apply in_app_iff in Hin.
        destruct Hin as [Hin|Hin].
        - left. destruct (Hok k r Hin) as (v & ->). unfold akeys. rewrite map_app. apply in_app_iff. right.
          apply in_akeys. exists v. now apply task_outputs_in.
        - right. apply in_akeys. eauto. }
      apply in_app_iff in Hk. destruct Hk as [Hk|Hk].
      + destruct (IH k Hk) as [HR|HRu].
        * left. unfold akeys. rewrite map_app. apply in_app_iff. now left.
        * apply in_akeys in HRu. destruct HRu as (r & Hin). apply (Hsplit r). apply in_app_iff. now left.
      + apply in_map_path in Hk. rewrite <- Hkeys in Hk. apply in_akeys in Hk. destruct Hk as (r & Hin).
        apply (Hsplit r). apply in_app_iff. now right.
  Qed.

  (* THE LOOP NEVER RUNS OUT OF TASKS *)
  Theorem reach_not_stalled s0 ls Rv :
    reach x s0 ls Rv -> ls_next V St ls <> [] \/ ls_running V St ls <> [].
  Proof.
    intros Hr.
    destruct (ls_next V St ls) as [|a l] eqn:En; [|left; discriminate].
    destruct (ls_running V St ls) as [|b l'] eqn:Eru; [|right; discriminate]. exfalso.
    pose proof (reach_LT V St ops g Hdag Hnk Hcd exec sub sched p Hsub x s0 ls Rv Hr) as HLT.
    pose proof HLT as (X & G & HL & _).
    pose proof HL as (HI & _ & _ & Hperm & _ & _ & _ & Hlog).
    rewrite En, app_nil_r in Hperm.
    pose proof (reach_XR s0 ls Rv Hr) as HXR. rewrite Eru in HXR.
    (* handed out = START or executed = START or resolved *)
    assert (HG : forall q, In q G -> In q (akeys Rv)).
    { intros q Hq. apply (Permutation_in _ Hperm) in Hq. destruct Hq as [<-|Hq]; [eapply reach_start_resolved; eassumption|].
      assert (Hex : In (p ++ [q]) (own_paths V p (ls_log V St ls))) by (rewrite Hlog; now apply in_map_path).
      destruct (HXR q Hex) as [?|[]]. assumption. }
    assert (Hall : forall n t c, (rank t < n)%nat -> alookup t (ls_chans V St ls) = Some c -> In t G \/ c_skipped V c = true).
    { induction n as [|n IHn]; intros t c Hlt E; [lia|].
      destruct (c_skipped V c) eqn:S; [now right|left].
      assert (Htr : triggered V St g ls Rv t).
      { exists c. split; [assumption|]. split; [assumption|]. intros q Hq.
        destruct (N.eq_dec q kSTART) as [->|Hne]; [left; eapply reach_start_resolved; eassumption|].
        destruct (chan_exists s0 ls Rv q Hr (gpred_chan_key t q Hq Hne)) as (cq & Eq).
        assert (Hlt' : (rank q < n)%nat) by (specialize (Hrank t q Hq); lia).
        destruct (IHn q cq Hlt' Eq) as [HqG|Sq]; [left; now apply HG|right; exists cq; auto]. }
      destruct (proj2 (runs_iff_triggered_LT V St ops g p ls Rv t HLT) Htr) as [Hex|Hsc].
      - unfold executed in Hex. rewrite Hlog in Hex. apply in_map_path in Hex.
        apply (Permutation_in _ (Permutation_sym Hperm)). now right.
      - unfold scheduled in Hsc. rewrite En in Hsc. destruct Hsc. }
    assert (HendK : In kEND (chan_keys g)) by (unfold chan_keys; apply in_app_iff; right; now left).
    destruct (chan_exists s0 ls Rv kEND Hr HendK) as (ce & Ee).
    destruct (Hall (S (rank kEND)) kEND ce (Nat.lt_succ_diag_r _) Ee) as [HeG|Se].
    - apply (Permutation_in _ Hperm) in HeG. destruct HeG as [HeG|HeG]; [discriminate|].
      apply (reach_end_not_executed s0 ls Rv Hr). rewrite Hlog. now apply in_map_path.
    - destruct (reach_SN s0 ls Rv Hr kEND) as [[]|Hf]; [exists ce; auto|]. exact (Hf HendN).
  Qed.
End Progress.

(* ================= Part 3: runner.run never ends with "no tasks to execute" ================= *)
Section ErrorClasses.
  Variable V : Type.
  Variable ops : vops V.
  Variable g : graph.
  Hypothesis Hdag : g_mode g = Dag.

  Definition engine_err (e : N) : Prop :=
    e = eUnknownNode \/ e = eBranch \/ e = eLoopFuel \/ e = eSkipEnd \/ exists vals, v_merge ops vals = Err e.

  Lemma propagate_err fuel : forall work cs e, propagate V g fuel work cs = Err e -> e = eLoopFuel \/ e = eSkipEnd.
  Proof.
    induction fuel as [|fuel IH]; intros work cs e; destruct work as [|k work]; simpl; try discriminate.
    - intros [= <-]. now left.
    - destruct (find_node g k) as [n|]; [|intros [= <-]; now right].
      destruct (report_skip_to V cs k (succs n)) as [cs1 newly]. apply IH.
  Qed.

  Lemma report_branch_err from sk cs e : report_branch V g from sk cs = Err e -> e = eLoopFuel \/ e = eSkipEnd.
  Proof.
    unfold report_branch. rewrite Hdag. destruct (report_skip_to V cs from sk) as [cs1 newly]. apply propagate_err.
  Qed.

  Lemma resolve_all_err completed : forall cs e, resolve_all V ops g completed cs = Err e -> engine_err e.
  Proof.
    induction completed as [|[k out] completed IH]; intros cs e; cbn [resolve_all]; [discriminate|].
    destruct (find_node g k) as [n|]; [|intros [= <-]; now left].
    destruct (resolve_one V ops g n out cs) as [[[cs1 w1] d1]|e1|] eqn:E1; simpl.
    - destruct (resolve_all V ops g completed cs1) as [[[cs2 w2] d2]|e2|] eqn:E2; simpl; [discriminate| |discriminate].
      intros [= <-]. eapply IH; eassumption.
    - intros [= <-]. unfold resolve_one in E1.
      destruct (eval_branches V ops n out) as [[sel sk]|e0|] eqn:Ev; simpl in E1.
      + destruct (report_branch V g (n_key n) sk cs) as [cs1'|e0|] eqn:Erb; simpl in E1; [discriminate| |discriminate].
        injection E1 as <-. destruct (report_branch_err _ _ _ _ Erb) as [Hx|Hx]; subst; unfold engine_err; tauto.
      + injection E1 as <-. unfold eval_branches in Ev. destruct (forallb _ _); [discriminate|]. injection Ev as <-.
        unfold engine_err; tauto.
      + discriminate.
    - discriminate.
  Qed.

  Lemma get_all_err : forall cs e, get_all V ops g cs = Err e -> exists vals, v_merge ops vals = Err e.
  Proof.
    induction cs as [|[k c] cs IH]; intros e; cbn [get_all]; [discriminate|].
    unfold chan_get. rewrite Hdag.
    destruct (dag_get V ops c) as [[ov c1]|e1|] eqn:Eg; simpl.
    - destruct (get_all V ops g cs) as [[cs2 ready]|e2|] eqn:Ea; simpl; [discriminate| |discriminate].
      intros [= <-]. now apply IH.
    - intros [= <-]. unfold dag_get in Eg. destruct (dag_ready V c); [|discriminate].
      destruct (get_merge V ops (c_vals V c)) as [v|e2|] eqn:Em; simpl in Eg; [discriminate| |discriminate].
      injection Eg as <-. unfold get_merge in Em. destruct (c_vals V c) as [|[k1 v1] [|kv2 l]]; try discriminate.
      eexists. exact Em.
    - discriminate.
  Qed.

  Lemma calc_next_err cs completed e : calc_next V ops g cs completed = Err e -> engine_err e.
  Proof.
    unfold calc_next.
    destruct (resolve_all V ops g completed cs) as [[[cs1 ws] ds]|e1|] eqn:E1; simpl; [|intros [= <-]; eapply resolve_all_err; eassumption|discriminate].
    destruct (update_chans V g ws ds cs1) as [cs2|e2|] eqn:E2; simpl.
    - intros E3. right. right. right. right. eapply get_all_err; eassumption.
    - intros [= <-]. unfold update_chans in E2. destruct (targets_exist V cs1 ws ds); [discriminate|]. injection E2 as <-. now left.
    - discriminate.
  Qed.

  Lemma init_chans_err e : init_chans V g = Err e -> engine_err e.
  Proof.
    unfold init_chans. rewrite Hdag. intros H. destruct (report_branch_err _ _ _ _ H) as [Hx|Hx]; subst; unfold engine_err; tauto.
  Qed.

  Lemma engine_err_not_notasks e :
    (forall vals, v_merge ops vals <> Err eNoTasks) -> engine_err e -> e <> eNoTasks.
  Proof.
    intros Hm [Hx|[Hx|[Hx|[Hx|(vals & Hv)]]]]; try (subst; discriminate). intros Hx. subst. exact (Hm vals Hv).
  Qed.
End ErrorClasses.

Section NoTasks.
  Variable V : Type.
  Variable St : Type.
  Variable ops : vops V.
  Variable g : graph.
  Hypothesis Hdag : g_mode g = Dag.
  Hypothesis Hnk : NoDup (map n_key (g_nodes g)).
  Hypothesis Hcd : api_built g.
  Hypothesis HendN : find_node g kEND = None.
  Variable rank : key -> nat.
  Hypothesis Hrank : forall t q, gpred g t q -> (rank q < rank t)%nat.
  Hypothesis Hmerge : forall vals, v_merge ops vals <> Err eNoTasks.
  Variable nout : node -> V -> tres V.
  Hypothesis Hnz : forall n v, nout n v <> TErr [].
  Variable x : V.
  Variable exec : St -> path -> V -> res V * St.
  Variable sub : nat -> path -> V -> St -> outcome V * St.
  Variable sched : nat -> list key -> nat.
  Variable p : path.
  Hypothesis Hsub : forall i k v s, Forall (fun e : logentry V => fst e <> p) (outcome_log V (fst (sub i (p ++ [k]) v s))).
  Hypothesis Hpure : forall n v s, fst (fst (run_task V St ops exec sub p n v s)) = nout n v.

  Notation reach := (reach V St ops g exec sub sched p).
  Notation step := (step V St ops exec sub sched p g).

  Lemma wait_tasks_nonempty n (l : list (key * tres V)) : l <> [] -> fst (wait_tasks V sched g n l) <> [].
  Proof.
    intros Hl. unfold wait_tasks. destruct (g_eager g); [|exact Hl].
    destruct l as [|a l]; [congruence|].
    destruct (nth_error (a :: l) (sched n (akeys (a :: l)) mod List.length (a :: l))%nat) eqn:E; simpl; [discriminate|].
    apply nth_error_None in E. pose proof (Nat.mod_upper_bound (sched n (akeys (a :: l))) (List.length (a :: l))) as H.
    simpl in *. lia.
  Qed.

  (* a node failure carries a node path: it is not one of the engine's own errors *)
  Lemma run_task_err_path n v s es e :
    fst (fst (run_task V St ops exec sub p n v s)) = TErr es -> In e es -> e_path e <> [].
  Proof.
    unfold run_task. destruct (n_kind n) as [| |i].
    - destruct (exec s (p ++ [n_key n]) v) as [r s1]. destruct r as [o|c|]; simpl; [discriminate|..];
        intros [= <-] [<-|[]]; discriminate.
    - simpl. discriminate.
    - destruct (sub i (p ++ [n_key n]) v s) as [o s1]. destruct o as [r l|es0 l]; simpl; [discriminate|].
      intros [= <-] Hin. apply in_map_iff in Hin. destruct Hin as (e0 & <- & _). discriminate.
  Qed.

  Theorem step_never_no_tasks s0 ls Rv lg s' :
    reach x s0 ls Rv -> step ls <> Finish (Fail [mkerr eNoTasks] lg) s'.
  Proof.
    intros Hr Hstep.
    pose proof (reach_not_stalled V St ops g Hdag Hnk Hcd HendN rank Hrank nout Hnz x exec sub sched p Hsub Hpure s0 ls Rv Hr) as Hns.
    unfold Graph.step, step_limit_hit in Hstep. rewrite Hdag in Hstep.
    destruct (submit V St ops exec sub p g (ls_next V St ls) (ls_st V St ls)) as [[results sublog] s1] eqn:Es.
    destruct (wait_tasks V sched g (ls_step V St ls) (ls_running V St ls ++ results)) as [completed running'] eqn:Ew.
    destruct (submit_spec V St ops g exec sub p _ Hsub _ _ _ _ _ Es) as [Hkeys _].
    assert (Hne : ls_running V St ls ++ results <> []).
    { destruct Hns as [Hn|Hn].
      - intros E. apply app_eq_nil in E. destruct E as [_ ->]. simpl in Hkeys.
        destruct (ls_next V St ls); [congruence|discriminate].
      - intros E. apply app_eq_nil in E. destruct E as [E _]. contradiction. }
    pose proof (wait_tasks_nonempty (ls_step V St ls) _ Hne) as Hc. rewrite Ew in Hc. simpl in Hc.
    destruct (task_errors V completed) as [|e0 es0] eqn:Et.
    - destruct completed as [|c0 cl]; [congruence|].
      destruct (calc_next V ops g (ls_chans V St ls) (task_outputs V (c0 :: cl))) as [[cs' ready]|e|] eqn:Ec.
      + destruct (alookup kEND ready); discriminate.
      + assert (He : e = eNoTasks) by (unfold mkerr in Hstep; congruence).
        exact (engine_err_not_notasks V ops e Hmerge (calc_next_err V ops g Hdag _ _ _ Ec) He).
      + discriminate.
    - assert (He0 : e0 = mkerr eNoTasks) by congruence.
      (* a collected task error is a node failure: it carries a path *)
      assert (Hin : In e0 (task_errors V completed)) by (rewrite Et; now left).
      unfold task_errors in Hin. apply in_flat_map in Hin. destruct Hin as ([k r] & Hkr & Hr0).
      destruct r as [v|esk]; simpl in Hr0; [destruct Hr0|].
      assert (Hkr' : In (k, TErr esk) (ls_running V St ls ++ results)).
      { eapply Permutation_in; [exact (wait_tasks_perm V g sched _ _ _ _ Ew)|]. apply in_app_iff. now left. }
      pose proof (reach_LX V St ops g Hdag Hnk Hcd nout x exec sub sched p Hsub Hpure s0 ls Rv Hr) as HLX.
      destruct (LX_submitted V St ops g nout x exec sub p Hsub Hpure ls Rv results sublog s1 HLX Es) as [_ HRE].
      destruct (HRE k esk Hkr') as [(n & w & _ & _ & Ho)|(_ & ->)].
      + rewrite <- (Hpure n w (ls_st V St ls)) in Ho.
        apply (run_task_err_path n w (ls_st V St ls) esk e0 Ho Hr0). rewrite He0. reflexivity.
      + destruct Hr0 as [<-|[]]. discriminate.
  Qed.

  (* runner.run (run_flat) never returns "no tasks to execute" *)
  Theorem run_flat_never_no_tasks s lg s' :
    run_flat V St ops exec sub sched p g x s <> (Fail [mkerr eNoTasks] lg, s').
  Proof.
    intros Erun. pose proof Erun as Erun0. unfold run_flat in Erun.
    destruct (init_chans V g) as [cs0|e|] eqn:Ei.
    - destruct (calc_next V ops g cs0 [(kSTART, x)]) as [[cs1 ready]|e|] eqn:Ec.
      + destruct (alookup kEND ready) as [v0|] eqn:Eend; [discriminate|].
        destruct (run_flat_reach V St ops g exec sub sched p x s cs0 cs1 ready _ _ Ei Ec Eend Erun0)
          as (ls & Rv & Hr & [Hstep|[Hf _]]).
        * exact (step_never_no_tasks s ls Rv lg s' Hr Hstep).
        * discriminate.
      + assert (He : e = eNoTasks) by (unfold mkerr in Erun; congruence).
        exact (engine_err_not_notasks V ops e Hmerge (calc_next_err V ops g Hdag _ _ _ Ec) He).
      + discriminate.
    - assert (He : e = eNoTasks) by (unfold mkerr in Erun; congruence).
      exact (engine_err_not_notasks V ops e Hmerge (init_chans_err V ops g Hdag e Ei) He).
    - discriminate.
  Qed.
End NoTasks.

(* the fan-in of the harness values fails with "duplicated key" / "type mismatch" only: never with the class of
   "no tasks to execute" (same proof as tree_merge_not_fuel, for any class other than those two) *)
Lemma merge_into_class_gen (c : N) (acc : res (list (N * value))) (kvs : list (N * value)) :
  c <> eDupKey -> acc <> Err c ->
  fold_left (fun r kv => do a <- r; match alookup (fst kv) a with Some _ => Err eDupKey | None => Ok (ainsert (fst kv) (snd kv) a) end) kvs acc <> Err c.
Proof.
  intros Hc. revert acc. induction kvs as [|kv kvs IH]; simpl; intros acc H; [assumption|].
  apply IH. destruct acc as [a|e|]; simpl; [|assumption|discriminate].
  destruct (alookup (fst kv) a); [|discriminate]. intros [= E]. now apply Hc.
Qed.

Lemma tree_merge_class_gen (c : N) vals : c <> eDupKey -> c <> eMergeType -> v_merge tree_ops vals <> Err c.
Proof.
  intros Hc1 Hc2. simpl. unfold tree_merge.
  assert (H : forall (vs : list (key * value)) (acc : res (list (N * value))), acc <> Err c ->
            fold_left (fun r kv => do a <- r; match snd kv with VMap kvs => merge_into a kvs | VNil => Ok a | VAtom _ => Err eMergeType end) vs acc
            <> Err c).
  { induction vs as [|kv vs IH]; simpl; intros acc Ha; [assumption|].
    apply IH. destruct acc as [a|e|]; simpl; [|assumption|discriminate].
    destruct (snd kv); [intros [= E]; now apply Hc2|discriminate|]. unfold merge_into. apply merge_into_class_gen; [assumption|discriminate]. }
  specialize (H vals (Ok []) ltac:(discriminate)).
  match type of H with ?t <> _ => change (res_bind t (fun m => Ok (VMap m)) <> Err c); destruct t as [m|e|] eqn:Et end;
    simpl; [discriminate|intros [= ->]; now apply H|discriminate].
Qed.

Lemma tree_merge_not_notasks vals : v_merge tree_ops vals <> Err eNoTasks.
Proof. apply tree_merge_class_gen; discriminate. Qed.
