(* Proofs/GenAgreeChainLower.v — property C01: the Gallina functions tools/go2v translated statement by statement
   from compose/chain.go (Gen/ChainLower.v: Chain.reportError, nextNodeKey, addNode, AppendParallel, AppendBranch,
   addEndIfNeeded) are, for every implementation of the graph under construction and of the other untranslated
   code (Section variables) and for all arguments, the hand-written functions of Model/ChainLowerSpec.v
   (gen_chain_*_agrees; error values are compared as one class: [err_code] is constant).  With
   Proofs/ChainLowerModel.v:
     gen_chain_lowering_is_chain_lower   for every chain [chain_compiles] accepts, NewChain, the GENERATED Append*
                                         calls of its stages and the GENERATED addEndIfNeeded build exactly the graph
                                         [chain_lower] of Model/Chain.v;
     gen_chain_lowering_decides          and they report an error for every chain it rejects (Proofs/ChainLowerReject.v):
                                         gen_compile = if chain_compiles then chain_lower else None;
     gen_chain_runs_as_eval_chain        hence the graph the regenerated lowering builds runs as the sequential
                                         meaning [eval_chain] (chain_lowering_correct_dec of Props/C01.v).
   An edge to END from the first previous node only, a Parallel attached to the wrong predecessor, preNodeKeys
   not replaced after a Branch, a dropped length check … make a theorem here stop compiling. *)
From Eino Require Import Base.Util Model.Graph Model.Chain Model.ChainSpec Model.ChainCompile Model.ImpGenLib Model.ChainGenLib Model.ChainLowerSpec Model.ChainLowerInst.
From Eino Require Import Proofs.PregelBase Proofs.PregelRun Proofs.PregelChainLower Proofs.PregelChainCompile Proofs.ChainLowerModel Proofs.ChainLowerReject.
From Eino Require Gen.ChainLower.
From Coq Require Import Lia.

Lemma fold_left_ext_chain : forall {A B} (f g : A -> B -> A) l a,
  (forall a b, f a b = g a b) -> fold_left f l a = fold_left g l a.
Proof. intros A B f g l; induction l as [|b l IH]; intros a H; simpl; [reflexivity|]. rewrite H. apply IH, H. Qed.

Module GC := Gen.ChainLower.
Module SC := Model.ChainLowerSpec.

Section A.
  Variables G GN GO PR PAR CB GB : Type.
  Variable e0 : N.
  Let err_code : nat -> N := fun _ => e0.
  Variable err_compiled : N.
  Variable auto_key : string -> list fmt_arg -> key.
  Variable k_empty : key.
  Variable zero_pair : PR.
  Variable g_compiled : G -> bool.
  Variable g_add_node : G -> key -> GN -> GO -> G * option N.
  Variable g_add_edge : G -> key -> key -> G * option N.
  Variable g_add_branch : G -> key -> GB -> G * option N.
  Variable gn_is_nil : GN -> bool.
  Variable opts_key : GO -> key.
  Variables opts_present opts_has_node_options : GO -> bool.
  Variable pr_first : PR -> GN.
  Variable pr_second : PR -> GO.
  Variable par_is_nil : PAR -> bool.
  Variable par_err : PAR -> option N.
  Variable par_nodes : PAR -> list PR.
  Variable br_is_nil : CB -> bool.
  Variable br_err : CB -> option N.
  Variable br_nodes : CB -> list (key * PR).
  Variable mk_branch : CB -> list (key * key) -> GB.

  Theorem gen_chain_reportError_agrees : forall c err,
    GC.chain_reportError G c err = SC.chain_reportError G c err.
  Proof. intros c err. try reflexivity. all: unfold GC.chain_reportError, SC.chain_reportError; destruct (is_none (ch_err c)); reflexivity. Qed.

  Theorem gen_chain_nextNodeKey_agrees : forall c,
    GC.chain_nextNodeKey G auto_key c = SC.chain_nextNodeKey G auto_key c.
  Proof. intros c. reflexivity. Qed.

  (* for _, preNodeKey := range c.preNodeKeys { e := c.gg.AddEdge(preNodeKey, nodeKey); if e != nil { c.reportError(e); return } } *)
  Lemma add_edges_loop_done : forall (F : chain_st G * bool * bool -> key -> chain_st G * bool * bool) l c r,
    (forall c r x, F (c, true, r) x = (c, true, r)) -> fold_left F l (c, true, r) = (c, true, r).
  Proof. intros F l c r H. induction l as [|x l IH]; simpl; [reflexivity|]. rewrite H. exact IH. Qed.

  Lemma add_edges_loop : forall to l c,
    fold_left (fun (st_ : chain_st G * bool * bool) preNodeKey => let '(c, brk, ret_) := st_ in
                 if brk then st_ else
                 let '(g_, e) := g_add_edge (ch_g c) preNodeKey to in
                 if is_some e then (GC.chain_reportError G (ch_set_g c g_) e, true, true) else (ch_set_g c g_, brk, ret_))
              l (c, false, false)
    = let '(c', f) := SC.add_edges_to G g_add_edge (fun e => e) c l to in (c', f, f).
  Proof.
    intros to l. induction l as [|p l IH]; intros c; simpl; [reflexivity|].
    destruct (g_add_edge (ch_g c) p to) as [g e]. destruct (is_some e) eqn:E.
    - rewrite add_edges_loop_done; [rewrite gen_chain_reportError_agrees; reflexivity|]. intros; reflexivity.
    - apply IH.
  Qed.

  Theorem gen_chain_addNode_agrees : forall c node options,
    GC.chain_addNode G GN GO err_code err_compiled auto_key k_empty g_compiled g_add_node g_add_edge gn_is_nil opts_key c node options
    = SC.chain_addNode G GN GO err_code err_compiled auto_key k_empty g_compiled g_add_node g_add_edge gn_is_nil opts_key c node options.
  Proof.
    intros c node options. try reflexivity.
    all: unfold GC.chain_addNode, SC.chain_addNode.
    all: destruct (is_some (ch_err c)); [reflexivity|].
    all: destruct (g_compiled (ch_g c)); [apply gen_chain_reportError_agrees|].
    all: destruct (gn_is_nil node); [apply gen_chain_reportError_agrees|].
    all: rewrite gen_chain_nextNodeKey_agrees; destruct (SC.chain_nextNodeKey G auto_key c) as [dflt c1]; cbv zeta.
    all: destruct (key_eqb (opts_key options) k_empty);
         match goal with |- context [g_add_node ?a ?b ?c ?d] => destruct (g_add_node a b c d) as [g err] end;
         (destruct (is_some err); [apply gen_chain_reportError_agrees|]);
         rewrite add_edges_loop;
         match goal with |- context [SC.add_edges_to ?a ?b ?c ?d ?e ?f] => destruct (SC.add_edges_to a b c d e f) as [c2 failed] end;
         destruct failed; reflexivity.
  Qed.

  (* for _, nodeKey := range c.preNodeKeys { err := c.gg.AddEdge(nodeKey, END); if err != nil { return err } } *)
  Lemma end_edges_loop_done : forall (F : chain_st G * bool * option (option N) -> key -> chain_st G * bool * option (option N)) l c r,
    (forall c r x, F (c, true, r) x = (c, true, r)) -> fold_left F l (c, true, r) = (c, true, r).
  Proof. intros F l c r H. induction l as [|x l IH]; simpl; [reflexivity|]. rewrite H. exact IH. Qed.

  Lemma end_edges_loop : forall l c,
    fold_left (fun (st_ : chain_st G * bool * option (option N)) nodeKey => let '(c, brk, ret_) := st_ in
                 if brk then st_ else
                 let '(g_, err) := g_add_edge (ch_g c) nodeKey kEND in
                 if is_some err then (ch_set_g c g_, true, Some err) else (ch_set_g c g_, brk, ret_))
              l (c, false, None)
    = let '(c', r) := SC.end_edges G g_add_edge c l in (c', is_some r, r).
  Proof.
    induction l as [|p l IH]; intros c; simpl; [reflexivity|].
    destruct (g_add_edge (ch_g c) p kEND) as [g e]. destruct (is_some e) eqn:E.
    - rewrite end_edges_loop_done; [reflexivity|]. intros; reflexivity.
    - apply IH.
  Qed.

  Theorem gen_chain_addEndIfNeeded_agrees : forall c,
    GC.chain_addEndIfNeeded G err_code g_add_edge c = SC.chain_addEndIfNeeded G err_code g_add_edge c.
  Proof.
    intros c. try reflexivity.
    all: unfold GC.chain_addEndIfNeeded, SC.chain_addEndIfNeeded.
    all: destruct (is_some (ch_err c)); [reflexivity|].
    all: destruct (ch_has_end c); [reflexivity|].
    all: destruct (Nat.eqb (List.length (ch_prev c)) 0); [reflexivity|].
    all: cbv zeta; rewrite end_edges_loop.
    all: destruct (SC.end_edges G g_add_edge c (ch_prev c)) as [c' [e|]]; reflexivity.
  Qed.

  Lemma flagged4_done : forall {S1 S2 X} (F : S1 * S2 * bool * bool -> X -> S1 * S2 * bool * bool) l a b r,
    (forall a b r x, F (a, b, true, r) x = (a, b, true, r)) -> fold_left F l (a, b, true, r) = (a, b, true, r).
  Proof. intros S1 S2 X F l a b r H. induction l as [|x l IH]; simpl; [reflexivity|]. rewrite H. exact IH. Qed.

  Lemma l_get_middle : forall {A} (d : A) pre x rest, l_get d (List.length pre) (pre ++ x :: rest) = x.
  Proof. intros A d pre x rest. unfold l_get. rewrite app_nth2 by lia. rewrite Nat.sub_diag. reflexivity. Qed.

  (* for i := range p.nodes { … addNode … AddEdge(startNode, nodeKey) … nodeKeys = append(nodeKeys, nodeKey) } *)
  Lemma par_loop : forall start prefix nodes rest pre c acc,
    nodes = pre ++ rest ->
    fold_left (fun (st_ : chain_st G * list key * bool * bool) i => let '(c, nodeKeys, brk, ret_) := st_ in
                 if brk then st_ else
                 let '(g_, err) := g_add_node (ch_g c)
                     (if opts_present (pr_second (l_get zero_pair i nodes)) && opts_has_node_options (pr_second (l_get zero_pair i nodes))
                         && negb (key_eqb (opts_key (pr_second (l_get zero_pair i nodes))) k_empty)
                      then opts_key (pr_second (l_get zero_pair i nodes))
                      else auto_key "%s_parallel_%d"%string [fa_key prefix; fa_nat i])
                     (pr_first (l_get zero_pair i nodes)) (pr_second (l_get zero_pair i nodes)) in
                 if is_some err then (GC.chain_reportError G (ch_set_g c g_) (Some (err_code 5%nat)), nodeKeys, true, true)
                 else let '(g_0, err0) := g_add_edge (ch_g (ch_set_g c g_)) start
                     (if opts_present (pr_second (l_get zero_pair i nodes)) && opts_has_node_options (pr_second (l_get zero_pair i nodes))
                         && negb (key_eqb (opts_key (pr_second (l_get zero_pair i nodes))) k_empty)
                      then opts_key (pr_second (l_get zero_pair i nodes))
                      else auto_key "%s_parallel_%d"%string [fa_key prefix; fa_nat i]) in
                 if is_some err0 then (GC.chain_reportError G (ch_set_g (ch_set_g c g_) g_0) (Some (err_code 6%nat)), nodeKeys, true, true)
                 else (ch_set_g (ch_set_g c g_) g_0,
                       nodeKeys ++ [if opts_present (pr_second (l_get zero_pair i nodes)) && opts_has_node_options (pr_second (l_get zero_pair i nodes))
                                       && negb (key_eqb (opts_key (pr_second (l_get zero_pair i nodes))) k_empty)
                                    then opts_key (pr_second (l_get zero_pair i nodes))
                                    else auto_key "%s_parallel_%d"%string [fa_key prefix; fa_nat i]], brk, ret_))
              (seq (List.length pre) (List.length rest)) (c, acc, false, false)
    = let '(c', keys, f) := SC.par_add G GN GO PR err_code auto_key k_empty g_add_node g_add_edge opts_key opts_present opts_has_node_options pr_first pr_second
                              c start prefix (List.length pre) rest acc in (c', keys, f, f).
  Proof.
    intros start prefix nodes rest. induction rest as [|node rest IH]; intros pre c acc Hn; simpl; [reflexivity|].
    subst nodes. rewrite l_get_middle. unfold SC.own_key.
    destruct (opts_present (pr_second node) && opts_has_node_options (pr_second node) && negb (key_eqb (opts_key (pr_second node)) k_empty)).
    - destruct (g_add_node (ch_g c) (opts_key (pr_second node)) (pr_first node) (pr_second node)) as [g err].
      destruct (is_some err).
      + rewrite flagged4_done; [rewrite gen_chain_reportError_agrees; reflexivity|intros; reflexivity].
      + simpl ch_g. destruct (g_add_edge g start (opts_key (pr_second node))) as [g1 err1]. destruct (is_some err1).
        * rewrite flagged4_done; [rewrite gen_chain_reportError_agrees; reflexivity|intros; reflexivity].
        * specialize (IH (pre ++ [node]) (ch_set_g (ch_set_g c g) g1) (acc ++ [opts_key (pr_second node)])).
          rewrite app_length in IH. simpl in IH. rewrite Nat.add_1_r in IH. rewrite <- IH; [reflexivity|rewrite <- app_assoc; reflexivity].
    - destruct (g_add_node (ch_g c) (auto_key "%s_parallel_%d"%string [fa_key prefix; fa_nat (List.length pre)]) (pr_first node) (pr_second node)) as [g err].
      destruct (is_some err).
      + rewrite flagged4_done; [rewrite gen_chain_reportError_agrees; reflexivity|intros; reflexivity].
      + simpl ch_g. destruct (g_add_edge g start (auto_key "%s_parallel_%d"%string [fa_key prefix; fa_nat (List.length pre)])) as [g1 err1]. destruct (is_some err1).
        * rewrite flagged4_done; [rewrite gen_chain_reportError_agrees; reflexivity|intros; reflexivity].
        * specialize (IH (pre ++ [node]) (ch_set_g (ch_set_g c g) g1) (acc ++ [auto_key "%s_parallel_%d"%string [fa_key prefix; fa_nat (List.length pre)]])).
          rewrite app_length in IH. simpl in IH. rewrite Nat.add_1_r in IH. rewrite <- IH; [reflexivity|rewrite <- app_assoc; reflexivity].
  Qed.

  Theorem gen_chain_AppendParallel_agrees : forall c p,
    GC.chain_AppendParallel G GN GO PR PAR err_code auto_key k_empty zero_pair g_add_node g_add_edge opts_key opts_present opts_has_node_options
      pr_first pr_second par_is_nil par_err par_nodes c p
    = SC.chain_AppendParallel G GN GO PR PAR err_code auto_key k_empty g_add_node g_add_edge opts_key opts_present opts_has_node_options
      pr_first pr_second par_is_nil par_err par_nodes c p.
  Proof.
    intros c p. try reflexivity.
    all: unfold GC.chain_AppendParallel, SC.chain_AppendParallel.
    all: destruct (par_is_nil p); [apply gen_chain_reportError_agrees|].
    all: destruct (is_some (par_err p)); [apply gen_chain_reportError_agrees|].
    all: destruct (Nat.leb (List.length (par_nodes p)) 1); [apply gen_chain_reportError_agrees|].
    all: cbv zeta; unfold SC.start_node.
    all: destruct (ch_prev c) as [|p0 [|p1 prev]]; simpl List.length; simpl Nat.eqb; cbv iota beta;
         [ | | apply gen_chain_reportError_agrees ].
    all: rewrite gen_chain_nextNodeKey_agrees; destruct (SC.chain_nextNodeKey G auto_key c) as [prefix c1].
    all: rewrite (par_loop _ prefix (par_nodes p) (par_nodes p) [] c1 []) by reflexivity.
    all: simpl List.length; unfold l_get; simpl nth.
    all: match goal with |- context [SC.par_add ?a ?b ?c ?d ?e ?f ?g ?h ?i ?j ?k ?l ?m ?n ?o ?p ?q ?r ?s ?t] =>
           destruct (SC.par_add a b c d e f g h i j k l m n o p q r s t) as [[c2 keys] failed] end.
    all: destruct failed; reflexivity.
  Qed.

  (* for key := range b.key2BranchNode { node := b.key2BranchNode[key]; … addNode …; key2NodeKey[key] = nodeKey } *)
  Lemma br_loop : forall prefix all keys c k2n,
    fold_left (fun (st_ : chain_st G * list (key * key) * bool * bool) key => let '(c, key2NodeKey, brk, ret_) := st_ in
                 if brk then st_ else
                 let '(g_, err) := g_add_node (ch_g c)
                     (if opts_present (pr_second (bn_get zero_pair all key)) && opts_has_node_options (pr_second (bn_get zero_pair all key))
                         && negb (key_eqb (opts_key (pr_second (bn_get zero_pair all key))) k_empty)
                      then opts_key (pr_second (bn_get zero_pair all key))
                      else auto_key "%s_branch_%s"%string [fa_key prefix; fa_key key])
                     (pr_first (bn_get zero_pair all key)) (pr_second (bn_get zero_pair all key)) in
                 if is_some err then (GC.chain_reportError G (ch_set_g c g_) (Some (err_code 6%nat)), key2NodeKey, true, true)
                 else (ch_set_g c g_,
                       km_set key (if opts_present (pr_second (bn_get zero_pair all key)) && opts_has_node_options (pr_second (bn_get zero_pair all key))
                                      && negb (key_eqb (opts_key (pr_second (bn_get zero_pair all key))) k_empty)
                                   then opts_key (pr_second (bn_get zero_pair all key))
                                   else auto_key "%s_branch_%s"%string [fa_key prefix; fa_key key]) key2NodeKey, brk, ret_))
              keys (c, k2n, false, false)
    = let '(c', m, f) := SC.br_add G GN GO PR err_code auto_key k_empty zero_pair g_add_node opts_key opts_present opts_has_node_options pr_first pr_second
                           c prefix all keys k2n in (c', m, f, f).
  Proof.
    intros prefix all keys. induction keys as [|bk keys IH]; intros c k2n; simpl; [reflexivity|].
    unfold SC.own_key.
    destruct (opts_present (pr_second (bn_get zero_pair all bk)) && opts_has_node_options (pr_second (bn_get zero_pair all bk))
              && negb (key_eqb (opts_key (pr_second (bn_get zero_pair all bk))) k_empty)).
    - destruct (g_add_node (ch_g c) (opts_key (pr_second (bn_get zero_pair all bk))) (pr_first (bn_get zero_pair all bk)) (pr_second (bn_get zero_pair all bk))) as [g err].
      destruct (is_some err).
      + rewrite flagged4_done; [rewrite gen_chain_reportError_agrees; reflexivity|intros; reflexivity].
      + apply IH.
    - destruct (g_add_node (ch_g c) (auto_key "%s_branch_%s"%string [fa_key prefix; fa_key bk]) (pr_first (bn_get zero_pair all bk)) (pr_second (bn_get zero_pair all bk))) as [g err].
      destruct (is_some err).
      + rewrite flagged4_done; [rewrite gen_chain_reportError_agrees; reflexivity|intros; reflexivity].
      + apply IH.
  Qed.

  Theorem gen_chain_AppendBranch_agrees : forall c b,
    GC.chain_AppendBranch G GN GO PR CB GB err_code auto_key k_empty zero_pair g_add_node g_add_branch opts_key opts_present opts_has_node_options
      pr_first pr_second br_is_nil br_err br_nodes mk_branch c b
    = SC.chain_AppendBranch G GN GO PR CB GB err_code auto_key k_empty zero_pair g_add_node g_add_branch opts_key opts_present opts_has_node_options
      pr_first pr_second br_is_nil br_err br_nodes mk_branch c b.
  Proof.
    intros c b. try reflexivity.
    all: unfold GC.chain_AppendBranch, SC.chain_AppendBranch.
    all: destruct (br_is_nil b); [apply gen_chain_reportError_agrees|].
    all: destruct (is_some (br_err b)); [apply gen_chain_reportError_agrees|].
    all: destruct (Nat.eqb (List.length (br_nodes b)) 0); [apply gen_chain_reportError_agrees|].
    all: destruct (Nat.eqb (List.length (br_nodes b)) 1); [apply gen_chain_reportError_agrees|].
    all: cbv zeta; unfold SC.start_node.
    all: destruct (ch_prev c) as [|p0 [|p1 prev]]; simpl List.length; simpl Nat.eqb; cbv iota beta;
         [ | | apply gen_chain_reportError_agrees ].
    all: rewrite gen_chain_nextNodeKey_agrees; destruct (SC.chain_nextNodeKey G auto_key c) as [prefix c1].
    all: rewrite br_loop.
    all: unfold l_get; simpl nth.
    all: match goal with |- context [SC.br_add ?a ?b ?c ?d ?e ?f ?g ?h ?i ?j ?k ?l ?m ?n ?o ?p ?q ?r ?s] =>
           destruct (SC.br_add a b c d e f g h i j k l m n o p q r s) as [[c2 k2n] failed] end.
    all: destruct failed; [reflexivity|].
    all: match goal with |- context [g_add_branch ?a ?b ?c] => destruct (g_add_branch a b c) as [g err] end.
    all: destruct (is_some err); [apply gen_chain_reportError_agrees|reflexivity].
  Qed.
End A.

(* ---------------------------------------------------------------- the generated lowering on the model's data *)
Section Tie.
  Variable auto_key : string -> list fmt_arg -> key.
  Variable k_empty : key.

  Definition gen_stage (c : chain_st (list node)) (st : stage) : chain_st (list node) :=
    match st with
    | SNode s =>
        GC.chain_addNode (list node) li_GN key (fun _ => li_err) li_err auto_key k_empty (fun _ => false) li_add_node li_add_edge
          (fun _ => false) (fun k => k) c (fst (li_pair s)) (snd (li_pair s))
    | SPar ss =>
        GC.chain_AppendParallel (list node) li_GN key li_PR (list li_PR) (fun _ => li_err) auto_key k_empty (li_zero k_empty) li_add_node li_add_edge
          (fun k => k) (fun _ => true) (fun _ => true) fst snd (fun _ => false) li_par_err (fun p => p) c (map li_pair ss)
    | SBranch ss table =>
        GC.chain_AppendBranch (list node) li_GN key li_PR li_CB branch (fun _ => li_err) auto_key k_empty (li_zero k_empty) li_add_node li_add_branch
          (fun k => k) (fun _ => true) (fun _ => true) fst snd (fun _ => false) (fun _ => None) fst li_mk_branch
          c (map (fun s => (sn_key s, li_pair s)) ss, table)
    end.

  Definition gen_compile (sts : list stage) (max : nat) : option graph :=
    let c := fold_left gen_stage sts (li_init) in
    let '(e, c') := GC.chain_addEndIfNeeded (list node) (fun _ => li_err) li_add_edge c in
    match e with
    | Some _ => None
    | None => Some {| g_nodes := ch_g c'; g_mode := Pregel; g_eager := false; g_max := max |}
    end.

  Lemma gen_stage_is_li_stage : forall c st, gen_stage c st = li_stage auto_key k_empty c st.
  Proof.
    intros c [s|ss|ss table]; unfold gen_stage, li_stage, li_addNode, li_AppendParallel, li_AppendBranch.
    - apply (gen_chain_addNode_agrees (list node) li_GN key li_err).
    - apply (gen_chain_AppendParallel_agrees (list node) li_GN key li_PR (list li_PR) li_err).
    - apply (gen_chain_AppendBranch_agrees (list node) li_GN key li_PR li_CB branch li_err).
  Qed.

  Theorem gen_chain_lowering_is_chain_lower : forall sts max,
    chain_compiles sts = true ->
    ~ In k_empty (chain_all_keys sts) ->
    gen_compile sts max = chain_lower sts max.
  Proof.
    intros sts max Hc Hk. rewrite <- (li_compile_is_chain_lower auto_key k_empty sts max Hc Hk).
    unfold gen_compile, li_compile.
    rewrite (fold_left_ext_chain gen_stage (li_stage auto_key k_empty) sts li_init gen_stage_is_li_stage).
    rewrite (gen_chain_addEndIfNeeded_agrees (list node) li_err). reflexivity.
  Qed.

  (* both directions: the regenerated lowering accepts exactly the chains [chain_compiles] accepts *)
  Theorem gen_chain_lowering_decides : forall sts max,
    ~ In k_empty (chain_all_keys sts) ->
    gen_compile sts max = if chain_compiles sts then chain_lower sts max else None.
  Proof.
    intros sts max Hk. rewrite <- (li_compile_decides auto_key k_empty sts max Hk).
    unfold gen_compile, li_compile.
    rewrite (fold_left_ext_chain gen_stage (li_stage auto_key k_empty) sts li_init gen_stage_is_li_stage).
    rewrite (gen_chain_addEndIfNeeded_agrees (list node) li_err). reflexivity.
  Qed.

  (* the graph the regenerated lowering builds runs as the meaning of the chain *)
  Theorem gen_chain_runs_as_eval_chain :
    forall V St (ops : vops V) exec sub sched sts max,
      sub_fail_nonempty V St sub -> chain_compiles sts = true -> ~ In k_empty (chain_all_keys sts) ->
      exists g, gen_compile sts max = Some g /\ pregel_graph g /\
        forall p x s, run_flat V St ops exec sub sched p g x s = eval_chain V St ops exec sub p sts max x s.
  Proof.
    intros V St ops exec sub sched sts max Hsub Hc Hk.
    rewrite (gen_chain_lowering_is_chain_lower sts max Hc Hk).
    apply chain_lowering_correct_dec_lemma; assumption.
  Qed.
End Tie.

(* non-vacuity: a chain with a node, a parallel and a branch stage is accepted, and the generated lowering builds
   its graph (5 nodes besides START) *)
Example ex_gen_chain_lowering :
  let sts := [ SNode {| sn_key := 2; sn_kind := KLambda; sn_outkey := None |};
               SPar [ {| sn_key := 3; sn_kind := KLambda; sn_outkey := Some 30%N |}; {| sn_key := 4; sn_kind := KPass; sn_outkey := Some 40%N |} ];
               SNode {| sn_key := 5; sn_kind := KLambda; sn_outkey := None |};
               SBranch [ {| sn_key := 6; sn_kind := KLambda; sn_outkey := None |}; {| sn_key := 7; sn_kind := KLambda; sn_outkey := None |} ] [[6%N]; [6%N; 7%N]] ] in
  chain_compiles sts = true
  /\ gen_compile (fun _ _ => 999%N) 998%N sts 0 = chain_lower sts 0
  /\ match gen_compile (fun _ _ => 999%N) 998%N sts 0 with Some g => List.length (g_nodes g) = 7%nat | None => False end.
Proof. vm_compute. repeat split; reflexivity. Qed.
