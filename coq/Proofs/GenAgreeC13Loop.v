(* Proofs/GenAgreeC13Loop.v — property C13: the guards tools/go2v (extractor "looperrs") reads off the head of
   the main loop of runner.run (Gen/C13LoopErrors.v: the cancellation test and the step-limit test, in source
   order, with the errors they build, translated constructor by constructor) ARE what the model's run loop
   ([steps] of Model/Errors.v) does at the same place:

     the context is done        new_graph_run_error (Wrapf <ctx.Err()>), whatever cause the cancellation gave
     step >= maxSteps, Pregel   new_graph_run_error (Leaf id_exceed)
     otherwise                  the step runs

   for EVERY context error, cause, trigger mode, step and limit.  An edit that wraps context.Cause(ctx) instead of
   ctx.Err() (seeded C13-cancel-reports-context-cause), builds either error with %v instead of %w, returns the
   constant context.Canceled, tests `step > maxSteps`, tests the limit before the cancellation or drops a guard
   makes this file stop compiling.  The clauses of the property about the two sentinels are restated on the
   translated guards (gen_loop_cancellation_matchable, gen_loop_step_limit_matchable). *)
From Coq Require Import Lia.
From Eino Require Import Base.Util Model.Errors Model.ErrorsLoopLib Proofs.Errors.
From Eino Require Gen.C13LoopErrors.

Ltac c13_num_cases :=
  repeat match goal with
         | |- context [Nat.leb ?a ?b] => destruct (Nat.leb_spec a b)
         | |- context [Nat.ltb ?a ?b] => destruct (Nat.ltb_spec a b)
         | |- context [Nat.eqb ?a ?b] => destruct (Nat.eqb_spec a b)
         end; cbn [negb andb orb]; try reflexivity; try (exfalso; lia).

Theorem gen_loop_head_agrees : forall ctx_err cause dag step maxSteps,
  loop_check Gen.C13LoopErrors.loop_guards ctx_err cause dag step maxSteps = loop_check_model ctx_err dag step maxSteps.
Proof.
  intros [ce|] cause dag step m; [reflexivity|].
  first [ reflexivity
        | unfold loop_check_model, Gen.C13LoopErrors.loop_guards; cbn [loop_check]; destruct dag; cbn [negb andb orb]; c13_num_cases ].
Qed.

(* the model's guards, as [steps] applies them: the counter of [steps] counts down from the limit *)
Theorem model_loop_head_is_steps : forall F stream rec all loop br st rest items (canc : bool) step maxSteps e,
  loop_check_model (if canc then Some (Leaf id_canceled) else None) false step maxSteps = Some e ->
  steps F stream rec all loop br (maxSteps - step) (st :: rest) items canc = GFail [e].
Proof.
  intros F stream rec all loop br st rest items canc step m e H.
  destruct canc; cbn in H.
  - inversion H; subst. destruct (m - step)%nat; reflexivity.
  - destruct (Nat.leb_spec m step) as [L|L]; cbn in H; [|discriminate].
    inversion H; subst. replace (m - step)%nat with O by lia. reflexivity.
Qed.

Theorem model_loop_head_passes : forall (canc : bool) step maxSteps,
  loop_check_model (if canc then Some (Leaf id_canceled) else None) false step maxSteps = None ->
  canc = false /\ exists k, (maxSteps - step)%nat = S k.
Proof.
  intros canc step m H. destruct canc; cbn in H; [discriminate|].
  destruct (Nat.leb_spec m step) as [L|L]; cbn in H; [discriminate|].
  split; [reflexivity|]. exists (m - step - 1)%nat. lia.
Qed.

(* hence the translated head of the loop is the head of [steps] *)
Theorem gen_loop_head_is_steps : forall F stream rec all loop br st rest items (canc : bool) cause step maxSteps e,
  loop_check Gen.C13LoopErrors.loop_guards (if canc then Some (Leaf id_canceled) else None) cause false step maxSteps = Some e ->
  steps F stream rec all loop br (maxSteps - step) (st :: rest) items canc = GFail [e].
Proof.
  intros F stream rec all loop br st rest items canc cause step m e H.
  rewrite gen_loop_head_agrees in H. apply model_loop_head_is_steps; exact H.
Qed.

(* an all-predecessor graph has no step limit *)
Theorem gen_loop_no_limit_in_dag : forall cause step maxSteps,
  loop_check Gen.C13LoopErrors.loop_guards None cause true step maxSteps = None.
Proof. intros. rewrite gen_loop_head_agrees. reflexivity. Qed.

(* the property's clauses on the translated guards: a run stopped by its context returns an error on which
   errors.Is finds the context's OWN error — whatever it is (Canceled, DeadlineExceeded) and whatever cause
   the cancellation was given —, a graph-level error that names no node by itself *)
Theorem gen_loop_cancellation_matchable : forall ce cause dag step maxSteps,
  exists e, loop_check Gen.C13LoopErrors.loop_guards (Some ce) cause dag step maxSteps = Some e
            /\ is_ ce e = true /\ np_of e = [].
Proof.
  intros ce cause dag step m. rewrite gen_loop_head_agrees. cbn [loop_check_model].
  eexists; split; [reflexivity|]. split; [|reflexivity].
  unfold is_, is_gen, new_graph_run_error. cbn [chain_gen existsb].
  destruct (chain_head true ce) as [l Hl]. rewrite Hl. cbn [existsb]. rewrite err_eqb_refl.
  rewrite !Bool.orb_true_r. reflexivity.
Qed.

(* ... and the error the loop returns when the limit is reached matches the documented sentinel *)
Theorem gen_loop_step_limit_matchable : forall cause dag step maxSteps e,
  loop_check Gen.C13LoopErrors.loop_guards None cause dag step maxSteps = Some e ->
  is_ (Leaf id_exceed) e = true /\ dag = false /\ maxSteps <= step.
Proof.
  intros cause dag step m e H. rewrite gen_loop_head_agrees in H. cbn [loop_check_model] in H.
  destruct dag; cbn in H; [discriminate|].
  destruct (Nat.leb_spec m step) as [L|L]; cbn in H; [|discriminate].
  inversion H; subst. split; [reflexivity | split; [reflexivity | exact L]].
Qed.

(* non-vacuity: a context done with a cause, at step 2 of a graph with limit 5; the limit reached at step 5 *)
Example gen_loop_nonvacuous :
  loop_check Gen.C13LoopErrors.loop_guards (Some (Leaf id_canceled)) (Leaf 77) false 2 5
    = Some (new_graph_run_error (Wrapf (Leaf id_canceled)))
  /\ loop_check Gen.C13LoopErrors.loop_guards None (Leaf 77) false 5 5 = Some (new_graph_run_error (Leaf id_exceed))
  /\ loop_check Gen.C13LoopErrors.loop_guards None (Leaf 77) false 4 5 = None.
Proof. repeat split; reflexivity. Qed.

(* the seeded change: wrapping context.Cause(ctx) loses the context's own error whenever a cause was given *)
Theorem loop_cancel_with_cause_refuted :
  let gs := [ LCancel (fun _ ctx_cause => new_graph_run_error (Wrapf ctx_cause)) ] in
  exists e, loop_check gs (Some (Leaf id_canceled)) (Leaf 77) false 0 5 = Some e /\ is_ (Leaf id_canceled) e = false.
Proof. eexists; split; reflexivity. Qed.

Print Assumptions gen_loop_head_agrees.
Print Assumptions gen_loop_head_is_steps.
Print Assumptions gen_loop_cancellation_matchable.
Print Assumptions gen_loop_step_limit_matchable.
