(* Proofs/GenAgreeC04MergeValues.v — property C04, translator tie (extractor c04mergevalues,
   Gen/C04MergeValues.v): compose/utils.go mergeValues, the dispatch every fan-in channel
   (pregelChannel.get / dagChannel.get) goes through, translated statement by statement:
     - plain map values go to mergeMap (whose translation is the model's [v_merge],
       GenAgreeC04Merge.v);
     - readers of one map chunk type are merged as first.merge(the others, in their order):
       with the model's interleaving at the fan-in this is the [s_merge] of [run_stream];
     - a first value that is neither (a string), a reader of a chunk type that is no map, a
       plain value or a reader of another chunk type among readers: a type error, never a value.
   So value mode and stream mode hand a fan-in's sources to the two operations that
   [concat_merge] relates, in both trigger modes. *)
From Eino Require Import Base.Util Model.Paradigm Model.StreamOps Model.C04GenLib.
From Eino Require Gen.C04Merge Gen.C04MergeValues.
From Eino Require Import Proofs.GenAgreeC04Merge.

Section Dispatch.
  Variable merge_map : list gval -> res gval.
  Variable cty : stream val -> N.
  Variable cty_is_map : N -> bool.
  Variable reader_merge : stream val -> list (stream val) -> stream val.

  Notation mv := (Gen.C04MergeValues.mergeValues merge_map cty cty_is_map reader_merge).

  (* a plain map first: mergeMap decides *)
  Theorem gen_mergeValues_map_first : forall m vs,
    mv (GV (VM m) :: vs) = merge_map (GV (VM m) :: vs).
  Proof. intros m vs. reflexivity. Qed.

  (* a plain value that is no map first (Go: a string): unsupported type *)
  Theorem gen_mergeValues_string_first : forall s vs,
    mv (GV (VS s) :: vs) = Err e_type.
  Proof. intros s vs. reflexivity. Qed.

  (* a reader first whose chunk type is no map type *)
  Theorem gen_mergeValues_chunk_not_map : forall s vs,
    cty_is_map (cty s) = false -> mv (GS s :: vs) = Err e_type.
  Proof.
    intros s vs H. unfold Gen.C04MergeValues.mergeValues. cbn [go_idx nth_error res_bind g_is_map stream_of].
    now rewrite H.
  Qed.

  Lemma fill_streams : forall s g0 pre ss,
    Forall (fun s' => cty s' = cty s) ss ->
    res_mapM (fun i =>
      do x <- go_idx (g0 :: pre ++ map GS ss) (i + 1);
      match stream_of x with
      | Some s' => if negb (N.eqb (cty s') (cty s)) then Err e_type else Ok s'
      | None => Err e_type
      end) (seq (List.length pre) (List.length ss)) = Ok ss.
  Proof.
    intros s g0 pre ss. revert pre. induction ss as [|a ss IH]; intros pre Hall; [reflexivity|].
    inversion Hall as [|? ? Ha Hr]; subst.
    cbn [List.length seq res_mapM map].
    unfold go_idx at 1. rewrite Nat.add_1_r. cbn [nth_error].
    rewrite nth_error_app2 by lia. rewrite Nat.sub_diag. cbn [nth_error res_bind stream_of].
    rewrite Ha, N.eqb_refl. cbn [negb res_bind].
    specialize (IH (pre ++ [GS a]) Hr).
    rewrite app_length in IH. cbn [List.length] in IH. rewrite Nat.add_1_r in IH.
    rewrite <- app_assoc in IH. cbn [app] in IH. rewrite IH. reflexivity.
  Qed.

  (* readers of one map chunk type: the first one merged with the others, in their order *)
  Theorem gen_mergeValues_streams : forall s ss,
    cty_is_map (cty s) = true -> Forall (fun s' => cty s' = cty s) ss ->
    mv (map GS (s :: ss)) = Ok (GS (reader_merge s ss)).
  Proof.
    intros s ss Hm Hall. unfold Gen.C04MergeValues.mergeValues.
    cbn [map go_idx nth_error res_bind g_is_map stream_of]. rewrite Hm. cbn [negb].
    cbn [List.length]. rewrite map_length.
    replace (S (List.length ss) - 1)%nat with (List.length ss) by lia.
    pose proof (fill_streams s (GS s) [] ss Hall) as H. cbn [List.length app] in H.
    rewrite H. reflexivity.
  Qed.

  Lemma mapM_err_at : forall {A B} (f : A -> res B) l1 a l2 e,
    (forall x, In x l1 -> exists y, f x = Ok y) -> f a = Err e ->
    res_mapM f (l1 ++ a :: l2) = Err e.
  Proof.
    intros A B f l1 a l2 e. induction l1 as [|x l1 IH]; intros Hok Ha; cbn [app res_mapM].
    - now rewrite Ha.
    - destruct (Hok x (or_introl eq_refl)) as [y Hy]. rewrite Hy. cbn [res_bind].
      rewrite IH; [reflexivity| |exact Ha]. intros z Hz. apply Hok. now right.
  Qed.

  (* a plain value, or a reader of another chunk type, among the readers: a type error *)
  Theorem gen_mergeValues_mixed : forall s ss1 g ss2,
    cty_is_map (cty s) = true -> Forall (fun s' => cty s' = cty s) ss1 ->
    match g with GV _ => True | GS s' => cty s' <> cty s end ->
    mv (GS s :: map GS ss1 ++ g :: ss2) = Err e_type.
  Proof.
    intros s ss1 g ss2 Hm Hall Hg. unfold Gen.C04MergeValues.mergeValues.
    cbn [go_idx nth_error res_bind g_is_map stream_of]. rewrite Hm. cbn [negb].
    cbn [List.length]. rewrite app_length, map_length. cbn [List.length].
    replace (S (List.length ss1 + S (List.length ss2)) - 1)%nat
      with (List.length ss1 + S (List.length ss2))%nat by lia.
    rewrite seq_app. cbn [seq plus].
    rewrite (mapM_err_at _ (seq 0 (List.length ss1)) (List.length ss1) _ e_type); [reflexivity| |].
    - intros i Hi. apply in_seq in Hi.
      unfold go_idx. replace (i + 1)%nat with (S i) by lia. cbn [nth_error].
      rewrite nth_error_app1 by (rewrite map_length; lia).
      rewrite nth_error_map. destruct (nth_error ss1 i) as [s'|] eqn:E.
      + cbn [option_map res_bind stream_of].
        rewrite Forall_forall in Hall. rewrite (Hall s' (nth_error_In _ _ E)), N.eqb_refl. cbn [negb]. eauto.
      + apply nth_error_None in E. lia.
    - unfold go_idx. replace (List.length ss1 + 1)%nat with (S (List.length ss1)) by lia. cbn [nth_error].
      rewrite nth_error_app2 by (rewrite map_length; lia). rewrite map_length, Nat.sub_diag.
      cbn [nth_error res_bind]. destruct g as [x|s']; [reflexivity|].
      cbn [stream_of]. destruct (N.eqb (cty s') (cty s)) eqn:E; [apply N.eqb_eq in E; contradiction|reflexivity].
  Qed.
End Dispatch.

(* --- with the translated mergeMap and the model's operations --- *)

Lemma all_vals_GV : forall xs, all_vals (map GV xs) = Some xs.
Proof. induction xs as [|x xs IH]; [reflexivity|]. simpl. now rewrite IH. Qed.

(* value mode: two or more map values (entries grouped by key, as every map the model builds:
   gen_mergeMap_agrees_built) are merged as the model's [v_merge] does *)
Theorem gen_mergeValues_value_agrees : forall cty cm rm m ms,
  ms <> [] -> Forall (fun m => grouped m = true) (m :: ms) ->
  Gen.C04MergeValues.mergeValues (merge_map_on Gen.C04Merge.mergeMap) cty cm rm (map GV (map VM (m :: ms)))
  = res_map GV (v_merge (map VM (m :: ms))).
Proof.
  intros cty cm rm m ms Hne Hg. cbn [map]. rewrite gen_mergeValues_map_first.
  change (GV (VM m) :: map GV (map VM ms)) with (map GV (map VM (m :: ms))).
  unfold merge_map_on. rewrite all_vals_GV. now rewrite gen_mergeMap_agrees.
Qed.

(* stream mode: the readers of a fan-in (one map chunk type; >= 2 of them) are merged by the
   reader's merge — with [mrg] the interleaving MergeStreamReaders produces there, this is the
   [s_merge (mrg pos)] of the model's stream-mode run *)
Theorem gen_mergeValues_stream_agrees : forall mm (mrg : list (stream val) -> stream val) s s2 ss,
  Gen.C04MergeValues.mergeValues mm (fun _ => 0%N) (fun _ => true) (fun a l => mrg (a :: l)) (map GS (s :: s2 :: ss))
  = Ok (GS (s_merge mrg (s :: s2 :: ss))).
Proof.
  intros mm mrg s s2 ss. rewrite gen_mergeValues_streams; [reflexivity|reflexivity|].
  apply Forall_forall. reflexivity.
Qed.

(* non-vacuity *)
Example gen_mergeValues_example :
  let mv := Gen.C04MergeValues.mergeValues (merge_map_on Gen.C04Merge.mergeMap)
              (fun s => match s with Val (VS _) :: _ => 1%N | _ => 0%N end) (fun t => N.eqb t 0)
              (fun a l => List.concat (a :: l)) in
  mv [GV (VM [(kstr 1, "a"%string)]); GV (VM [(kstr 2, "b"%string)])]
    = Ok (GV (VM [(kstr 1, "a"%string); (kstr 2, "b"%string)]))
  /\ mv [GV (VM [(kstr 1, "a"%string)]); GV (VM [(kstr 1, "b"%string)])] = Err e_dupkey
  /\ mv [GS [Val (VM [(kstr 1, "a"%string)])]; GS [Val (VM [(kstr 2, "b"%string)])]]
    = Ok (GS [Val (VM [(kstr 1, "a"%string)]); Val (VM [(kstr 2, "b"%string)])])
  /\ mv [GS [Val (VS "a"%string)]; GS [Val (VS "b"%string)]] = Err e_type
  /\ mv [GS [Val (VM [(kstr 1, "a"%string)])]; GV (VM [(kstr 2, "b"%string)])] = Err e_type
  /\ mv [GV (VS "a"%string); GV (VS "b"%string)] = Err e_type.
Proof. repeat split; reflexivity. Qed.
