(* Proofs/GenAgreeDec.v — property C12: the Gallina function tools/go2v translated statement by
   statement from internal/serialization/serialization.go:internalUnmarshal (Gen/SerCode.v) restores what
   the decoder [dec] of Model/Ser.v restores.

   internalUnmarshal is recursive; the translation is the equation the Go source states, with the
   recursive call as the parameter [self] (vocabulary: Model/SerGenLib.v, section "the decoder").
     gen_internalUnmarshal_congr   for every tree i whose top node the Go record can tell apart
                                   ([node_ok]: names are not empty, the field names of a struct record
                                   are pairwise different - they are the keys of a Go map -, a struct
                                   record names a struct type) and every [self] that restores the
                                   sub-trees as the model does: if the model's decoder restores v from
                                   i, the translated body restores v from the Go record of i;
     gen_internalUnmarshal_unique  so every function that satisfies the translated equation restores v
                                   (induction over the tree).
   The statement is a refinement on success: where the model's decoder fails the Go decoder may fail with
   another error or (on trees no encoder writes) panic at another entry first - the entries of a Go map are
   walked in random order.  Hypotheses: registered types are not pointer types ([GenericRegister] strips
   the pointers) and have a zero value in the model (their struct types are declared and do not contain
   themselves by value); the field names of a struct declaration are pairwise different.
   A changed dispatch order, another pointer count, a dropped Set / SetMapIndex / Append, the zero value
   for a nil element left out, a key holder used twice … in the Go source makes a theorem here stop
   compiling.  When tools/go2v does not recognise the shape of the source, Gen/SerCode.v re-exports the
   reference translation Model/SerCodeRef.v (tie unavailable). *)
From Coq Require Import List Bool Arith NArith String Lia.
From Eino Require Import Base.Util Base.Universe Model.Ser Model.SerGenLib.
From Eino Require Model.SerCodeRef Gen.SerCode.
From Eino Require Import Proofs.GenAgreeSer.
Import ListNotations.
Local Open Scope bool_scope.

Lemma deref_add_ptr : forall k pn t, k <= pn -> deref_ty k (add_ptr pn t) = add_ptr (pn - k) t.
Proof.
  induction k; intros pn t H; simpl.
  - now rewrite Nat.sub_0_r.
  - destruct pn; [lia|]. simpl. apply IHk. lia.
Qed.

Lemma rt_Kind_add_ptr : forall m t, kind_eqb (rt_Kind t) KPtr = false ->
  kind_eqb (rt_Kind (add_ptr m t)) KPtr = negb (Nat.eqb m 0).
Proof. intros [|m] t H; simpl; [exact H|reflexivity]. Qed.

Lemma not_kptr_not_ptr : forall t, kind_eqb (rt_Kind t) KPtr = false -> is_ptr t = false.
Proof. intros [] H; try reflexivity. discriminate H. Qed.

Lemma cur_ty_add_ptr : forall pn t k a l o, k <= pn ->
  pc_cur_ty (MkPcur (add_ptr pn t) k a l o) = add_ptr (pn - k) t.
Proof. intros. unfold pc_cur_ty. simpl. now apply deref_add_ptr. Qed.

Lemma based_step : forall pn t k, k < pn ->
  pc_down (pc_set_new (MkPcur (add_ptr pn t) k false None true)) = MkPcur (add_ptr pn t) (S k) false None true.
Proof.
  intros pn t k H. unfold pc_down, pc_set_new. rewrite cur_ty_add_ptr by lia. simpl.
  replace (is_ptr (add_ptr (pn - k) t)) with true by (destruct (pn - k) eqn:E; [lia|reflexivity]).
  reflexivity.
Qed.

(* the pointer loop of the based-type branch *)
Lemma based_loop : forall (R : Type) nn pn t k,
  kind_eqb (rt_Kind t) KPtr = false -> k <= pn ->
  loop_while_list (R := R)
    (fun pResult => kind_eqb (rt_Kind (pc_cur_ty pResult)) KPtr)
    (fun (_ : nat) pResult => LCont (pc_down (pc_set_new pResult)))
    (seq 0 nn) (MkPcur (add_ptr pn t) k false None true)
  = LCont (MkPcur (add_ptr pn t) (Nat.min (k + nn) pn) false None true).
Proof.
  intros R nn pn t k Ht. generalize 0 as s0. revert k.
  induction nn as [|nn IH]; intros k s0 Hk.
  - simpl. rewrite Nat.add_0_r, Nat.min_l by exact Hk. reflexivity.
  - cbn [seq loop_while_list]. rewrite cur_ty_add_ptr by exact Hk.
    rewrite rt_Kind_add_ptr by exact Ht.
    destruct (Nat.eqb (pn - k) 0) eqn:E; cbn [negb].
    + apply Nat.eqb_eq in E. rewrite Nat.min_r by lia. replace k with pn by lia. reflexivity.
    + apply Nat.eqb_neq in E. rewrite based_step by lia.
      rewrite (IH (S k) (S s0)) by lia. replace (k + S nn) with (S k + nn) by lia. reflexivity.
Qed.

Section AgreeDec.
  Variables J JK : Type.
  Variable jdec : base -> J -> res lit.
  Variable kdec : base -> JK -> res lit.
  Variable reg : registry.
  Variable env : senv.
  Notation gisT := (gis J JK).
  Notation istructT := (istruct J JK).
  Let decm : istructT -> res val := dec J JK jdec kdec fixed reg env.

  (* registered types are not pointer types (GenericRegister strips the pointers) and have a zero
     value in the model (their struct types are declared, no struct contains itself by value) *)
  Hypothesis reg_not_ptr : forall k t, m_lookup reg k = Some t -> kind_eqb (rt_Kind t) KPtr = false.
  Hypothesis reg_zero_ok : forall k t, m_lookup reg k = Some t -> exists z, zero_v env t = Ok z.
  Hypothesis field_names_unique : forall n ds, struct_fields env n = Some ds -> NoDup (map fst ds).

  Definition nonempty (s : string) : bool := negb (String.eqb s EmptyString).
  Definition ct_ok (ct : option string) : bool := match ct with Some k => nonempty k | None => true end.
  Fixpoint names_nodup (l : list string) : bool :=
    match l with [] => true | a :: r => negb (existsb (String.eqb a) r) && names_nodup r end.
  (* what the Go record needs to tell the shapes apart, and what a Go map guarantees *)
  Definition node_ok (i : istructT) : bool :=
    match i with
    | INull _ _ key | IBasic _ key _ => nonempty key
    | IStruct _ key fields =>
        nonempty key && names_nodup (map fst fields)
        && match m_lookup reg key with Some (TStruct _) | None => true | Some _ => false end
    | IMap _ _ kname _ _ _ ct => nonempty kname && ct_ok ct
    | ISlice _ _ _ _ _ ct => ct_ok ct
    end.
  Definition subtrees (i : istructT) : list (option istructT) :=
    match i with
    | IStruct _ _ fields => map snd fields
    | IMap _ _ _ _ _ entries _ => map snd entries
    | ISlice _ _ _ elems _ _ => elems
    | _ => []
    end.

  Lemma ct_str_ok : forall ct, ct_ok ct = true ->
    (if String.eqb (ct_str ct) EmptyString then None else Some (ct_str ct)) = ct.
  Proof.
    intros [k|] H; simpl in *; [|reflexivity]. unfold nonempty in H. apply negb_true_iff in H. now rewrite H.
  Qed.

  Lemma strip_add_not_ptr : forall n t, kind_eqb (rt_Kind t) KPtr = false -> strip_ptr (add_ptr n t) = (n, t).
  Proof. intros. apply strip_add_ptr. now apply not_kptr_not_ptr. Qed.

  Lemma container_ty_shape : forall ct t0 c, container_ty reg ct t0 = Ok c -> c = t0 \/ exists d, c = TDef d t0.
  Proof.
    intros [k|] t0 c H; simpl in H; [|inversion H; now left].
    unfold lookup_ty in H. destruct (m_lookup reg k) as [c'|]; simpl in H; [|discriminate H].
    destruct (assignable_to t0 c') eqn:A; [|discriminate H]. inversion H; subst c'. clear H.
    unfold assignable_to in A. apply orb_true_iff in A. destruct A as [A|A].
    - apply ty_eqb_eq in A. now left.
    - destruct c; try discriminate A. apply ty_eqb_eq in A. subst. right. now exists d.
  Qed.

  Lemma assign_zero : forall t z, zero_v env t = Ok z -> assign t z = Ok z.
  Proof.
    intros t z H. unfold zero_v in H. apply zero_ty_of in H. unfold assign. rewrite H, ty_eqb_refl. reflexivity.
  Qed.

  (* a container value as the decoder holds it: the unnamed container, or the same as a value of the
     registered defined type *)
  Definition dwrap (c : ty) : val -> val := as_ty c.

  (* elements of a slice *)
  Lemma loop_append : forall (R : Type) (self : option gisT -> res (option val)) et c elems es acc,
    (c = TSlice et \/ exists d, c = TDef d (TSlice et)) ->
    (forall oc ow, In oc elems -> dec_opt J JK decm oc = Ok ow -> self (option_map to_gis oc) = Ok ow) ->
    mapM (hole J JK env decm et) elems = Ok es ->
    loop_list (R := res R) (fun internalValue dResult =>
        match self internalValue with
        | Err e_ => LRet (Err e_) | Panic => LRet Panic
        | Ok value =>
            match value with
            | None =>
                match zero_v env et with
                | Err e_ => LRet (Err e_) | Panic => LRet Panic
                | Ok x_ =>
                    match rv_Append dResult x_ with
                    | Err e_ => LRet (Err e_) | Panic => LRet Panic
                    | Ok dResult => LCont dResult
                    end
                end
            | Some value =>
                match rv_Append dResult value with
                | Err e_ => LRet (Err e_) | Panic => LRet Panic
                | Ok dResult => LCont dResult
                end
            end
        end) (map (option_map to_gis) elems) (dwrap c (VSlice et acc))
    = LCont (dwrap c (VSlice et (match es with [] => acc | _ => Some (opt_list acc ++ es) end))).
  Proof.
    intros R self et c elems. induction elems as [|oc r IH]; intros es acc Hc Hself Hm.
    - simpl in Hm. inversion Hm. reflexivity.
    - cbn [map loop_list]. cbn [mapM] in Hm.
      destruct (hole J JK env decm et oc) as [x|e|] eqn:Hx; cbn [res_bind] in Hm; try discriminate Hm.
      destruct (mapM (hole J JK env decm et) r) as [es'|e|] eqn:Hr; cbn [res_bind] in Hm; try discriminate Hm.
      inversion Hm; subst es; clear Hm.
      unfold hole in Hx. destruct (dec_opt J JK decm oc) as [ow|e|] eqn:Ho; cbn [res_bind] in Hx; try discriminate Hx.
      rewrite (Hself oc ow (or_introl eq_refl) Ho).
      assert (Hstep : forall y, assign et y = Ok x ->
                rv_Append (dwrap c (VSlice et acc)) y = Ok (dwrap c (VSlice et (Some (opt_list acc ++ [x]))))).
      { intros y Hy. destruct Hc as [->|[d ->]]; simpl; rewrite Hy; reflexivity. }
      pose proof (IH es' (Some (opt_list acc ++ [x])) Hc
                    (fun oc0 ow0 Hin => Hself oc0 ow0 (or_intror Hin)) eq_refl) as Hrest.
      assert (Hshape : (match es' with [] => Some (opt_list acc ++ [x]) | _ => Some (opt_list (Some (opt_list acc ++ [x])) ++ es') end)
                       = Some (opt_list acc ++ x :: es')).
      { destruct es'; simpl; [reflexivity|]. now rewrite <- app_assoc. }
      rewrite Hshape in Hrest. clear Hshape.
      match type of Hrest with loop_list ?b ?l _ = _ => set (L := loop_list b l) in * end.
      destruct ow as [w|]; unfold place in Hx.
      + rewrite (Hstep w Hx). exact Hrest.
      + change (zero (zero_fuel env) env et) with (zero_v env et) in Hx. rewrite Hx.
        rewrite (Hstep x (assign_zero _ _ Hx)). exact Hrest.
  Qed.

  (* elements of an array *)
  Lemma loop_setindex : forall (R : Type) (self : option gisT -> res (option val)) et c z rest es pre,
    ((exists n, c = TArray n et) \/ exists d n, c = TDef d (TArray n et)) ->
    zero_v env et = Ok z ->
    (forall oc ow, In oc rest -> dec_opt J JK decm oc = Ok ow -> self (option_map to_gis oc) = Ok ow) ->
    mapM (hole J JK env decm et) rest = Ok es ->
    loop_list (R := res R) (fun '(i, internalValue) dResult =>
        match self internalValue with
        | Err e_ => LRet (Err e_) | Panic => LRet Panic
        | Ok value =>
            match value with
            | None => LCont dResult
            | Some value =>
                match rv_SetIndex dResult i value with
                | Err e_ => LRet (Err e_) | Panic => LRet Panic
                | Ok dResult => LCont dResult
                end
            end
        end) (combine (seq (List.length pre) (List.length rest)) (map (option_map to_gis) rest))
      (dwrap c (VArray et (pre ++ repeat z (List.length rest))))
    = LCont (dwrap c (VArray et (pre ++ es))).
  Proof.
    intros R self et c z rest. induction rest as [|oc r IH]; intros es pre Hc Hz Hself Hm.
    - simpl in Hm. inversion Hm. reflexivity.
    - cbn [List.length seq map combine loop_list]. cbn [mapM] in Hm.
      destruct (hole J JK env decm et oc) as [x|e|] eqn:Hx; cbn [res_bind] in Hm; try discriminate Hm.
      destruct (mapM (hole J JK env decm et) r) as [es'|e|] eqn:Hr; cbn [res_bind] in Hm; try discriminate Hm.
      inversion Hm; subst es; clear Hm.
      unfold hole in Hx. destruct (dec_opt J JK decm oc) as [ow|e|] eqn:Ho; cbn [res_bind] in Hx; try discriminate Hx.
      rewrite (Hself oc ow (or_introl eq_refl) Ho).
      pose proof (IH es' (pre ++ [x]) Hc Hz (fun oc0 ow0 Hin => Hself oc0 ow0 (or_intror Hin)) eq_refl) as Hrest.
      rewrite app_length in Hrest. simpl in Hrest. rewrite Nat.add_1_r in Hrest.
      rewrite <- !app_assoc in Hrest. simpl in Hrest.
      destruct ow as [w|]; unfold place in Hx.
      + assert (Hstep : rv_SetIndex (dwrap c (VArray et (pre ++ repeat z (S (List.length r))))) (List.length pre) w
                        = Ok (dwrap c (VArray et (pre ++ x :: repeat z (List.length r))))).
        { assert (Hlt : Nat.ltb (List.length pre) (List.length (pre ++ repeat z (S (List.length r)))) = true)
            by (apply Nat.ltb_lt; rewrite app_length; simpl; lia).
          destruct Hc as [[n ->]|[d [n ->]]]; simpl; simpl in Hlt; rewrite Hlt, Hx; simpl;
            rewrite (slice_set_app pre z (repeat z (List.length r)) x); reflexivity. }
        rewrite Hstep. exact Hrest.
      + change (zero (zero_fuel env) env et) with (zero_v env et) in Hx. rewrite Hz in Hx. inversion Hx; subst x.
        exact Hrest.
  Qed.

  (* entries of a map *)
  Lemma loop_setmap : forall (R : Type) (self : option gisT -> res (option val)) kt vt c entries kvs acc,
    (c = TMap kt vt \/ exists d, c = TDef d (TMap kt vt)) ->
    (forall oc ow, In oc (map snd entries) -> dec_opt J JK decm oc = Ok ow -> self (option_map to_gis oc) = Ok ow) ->
    mapM (fun e : kjson JK * option istructT =>
            do k <- dec_key JK kdec env kt (fst e); do v <- hole J JK env decm vt (snd e); Ok (k, v)) entries = Ok kvs ->
    loop_list (R := res R) (fun '(marshaledMapKey, internalValue) dResult =>
        let prkv := pc_new kt in
        match pc_unmarshal_key kdec env prkv marshaledMapKey with
        | Err e_ => LRet (Err e_) | Panic => LRet Panic
        | Ok prkv =>
            match self internalValue with
            | Err e_ => LRet (Err e_) | Panic => LRet Panic
            | Ok value =>
                match value with
                | None =>
                    match pc_here env prkv with
                    | Err e_ => LRet (Err e_) | Panic => LRet Panic
                    | Ok k_ =>
                        match zero_v env vt with
                        | Err e_ => LRet (Err e_) | Panic => LRet Panic
                        | Ok x_ =>
                            match rv_SetMapIndex dResult k_ x_ with
                            | Err e_ => LRet (Err e_) | Panic => LRet Panic
                            | Ok dResult => LCont dResult
                            end
                        end
                    end
                | Some value =>
                    match pc_here env prkv with
                    | Err e_ => LRet (Err e_) | Panic => LRet Panic
                    | Ok k_ =>
                        match rv_SetMapIndex dResult k_ value with
                        | Err e_ => LRet (Err e_) | Panic => LRet Panic
                        | Ok dResult => LCont dResult
                        end
                    end
                end
            end
        end) (map (fun e => (MKJson (fst e), option_map to_gis (snd e))) entries) (dwrap c (VMap kt vt (Some acc)))
    = LCont (dwrap c (VMap kt vt (Some (acc ++ kvs)))).
  Proof.
    intros R self kt vt c entries. induction entries as [|[kj oc] r IH]; intros kvs acc Hc Hself Hm.
    - simpl in Hm. inversion Hm. now rewrite app_nil_r.
    - cbn [map loop_list fst snd]. cbn [mapM fst snd] in Hm.
      destruct (dec_key JK kdec env kt kj) as [k|e|] eqn:Hk; cbn [res_bind] in Hm; try discriminate Hm.
      destruct (hole J JK env decm vt oc) as [x|e|] eqn:Hx; cbn [res_bind] in Hm; try discriminate Hm.
      match type of Hm with (do bs <- ?M; _) = _ => destruct M as [kvs'|e|] eqn:Hr end; cbn [res_bind] in Hm; try discriminate Hm.
      inversion Hm; subst kvs; clear Hm.
      unfold hole in Hx. destruct (dec_opt J JK decm oc) as [ow|e|] eqn:Ho; cbn [res_bind] in Hx; try discriminate Hx.
      pose proof (IH kvs' (acc ++ [(k, x)]) Hc (fun oc0 ow0 Hin => Hself oc0 ow0 (or_intror Hin)) eq_refl) as Hrest.
      rewrite <- app_assoc in Hrest. simpl in Hrest.
      match type of Hrest with loop_list ?b ?l _ = _ => set (L := loop_list b l) in * end.
      cbv zeta. unfold pc_unmarshal_key, pc_new. cbn [pc_ok pc_alloc pc_leaf pc_depth pc_ty negb orb opt_some Nat.eqb].
      rewrite Hk. cbn [res_bind].
      rewrite (Hself oc ow (or_introl eq_refl) Ho).
      unfold pc_here. cbn [pc_ok pc_leaf negb].
      assert (Hstep : forall y, assign vt y = Ok x ->
                rv_SetMapIndex (dwrap c (VMap kt vt (Some acc))) k y = Ok (dwrap c (VMap kt vt (Some (acc ++ [(k, x)]))))).
      { intros y Hy. destruct Hc as [->|[d ->]]; simpl; rewrite Hy; reflexivity. }
      destruct ow as [w|]; unfold place in Hx.
      + rewrite (Hstep w Hx). exact Hrest.
      + change (zero (zero_fuel env) env vt) with (zero_v env vt) in Hx. rewrite Hx.
        rewrite (Hstep x (assign_zero _ _ Hx)). exact Hrest.
  Qed.

  Lemma zero_array_eq : forall fuel n t,
    zero fuel env (TArray n t) = (do z <- zero fuel env t; Ok (VArray t (repeat z n))).
  Proof. destruct fuel; reflexivity. Qed.
  Lemma zero_def_eq : forall fuel d u,
    zero fuel env (TDef d u) = (do z <- zero fuel env u; Ok (VDef d z)).
  Proof. destruct fuel; reflexivity. Qed.
  Lemma zero_elem_ok : forall k t n, m_lookup reg k = Some t -> exists z, zero_v env (add_ptr n t) = Ok z.
  Proof.
    intros k t [|n] H; simpl; [eapply reg_zero_ok; eauto|]. unfold zero_v. destruct (zero_fuel env); eexists; reflexivity.
  Qed.

  (* more fuel gives the same zero value *)
  Lemma res_mapM_mono : forall {A B} (f1 f2 : A -> res B) l r,
    (forall a b, In a l -> f1 a = Ok b -> f2 a = Ok b) -> res_mapM f1 l = Ok r -> res_mapM f2 l = Ok r.
  Proof.
    intros A B f1 f2 l; induction l as [|a l IH]; intros r H Hm; simpl in *; [exact Hm|].
    destruct (f1 a) as [b|e|] eqn:E; simpl in Hm; try discriminate Hm.
    destruct (res_mapM f1 l) as [bs|e|] eqn:E2; simpl in Hm; try discriminate Hm.
    rewrite (H a b (or_introl eq_refl) E). simpl. rewrite (IH bs (fun a0 b0 Hin => H a0 b0 (or_intror Hin)) eq_refl). exact Hm.
  Qed.
  Lemma zero_struct_eq : forall f n,
    zero (S f) env (TStruct n) =
    match struct_fields env n with
    | None => Err E_NOSTRUCT
    | Some ds => do fs <- res_mapM (fun d => do z <- zero f env (snd d); Ok (fst d, z)) ds; Ok (VStruct n fs)
    end.
  Proof. reflexivity. Qed.
  Lemma zero_mono : forall f t z, zero f env t = Ok z -> zero (S f) env t = Ok z.
  Proof.
    induction f as [|f IHf].
    - induction t; intros z H; try (destruct z; exact H); try (simpl in H; exact H).
      + simpl in H. discriminate H.
      + rewrite zero_array_eq in *. destruct (zero 0 env t) as [y|e|] eqn:E; simpl in H; try discriminate H.
        rewrite (IHt y eq_refl). exact H.
      + rewrite zero_def_eq in *. destruct (zero 0 env t) as [y|e|] eqn:E; simpl in H; try discriminate H.
        rewrite (IHt y eq_refl). exact H.
    - induction t; intros z H; try (simpl in H; exact H).
      + rewrite zero_struct_eq in *. destruct (struct_fields env n) as [ds|]; [|discriminate H].
        destruct (res_mapM (fun d => do z0 <- zero f env (snd d); Ok (fst d, z0)) ds) as [fs|e|] eqn:E; simpl in H; try discriminate H.
        erewrite (res_mapM_mono _ (fun d => do z0 <- zero (S f) env (snd d); Ok (fst d, z0)) ds fs); [exact H| |exact E].
        intros a b _ Ha. cbv beta in Ha |- *.
        destruct (zero f env (snd a)) as [y|e|] eqn:Ey; unfold res_bind in Ha; try discriminate Ha.
        rewrite (IHf _ _ Ey). exact Ha.
      + rewrite zero_array_eq in *. destruct (zero (S f) env t) as [y|e|] eqn:E; simpl in H; try discriminate H.
        rewrite (IHt y eq_refl). exact H.
      + rewrite zero_def_eq in *. destruct (zero (S f) env t) as [y|e|] eqn:E; simpl in H; try discriminate H.
        rewrite (IHt y eq_refl). exact H.
  Qed.

  (* ------------------------------------------------------------ struct fields: association lists *)
  Lemma fields_set_fst : forall s x (fs : list (string * val)), map fst (fields_set s x fs) = map fst fs.
  Proof.
    intros s x fs; induction fs as [|[g w] r IH]; simpl; [reflexivity|].
    destruct (String.eqb s g); simpl; [reflexivity|now rewrite IH].
  Qed.
  Lemma fields_set_get : forall s x (fs : list (string * val)) g,
    alist_get g (fields_set s x fs)
    = if String.eqb g s then option_map (fun _ => x) (alist_get s fs) else alist_get g fs.
  Proof.
    intros s x fs g; induction fs as [|[g0 w] r IH]; simpl.
    - destruct (String.eqb g s); reflexivity.
    - destruct (String.eqb s g0) eqn:E0; simpl.
      + apply String.eqb_eq in E0. subst g0. destruct (String.eqb g s); reflexivity.
      + rewrite IH. destruct (String.eqb g g0) eqn:E1; [|reflexivity].
        apply String.eqb_eq in E1. subst g0.
        destruct (String.eqb g s) eqn:E2; [|reflexivity].
        apply String.eqb_eq in E2. subst s. rewrite String.eqb_refl in E0. discriminate E0.
  Qed.
  Lemma alist_get_in : forall {A} g (l : list (string * A)), In g (map fst l) -> exists a, alist_get g l = Some a.
  Proof.
    intros A g l; induction l as [|[g0 a] r IH]; simpl; intro H; [contradiction|].
    destruct (String.eqb g g0) eqn:E; [eauto|]. destruct H as [H|H]; [|auto].
    subst g0. rewrite String.eqb_refl in E. discriminate E.
  Qed.
  Lemma alist_get_none : forall {A} g (l : list (string * A)), ~ In g (map fst l) -> alist_get g l = None.
  Proof.
    intros A g l; induction l as [|[g0 a] r IH]; simpl; intro H; [reflexivity|].
    destruct (String.eqb g g0) eqn:E.
    - apply String.eqb_eq in E. subst. exfalso. apply H. now left.
    - apply IH. intro Hi. apply H. now right.
  Qed.
  Lemma alist_ext : forall (l1 l2 : list (string * val)),
    map fst l1 = map fst l2 -> NoDup (map fst l1) ->
    (forall g, In g (map fst l1) -> alist_get g l1 = alist_get g l2) -> l1 = l2.
  Proof.
    induction l1 as [|[g1 v1] r1 IH]; intros [|[g2 v2] r2] Hm Hn Hg; simpl in Hm; try discriminate Hm; [reflexivity|].
    inversion Hm; subst g2. inversion Hn as [|? ? Hni Hn']; subst.
    pose proof (Hg g1 (or_introl eq_refl)) as Hh. simpl in Hh. rewrite String.eqb_refl in Hh. inversion Hh; subst v2.
    f_equal. apply IH; auto.
    intros g Hin. pose proof (Hg g (or_intror Hin)) as Hh2. simpl in Hh2.
    destruct (String.eqb g g1) eqn:E; [|exact Hh2].
    apply String.eqb_eq in E. subst g. contradiction.
  Qed.
  Lemma names_nodup_NoDup : forall l, names_nodup l = true -> NoDup l.
  Proof.
    induction l as [|a r IH]; simpl; intro H; [constructor|].
    apply andb_true_iff in H. destruct H as [H1 H2]. constructor; [|auto].
    intro Hin. apply negb_true_iff in H1. assert (existsb (String.eqb a) r = true); [|congruence].
    apply existsb_exists. exists a. split; [exact Hin|apply String.eqb_refl].
  Qed.
  Lemma has_name_get : forall k (ds : list (string * ty)), has_name k ds = true -> exists ft, alist_get k ds = Some ft.
  Proof.
    intros k ds; induction ds as [|[g t] r IH]; simpl; intro H; [discriminate H|].
    destruct (String.eqb k g); [eauto|]. simpl in H. auto.
  Qed.
  Lemma mapM_res_mapM : forall {A B} (f : A -> res B) l, mapM f l = res_mapM f l.
  Proof. intros A B f l; induction l as [|a r IH]; simpl; [reflexivity|]. now rewrite IH. Qed.
  (* a list built field by field *)
  Lemma mapM_fields : forall (F : string * ty -> res val) (ds : list (string * ty)) fs,
    mapM (fun d => do v <- F d; Ok (fst d, v)) ds = Ok fs ->
    map fst fs = map fst ds /\
    (NoDup (map fst ds) -> forall g ft, alist_get g ds = Some ft ->
       exists x, F (g, ft) = Ok x /\ alist_get g fs = Some x).
  Proof.
    intros F ds; induction ds as [|[g0 t0] r IH]; intros fs H; simpl in H.
    - inversion H. split; [reflexivity|]. intros _ g ft Hg. discriminate Hg.
    - destruct (F (g0, t0)) as [x0|e|] eqn:E0; simpl in H; try discriminate H.
      match type of H with (do bs <- ?M; _) = _ => destruct M as [fs'|e|] eqn:Er end; simpl in H; try discriminate H.
      inversion H; subst fs. destruct (IH fs' eq_refl) as [Hf Hg]. split; [simpl; now rewrite Hf|].
      intros Hn g ft Hget. simpl in Hn. inversion Hn as [|? ? Hni Hn']; subst. simpl in Hget |- *.
      destruct (String.eqb g g0) eqn:E.
      + apply String.eqb_eq in E. subst g0. inversion Hget; subst t0. eauto.
      + apply Hg; assumption.
  Qed.

  (* what the field loop leaves: the decoded entries applied, one after the other, to the fields *)
  Definition apply_decoded (ds : list (string * ty)) (decoded : list (string * option val)) (cur : list (string * val))
    : list (string * val) :=
    fold_left (fun c fo => match alist_get (fst fo) ds with
                           | Some ft => match place env ft (snd fo) with Ok x => fields_set (fst fo) x c | _ => c end
                           | None => c
                           end) decoded cur.
  Lemma apply_decoded_cons : forall ds k o r cur,
    apply_decoded ds ((k, o) :: r) cur
    = apply_decoded ds r (match alist_get k ds with
                          | Some ft => match place env ft o with Ok x => fields_set k x cur | _ => cur end
                          | None => cur
                          end).
  Proof. reflexivity. Qed.
  Lemma apply_decoded_fst : forall ds decoded cur, map fst (apply_decoded ds decoded cur) = map fst cur.
  Proof.
    intros ds decoded; induction decoded as [|[k o] r IH]; intro cur; [reflexivity|].
    rewrite apply_decoded_cons, IH.
    destruct (alist_get k ds); [|reflexivity]. destruct (place env t o); try reflexivity. apply fields_set_fst.
  Qed.
  Lemma apply_decoded_get : forall ds decoded cur g,
    NoDup (map fst decoded) -> In g (map fst cur) ->
    (forall k o, In (k, o) decoded -> In k (map fst cur) /\ exists ft x, alist_get k ds = Some ft /\ place env ft o = Ok x) ->
    alist_get g (apply_decoded ds decoded cur)
    = match alist_get g decoded with
      | Some o => match alist_get g ds with
                  | Some ft => match place env ft o with Ok x => Some x | _ => None end
                  | None => None
                  end
      | None => alist_get g cur
      end.
  Proof.
    intros ds decoded; induction decoded as [|[k o] r IH]; intros cur g Hn Hg Hall; [reflexivity|].
    simpl in Hn. inversion Hn as [|? ? Hni Hn']; subst.
    destruct (Hall k o (or_introl eq_refl)) as [Hk [ft [x [Hft Hx]]]].
    rewrite apply_decoded_cons, Hft, Hx.
    rewrite IH; [| exact Hn' | now rewrite fields_set_fst
                 | intros k' o' Hin; destruct (Hall k' o' (or_intror Hin)) as [Hk' Hr]; split; [now rewrite fields_set_fst|exact Hr] ].
    cbn [alist_get]. destruct (String.eqb g k) eqn:E.
    - apply String.eqb_eq in E. subst g. rewrite (alist_get_none k r Hni).
      rewrite fields_set_get, String.eqb_refl. destruct (alist_get_in k cur Hk) as [w Hw]. rewrite Hw, Hft, Hx. reflexivity.
    - destruct (alist_get g r); [reflexivity|]. rewrite fields_set_get, E. reflexivity.
  Qed.

  (* the field loop *)
  Lemma loop_setfield : forall (R : Type) (self : option gisT -> res (option val)) n ds entries decoded cur,
    struct_fields env n = Some ds ->
    map fst cur = map fst ds ->
    (forall oc ow, In oc (map snd entries) -> dec_opt J JK decm oc = Ok ow -> self (option_map to_gis oc) = Ok ow) ->
    mapM (fun fi : string * option istructT => do o <- dec_opt J JK decm (snd fi); Ok (fst fi, o)) entries = Ok decoded ->
    (forall k o, In (k, o) decoded -> exists ft x, alist_get k ds = Some ft /\ place env ft o = Ok x) ->
    loop_list (R := res R) (fun '((k, internalValue) : mkey JK * option gisT) dResult =>
        match self internalValue with
        | Err e_ => LRet (Err e_) | Panic => LRet Panic
        | Ok value =>
            match rv_HasField env dResult k with
            | Err e_ => LRet (Err e_) | Panic => LRet Panic
            | Ok can_ =>
                if negb can_ then LRet (Err E_FIELD)
                else
                  match value with
                  | None =>
                      match rt_FieldByName env (TStruct n) k with
                      | None => LRet (Err E_FIELD)
                      | Some rft =>
                          match zero_v env (sf_Type rft) with
                          | Err e_ => LRet (Err e_) | Panic => LRet Panic
                          | Ok x_ =>
                              match rv_SetField env dResult k x_ with
                              | Err e_ => LRet (Err e_) | Panic => LRet Panic
                              | Ok dResult => LCont dResult
                              end
                          end
                      end
                  | Some value =>
                      match rv_SetField env dResult k value with
                      | Err e_ => LRet (Err e_) | Panic => LRet Panic
                      | Ok dResult => LCont dResult
                      end
                  end
            end
        end) (map (fun fo : string * option istructT => (MKName (fst fo), option_map to_gis (snd fo))) entries) (VStruct n cur)
    = LCont (VStruct n (apply_decoded ds decoded cur)).
  Proof.
    intros R self n ds entries. induction entries as [|[k oc] r IH]; intros decoded cur Hds Hcur Hself Hm Hall.
    - simpl in Hm. inversion Hm. reflexivity.
    - cbn [map loop_list fst snd]. cbn [mapM fst snd] in Hm.
      destruct (dec_opt J JK decm oc) as [ow|e|] eqn:Ho; cbn [res_bind] in Hm; try discriminate Hm.
      match type of Hm with (do bs <- ?M; _) = _ => destruct M as [dec'|e|] eqn:Hr end; cbn [res_bind] in Hm; try discriminate Hm.
      inversion Hm; subst decoded; clear Hm.
      destruct (Hall k ow (or_introl eq_refl)) as [ft [x [Hft Hx]]].
      assert (Hfb : rt_FieldByName (JK := JK) env (TStruct n) (MKName k) = Some (k, ft)).
      { unfold rt_FieldByName, rt_fields. cbn [mkey_name]. rewrite Hds, Hft. reflexivity. }
      pose proof (IH dec' (fields_set k x cur) Hds (eq_trans (fields_set_fst k x cur) Hcur)
                    (fun oc0 ow0 Hin => Hself oc0 ow0 (or_intror Hin)) eq_refl
                    (fun k0 o0 Hin => Hall k0 o0 (or_intror Hin))) as Hrest.
      match type of Hrest with loop_list ?b ?l _ = _ => set (L := loop_list b l) in * end.
      rewrite (Hself oc ow (or_introl eq_refl) Ho).
      unfold rv_HasField. cbn [ty_of]. rewrite Hfb. cbn [opt_some negb].
      assert (Hstep : forall y, assign ft y = Ok x ->
                rv_SetField (JK := JK) env (VStruct n cur) (MKName k) y = Ok (VStruct n (fields_set k x cur))).
      { intros y Hy. unfold rv_SetField. cbn [ty_of]. rewrite Hfb, Hy. reflexivity. }
      rewrite apply_decoded_cons, Hft, Hx.
      destruct ow as [w|]; unfold place in Hx.
      + rewrite (Hstep w Hx). exact Hrest.
      + unfold sf_Type. cbn [snd].
        change (zero (zero_fuel env) env ft) with (zero_v env ft) in Hx. rewrite Hx.
        rewrite (Hstep x (assign_zero _ _ Hx)). exact Hrest.
  Qed.

  (* ... and it leaves what the model builds field by field *)
  Lemma apply_decoded_build : forall n ds decoded zs fs,
    struct_fields env n = Some ds ->
    NoDup (map fst decoded) ->
    forallb (fun fo : string * option val => has_name (fst fo) ds) decoded = true ->
    zero_v env (TStruct n) = Ok (VStruct n zs) ->
    build_fields env ds decoded = Ok fs ->
    apply_decoded ds decoded zs = fs
    /\ (forall k o, In (k, o) decoded -> exists ft x, alist_get k ds = Some ft /\ place env ft o = Ok x).
  Proof.
    intros n ds decoded zs fs Hds Hnd Hnames Hz Hb.
    pose proof (field_names_unique n ds Hds) as Hnds.
    unfold build_fields in Hb. destruct (mapM_fields _ ds fs Hb) as [Hffs Hgfs]. specialize (Hgfs Hnds).
    unfold zero_v, zero_fuel in Hz. rewrite zero_struct_eq, Hds in Hz.
    destruct (res_mapM (fun d => do z <- zero (List.length env) env (snd d); Ok (fst d, z)) ds) as [zs'|e|] eqn:Ez; simpl in Hz; try discriminate Hz.
    inversion Hz; subst zs'; clear Hz. rewrite <- mapM_res_mapM in Ez.
    destruct (mapM_fields (fun d => zero (List.length env) env (snd d)) ds zs Ez) as [Hfzs Hgzs]. specialize (Hgzs Hnds).
    assert (Hall : forall k o, In (k, o) decoded -> exists ft x, alist_get k ds = Some ft /\ place env ft o = Ok x).
    { intros k o Hin. rewrite forallb_forall in Hnames. specialize (Hnames (k, o) Hin). simpl in Hnames.
      destruct (has_name_get k ds Hnames) as [ft Hft]. exists ft.
      destruct (Hgfs k ft Hft) as [x [Hx _]]. cbn [fst snd] in Hx.
      assert (Hget : alist_get k decoded = Some o).
      { clear - Hnd Hin. induction decoded as [|[k0 o0] r IH]; [contradiction|]. simpl in *.
        inversion Hnd as [|? ? Hni Hn']; subst. destruct Hin as [Hin|Hin].
        - inversion Hin; subst. now rewrite String.eqb_refl.
        - destruct (String.eqb k k0) eqn:E; [|auto]. apply String.eqb_eq in E. subst k0.
          exfalso. apply Hni. apply in_map_iff. exists (k, o). auto. }
      rewrite Hget in Hx. eauto. }
    split; [|exact Hall].
    apply alist_ext.
    - rewrite apply_decoded_fst, Hfzs, Hffs. reflexivity.
    - rewrite apply_decoded_fst, Hfzs. exact Hnds.
    - intros g Hg. rewrite apply_decoded_fst, Hfzs in Hg.
      destruct (alist_get_in g ds Hg) as [ft Hft].
      rewrite apply_decoded_get; [| exact Hnd | now rewrite Hfzs
        | intros k o Hin; destruct (Hall k o Hin) as [ft' [x' [H1' H2']]]; split; [|eauto];
          rewrite Hfzs; apply in_map_iff; exists (k, ft'); split; [reflexivity|];
          clear - H1'; induction ds as [|[g0 t0] r IH]; simpl in *; [discriminate|];
          destruct (String.eqb k g0) eqn:E; [apply String.eqb_eq in E; inversion H1'; subst; now left | right; auto] ].
      destruct (Hgfs g ft Hft) as [x [Hx Hxs]]. cbn [fst snd] in Hx. rewrite Hxs.
      destruct (alist_get g decoded) as [o|] eqn:Ed.
      + rewrite Hft, Hx. reflexivity.
      + destruct (Hgzs g ft Hft) as [z [Hzz Hzs]]. cbn [snd] in Hzz. rewrite Hzs.
        unfold place, zero_fuel in Hx. rewrite (zero_mono _ _ _ Hzz) in Hx. inversion Hx. reflexivity.
  Qed.

  Lemma pc_root_fresh : forall T k,
    pc_root_value env (MkPcur T k false None true) = do z <- zero_v env (deref_ty k T); Ok (wrap_ptr k z).
  Proof. reflexivity. Qed.
  Lemma pc_root_leaf : forall T k x,
    pc_root_value env (MkPcur T k false (Some x) true) = Ok (wrap_ptr k x).
  Proof. reflexivity. Qed.
  Lemma pc_unmarshal_null : forall T k,
    pc_unmarshal jdec (MkPcur T k false None true) (Some JNull) = Ok (MkPcur T k false None true).
  Proof. reflexivity. Qed.

  Ltac proj_gis :=
    cbn [to_gis Type_ StructType MapKeyType MapValueType MapKeyPointerNum MapValuePointerNum PointerNum
         NonNilPointerNum JSONValue MapValues SliceValues SliceValueType SliceValuePointerNum IsArray
         ContainerType negb String.eqb].

  Theorem gen_internalUnmarshal_congr : forall (self : option gisT -> res (option val)) i v,
    node_ok i = true ->
    (forall oc ow, In oc (subtrees i) -> dec_opt J JK decm oc = Ok ow -> self (option_map to_gis oc) = Ok ow) ->
    decm i = Ok v ->
    Gen.SerCode.internalUnmarshal J JK jdec kdec reg env self (Some (to_gis i)) = Ok (Some v).
  Proof.
    intros self i v Hok Hself Hdec.
    unfold Gen.SerCode.internalUnmarshal. try unfold Model.SerCodeRef.internalUnmarshal.
    destruct i as [pn nn key|pn key j|pn key fields|pn kpn kname vpn vname entries ct|pn epn ename elems arr ct].
    - (* INull *)
      simpl in Hok. unfold nonempty in Hok. apply negb_true_iff in Hok.
      cbn -[loop_range_while]. rewrite Hok. cbn -[loop_range_while].
      unfold decm in Hdec. cbn [dec] in Hdec. unfold lookup_ty in Hdec.
      destruct (m_lookup reg key) as [t|] eqn:Et; [|discriminate Hdec]. cbn [res_bind] in Hdec.
      pose proof (reg_not_ptr _ _ Et) as Hnp.
      rewrite gen_resolvePointerNum_agrees.
      unfold loop_range_while, pc_new. rewrite based_loop by (auto; lia). simpl Nat.add.
      set (d := Nat.min nn pn) in *.
      assert (Hd : d <= pn) by (subst d; lia).
      rewrite cur_ty_add_ptr by exact Hd. rewrite rt_Kind_add_ptr by exact Hnp.
      destruct (zero (zero_fuel env) env (add_ptr (pn - d) t)) as [z|e|] eqn:Ez; cbn [res_bind] in Hdec; try discriminate Hdec.
      inversion Hdec; subst v; clear Hdec.
      destruct (Nat.eqb (pn - d) 0) eqn:E0; cbn [negb andb].
      + rewrite pc_unmarshal_null, pc_root_fresh, deref_add_ptr by exact Hd.
        unfold zero_v. rewrite Ez. reflexivity.
      + rewrite pc_root_fresh, deref_add_ptr by exact Hd.
        unfold zero_v. rewrite Ez. reflexivity.
    - (* IBasic *)
      simpl in Hok. unfold nonempty in Hok. apply negb_true_iff in Hok.
      cbn -[loop_range_while]. rewrite Hok. cbn -[loop_range_while].
      unfold decm in Hdec. cbn [dec] in Hdec. unfold lookup_ty in Hdec.
      destruct (m_lookup reg key) as [t|] eqn:Et; [|discriminate Hdec]. cbn [res_bind] in Hdec.
      pose proof (reg_not_ptr _ _ Et) as Hnp.
      rewrite gen_resolvePointerNum_agrees.
      unfold loop_range_while, pc_new. cbn [seq loop_while_list].
      rewrite cur_ty_add_ptr by lia. rewrite Nat.sub_0_r. rewrite andb_false_r.
      unfold pc_unmarshal. cbn [pc_ok pc_alloc pc_leaf negb orb opt_some].
      rewrite cur_ty_add_ptr by lia. rewrite Nat.sub_0_r. rewrite strip_add_not_ptr by exact Hnp. cbn [fst snd].
      destruct t; try discriminate Hdec.
      + destruct (jdec b j) as [l|e|]; cbn [res_bind] in Hdec |- *; try discriminate Hdec.
        inversion Hdec; subst v. rewrite pc_root_leaf. reflexivity.
      + destruct (jdec b j) as [l|e|]; cbn [res_bind] in Hdec |- *; try discriminate Hdec.
        inversion Hdec; subst v. rewrite pc_root_leaf. reflexivity.
    - (* IStruct *)
      simpl in Hok. apply andb_true_iff in Hok. destruct Hok as [Hok Hst]. apply andb_true_iff in Hok. destruct Hok as [Hk Hnd].
      unfold nonempty in Hk. apply negb_true_iff in Hk.
      proj_gis. rewrite Hk. proj_gis.
      unfold decm in Hdec. cbn [dec] in Hdec. unfold lookup_ty in Hdec. fold decm in Hdec.
      destruct (m_lookup reg key) as [t|] eqn:Et; [|discriminate Hdec]. cbn [res_bind] in Hdec.
      destruct t; try discriminate Hst.
      destruct (struct_fields env n) as [ds|] eqn:Hds; [|discriminate Hdec].
      match type of Hdec with (do decoded <- ?M; _) = _ => destruct M as [decoded|e|] eqn:Hm end; cbn [res_bind] in Hdec; try discriminate Hdec.
      destruct (forallb (fun fo : string * option val => has_name (fst fo) ds) decoded) eqn:Hnames; [|discriminate Hdec].
      destruct (build_fields env ds decoded) as [fs|e|] eqn:Hb; cbn [res_bind] in Hdec; try discriminate Hdec.
      inversion Hdec; subst v; clear Hdec.
      rewrite gen_resolvePointerNum_agrees.
      destruct (reg_zero_ok _ _ Et) as [z0 Hz0].
      assert (Hzs : exists zs, z0 = VStruct n zs).
      { unfold zero_v, zero_fuel in Hz0. rewrite zero_struct_eq, Hds in Hz0.
        destruct (res_mapM _ ds) as [zs|e|]; simpl in Hz0; try discriminate Hz0. inversion Hz0. eauto. }
      destruct Hzs as [zs ->].
      assert (Hcv : cvft env (add_ptr pn (TStruct n)) = Ok (VStruct n zs) /\ cvft_result (add_ptr pn (TStruct n)) = wrap_ptr pn).
      { unfold cvft, cvft_result. rewrite strip_add_ptr by reflexivity. cbn [fst snd]. rewrite Hz0. split; reflexivity. }
      destruct Hcv as [Hcv Hcr]. rewrite Hcv, Hcr.
      assert (Hfst : map fst decoded = map fst fields).
      { clear - Hm. revert decoded Hm. induction fields as [|[k oc] r IH]; intros decoded Hm; simpl in Hm.
        - inversion Hm. reflexivity.
        - destruct (dec_opt J JK decm oc); simpl in Hm; try discriminate Hm.
          match type of Hm with (do bs <- ?M; _) = _ => destruct M as [d'|e|] eqn:Hr end; simpl in Hm; try discriminate Hm.
          inversion Hm. simpl. now rewrite (IH d' eq_refl). }
      assert (Hndd : NoDup (map fst decoded)) by (rewrite Hfst; now apply names_nodup_NoDup).
      destruct (apply_decoded_build n ds decoded zs fs Hds Hndd Hnames Hz0 Hb) as [Hfin Hall].
      assert (Hcur : map fst zs = map fst ds).
      { unfold zero_v, zero_fuel in Hz0. rewrite zero_struct_eq, Hds in Hz0.
        destruct (res_mapM (fun d => do z <- zero (List.length env) env (snd d); Ok (fst d, z)) ds) as [zs'|e|] eqn:Ez; simpl in Hz0; try discriminate Hz0.
        inversion Hz0; subst zs'. rewrite <- mapM_res_mapM in Ez.
        exact (proj1 (mapM_fields (fun d => zero (List.length env) env (snd d)) ds zs Ez)). }
      rewrite (loop_setfield (option val) self n ds fields decoded zs Hds Hcur Hself Hm Hall).
      rewrite Hfin. reflexivity.
    - (* IMap *)
      simpl in Hok. apply andb_true_iff in Hok. destruct Hok as [Hk Hct]. unfold nonempty in Hk. apply negb_true_iff in Hk.
      proj_gis. rewrite Hk. proj_gis.
      unfold decm in Hdec. cbn [dec] in Hdec. unfold lookup_ty in Hdec. fold decm in Hdec.
      destruct (m_lookup reg kname) as [kt0|] eqn:Ekt; [|discriminate Hdec]. cbn [res_bind] in Hdec.
      destruct (m_lookup reg vname) as [vt0|] eqn:Evt; [|discriminate Hdec]. cbn [res_bind] in Hdec.
      rewrite !gen_resolvePointerNum_agrees, gen_containerType_agrees.
      cbn [ContainerType]. rewrite (ct_str_ok ct Hct).
      set (kt := add_ptr kpn kt0) in *. set (vt := add_ptr vpn vt0) in *.
      destruct (container_ty reg ct (TMap kt vt)) as [c|e|] eqn:Ec; cbn [res_bind] in Hdec; try discriminate Hdec.
      match type of Hdec with (do kvs <- ?M; _) = _ => destruct M as [kvs|e|] eqn:Hm end; cbn [res_bind] in Hdec; try discriminate Hdec.
      inversion Hdec; subst v; clear Hdec.
      pose proof (container_ty_shape _ _ _ Ec) as Hc.
      rewrite gen_resolvePointerNum_agrees.
      assert (Hcv : cvft env (add_ptr pn c) = Ok (dwrap c (VMap kt vt (Some []))) /\ cvft_result (add_ptr pn c) = wrap_ptr pn).
      { unfold cvft, cvft_result. destruct Hc as [->|[d ->]]; rewrite strip_add_ptr by reflexivity; split; reflexivity. }
      destruct Hcv as [Hcv Hcr]. rewrite Hcv, Hcr.
      rewrite (loop_setmap _ self kt vt c entries kvs [] Hc Hself Hm). reflexivity.
    - (* ISlice *)
      simpl in Hok.
      proj_gis.
      unfold decm in Hdec. cbn [dec] in Hdec. unfold lookup_ty in Hdec. fold decm in Hdec.
      destruct (m_lookup reg ename) as [et0|] eqn:Eet; [|discriminate Hdec]. cbn [res_bind] in Hdec.
      rewrite !gen_resolvePointerNum_agrees.
      set (et := add_ptr epn et0) in *.
      destruct arr.
      + (* array *)
        rewrite gen_containerType_agrees. cbn [ContainerType to_gis SliceValues]. rewrite (ct_str_ok ct Hok).
        rewrite map_length.
        destruct (container_ty reg ct (TArray (List.length elems) et)) as [c|e|] eqn:Ec; cbn [res_bind] in Hdec; try discriminate Hdec.
        destruct (mapM (hole J JK env decm et) elems) as [es|e|] eqn:Hm; cbn [res_bind] in Hdec; try discriminate Hdec.
        inversion Hdec; subst v; clear Hdec.
        pose proof (container_ty_shape _ _ _ Ec) as Hc.
        rewrite gen_resolvePointerNum_agrees.
        destruct (zero_elem_ok _ _ epn Eet) as [z Hz]. fold et in Hz.
        assert (Hcv : cvft env (add_ptr pn c) = Ok (dwrap c (VArray et (repeat z (List.length elems)))) /\ cvft_result (add_ptr pn c) = wrap_ptr pn).
        { unfold cvft, cvft_result, zero_v in *. destruct Hc as [->|[d ->]]; rewrite strip_add_ptr by reflexivity; cbn [fst snd];
            rewrite ?zero_def_eq, zero_array_eq, Hz; split; reflexivity. }
        destruct Hcv as [Hcv Hcr]. rewrite Hcv, Hcr. unfold indexed. rewrite map_length.
        assert (Hc' : (exists n, c = TArray n et) \/ exists d n, c = TDef d (TArray n et))
          by (destruct Hc as [->|[d ->]]; [left|right]; eauto).
        pose proof (loop_setindex (option val) self et c z elems es [] Hc' Hz Hself Hm) as HL. simpl in HL.
        rewrite HL. reflexivity.
      + (* slice *)
        rewrite gen_containerType_agrees. cbn [ContainerType to_gis SliceValues]. rewrite (ct_str_ok ct Hok).
        destruct (container_ty reg ct (TSlice et)) as [c|e|] eqn:Ec; cbn [res_bind] in Hdec; try discriminate Hdec.
        destruct (mapM (hole J JK env decm et) elems) as [es|e|] eqn:Hm; cbn [res_bind] in Hdec; try discriminate Hdec.
        inversion Hdec; subst v; clear Hdec.
        pose proof (container_ty_shape _ _ _ Ec) as Hc.
        rewrite gen_resolvePointerNum_agrees.
        assert (Hcv : cvft env (add_ptr pn c) = Ok (dwrap c (VSlice et None)) /\ cvft_result (add_ptr pn c) = wrap_ptr pn).
        { unfold cvft, cvft_result. destruct Hc as [->|[d ->]]; rewrite strip_add_ptr by reflexivity; split; reflexivity. }
        destruct Hcv as [Hcv Hcr]. rewrite Hcv, Hcr.
        rewrite (loop_append (option val) self et c elems es None Hc Hself Hm).
        destruct es; reflexivity.
  Qed.
End AgreeDec.

(* ------------------------------------------------------------------ uniqueness of the solution *)
Section istruct_ind'.
  Variables J JK : Type.
  Variable P : istruct J JK -> Prop.
  Let Q (oc : option (istruct J JK)) : Prop := match oc with Some c => P c | None => True end.
  Hypothesis HNull : forall pn nn key, P (INull pn nn key).
  Hypothesis HBasic : forall pn key j, P (IBasic pn key j).
  Hypothesis HStruct : forall pn key fields, Forall (fun fo => Q (snd fo)) fields -> P (IStruct pn key fields).
  Hypothesis HMap : forall pn kpn kname vpn vname entries ct,
    Forall (fun e => Q (snd e)) entries -> P (IMap pn kpn kname vpn vname entries ct).
  Hypothesis HSlice : forall pn epn ename elems arr ct, Forall Q elems -> P (ISlice pn epn ename elems arr ct).

  Fixpoint istruct_ind' (i : istruct J JK) : P i :=
    match i with
    | INull pn nn key => HNull pn nn key
    | IBasic pn key j => HBasic pn key j
    | IStruct pn key fields =>
        HStruct pn key fields
          ((fix go (l : list (string * option (istruct J JK))) : Forall (fun fo => Q (snd fo)) l :=
              match l with
              | [] => Forall_nil _
              | fo :: r => Forall_cons fo (match snd fo as o return Q o with Some c => istruct_ind' c | None => I end) (go r)
              end) fields)
    | IMap pn kpn kname vpn vname entries ct =>
        HMap pn kpn kname vpn vname entries ct
          ((fix go (l : list (kjson JK * option (istruct J JK))) : Forall (fun e => Q (snd e)) l :=
              match l with
              | [] => Forall_nil _
              | e :: r => Forall_cons e (match snd e as o return Q o with Some c => istruct_ind' c | None => I end) (go r)
              end) entries)
    | ISlice pn epn ename elems arr ct =>
        HSlice pn epn ename elems arr ct
          ((fix go (l : list (option (istruct J JK))) : Forall Q l :=
              match l with
              | [] => Forall_nil _
              | o :: r => Forall_cons o (match o as o' return Q o' with Some c => istruct_ind' c | None => I end) (go r)
              end) elems)
    end.
End istruct_ind'.

Lemma forallb_map' : forall {A B} (g : A -> B) (p : B -> bool) l, forallb p (map g l) = forallb (fun a => p (g a)) l.
Proof. intros A B g p l; induction l as [|a r IH]; simpl; [reflexivity|now rewrite IH]. Qed.

Section UniqueDec.
  Variables J JK : Type.
  Variable jdec : base -> J -> res lit.
  Variable kdec : base -> JK -> res lit.
  Variable reg : registry.
  Variable env : senv.
  Hypothesis reg_not_ptr : forall k t, m_lookup reg k = Some t -> kind_eqb (rt_Kind t) KPtr = false.
  Hypothesis reg_zero_ok : forall k t, m_lookup reg k = Some t -> exists z, zero_v env t = Ok z.
  Hypothesis field_names_unique : forall n ds, struct_fields env n = Some ds -> NoDup (map fst ds).

  (* every node of the tree is one the Go record can tell apart ([node_ok]) *)
  Fixpoint tree_ok (i : istruct J JK) : bool :=
    node_ok J JK reg i &&
    match i with
    | IStruct _ _ fields => forallb (fun fo => match snd fo with Some c => tree_ok c | None => true end) fields
    | IMap _ _ _ _ _ entries _ => forallb (fun e => match snd e with Some c => tree_ok c | None => true end) entries
    | ISlice _ _ _ elems _ _ => forallb (fun o => match o with Some c => tree_ok c | None => true end) elems
    | _ => true
    end.

  (* whatever function satisfies the equation the Go source of internalUnmarshal states restores, from
     the Go record of a tree, the value the model's decoder restores from the tree *)
  Theorem gen_internalUnmarshal_unique : forall f : option (gis J JK) -> res (option val),
    (forall og, f og = Gen.SerCode.internalUnmarshal J JK jdec kdec reg env f og) ->
    forall i v, tree_ok i = true -> dec J JK jdec kdec fixed reg env i = Ok v -> f (Some (to_gis i)) = Ok (Some v).
  Proof.
    intros f Hf.
    assert (HfN : f None = Ok None).
    { rewrite Hf. unfold Gen.SerCode.internalUnmarshal. try unfold Model.SerCodeRef.internalUnmarshal. reflexivity. }
    assert (Hsub : forall l : list (option (istruct J JK)),
              Forall (fun oc => match oc with
                                | Some c => forall v, tree_ok c = true -> dec J JK jdec kdec fixed reg env c = Ok v -> f (Some (to_gis c)) = Ok (Some v)
                                | None => True end) l ->
              forallb (fun o => match o with Some c => tree_ok c | None => true end) l = true ->
              forall oc ow, In oc l -> dec_opt J JK (dec J JK jdec kdec fixed reg env) oc = Ok ow -> f (option_map to_gis oc) = Ok ow).
    { intros l HF Hall oc ow Hin Hd. rewrite Forall_forall in HF. rewrite forallb_forall in Hall.
      specialize (HF oc Hin). specialize (Hall oc Hin). destruct oc as [c|]; simpl in Hd |- *.
      - destruct (dec J JK jdec kdec fixed reg env c) as [w|e|] eqn:E; simpl in Hd; try discriminate Hd.
        inversion Hd; subst ow. now apply HF.
      - inversion Hd. exact HfN. }
    induction i using istruct_ind'; intros v Hok Hd; rewrite Hf;
      simpl in Hok; apply andb_true_iff in Hok; destruct Hok as [Hnode Hch];
      apply (gen_internalUnmarshal_congr J JK jdec kdec reg env reg_not_ptr reg_zero_ok field_names_unique f); auto.
    - intros oc ow Hin. destruct Hin.
    - intros oc ow Hin. destruct Hin.
    - cbn [subtrees]. apply Hsub.
      + rewrite Forall_map. exact H.
      + rewrite forallb_map'. exact Hch.
    - cbn [subtrees]. apply Hsub.
      + rewrite Forall_map. exact H.
      + rewrite forallb_map'. exact Hch.
    - cbn [subtrees]. apply Hsub; assumption.
  Qed.
End UniqueDec.

(* ------------------------------------------------------------------ what the encoder writes is a tree
   the Go record can tell apart *)
Section EncTreeOk.
  Variables J JK : Type.
  Variable jenc : base -> lit -> res J.
  Variable kenc : base -> lit -> res JK.
  Variable reg : registry.
  Variable env : senv.
  Hypothesis reg_names : names_nonempty reg = true.
  Hypothesis reg_unique : NoDup (map fst reg).
  Hypothesis field_names_unique : forall n ds, struct_fields env n = Some ds -> NoDup (map fst ds).

  Lemma rm_then_m : forall t k, rm_lookup reg t = Some k -> m_lookup reg k = Some t.
  Proof.
    revert reg_unique. generalize reg as r. induction r as [|[k' t'] r IH]; intros Hn t k H; simpl in *; [discriminate H|].
    inversion Hn as [|? ? Hni Hn']; subst.
    destruct (ty_eqb t t') eqn:E.
    - inversion H; subst k'. apply ty_eqb_eq in E. subst t'. now rewrite String.eqb_refl.
    - destruct (String.eqb k k') eqn:Ek.
      + apply String.eqb_eq in Ek. subst k'. exfalso. apply Hni.
        clear - H. induction r as [|[k2 t2] r IH]; simpl in *; [discriminate H|].
        destruct (ty_eqb t t2); [inversion H; now left | right; auto].
      + now apply IH.
  Qed.
  Lemma rm_nonempty : forall t k, rm_lookup reg t = Some k -> nonempty k = true.
  Proof. intros t k H. unfold nonempty. now rewrite (rm_lookup_nonempty reg reg_names t k H). Qed.
  Lemma NoDup_names_nodup : forall l, NoDup l -> names_nodup l = true.
  Proof.
    induction l as [|a r IH]; intro H; [reflexivity|]. inversion H as [|? ? Hni Hn]; subst. simpl.
    rewrite (IH Hn), andb_true_r. apply negb_true_iff. destruct (existsb (String.eqb a) r) eqn:E; [|reflexivity].
    apply existsb_exists in E. destruct E as [b [Hb Eb]]. apply String.eqb_eq in Eb. subst b. contradiction.
  Qed.

  Notation tok := (tree_ok J JK reg).
  Definition otok (o : option (istruct J JK)) : bool := match o with Some c => tok c | None => true end.

  Lemma tok_set_ct : forall ct i, ct_ok ct = true -> tok i = true -> tok (set_cti J JK ct i) = true.
  Proof.
    intros ct [] Hct H; simpl in *; try exact H.
    - apply andb_true_iff in H. destruct H as [H1 H2]. apply andb_true_iff in H1. destruct H1 as [H1 _].
      now rewrite H1, Hct, H2.
    - apply andb_true_iff in H. destruct H as [_ H2]. now rewrite Hct, H2.
  Qed.

  Lemma mapM_otok : forall (A : Type) (f : A -> res (option (istruct J JK))) l r,
    Forall (fun a => forall o, f a = Ok o -> otok o = true) l -> mapM f l = Ok r -> forallb otok r = true.
  Proof.
    intros A f l; induction l as [|a l IH]; intros r HF Hm; simpl in Hm.
    - inversion Hm. reflexivity.
    - inversion HF as [|? ? Ha HF']; subst.
      destruct (f a) as [o|e|] eqn:E; simpl in Hm; try discriminate Hm.
      destruct (mapM f l) as [r'|e|] eqn:E2; simpl in Hm; try discriminate Hm.
      inversion Hm. simpl. now rewrite (Ha o eq_refl), (IH r' HF' eq_refl).
  Qed.

  Lemma elem_key_nonempty : forall t kk, elem_key reg t = Ok kk -> nonempty (snd kk) = true.
  Proof.
    intros t kk H. unfold elem_key, lookup_name in H.
    destruct (rm_lookup reg (snd (strip_ptr t))) as [k|] eqn:E; simpl in H; [|discriminate H].
    inversion H. simpl. eapply rm_nonempty; eauto.
  Qed.

  Theorem enc_tree_ok : forall v pn o,
    wt env v = true -> enc_at J JK jenc kenc fixed reg pn v = Ok o -> otok o = true.
  Proof.
    induction v using val_ind'; intros pn o Hwt He; simpl in He.
    - (* VBase *) unfold lookup_name in He. destruct (rm_lookup reg (TBase b)) as [k|] eqn:E; simpl in He; [|discriminate He].
      destruct (jenc b l); simpl in He; try discriminate He. inversion He. simpl. now rewrite (rm_nonempty _ _ E).
    - unfold lookup_name in He. destruct (rm_lookup reg (TNamed n b)) as [k|] eqn:E; simpl in He; [|discriminate He].
      destruct (jenc b l); simpl in He; try discriminate He. inversion He. simpl. now rewrite (rm_nonempty _ _ E).
    - (* VStruct *)
      unfold lookup_name in He. destruct (rm_lookup reg (TStruct n)) as [k|] eqn:E; simpl in He; [|discriminate He].
      match type of He with (do fields <- ?M; _) = _ => destruct M as [fields|e|] eqn:Hm end; simpl in He; try discriminate He.
      inversion He; subst o; clear He. simpl. rewrite (rm_nonempty _ _ E), (rm_then_m _ _ E). simpl.
      rewrite wt_struct in Hwt. destruct (struct_fields env n) as [ds|] eqn:Hds; [|discriminate Hwt].
      assert (Hfst : map fst fields = map fst fs /\ forallb (fun fo => otok (snd fo)) fields = true).
      { clear - Hm H Hwt. revert ds fields Hm Hwt. induction fs as [|[g w] r IH]; intros ds fields Hm Hwt; simpl in Hm.
        - inversion Hm. split; reflexivity.
        - inversion H as [|? ? Hw HF]; subst. destruct ds as [|[g' t'] ds]; simpl in Hwt; [discriminate Hwt|].
          apply andb_true_iff in Hwt. destruct Hwt as [Hwt Hr]. apply andb_true_iff in Hwt. destruct Hwt as [Hwt _].
          apply andb_true_iff in Hwt. destruct Hwt as [_ Hww].
          destruct (enc_at J JK jenc kenc fixed reg 0 w) as [i|e|] eqn:Ei; simpl in Hm; try discriminate Hm.
          match type of Hm with (do bs <- ?M; _) = _ => destruct M as [f'|e|] eqn:Er end; simpl in Hm; try discriminate Hm.
          inversion Hm. destruct (IH HF ds f' eq_refl Hr) as [Hq1 Hq2]. simpl. rewrite Hq1, Hq2.
          simpl in Hw. rewrite (Hw 0 i Hww Ei). split; reflexivity. }
      destruct Hfst as [Hfst Hch]. unfold otok in Hch. rewrite Hch, !andb_true_r. rewrite Hfst.
      destruct (fields_wt_names env ds fs Hwt) as [Hlen Hnames].
      assert (Hn : map fst fs = map fst ds).
      { clear - Hwt. revert fs Hwt. induction ds as [|[f t] ds IH]; intros [|[g w] fs] Hwt; simpl in Hwt; try discriminate Hwt; [reflexivity|].
        apply andb_true_iff in Hwt. destruct Hwt as [Hwt H4]. apply andb_true_iff in Hwt. destruct Hwt as [Hwt _].
        apply andb_true_iff in Hwt. destruct Hwt as [Hq _]. apply String.eqb_eq in Hq. subst. simpl. now rewrite (IH fs H4). }
      rewrite Hn. apply NoDup_names_nodup. eapply field_names_unique; eauto.
    - (* VNilPtr *)
      unfold lookup_name in He. destruct (rm_lookup reg (snd (strip_ptr t))) as [k|] eqn:E; simpl in He; [|discriminate He].
      inversion He. simpl. now rewrite (rm_nonempty _ _ E).
    - (* VPtr *) simpl in Hwt. apply andb_true_iff in Hwt. destruct Hwt as [_ Hwt]. eapply IHv; eauto.
    - (* VSlice nil *)
      destruct (elem_key reg t) as [ek|e|] eqn:Ek; simpl in He; try discriminate He. inversion He. reflexivity.
    - (* VSlice *)
      destruct (elem_key reg t) as [ek|e|] eqn:Ek; simpl in He; try discriminate He.
      destruct (mapM (enc_at J JK jenc kenc fixed reg 0) es) as [elems|e|] eqn:Hm; simpl in He; try discriminate He.
      inversion He. simpl. rewrite wt_slice in Hwt. apply andb_true_iff in Hwt. destruct Hwt as [_ Hwt].
      eapply mapM_otok; [|exact Hm]. rewrite Forall_forall in H |- *. intros e Hin o' Ho.
      eapply H; eauto. eapply elems_wt_In; eauto.
    - (* VMap nil *)
      destruct (elem_key reg k) as [kk|e|] eqn:Ek; simpl in He; try discriminate He.
      destruct (elem_key reg t) as [vk|e|] eqn:Ev; simpl in He; try discriminate He.
      inversion He. simpl. now rewrite (elem_key_nonempty _ _ Ek).
    - (* VMap *)
      destruct (elem_key reg k) as [kk|e|] eqn:Ek; simpl in He; try discriminate He.
      destruct (elem_key reg t) as [vk|e|] eqn:Ev; simpl in He; try discriminate He.
      match type of He with (do entries <- ?M; _) = _ => destruct M as [entries|e|] eqn:Hm end; simpl in He; try discriminate He.
      inversion He. simpl. rewrite (elem_key_nonempty _ _ Ek). simpl.
      rewrite wt_map in Hwt. apply andb_true_iff in Hwt. destruct Hwt as [_ Hwt]. apply andb_true_iff in Hwt. destruct Hwt as [Hwt _].
      clear - H Hwt Hm. revert entries Hm. induction kvs as [|[a b] r IH]; intros entries Hm; simpl in Hm.
      + inversion Hm. reflexivity.
      + inversion H as [|? ? [_ Hb] HF]; subst. simpl in Hwt.
        apply andb_true_iff in Hwt. destruct Hwt as [Hwt Hr]. apply andb_true_iff in Hwt. destruct Hwt as [Hwt _].
        apply andb_true_iff in Hwt. destruct Hwt as [_ Hwb].
        destruct (enc_at J JK jenc kenc fixed reg 0 b) as [i|e|] eqn:Ei; simpl in Hm; try discriminate Hm.
        destruct (enc_key JK kenc a); simpl in Hm; try discriminate Hm.
        match type of Hm with (do bs <- ?M; _) = _ => destruct M as [e'|e|] eqn:Er end; simpl in Hm; try discriminate Hm.
        inversion Hm. simpl. simpl in Hb. pose proof (Hb 0 i Hwb Ei) as Hoi. unfold otok in Hoi. rewrite Hoi. simpl. now apply IH.
    - (* VIface nil *) destruct pn; [inversion He; reflexivity | discriminate He].
    - (* VIface *) destruct pn; [|discriminate He]. simpl in Hwt. apply andb_true_iff in Hwt. destruct Hwt as [_ Hwt].
      apply andb_true_iff in Hwt. destruct Hwt as [_ Hwt]. eapply IHv; eauto.
    - (* VArray *)
      destruct (elem_key reg t) as [ek|e|] eqn:Ek; simpl in He; try discriminate He.
      destruct (mapM (enc_at J JK jenc kenc fixed reg 0) es) as [elems|e|] eqn:Hm; simpl in He; try discriminate He.
      inversion He. simpl. rewrite wt_array in Hwt. apply andb_true_iff in Hwt. destruct Hwt as [_ Hwt].
      eapply mapM_otok; [|exact Hm]. rewrite Forall_forall in H |- *. intros e Hin o' Ho.
      eapply H; eauto. eapply elems_wt_In; eauto.
    - (* VDef *)
      simpl in Hwt. apply andb_true_iff in Hwt. destruct Hwt as [_ Hwt].
      match type of He with (if ?c then _ else _) = _ => destruct c; [discriminate He|] end.
      destruct (enc_at J JK jenc kenc fixed reg pn v) as [oi|e|] eqn:Ei; simpl in He; try discriminate He.
      inversion He. pose proof (IHv pn oi Hwt Ei) as Hoi.
      destruct oi as [i|]; simpl; [|reflexivity]. apply tok_set_ct; [|exact Hoi].
      destruct (rm_lookup reg (TDef d (ty_of v))) eqn:E; simpl; [eapply rm_nonempty; eauto|reflexivity].
  Qed.
End EncTreeOk.

(* ------------------------------------------------------------------ the property's first clause for the
   two translated functions together: whatever functions the Go sources of internalMarshal and
   internalUnmarshal define (any solutions of the two translated equations), decoding what the encoder
   wrote for a supported value restores an equivalent value of the identical dynamic type *)
Theorem translated_codec_roundtrips :
  forall (J JK : Type) (jenc : base -> lit -> res J) (jdec : base -> J -> res lit)
         (kenc : base -> lit -> res JK) (kdec : base -> JK -> res lit) (reg : registry) (env : senv)
         (json_roundtrip : forall b l j,
             lit_in_base b l = true -> jsafe l = true -> jenc b l = Ok j -> jdec b j = Ok l)
         (key_roundtrip : forall b l j,
             lit_in_base b l = true -> jsafe l = true -> kenc b l = Ok j -> kdec b j = Ok l)
         (registry_names_unique : NoDup (map fst reg))
         (registry_names_nonempty : names_nonempty reg = true)
         (registered_not_pointers : forall k t, m_lookup reg k = Some t -> kind_eqb (rt_Kind t) KPtr = false)
         (registered_have_zero : forall k t, m_lookup reg k = Some t -> exists z, zero_v env t = Ok z)
         (field_names_unique : forall n ds, struct_fields env n = Some ds -> NoDup (map fst ds))
         (fe : val -> res (option (gis J JK))) (fd : option (gis J JK) -> res (option val)),
    (forall v, wt env v = true -> fe v = Gen.SerCode.internalMarshal J JK jenc kenc reg env fe v) ->
    (forall og, fd og = Gen.SerCode.internalUnmarshal J JK jdec kdec reg env fd og) ->
    forall v og,
      wt env v = true -> is_iface (ty_of v) = false -> Proofs.Ser.safe v -> Proofs.Ser.defs_ok reg v ->
      fe v = Ok og ->
      exists v', fd og = Ok (Some v') /\ v' ≅ v /\ dyn_ty v' = dyn_ty v.
Proof.
  intros J JK jenc jdec kenc kdec reg env jrt krt Hnd Hne Hnp Hz Hfn fe fd Hfe Hfd v og Hwt Hi Hs Hd Hfv.
  rewrite (gen_internalMarshal_unique J JK jenc kenc reg env Hne fe Hfe v Hwt) in Hfv.
  unfold to_gis_res in Hfv.
  destruct (enc_at J JK jenc kenc fixed reg 0 v) as [oi|e|] eqn:E; simpl in Hfv; try discriminate Hfv.
  inversion Hfv; subst og; clear Hfv.
  destruct (Proofs.Ser.enc_dec_roundtrip_lemma J JK jenc jdec kenc kdec reg env jrt krt Hnd Hfn v oi Hwt Hi Hs Hd E)
    as [v' [Hun [Heq Hdy]]].
  exists v'. split; [|auto].
  pose proof (enc_tree_ok J JK jenc kenc reg env Hne Hnd Hfn v 0 oi Hwt E) as Hok.
  destruct oi as [i|]; [|discriminate Hun]. simpl in Hun, Hok |- *.
  exact (gen_internalUnmarshal_unique J JK jdec kdec reg env Hnp Hz Hfn fd Hfd i v' Hok Hun).
Qed.

(* non-vacuity: the registry of a process that uses compose satisfies the registry hypotheses *)
From Eino Require Import Model.SerCheckpoint.
Example registry_hypotheses_nonvacuous :
  forallb (fun e => negb (kind_eqb (rt_Kind (snd e)) KPtr) && is_ok (zero_v (ckpt_senv []) (snd e))) (ckpt_reg []) = true
  /\ names_nonempty (ckpt_reg []) = true
  /\ tree_ok lit lit (ckpt_reg []) (match enc_c fixed (ckpt_reg []) sample_checkpoint with Ok (Some i) => i | _ => INull 0 0 EmptyString end) = true.
Proof. repeat split; vm_compute; reflexivity. Qed.

(* non-vacuity: the two translated functions run (recursion closed with fuel) and restore the sample
   checkpoint exactly as the model does *)
Fixpoint gen_unmarshal_fuel (n : nat) (reg : registry) (env : senv) (og : option (gis lit lit)) : res (option val) :=
  match n with
  | O => Err 90%N
  | S n' => Gen.SerCode.internalUnmarshal lit lit jdec_c kdec_c reg env (gen_unmarshal_fuel n' reg env) og
  end.
Example gen_codec_runs :
  (do og <- gen_marshal_fuel 12 (ckpt_reg []) (ckpt_senv []) sample_checkpoint;
   gen_unmarshal_fuel 12 (ckpt_reg []) (ckpt_senv []) og)
  = res_map Some (do oi <- enc_c fixed (ckpt_reg []) sample_checkpoint; dec_c fixed (ckpt_reg []) (ckpt_senv []) oi)
  /\ is_ok (do og <- gen_marshal_fuel 12 (ckpt_reg []) (ckpt_senv []) sample_checkpoint;
            gen_unmarshal_fuel 12 (ckpt_reg []) (ckpt_senv []) og) = true.
Proof. split; vm_compute; reflexivity. Qed.
