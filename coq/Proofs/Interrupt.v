(* Proofs/Interrupt.v — the generic run-loop theorems instantiated for the model the
   correspondence check evaluates (Model/Interrupt.v: channel layer of Model/Graph.v, Pregel and DAG;
   node bodies [node_exec]; [seg_fresh] / [seg_resumed] are the run segments [run_drive] drives)
   (owner: C05/C06). *)
From Eino Require Import Base.Util Model.Graph Model.RunLoop Model.Interrupt
     Proofs.RunLoop Proofs.RunLoopEager Proofs.InterruptChan.
Open Scope N_scope.

Section Inst.
  Variable ex : N -> option ncp -> value -> env -> tex * env.   (* any node bodies, e.g. [node_exec d F g] *)
  Variable gi : N.
  Variable g : gspec.
  Let gr := gs_graph g.

  Notation startM bf af := (start VNil (ifold gr) (igetr gr) (pre_fn g) ex bf af).
  Notation resumeM bf af := (resume VNil (ifold gr) (igetr gr) (pre_fn g) ex bf af).

  (* the run segments of a graph in batch mode are [start] / [resume] of the generic loop *)
  Lemma seg_fresh_batch : forall cs0 x e,
    g_eager gr = false -> init_chans value gr = Ok cs0 ->
    seg_fresh ex gi g x e = startM (gs_before g) (gs_after g) (seg_fuel gr) cs0 (gs0 g) x e.
  Proof.
    intros cs0 x e He Hi. unfold seg_fresh, start, start_gen, init. fold gr. rewrite Hi.
    destruct (init_gen (ifold gr) (igetr gr) (gs_before g) false cs0 (gs0 g) x); try reflexivity.
    unfold enter. fold gr. rewrite He. reflexivity.
  Qed.

  Lemma seg_resumed_batch : forall sm c e,
    g_eager gr = false ->
    seg_resumed ex gi g sm c e = resumeM (gs_before g) (gs_after g) (seg_fuel gr) sm c e.
  Proof.
    intros sm c e He. unfold seg_resumed, resume, enter. fold gr. rewrite He. reflexivity.
  Qed.

  Lemma seg_fresh_eager : forall cs0 x e,
    g_eager gr = true -> init_chans value gr = Ok cs0 ->
    seg_fresh ex gi g x e =
    match init (ifold gr) (igetr gr) (gs_before g) cs0 (gs0 g) x with
    | Continue s =>
        let '(sched, e1) := match ls_next s with [] => ([], e) | _ => pop_sched gi e end in
        eiterate VNil (ifold gr) (igetr gr) (pre_fn g) ex (gs_before g) (gs_after g) false (seg_fuel gr)
                 (to_estate s) sched e1 []
    | r => (out_of r, [], e)
    end.
  Proof.
    intros cs0 x e He Hi. unfold seg_fresh. fold gr. rewrite Hi.
    destruct (init (ifold gr) (igetr gr) (gs_before g) cs0 (gs0 g) x); try reflexivity.
    unfold enter. fold gr. rewrite He. reflexivity.
  Qed.

  (* ---------------- C05 ---------------- *)
  (* resume_equiv for the model: top-level interrupt points of a Graph (any-predecessor = Pregel
     channels, all-predecessor = DAG channels) are transparent, for any node bodies *)
  Lemma resume_equiv_model_l : forall x e n fuelU cs0 oU logU eU,
    g_eager gr = false ->
    (g_mode gr = Dag -> cpreds gr kEND <> [] \/ dpreds gr kEND <> []) ->
    init_chans value gr = Ok cs0 ->
    startM [] [] fuelU cs0 (gs0 g) x e = (oU, logU, eU) -> final oU ->
    (fuelU <= seg_fuel gr)%nat -> (fuelU <= n)%nat ->
    exists cos lastlog,
      drive (fun c : cpt => c) (fun c => Some c) (seg_fresh ex gi g x) (seg_resumed ex gi g)
            (fun _ e => e) true n 0 (fun _ s => s) None e =
        (cos ++ [{| co_out := oU; co_log := lastlog; co_written := false |}], eU) /\
      Forall interrupted_call cos /\
      List.concat (map co_log cos) ++ lastlog = logU.
  Proof.
    intros x e n fuelU cs0 oU logU eU He Hend Hi HU Hfin Hle Hn.
    rewrite (drive_ext (fun c : cpt => c) (fun c => Some c) (seg_fresh ex gi g x)
               (startM (gs_before g) (gs_after g) (seg_fuel gr) cs0 (gs0 g) x)
               (seg_resumed ex gi g) (resumeM (gs_before g) (gs_after g) (seg_fuel gr))).
    - eapply (resume_equiv_l VNil (ifold gr) (igetr gr) (pre_fn g) ex (gs_before g) (gs_after g) (chan_inv gr)); eauto.
      + intros; eapply ifold_inv; eauto.
      + intros; eapply igetr_inv; eauto.
      + intros; apply ifold_nil.
      + intros; eapply igetr_idem; eauto.
      + eapply init_chans_inv; eauto.
    - intros; apply seg_fresh_batch; auto.
    - intros; apply seg_resumed_batch; auto.
  Qed.

  (* ---------------- C06 ---------------- *)
  Notation ekey := (@ev_key value).

  (* a fresh segment of the model (batch or eager, any observed schedule) never executes an
     interrupt-before node *)
  Lemma seg_fresh_no_before : forall x e o log e',
    seg_fresh ex gi g x e = (o, log, e') ->
    forall ev, In ev log -> memN (ekey ev) (gs_before g) = false.
  Proof.
    intros x e o log e' H ev Hin.
    unfold seg_fresh in H. fold gr in H.
    destruct (init_chans value gr) as [cs0| |] eqn:Hi; try (inversion H; subst; destruct Hin).
    destruct (g_eager gr) eqn:He.
    - destruct (init (ifold gr) (igetr gr) (gs_before g) cs0 (gs0 g) x) as [s|v|i c|err] eqn:Hinit;
        try (simpl in H; inversion H; subst; destruct Hin).
      unfold enter in H. fold gr in H. rewrite He in H.
      destruct (match ls_next s with [] => ([], e) | _ :: _ => pop_sched gi e end) as [sched e1].
      eapply (estart_no_before VNil (ifold gr) (igetr gr) (pre_fn g) ex (gs_before g) (gs_after g)
                (seg_fuel gr) cs0 (gs0 g) x sched e1 o log e'); eauto.
      unfold estart. rewrite Hinit. exact H.
    - eapply (start_no_before VNil (ifold gr) (igetr gr) (pre_fn g) ex (gs_before g) (gs_after g)); eauto.
      rewrite <- (seg_fresh_batch cs0 x e He Hi). unfold seg_fresh. fold gr. rewrite Hi. exact H.
  Qed.

  (* a resumed segment executes an interrupt-before node only if it is a pending input of the checkpoint *)
  Lemma seg_resumed_before_only_pending : forall sm c e o log e',
    seg_resumed ex gi g sm c e = (o, log, e') ->
    forall ev, In ev log -> memN (ekey ev) (gs_before g) = true -> In (ekey ev) (map fst (cp_inputs c)).
  Proof.
    intros sm c e o log e' H ev Hin Hm.
    destruct (g_eager gr) eqn:He.
    - unfold seg_resumed, enter in H. fold gr in H. rewrite He in H.
      destruct (match ls_next (with_gs (restore c) (sm (ls_gs (restore c)))) with
                | [] => ([], e) | _ :: _ => pop_sched gi e end) as [sched e1].
      eapply (eresume_before_only_pending VNil (ifold gr) (igetr gr) (pre_fn g) ex (gs_before g) (gs_after g)
                (seg_fuel gr) sm c sched e1 o log e'); eauto.
    - rewrite (seg_resumed_batch sm c e He) in H.
      eapply (resume_before_only_pending VNil (ifold gr) (igetr gr) (pre_fn g) ex (gs_before g) (gs_after g)); eauto.
  Qed.
End Inst.
