(* Proofs/C04Grouped.v — property C04: the maps the model builds satisfy the hypothesis [grouped]
   of Proofs/GenAgreeC04Merge.v (the entries of one top-level key are consecutive): every map
   built by [ins_all] from the empty map (what vconcat, v_merge, m_get, v_fmap and the map
   producers of the harness return) is sorted by key, hence grouped; a map put under one key
   ([nest], a single entry) has one top-level key. *)
From Eino Require Import Base.Util Model.Paradigm Model.StreamOps Model.C04GenLib.

(* strictly increasing by tcmp *)
Fixpoint sorted (m : amap) : bool :=
  match m with
  | [] => true
  | (k, _) :: m' => match m' with [] => true | (k', _) :: _ => tltb k k' end && sorted m'
  end.

Lemma kcmp_antisym : forall a b, kcmp b a = CompOpp (kcmp a b).
Proof.
  induction a as [| |k r IH]; destruct b as [| |k' r']; simpl; try reflexivity.
  rewrite (N.compare_antisym k k'). destruct (N.compare k k'); simpl; try reflexivity. apply IH.
Qed.

Lemma tcmp_antisym : forall a b, tcmp b a = CompOpp (tcmp a b).
Proof.
  intros [k r] [k' r']. unfold tcmp. simpl. rewrite (N.compare_antisym k k').
  destruct (N.compare k k'); simpl; try reflexivity. apply kcmp_antisym.
Qed.

Lemma not_lt_not_eq_gt : forall a b, tltb a b = false -> teqb a b = false -> tltb b a = true.
Proof.
  intros a b H1 H2. unfold tltb, teqb in *. rewrite (tcmp_antisym a b).
  destruct (tcmp a b); simpl; congruence.
Qed.

Lemma teqb_eq_head : forall a b, teqb a b = true -> fst a = fst b.
Proof.
  intros [k r] [k' r']. unfold teqb, tcmp. simpl. destruct (N.compare k k') eqn:E; try discriminate.
  intros _. now apply N.compare_eq.
Qed.

Lemma kcmp_trans_lt : forall a b c, kcmp a b = Lt -> kcmp b c = Lt -> kcmp a c = Lt.
Proof.
  induction a as [| |k r IH]; destruct b as [| |k' r']; destruct c as [| |k'' r'']; simpl; try congruence.
  destruct (N.compare k k') eqn:E1; try discriminate; destruct (N.compare k' k'') eqn:E2; try discriminate; intros H1 H2.
  - apply N.compare_eq in E1. apply N.compare_eq in E2. subst. rewrite N.compare_refl. eapply IH; eauto.
  - apply N.compare_eq in E1. subst. now rewrite E2.
  - apply N.compare_eq in E2. subst. now rewrite E1.
  - rewrite N.compare_lt_iff in *. assert (k < k'')%N by lia. apply N.compare_lt_iff in H. now rewrite H.
Qed.

Lemma tltb_trans : forall a b c, tltb a b = true -> tltb b c = true -> tltb a c = true.
Proof.
  intros [k r] [k' r'] [k'' r'']. unfold tltb, tcmp. simpl.
  destruct (N.compare k k') eqn:E1; try discriminate; destruct (N.compare k' k'') eqn:E2; try discriminate; intros H1 H2.
  - apply N.compare_eq in E1. apply N.compare_eq in E2. subst. rewrite N.compare_refl.
    destruct (kcmp r r') eqn:K1; try discriminate. destruct (kcmp r' r'') eqn:K2; try discriminate.
    now rewrite (kcmp_trans_lt _ _ _ K1 K2).
  - apply N.compare_eq in E1. subst. now rewrite E2.
  - apply N.compare_eq in E2. subst. now rewrite E1.
  - rewrite N.compare_lt_iff in *. assert (k < k'')%N by lia. apply N.compare_lt_iff in H. now rewrite H.
Qed.

Definition head_key (m : amap) : option tkey := match m with [] => None | (k, _) :: _ => Some k end.

Lemma ins_head : forall k v m,
  head_key (ins k v m) = Some k \/ (head_key (ins k v m) = head_key m /\ m <> []).
Proof.
  intros k v [|[k' v'] m]; simpl; [now left|].
  destruct (tltb k k'); [now left|]. destruct (teqb k k'); right; split; simpl; congruence.
Qed.

Lemma sorted_cons : forall k v m, sorted ((k, v) :: m) = true ->
  sorted m = true /\ match head_key m with Some k' => tltb k k' = true | None => True end.
Proof.
  intros k v [|[k' v'] m] H; simpl in *; [split; [reflexivity|exact I]|].
  apply andb_true_iff in H. destruct H as [H1 H2]. split; [exact H2|exact H1].
Qed.

Lemma sorted_build : forall k v m, sorted m = true ->
  match head_key m with Some k' => tltb k k' = true | None => True end -> sorted ((k, v) :: m) = true.
Proof.
  intros k v [|[k' v'] m] Hs Hh; simpl in *; [reflexivity|]. now rewrite Hh, Hs.
Qed.

Lemma ins_sorted : forall k v m, sorted m = true -> sorted (ins k v m) = true.
Proof.
  intros k v. induction m as [|[k' v'] m IH]; intro Hs; [reflexivity|].
  cbn [ins]. destruct (tltb k k') eqn:E1.
  - apply sorted_build; [exact Hs|exact E1].
  - destruct (teqb k k') eqn:E2.
    + destruct (sorted_cons _ _ _ Hs) as [Hs' Hh]. apply sorted_build; assumption.
    + destruct (sorted_cons _ _ _ Hs) as [Hs' Hh]. apply sorted_build; [now apply IH|].
      destruct (ins_head k v m) as [H|[H Hne]]; rewrite H.
      * now apply not_lt_not_eq_gt.
      * exact Hh.
Qed.

Lemma ins_all_sorted : forall es m, sorted m = true -> sorted (ins_all es m) = true.
Proof.
  unfold ins_all. induction es as [|e es IH]; intros m Hs; [exact Hs|]. simpl. apply IH. now apply ins_sorted.
Qed.

(* strictly increasing numbers *)
Fixpoint incr (l : list N) : bool :=
  match l with
  | [] => true
  | a :: l' => match l' with [] => true | b :: _ => N.ltb a b end && incr l'
  end.

Lemma incr_all_gt : forall a l, incr (a :: l) = true -> forall x, In x l -> (a < x)%N.
Proof.
  intros a l. revert a. induction l as [|b l IH]; intros a H x Hin; [destruct Hin|].
  cbn [incr] in H. apply andb_true_iff in H. destruct H as [Hab Hl]. apply N.ltb_lt in Hab.
  destruct Hin as [<-|Hin]; [exact Hab|]. specialize (IH b Hl x Hin). lia.
Qed.

Lemma incr_nodup : forall l, incr l = true -> nodup_N l = true.
Proof.
  induction l as [|a l IH]; intro H; [reflexivity|]. cbn [nodup_N].
  assert (Hl : incr l = true).
  { cbn [incr] in H. apply andb_true_iff in H. exact (proj2 H). }
  rewrite (IH Hl), andb_true_r. apply negb_true_iff.
  destruct (existsb (N.eqb a) l) eqn:E; [|reflexivity].
  apply existsb_exists in E. destruct E as [x [Hin Hx]]. apply N.eqb_eq in Hx. subst x.
  pose proof (incr_all_gt a l H a Hin). lia.
Qed.

Lemma range_first : forall e m, exists g r, go_map_range (e :: m) = (fst (fst e), g) :: r.
Proof.
  intros e m. simpl. destruct (go_map_range m) as [|[k g] r].
  - now exists [e], [].
  - destruct (N.eqb (fst (fst e)) k) eqn:E.
    + apply N.eqb_eq in E. rewrite E. now exists (e :: g), r.
    + now exists [e], ((k, g) :: r).
Qed.

Lemma range_cons : forall e m,
  go_map_range (e :: m) =
  match go_map_range m with
  | (k, g) :: r => if N.eqb (fst (fst e)) k then (k, e :: g) :: r else (fst (fst e), [e]) :: (k, g) :: r
  | [] => [(fst (fst e), [e])]
  end.
Proof. reflexivity. Qed.

Lemma sorted_range_incr : forall m, sorted m = true -> incr (map fst (go_map_range m)) = true.
Proof.
  induction m as [|[k v] m IH]; intro Hs; [reflexivity|].
  destruct (sorted_cons _ _ _ Hs) as [Hs' Hh]. specialize (IH Hs').
  destruct m as [|[k' v'] m']; [reflexivity|].
  destruct (range_first (k', v') m') as [g [r Hr]]. cbn [fst] in Hr.
  rewrite range_cons. rewrite Hr in *. cbn [fst].
  destruct (N.eqb (fst k) (fst k')) eqn:E; [cbn [map fst] in *; exact IH|].
  cbn [map fst] in IH. cbn [map fst].
  change (incr (fst k :: fst k' :: map fst r)) with (N.ltb (fst k) (fst k') && incr (fst k' :: map fst r)).
  rewrite IH, andb_true_r.
  simpl in Hh. unfold tltb, tcmp in Hh. destruct (N.compare (fst k) (fst k')) eqn:Ec.
  - apply N.compare_eq in Ec. apply N.eqb_neq in E. congruence.
  - apply N.ltb_lt. now apply N.compare_lt_iff.
  - discriminate.
Qed.

Theorem sorted_grouped : forall m, sorted m = true -> grouped m = true.
Proof. intros m H. unfold grouped. apply incr_nodup. now apply sorted_range_incr. Qed.

Theorem ins_all_grouped : forall es, grouped (ins_all es []) = true.
Proof. intro es. apply sorted_grouped. now apply ins_all_sorted. Qed.

Lemma single_head_grouped : forall k (m : amap), m <> [] ->
  Forall (fun e => fst (fst e) = k) m -> grouped m = true.
Proof.
  intros k m Hne Hf. unfold grouped.
  assert (H : exists g, go_map_range m = [(k, g)]).
  { induction m as [|e m IH]; [congruence|]. inversion Hf as [|? ? He Hf']; subst.
    destruct m as [|e' m'].
    - exists [e]. reflexivity.
    - destruct (IH ltac:(discriminate) Hf') as [g Hg]. rewrite range_cons, Hg.
      rewrite N.eqb_refl. now exists (e :: g). }
  destruct H as [g ->]. reflexivity.
Qed.

Theorem nest_grouped : forall k m, grouped (nest k m) = true.
Proof.
  intros k m. apply (single_head_grouped k); [discriminate|]. unfold nest. constructor; [reflexivity|].
  apply Forall_forall. intros e Hin. apply in_map_iff in Hin. destruct Hin as [e' [<- _]]. reflexivity.
Qed.
