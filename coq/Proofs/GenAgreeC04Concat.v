(* Proofs/GenAgreeC04Concat.v — property C04, translator tie: compose/stream_concat.go
   concatStreamReader, translated statement by statement by tools/go2v (extractor c04concat,
   Gen/C04Concat.v), is the model's [sconcat] (Model/Paradigm.v) that every adapter of
   newRunnablePacker, every Collect view and the C04 theorems use: read to io.EOF, the first
   error item wins, no chunk = error, one chunk = that chunk, else ConcatItems. *)
From Eino Require Import Base.Util Model.Paradigm Model.StreamOps Model.C04GenLib.
From Eino Require Gen.C04Concat.

Lemma res_match_id : forall {A} (r : res A),
  match r with Ok a => Ok a | Err e => Err e | Panic => Panic end = r.
Proof. intros A []; reflexivity. Qed.

Theorem gen_concatStreamReader_agrees : forall (X : Type) (concat : list X -> res X) (s : stream X),
  Gen.C04Concat.concatStreamReader concat s = sconcat concat s.
Proof.
  intros X concat s. unfold Gen.C04Concat.concatStreamReader, sconcat.
  match goal with |- context [res_bind (?L s []) _] => set (loop := L) end.
  assert (H : forall t acc, loop t acc = do xs <- vals_of t; Ok (acc ++ xs)).
  { induction t as [|[x|e] t IH]; intro acc; simpl.
    - now rewrite app_nil_r.
    - rewrite IH. destruct (vals_of t); simpl; try reflexivity. now rewrite <- app_assoc.
    - reflexivity. }
  rewrite H. destruct (vals_of s) as [xs| |]; simpl; try reflexivity.
  destruct xs as [|x [|y l]]; simpl; try reflexivity.
  apply res_match_id.
Qed.

(* non-vacuity: two chunks are handed to the concatenation, an error item in front of them wins *)
Example gen_concat_two :
  Gen.C04Concat.concatStreamReader (fun l => Ok (fold_left N.add l 0%N)) [Val 1%N; Val 2%N] = Ok 3%N
  /\ Gen.C04Concat.concatStreamReader (fun l => Ok (fold_left N.add l 0%N)) [Val 1%N; Bad 7%N; Val 2%N] = Err 7%N
  /\ Gen.C04Concat.concatStreamReader (fun l : list N => Ok 0%N) [] = Err e_empty.
Proof. repeat split; reflexivity. Qed.
