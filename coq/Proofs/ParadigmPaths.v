(* Proofs/ParadigmPaths.v — property C04: field mappings with nested paths
   (Model/ParadigmHandlers.v [path_sprog]) are well-formed harness graphs, so
   [harness_graphs_agree] covers every graph that contains them; a witness. *)
From Eino Require Import Base.Util Model.Paradigm Model.StreamOps Model.ParadigmProg
  Model.ParadigmSpec Model.ParadigmHandlers.

Lemma seq_of_wf : forall l, forallb sprog_wf l = true -> sprog_wf (seq_of l) = true.
Proof.
  induction l as [|s [|s' r] IH]; intro H; [reflexivity| |].
  - simpl in *. now rewrite andb_true_r in H.
  - cbn [seq_of]. cbn [forallb] in H. apply andb_true_iff in H. destruct H as [Hs Hr].
    cbn [sprog_wf]. rewrite Hs. simpl. apply IH. exact Hr.
Qed.

Lemma forallb_app' : forall {A} (f : A -> bool) a b, forallb f (a ++ b) = forallb f a && forallb f b.
Proof. intros A f a b. induction a as [|x a IH]; [reflexivity|]. simpl. now rewrite IH, andb_assoc. Qed.

Lemma forallb_map_true : forall {A B} (f : B -> bool) (g : A -> B) l,
  (forall a, f (g a) = true) -> forallb f (map g l) = true.
Proof. intros A B f g l H. induction l as [|a l IH]; [reflexivity|]. simpl. now rewrite H, IH. Qed.

Lemma path_sprog_wf_lem : forall from to take_map, sprog_wf (path_sprog from to take_map) = true.
Proof.
  intros from to tm. unfold path_sprog. destruct (rev to) as [|y outer]; apply seq_of_wf.
  - rewrite forallb_app'. rewrite forallb_map_true by reflexivity.
    destruct (last (map Some from) None); reflexivity.
  - rewrite forallb_app'. rewrite forallb_map_true by reflexivity. cbn [forallb].
    rewrite forallb_map_true by reflexivity. reflexivity.
Qed.

Lemma paths_prog_in_domain :
  sprog_wf paths_prog = true
  /\ dom_ok (compile_sprog paths_prog) (VS "ab"%string) = true
  /\ g_invoke (compile_sprog paths_prog) (VS "ab"%string)
     = Ok (VS "n3{af/;af.ag=n1<ab;ah/;ah.ai=n2(ab);}"%string)
  /\ vsconcatR (g_transform seq_mrg (compile_sprog paths_prog) (map Val [VS "a"%string; VS "b"%string]))
     = g_invoke (compile_sprog paths_prog) (VS "ab"%string).
Proof. repeat split; vm_compute; reflexivity. Qed.
