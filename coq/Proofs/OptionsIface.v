(* Proofs/OptionsIface.v — property C16: node types that are the Go type of no option value (a lambda
   DECLARED with an interface option type: opts ...any, opts ...fmt.Stringer). Options are matched
   to nodes by identity of reflect.TypeOf(value) with the node's option type, and the dynamic type of
   a value is never an interface type: such a node is "a node of another type" for every option. *)
From Eino Require Import Base.Util Model.Options Model.OptionsSpec Proofs.Options Proofs.OptionsClauses.
Local Open Scope N_scope.

(* no value of option [o] has Go type [ty] *)
Definition no_value_of_type (o : copt) (ty : N) : Prop :=
  forall it, In it (o_items o) -> fst it <> ty.

Lemma no_value_not_matches o ty : no_value_of_type o ty -> ty_matches o ty = false.
Proof.
  unfold no_value_of_type, ty_matches, head_ty. intros H.
  destruct (o_items o) as [|[t x] its]; [reflexivity|].
  apply N.eqb_neq. apply (H (t, x)). left. reflexivity.
Qed.

Lemma other_type_flat (its : list item) p : forall l,
  (forall q, In q l -> path_eqb q p = true -> its = []) ->
  flat_map (fun q => if path_eqb q p then its
                     else if proper_prefixb q p && false then its else []) l = [].
Proof.
  induction l as [|q l IH]; intros H; [reflexivity|]. simpl.
  rewrite IH by (intros q' Hq'; apply H; right; exact Hq').
  rewrite app_nil_r. destruct (path_eqb q p) eqn:E.
  - apply (H q); [left; reflexivity|exact E].
  - rewrite Bool.andb_false_r. reflexivity.
Qed.

(* an option none of whose values has the component's type contributes nothing to it, unless it
   is designated to that very component with values (which is the wrong-type error below) *)
Lemma other_type_not_reached o p ty :
  ty_matches o ty = false ->
  (In p (o_paths o) -> o_items o = []) ->
  addressed_items o p ty = [].
Proof.
  intros Hty Hnin. unfold addressed_items. rewrite Hty.
  destruct (o_paths o) as [|q0 qs] eqn:E; [reflexivity|]. rewrite <- E in *.
  apply other_type_flat. intros q Hq Heq. apply path_eqb_eq in Heq. subst q. auto.
Qed.

Lemma valueless_type_receives_nothing_l opts p ty :
  (forall o, In o opts -> no_value_of_type o ty) ->
  (forall o, In o opts -> In p (o_paths o) -> o_items o = []) ->
  spec_delivered opts p ty = [].
Proof.
  unfold spec_delivered. induction opts as [|o opts IH]; intros Hno Hdes; [reflexivity|].
  simpl. rewrite IH.
  2: { intros o' Ho'. apply Hno. right. exact Ho'. }
  2: { intros o' Ho'. apply Hdes. right. exact Ho'. }
  rewrite app_nil_r. apply other_type_not_reached.
  - apply no_value_not_matches. apply Hno. left. reflexivity.
  - apply Hdes. left. reflexivity.
Qed.

(* designating an option with values to a component none of whose values has its type is a bad
   designation (wrong type), at any depth *)
Lemma other_type_designated_is_bad F o : forall p gi nd ty,
  resolve F gi p = Some nd -> n_kind nd = KComp ty ->
  ty_matches o ty = false -> o_items o <> [] ->
  bad_path F o gi p = true.
Proof.
  induction p as [|k rest IH]; intros gi nd ty Hr Hk Hty Hne; [reflexivity|].
  simpl in Hr |- *. destruct (nth_error F gi) as [g|]; [|reflexivity].
  destruct (find_node k g) as [nd0|]; [|reflexivity].
  destruct rest as [|k2 rest].
  - inversion Hr; subst nd0. rewrite Hk. destruct (o_items o); [congruence|].
    rewrite Hty. reflexivity.
  - destruct (n_kind nd0) as [ty0|gj]; [reflexivity|].
    eapply IH; eassumption.
Qed.

Lemma valueless_type_designation_is_bad_l F o p nd ty :
  no_value_of_type o ty -> o_items o <> [] ->
  resolve F 0 p = Some nd -> n_kind nd = KComp ty ->
  bad_path F o 0 p = true.
Proof.
  intros Hno Hne Hr Hk. eapply other_type_designated_is_bad; try eassumption.
  apply no_value_not_matches. exact Hno.
Qed.
