(* Proofs/PregelRun.v — the run loop of the engine model in any-predecessor (Pregel) mode (C01):
   loop invariant, frontier of every superstep, channels consumed once, END ends the run at once,
   the step bound. About Model/Graph.v: submit, step, iterate, run_flat. *)
From Eino Require Import Base.Util Model.Graph Proofs.PregelBase Proofs.Pregel.
From Coq Require Import Lia Permutation.
Open Scope N_scope.

Section Run.
  Variable V : Type.
  Variable St : Type.
  Variable ops : vops V.
  Variable exec : St -> path -> V -> res V * St.
  Variable sub : nat -> path -> V -> St -> outcome V * St.
  Variable sched : nat -> list key -> nat.

  Notation loopstate := (loopstate V St).
  Notation step := (step V St ops exec sub sched).
  Notation submit := (submit V St ops exec sub).
  Notation run_task := (run_task V St ops exec sub).
  Notation iterate := (iterate V St ops exec sub sched).
  Notation run_flat := (run_flat V St ops exec sub sched).
  Notation sent := (sent V ops).
  Notation calc_next := (calc_next V ops).

  (* any-predecessor mode, batch task manager (Graph / Chain; Workflow is all-predecessor + eager) *)
  Definition pregel_graph (g : graph) : Prop := g_mode g = Pregel /\ g_eager g = false.

  (* a failing sub-graph run reports at least one error *)
  Definition sub_fail_nonempty : Prop :=
    forall i p v s es l s', sub i p v s = (Fail es l, s') -> es <> [].

  (* ================= submit: every task of the frontier runs, once, on its input ================= *)
  Lemma submit_keys : forall p g tasks s rs l s',
    submit p g tasks s = (rs, l, s') -> akeys rs = akeys tasks.
  Proof.
    intros p g tasks. induction tasks as [|[k v] tasks IH]; intros s rs l s' H; simpl in H.
    - inversion H. reflexivity.
    - destruct (find_node g k) as [n|].
      + destruct (run_task p n v s) as [[r l1] s1].
        destruct (submit p g tasks s1) as [[rs2 l2] s2] eqn:E. inversion H; subst.
        simpl. f_equal. eapply IH. exact E.
      + destruct (submit p g tasks s) as [[rs2 l2] s2] eqn:E. inversion H; subst.
        simpl. f_equal. eapply IH. exact E.
  Qed.

  (* each result is the result of running the task's node on the task's input *)
  Lemma submit_results : forall p g tasks s rs l s' k r,
    submit p g tasks s = (rs, l, s') -> In (k, r) rs ->
    exists v, In (k, v) tasks /\
      ((exists n s0 l0 s1, find_node g k = Some n /\ run_task p n v s0 = (r, l0, s1)) \/
       (find_node g k = None /\ r = TErr [mkerr eUnknownNode])).
  Proof.
    intros p g tasks. induction tasks as [|[k0 v0] tasks IH]; intros s rs l s' k r H Hin; simpl in H.
    - inversion H; subst. contradiction.
    - destruct (find_node g k0) as [n|] eqn:Hf.
      + destruct (run_task p n v0 s) as [[r1 l1] s1] eqn:R.
        destruct (submit p g tasks s1) as [[rs2 l2] s2] eqn:E. inversion H; subst.
        destruct Hin as [Heq|Hin].
        * inversion Heq; subst. exists v0. split; [left; reflexivity|]. left. exists n, s, l1, s1. split; assumption.
        * destruct (IH _ _ _ _ _ _ E Hin) as [v [Hv Hr]]. exists v. split; [right; exact Hv|exact Hr].
      + destruct (submit p g tasks s) as [[rs2 l2] s2] eqn:E. inversion H; subst.
        destruct Hin as [Heq|Hin].
        * inversion Heq; subst. exists v0. split; [left; reflexivity|]. right. split; [exact Hf|reflexivity].
        * destruct (IH _ _ _ _ _ _ E Hin) as [v [Hv Hr]]. exists v. split; [right; exact Hv|exact Hr].
  Qed.

  Lemma run_task_err_nonempty : forall p n v s es l s',
    sub_fail_nonempty -> run_task p n v s = (TErr es, l, s') -> es <> [].
  Proof.
    intros p n v s es l s' Hsub H. unfold Graph.run_task in H. destruct (n_kind n) as [| |i].
    - destruct (exec s (p ++ [n_key n]) v) as [[o|c|] s1]; inversion H; subst; discriminate.
    - inversion H.
    - destruct (sub i (p ++ [n_key n]) v s) as [[r l0|es0 l0] s1] eqn:E; inversion H; subst.
      apply Hsub in E. destruct es0; [exfalso; apply E; reflexivity|discriminate].
  Qed.

  Lemma submit_no_errors : forall p g tasks s rs l s',
    sub_fail_nonempty ->
    submit p g tasks s = (rs, l, s') -> task_errors V rs = [] ->
    akeys (task_outputs V rs) = akeys tasks /\ Forall (fun kv => find_node g (fst kv) <> None) tasks.
  Proof.
    intros p g tasks. induction tasks as [|[k v] tasks IH]; intros s rs l s' Hsub H He; simpl in H.
    - inversion H; subst. split; [reflexivity|constructor].
    - destruct (find_node g k) as [n|] eqn:Hf.
      + destruct (run_task p n v s) as [[r l1] s1] eqn:R.
        destruct (submit p g tasks s1) as [[rs2 l2] s2] eqn:E. inversion H; subst.
        unfold task_errors in He. simpl in He. apply app_eq_nil in He. destruct He as [He1 He2].
        destruct (IH _ _ _ _ Hsub E He2) as [Hk Hall].
        destruct r as [o|es].
        * split; [simpl; f_equal; exact Hk|]. constructor; [simpl; rewrite Hf; discriminate|exact Hall].
        * subst es. exfalso. eapply run_task_err_nonempty; [exact Hsub|exact R|reflexivity].
      + destruct (submit p g tasks s) as [[rs2 l2] s2] eqn:E. inversion H; subst.
        unfold task_errors in He. simpl in He. discriminate.
  Qed.

  (* ================= one iteration of the loop, specialised to Pregel / batch ================= *)
  Definition step_log (p : path) (ls : loopstate) (sublog : log V) : log V :=
    ls_log V St ls ++ (match ls_next V St ls with [] => [] | _ => [step_entry V p (ls_next V St ls)] end) ++ sublog.

  Lemma step_pregel_eq : forall p g (ls : loopstate) results sublog s',
    pregel_graph g -> ls_running V St ls = [] ->
    submit p g (ls_next V St ls) (ls_st V St ls) = (results, sublog, s') ->
    step p g ls =
      if Nat.leb (max_steps g) (ls_step V St ls)
      then Finish (Fail [mkerr eMaxSteps] (ls_log V St ls)) (ls_st V St ls)
      else
        match task_errors V results with
        | (_ :: _) as es => Finish (Fail es (step_log p ls sublog)) s'
        | [] =>
          match results with
          | [] => Finish (Fail [mkerr eNoTasks] (step_log p ls sublog)) s'
          | _ =>
            match calc_next g (ls_chans V St ls) (task_outputs V results) with
            | Err e => Finish (Fail [mkerr e] (step_log p ls sublog)) s'
            | Panic => Finish (Fail [mkerr ePanic] (step_log p ls sublog)) s'
            | Ok (cs', ready) =>
              match alookup kEND ready with
              | Some v => Finish (Done v (step_log p ls sublog)) s'
              | None => Continue {| ls_step := S (ls_step V St ls); ls_chans := cs'; ls_next := ready;
                                    ls_running := []; ls_st := s'; ls_log := step_log p ls sublog |}
              end
            end
          end
        end.
  Proof.
    intros p g ls results sublog s' [Hm He] Hr Hs. unfold Graph.step, step_limit_hit. rewrite Hm.
    destruct (Nat.leb (max_steps g) (ls_step V St ls)); [reflexivity|].
    rewrite Hs. unfold wait_tasks. rewrite He, Hr. simpl app. reflexivity.
  Qed.

  (* ================= the loop invariant ================= *)
  Record pregel_inv (ls : loopstate) : Prop := {
    inv_keys    : NoDup (akeys (ls_chans V St ls));
    inv_empty   : chans_empty V (ls_chans V St ls);     (* every channel has been read and cleared *)
    inv_running : ls_running V St ls = [];
    inv_next    : NoDup (akeys (ls_next V St ls));      (* no node twice in a frontier *)
    inv_noend   : ~ In kEND (akeys (ls_next V St ls));  (* END is never executed *)
  }.

  Lemma alookup_none_keys : forall {A} (l : list (key * A)) k, alookup k l = None -> ~ In k (akeys l).
  Proof. intros A l k H. apply alookup_none_notin. exact H. Qed.

  (* what a Continue step does *)
  Lemma step_continue_inv : forall p g (ls ls' : loopstate) results sublog s',
    pregel_graph g -> ls_running V St ls = [] ->
    submit p g (ls_next V St ls) (ls_st V St ls) = (results, sublog, s') ->
    step p g ls = Continue ls' ->
    (ls_step V St ls < max_steps g)%nat /\ task_errors V results = [] /\ results <> [] /\
    exists cs' ready,
      calc_next g (ls_chans V St ls) (task_outputs V results) = Ok (cs', ready) /\
      alookup kEND ready = None /\
      ls' = {| ls_step := S (ls_step V St ls); ls_chans := cs'; ls_next := ready;
               ls_running := []; ls_st := s'; ls_log := step_log p ls sublog |}.
  Proof.
    intros p g ls ls' results sublog s' Hg Hr Hs H.
    rewrite (step_pregel_eq _ _ _ _ _ _ Hg Hr Hs) in H.
    destruct (Nat.leb (max_steps g) (ls_step V St ls)) eqn:Hl; [discriminate|].
    apply Nat.leb_gt in Hl.
    destruct (task_errors V results) as [|e es]; [|discriminate].
    destruct results as [|r0 rs]; [discriminate|].
    destruct (calc_next g (ls_chans V St ls) (task_outputs V (r0 :: rs))) as [[cs' ready]| |] eqn:C; try discriminate.
    destruct (alookup kEND ready) eqn:E; [discriminate|].
    inversion H; subst. split; [exact Hl|]. split; [reflexivity|]. split; [discriminate|].
    exists cs', ready. repeat split; assumption.
  Qed.

  (* ---------- pregel_frontier / pregel_consumed_once, one step ---------- *)
  Theorem pregel_step_frontier : forall p g (ls ls' : loopstate) results sublog s',
    pregel_graph g -> sub_fail_nonempty -> pregel_inv ls ->
    submit p g (ls_next V St ls) (ls_st V St ls) = (results, sublog, s') ->
    step p g ls = Continue ls' ->
    let outs := task_outputs V results in
    pregel_inv ls' /\
    ls_step V St ls' = S (ls_step V St ls) /\
    (* every node of the frontier ran (once: the frontier has no duplicates) and completed *)
    akeys outs = akeys (ls_next V St ls) /\
    ls_log V St ls' = ls_log V St ls ++ [step_entry V p (ls_next V St ls)] ++ sublog /\
    (* the next frontier: exactly the nodes that were sent at least one value *)
    (forall t, In t (akeys (ls_next V St ls')) <-> sent g outs t <> []) /\
    (* each on the merge of exactly the values it was sent *)
    (forall t v, In (t, v) (ls_next V St ls') ->
       exists m, get_merge V ops (collect (sent g outs t)) = Ok m /\ v = pre_node V ops g t m) /\
    outs_legal V ops g outs.
  Proof.
    intros p g ls ls' results sublog s' Hg Hsub Hinv Hs H outs.
    destruct Hinv as [Hk He Hr Hn Hne].
    destruct (step_continue_inv _ _ _ _ _ _ _ Hg Hr Hs H) as [Hlt [Herr [Hres [cs' [ready [Hc [Hend ->]]]]]]].
    destruct Hg as [Hm Heag].
    destruct (calc_next_pregel V ops _ _ _ _ _ Hm He Hc) as [Hk' [He' [Hl [Hrd [Hex Hall]]]]].
    destruct (calc_next_frontier V ops _ _ _ _ _ Hm He Hk Hc) as [Hnd [Hiff Hmerge]].
    destruct (submit_no_errors _ _ _ _ _ _ _ Hsub Hs Herr) as [Hko _].
    split; [|split; [reflexivity|split; [exact Hko|split; [|split; [exact Hiff|split; [exact Hmerge|exact Hl]]]]]].
    - constructor; simpl.
      + rewrite Hk'. exact Hk.
      + exact He'.
      + reflexivity.
      + exact Hnd.
      + apply alookup_none_keys. exact Hend.
    - simpl. unfold step_log. destruct (ls_next V St ls) as [|t0 ts] eqn:En; [|reflexivity].
      simpl in Hs. exfalso. apply Hres. congruence.
  Qed.

  (* a value sent in step k is part of the input of exactly one task, of step k+1; afterwards every channel
     is empty again *)
  Theorem pregel_step_consumed_once : forall p g (ls ls' : loopstate) results sublog s',
    pregel_graph g -> sub_fail_nonempty -> pregel_inv ls ->
    submit p g (ls_next V St ls) (ls_st V St ls) = (results, sublog, s') ->
    step p g ls = Continue ls' ->
    let outs := task_outputs V results in
    chans_empty V (ls_chans V St ls') /\
    forall t s v, In (s, v) (sent g outs t) ->
      (exists x, In (t, x) (ls_next V St ls') /\ forall y, In (t, y) (ls_next V St ls') -> y = x) /\
      alookup s (collect (sent g outs t)) = Some v.
  Proof.
    intros p g ls ls' results sublog s' Hg Hsub Hinv Hs H outs.
    destruct (pregel_step_frontier _ _ _ _ _ _ _ Hg Hsub Hinv Hs H) as [Hinv' [_ [Hko [_ [Hiff [Hmerge _]]]]]].
    fold outs in Hko, Hiff, Hmerge.
    split; [apply (inv_empty _ Hinv')|].
    intros t s v Hin. split.
    - assert (Ht : In t (akeys (ls_next V St ls'))).
      { apply Hiff. intros Hnil. rewrite Hnil in Hin. contradiction. }
      unfold akeys in Ht. apply in_map_iff in Ht. destruct Ht as [[t' x] [Heq Hx]]. simpl in Heq. subst t'.
      exists x. split; [exact Hx|]. intros y Hy.
      pose proof (inv_next _ Hinv') as Hnd.
      apply in_alookup_nodup in Hx; [|exact Hnd]. apply in_alookup_nodup in Hy; [|exact Hnd].
      rewrite Hx in Hy. inversion Hy. reflexivity.
    - apply chan_holds_one_per_sender; [|exact Hin].
      rewrite Hko. apply (inv_next _ Hinv).
  Qed.

  (* ---------- pregel_end_first, one step ---------- *)
  Theorem pregel_step_done : forall p g (ls : loopstate) results sublog s' v l s'',
    pregel_graph g -> sub_fail_nonempty -> pregel_inv ls ->
    submit p g (ls_next V St ls) (ls_st V St ls) = (results, sublog, s') ->
    step p g ls = Finish (Done v l) s'' ->
    let outs := task_outputs V results in
    s'' = s' /\
    (* the log ends with this step's tasks: nothing of the frontier computed together with END runs *)
    l = ls_log V St ls ++ [step_entry V p (ls_next V St ls)] ++ sublog /\
    akeys outs = akeys (ls_next V St ls) /\
    sent g outs kEND <> [] /\
    exists m, get_merge V ops (collect (sent g outs kEND)) = Ok m /\ v = pre_node V ops g kEND m.
  Proof.
    intros p g ls results sublog s' v l s'' Hg Hsub Hinv Hs H. cbv zeta.
    destruct Hinv as [Hk He Hr Hn Hne].
    rewrite (step_pregel_eq _ _ _ _ _ _ Hg Hr Hs) in H.
    destruct (Nat.leb (max_steps g) (ls_step V St ls)) eqn:Hl; [discriminate|].
    destruct (task_errors V results) as [|e es] eqn:Herr; [|discriminate].
    destruct results as [|r0 rs] eqn:Er; [discriminate|]. rewrite <- Er in *.
    assert (Hres : results <> []) by (rewrite Er; discriminate).
    replace (match results with [] => Finish (Fail [mkerr eNoTasks] (step_log p ls sublog)) s' | _ :: _ =>
               match calc_next g (ls_chans V St ls) (task_outputs V results) with
               | Ok (cs', ready) =>
                 match alookup kEND ready with
                 | Some v => Finish (Done v (step_log p ls sublog)) s'
                 | None => Continue {| ls_step := S (ls_step V St ls); ls_chans := cs'; ls_next := ready;
                                       ls_running := []; ls_st := s'; ls_log := step_log p ls sublog |}
                 end
               | Err e => Finish (Fail [mkerr e] (step_log p ls sublog)) s'
               | Panic => Finish (Fail [mkerr ePanic] (step_log p ls sublog)) s'
               end end)
      with (match calc_next g (ls_chans V St ls) (task_outputs V results) with
               | Ok (cs', ready) =>
                 match alookup kEND ready with
                 | Some v => Finish (Done v (step_log p ls sublog)) s'
                 | None => Continue {| ls_step := S (ls_step V St ls); ls_chans := cs'; ls_next := ready;
                                       ls_running := []; ls_st := s'; ls_log := step_log p ls sublog |}
                 end
               | Err e => Finish (Fail [mkerr e] (step_log p ls sublog)) s'
               | Panic => Finish (Fail [mkerr ePanic] (step_log p ls sublog)) s'
               end) in H by (rewrite Er; reflexivity).
    destruct (calc_next g (ls_chans V St ls) (task_outputs V results)) as [[cs' ready]| |] eqn:C; try discriminate.
    destruct (alookup kEND ready) as [v'|] eqn:E; [|discriminate].
    inversion H; subst v' l s''. clear H.
    destruct Hg as [Hm Heag].
    destruct (calc_next_frontier V ops _ _ _ _ _ Hm He Hk C) as [Hnd [Hiff Hmerge]].
    destruct (submit_no_errors _ _ _ _ _ _ _ Hsub Hs Herr) as [Hko _].
    apply alookup_some_in in E.
    split; [reflexivity|]. split; [|split; [exact Hko|split]].
    - unfold step_log. destruct (ls_next V St ls) as [|t0 ts] eqn:En; [|reflexivity].
      simpl in Hs. exfalso. apply Hres. congruence.
    - apply Hiff. apply (in_map fst) in E. exact E.
    - apply Hmerge. exact E.
  Qed.

  (* END was sent nothing in a step after which the loop continues *)
  Theorem pregel_step_continue_no_end : forall p g (ls ls' : loopstate) results sublog s',
    pregel_graph g -> sub_fail_nonempty -> pregel_inv ls ->
    submit p g (ls_next V St ls) (ls_st V St ls) = (results, sublog, s') ->
    step p g ls = Continue ls' ->
    sent g (task_outputs V results) kEND = [].
  Proof.
    intros p g ls ls' results sublog s' Hg Hsub Hinv Hs H.
    destruct (pregel_step_frontier _ _ _ _ _ _ _ Hg Hsub Hinv Hs H) as [Hinv' [_ [_ [_ [Hiff _]]]]].
    destruct (sent g (task_outputs V results) kEND) as [|x l] eqn:E; [reflexivity|].
    exfalso. apply (inv_noend _ Hinv'). apply Hiff. rewrite E. discriminate.
  Qed.

  (* ================= reachable loop states ================= *)
  Inductive reaches (p : path) (g : graph) : nat -> loopstate -> loopstate -> Prop :=
  | reaches_O : forall ls, reaches p g O ls ls
  | reaches_S : forall n ls ls1 ls2, step p g ls = Continue ls1 -> reaches p g n ls1 ls2 -> reaches p g (S n) ls ls2.

  Lemma reaches_snoc : forall p g n ls ls1 ls2,
    reaches p g n ls ls1 -> step p g ls1 = Continue ls2 -> reaches p g (S n) ls ls2.
  Proof.
    intros p g n ls ls1 ls2 H. induction H as [ls|n ls lsa lsb Hs Hr IH]; intros H2.
    - econstructor; [exact H2|constructor].
    - econstructor; [exact Hs|apply IH; exact H2].
  Qed.

  Lemma reaches_last : forall p g n ls ls',
    reaches p g (S n) ls ls' -> exists lsa, reaches p g n ls lsa /\ step p g lsa = Continue ls'.
  Proof.
    intros p g n. induction n as [|n IH]; intros ls ls' H.
    - inversion H as [|n' a b c Hs Hr']; subst. inversion Hr'; subst.
      exists ls. split; [constructor|exact Hs].
    - inversion H as [|n' a b c Hs Hr']; subst.
      destruct (IH _ _ Hr') as [lsa [Ha Hb]]. exists lsa. split; [econstructor; eassumption|exact Hb].
  Qed.

  Lemma step_continue_basic : forall p g (ls ls' : loopstate),
    pregel_graph g -> step p g ls = Continue ls' ->
    (ls_step V St ls < max_steps g)%nat /\ ls_step V St ls' = S (ls_step V St ls).
  Proof.
    intros p g ls ls' [Hm _] H. unfold Graph.step, step_limit_hit in H. rewrite Hm in H.
    destruct (Nat.leb (max_steps g) (ls_step V St ls)) eqn:Hl; [discriminate|]. apply Nat.leb_gt in Hl.
    split; [exact Hl|].
    destruct (submit p g (ls_next V St ls) (ls_st V St ls)) as [[results sublog] s'].
    destruct (wait_tasks V sched g (ls_step V St ls) (ls_running V St ls ++ results)) as [completed running'].
    destruct (task_errors V completed); [|discriminate].
    destruct completed; [discriminate|].
    destruct (Graph.calc_next V ops g (ls_chans V St ls) (task_outputs V (p0 :: completed))) as [[cs' ready]| |];
      try discriminate.
    destruct (alookup kEND ready); [discriminate|]. inversion H. reflexivity.
  Qed.

  Lemma reaches_step_count : forall p g n ls ls',
    pregel_graph g -> reaches p g n ls ls' -> ls_step V St ls' = (ls_step V St ls + n)%nat.
  Proof.
    intros p g n ls ls' Hg H. induction H as [ls|n ls ls1 ls2 Hs Hr IH].
    - lia.
    - destruct (step_continue_basic _ _ _ _ Hg Hs) as [_ H1]. rewrite IH, H1. lia.
  Qed.

  Lemma reaches_inv : forall p g n ls ls',
    pregel_graph g -> sub_fail_nonempty -> pregel_inv ls -> reaches p g n ls ls' -> pregel_inv ls'.
  Proof.
    intros p g n ls ls' Hg Hsub Hinv H. induction H as [ls|n ls ls1 ls2 Hs Hr IH]; [exact Hinv|].
    apply IH.
    destruct (submit p g (ls_next V St ls) (ls_st V St ls)) as [[results sublog] s'] eqn:E.
    destruct (pregel_step_frontier _ _ _ _ _ _ _ Hg Hsub Hinv E Hs) as [Hinv' _]. exact Hinv'.
  Qed.

  (* the loop function, in terms of reachable states: it ends with an explicit Finish, or runs out of fuel *)
  Lemma iterate_reaches : forall p g fuel ls o s,
    iterate p g fuel ls = (o, s) ->
    (exists n ls', (n < fuel)%nat /\ reaches p g n ls ls' /\ step p g ls' = Finish o s) \/
    (exists ls', reaches p g fuel ls ls' /\ o = Fail [mkerr eLoopFuel] (ls_log V St ls') /\ s = ls_st V St ls').
  Proof.
    intros p g fuel. induction fuel as [|f IH]; intros ls o s H; simpl in H.
    - right. exists ls. inversion H; subst. split; [constructor|]. split; reflexivity.
    - destruct (step p g ls) as [ls1|o1 s1] eqn:Es.
      + destruct (IH _ _ _ H) as [[n [ls' [Hn [Hr Hf]]]]|[ls' [Hr [Ho Hs]]]].
        * left. exists (S n), ls'. split; [lia|]. split; [econstructor; eassumption|exact Hf].
        * right. exists ls'. split; [econstructor; eassumption|]. split; assumption.
      + inversion H; subst. left. exists O, ls. split; [lia|]. split; [constructor|exact Es].
  Qed.

  (* ---------- pregel_bounded: the loop ends by itself within max_steps + 1 iterations, for every graph ---------- *)
  Theorem pregel_iterate_bounded : forall p g (ls : loopstate) o s,
    pregel_graph g -> ls_step V St ls = O ->
    iterate p g (loop_fuel g) ls = (o, s) ->
    exists n ls', (n <= max_steps g)%nat /\ reaches p g n ls ls' /\ step p g ls' = Finish o s.
  Proof.
    intros p g ls o s Hg H0 H. unfold loop_fuel in H. destruct Hg as [Hm He]. rewrite Hm in H.
    destruct (iterate_reaches _ _ _ _ _ _ H) as [[n [ls' [Hn [Hr Hf]]]]|[ls' [Hr _]]].
    - exists n, ls'. split; [lia|]. split; assumption.
    - exfalso. (* S (max_steps g) Continue steps are impossible: the last one starts at ls_step = max_steps g *)
      assert (Hg : pregel_graph g) by (split; assumption).
      pose proof (reaches_last _ _ _ _ _ Hr) as Hlast.
      destruct Hlast as [lsa [Ha Hb]].
      pose proof (reaches_step_count _ _ _ _ _ Hg Ha) as Hc.
      destruct (step_continue_basic _ _ _ _ Hg Hb) as [Hlt _]. lia.
  Qed.

  (* what a Finish can be: the classes of outcome of a Pregel run *)
  Inductive finish_class (p : path) (g : graph) (ls : loopstate) : outcome V -> Prop :=
  | fc_done   : forall v l, finish_class p g ls (Done v l)
  | fc_limit  : ls_step V St ls = max_steps g ->                     (* exactly at the configured bound *)
                finish_class p g ls (Fail [mkerr eMaxSteps] (ls_log V St ls))
  | fc_node   : forall es l results sublog s', submit p g (ls_next V St ls) (ls_st V St ls) = (results, sublog, s') ->
                es = task_errors V results -> es <> [] ->              (* a node (or nested run) failed *)
                finish_class p g ls (Fail es l)
  | fc_notask : forall l, ls_next V St ls = [] ->                     (* nobody was sent a value *)
                finish_class p g ls (Fail [mkerr eNoTasks] l)
  | fc_engine : forall e l, e = eBranch \/ e = eUnknownNode \/       (* illegal branch choice / unknown target *)
                            (exists vals, v_merge ops vals = Err e) \/   (* fan-in merge failed *)
                            (e = ePanic /\ exists vals, v_merge ops vals = Panic) ->
                finish_class p g ls (Fail [mkerr e] l).

  Lemma get_merge_fail : forall vals e, get_merge V ops vals = Err e -> v_merge ops vals = Err e.
  Proof.
    intros vals e H. unfold get_merge in H. destruct vals as [|[k v] [|kv vals]]; try discriminate. exact H.
  Qed.
  Lemma get_merge_panic : forall vals, get_merge V ops vals = Panic -> v_merge ops vals = Panic.
  Proof.
    intros vals H. unfold get_merge in H. destruct vals as [|[k v] [|kv vals]]; try discriminate. exact H.
  Qed.

  Lemma calc_next_fail_class : forall g cs outs,
    g_mode g = Pregel -> chans_empty V cs ->
    match calc_next g cs outs with
    | Ok _ => True
    | Err e => e = eBranch \/ e = eUnknownNode \/ exists vals, v_merge ops vals = Err e
    | Panic => exists vals, v_merge ops vals = Panic
    end.
  Proof.
    intros g cs outs Hm He. unfold Graph.calc_next.
    destruct (resolve_all V ops g outs cs) as [[[cs1 ws] ds]| |] eqn:R; cbn [res_bind].
    - apply resolve_all_pregel in R; [|exact Hm]. destruct R as [-> [-> _]].
      unfold update_chans. destruct (targets_exist V cs (writes_of V ops g outs) ds); cbn [res_bind].
      + destruct (get_all V ops g (map (update_chan V g (writes_of V ops g outs) ds) cs)) as [x|e|] eqn:G; [exact I| |].
        * destruct (get_all_pregel_fails V ops _ _ _ _ _ Hm He G) as [t [_ [Heq _]]]; [intros x; discriminate|].
          destruct (get_merge V ops (collect (incoming_vals V g t (writes_of V ops g outs)))) as [v|e'|] eqn:M;
            cbn [res_bind] in Heq; try discriminate.
          inversion Heq; subst. right; right. eexists. apply get_merge_fail. exact M.
        * destruct (get_all_pregel_fails V ops _ _ _ _ _ Hm He G) as [t [_ [Heq Hno]]]; [intros x; discriminate|].
          destruct (get_merge V ops (collect (incoming_vals V g t (writes_of V ops g outs)))) as [v|e'|] eqn:M;
            cbn [res_bind] in Heq; try discriminate.
          -- exfalso. exact (Hno _ eq_refl).
          -- eexists. apply get_merge_panic. exact M.
      + right; left; reflexivity.
    - destruct (resolve_all_pregel_err V ops _ _ _ _ Hm R) as [->| ->]; [left; reflexivity|right; left; reflexivity].
    - exfalso. eapply resolve_all_pregel_nopanic; eassumption.
  Qed.

  Theorem pregel_finish_class : forall p g (ls : loopstate) o s,
    pregel_graph g -> pregel_inv ls -> (ls_step V St ls <= max_steps g)%nat ->
    step p g ls = Finish o s -> finish_class p g ls o.
  Proof.
    intros p g ls o s Hg Hinv Hle H.
    destruct (submit p g (ls_next V St ls) (ls_st V St ls)) as [[results sublog] s'] eqn:Hs.
    rewrite (step_pregel_eq _ _ _ _ _ _ Hg (inv_running _ Hinv) Hs) in H.
    destruct (Nat.leb (max_steps g) (ls_step V St ls)) eqn:Hl.
    - apply Nat.leb_le in Hl. inversion H; subst. apply fc_limit. lia.
    - destruct (task_errors V results) as [|e es] eqn:Herr.
      + destruct results as [|r0 rs] eqn:Er.
        * inversion H; subst. apply fc_notask.
          apply submit_keys in Hs. destruct (ls_next V St ls); [reflexivity|discriminate].
        * pose proof (calc_next_fail_class g (ls_chans V St ls) (task_outputs V (r0 :: rs)) (proj1 Hg) (inv_empty _ Hinv)) as Hc.
          destruct (calc_next g (ls_chans V St ls) (task_outputs V (r0 :: rs))) as [[cs' ready]|e|].
          -- destruct (alookup kEND ready); [|discriminate]. inversion H; subst. apply fc_done.
          -- inversion H; subst. apply fc_engine.
             destruct Hc as [Hc|[Hc|Hc]]; [left; exact Hc|right; left; exact Hc|right; right; left; exact Hc].
          -- inversion H; subst. apply fc_engine. right; right; right. split; [reflexivity|exact Hc].
      + inversion H; subst. eapply fc_node; [exact Hs|symmetry; exact Herr|discriminate].
  Qed.

  (* ================= the initial state of a fresh run ================= *)
  Lemma in_ainsert : forall {A} (l : list (key * A)) k a x, In x (ainsert k a l) -> x = (k, a) \/ In x l.
  Proof.
    intros A l. induction l as [|[k0 a0] l IH]; intros k a x H; simpl in H.
    - destruct H as [H|[]]. left; symmetry; exact H.
    - destruct (N.ltb k k0).
      + destruct H as [H|H]; [left; symmetry; exact H|right; exact H].
      + destruct (N.eqb k k0).
        * destruct H as [H|H]; [left; symmetry; exact H|right; right; exact H].
        * destruct H as [H|H]; [right; left; exact H|].
          destruct (IH _ _ _ H) as [H1|H1]; [left; exact H1|right; right; exact H1].
  Qed.

  Lemma init_chans_v0_ok : forall g,
    NoDup (akeys (init_chans_v0 V g)) /\ chans_empty V (init_chans_v0 V g).
  Proof.
    intros g. unfold init_chans_v0.
    assert (Hs : forall l, ksorted (fold_right (fun k m => ainsert k (chan_init V g k) m) [] l)).
    { induction l as [|a l IHl]; simpl; [constructor|apply ainsert_ksorted; exact IHl]. }
    split; [apply ksorted_nodup; apply Hs|].
    induction (chan_keys g) as [|k ks IH]; simpl; [constructor|].
    unfold chans_empty in *. apply Forall_forall. intros x Hx. apply in_ainsert in Hx.
    destruct Hx as [->|Hx].
    - simpl. unfold chan_init. destruct (g_mode g); reflexivity.
    - rewrite Forall_forall in IH. apply IH. exact Hx.
  Qed.

  Lemma init_chans_pregel : forall g, g_mode g = Pregel -> init_chans V g = Ok (init_chans_v0 V g).
  Proof. intros g Hm. unfold init_chans. rewrite Hm. reflexivity. Qed.

  (* the first frontier: the nodes START routes the input to *)
  Theorem pregel_init_frontier : forall p g x s cs ready,
    pregel_graph g ->
    calc_next g (init_chans_v0 V g) [(kSTART, x)] = Ok (cs, ready) ->
    alookup kEND ready = None ->
    pregel_inv (init_state V St p cs ready s) /\
    (forall t, In t (akeys ready) <-> sent g [(kSTART, x)] t <> []) /\
    (forall t v, In (t, v) ready ->
       exists m, get_merge V ops (collect (sent g [(kSTART, x)] t)) = Ok m /\ v = pre_node V ops g t m).
  Proof.
    intros p g x s cs ready [Hm He] Hc Hend.
    destruct (init_chans_v0_ok g) as [Hnd Hemp].
    destruct (calc_next_pregel V ops _ _ _ _ _ Hm Hemp Hc) as [Hk' [He' _]].
    destruct (calc_next_frontier V ops _ _ _ _ _ Hm Hemp Hnd Hc) as [Hnd' [Hiff Hmerge]].
    split; [|split; assumption].
    constructor; simpl.
    - rewrite Hk'. exact Hnd.
    - exact He'.
    - reflexivity.
    - exact Hnd'.
    - apply alookup_none_keys. exact Hend.
  Qed.

  (* ================= a whole run of one graph instance ================= *)
  (* every way a fresh run can go; nothing else is possible, in particular no fuel exhaustion *)
  Inductive run_shape (p : path) (g : graph) (x : V) (s : St) : outcome V * St -> Prop :=
  | rs_init_fail : forall e,                      (* the input could not be routed from START *)
      (e = eBranch \/ e = eUnknownNode \/ (exists vals, v_merge ops vals = Err e) \/
       (e = ePanic /\ exists vals, v_merge ops vals = Panic)) ->
      run_shape p g x s (Fail [mkerr e] [run_marker V p], s)
  | rs_init_end : forall cs ready v,              (* START routes straight to END: no node runs *)
      calc_next g (init_chans_v0 V g) [(kSTART, x)] = Ok (cs, ready) -> alookup kEND ready = Some v ->
      run_shape p g x s (Done v [run_marker V p], s)
  | rs_loop : forall cs ready n ls o s',          (* n <= max_steps continuing supersteps, then a finishing one *)
      calc_next g (init_chans_v0 V g) [(kSTART, x)] = Ok (cs, ready) -> alookup kEND ready = None ->
      (n <= max_steps g)%nat ->
      reaches p g n (init_state V St p cs ready s) ls -> pregel_inv ls ->
      step p g ls = Finish o s' -> finish_class p g ls o ->
      run_shape p g x s (o, s').

  Theorem pregel_run_shape : forall p g x s,
    pregel_graph g -> sub_fail_nonempty -> run_shape p g x s (run_flat p g x s).
  Proof.
    intros p g x s Hg Hsub. unfold Graph.run_flat. rewrite (init_chans_pregel _ (proj1 Hg)).
    destruct (init_chans_v0_ok g) as [Hnd Hemp].
    pose proof (calc_next_fail_class g (init_chans_v0 V g) [(kSTART, x)] (proj1 Hg) Hemp) as Hc.
    destruct (calc_next g (init_chans_v0 V g) [(kSTART, x)]) as [[cs ready]|e|] eqn:C.
    - destruct (alookup kEND ready) as [v|] eqn:E.
      + eapply rs_init_end; eassumption.
      + destruct (iterate p g (loop_fuel g) (init_state V St p cs ready s)) as [o s'] eqn:I.
        destruct (pregel_init_frontier p g x s cs ready Hg C E) as [Hinv _].
        destruct (pregel_iterate_bounded p g (init_state V St p cs ready s) o s' Hg eq_refl I) as [n [ls' [Hn [Hr Hf]]]].
        pose proof (reaches_inv _ _ _ _ _ Hg Hsub Hinv Hr) as Hinv'.
        eapply rs_loop; try eassumption.
        eapply pregel_finish_class; try eassumption.
        rewrite (reaches_step_count _ _ _ _ _ Hg Hr). simpl. exact Hn.
    - apply rs_init_fail. destruct Hc as [Hc|[Hc|Hc]]; [left; exact Hc|right; left; exact Hc|right; right; left; exact Hc].
    - apply rs_init_fail. right; right; right. split; [reflexivity|exact Hc].
  Qed.
End Run.
