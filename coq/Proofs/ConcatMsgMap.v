(* Proofs/ConcatMsgMap.v — map chunks whose values may be chat messages
   (Model/ConcatMsgMap.v): totality and re-chunking invariance, by the generic key-wise
   lifting (Proofs/ConcatKeyed.v) from the laws of ConcatMessages (Proofs/ConcatMsg.v) and of
   concat_key (Proofs/ConcatRechunk.v). *)
From Eino Require Import Base.Util Model.Concat Model.ConcatMsg Model.ConcatMsgMap.
From Eino Require Import Proofs.Concat Proofs.ConcatRechunk Proofs.ConcatMsg Proofs.ConcatKeyed.

Section User.
Context {U : UserFn} {L : UserLaw}.

(* concat_key with the fuel hidden *)
Lemma concat_key_top_law vs rest :
  match concat_key concat_maps_top vs with
  | Ok v => req (concat_key concat_maps_top (v :: rest)) (concat_key concat_maps_top (vs ++ rest))
  | _ => fails (concat_key concat_maps_top (vs ++ rest))
  end.
Proof.
  apply (key_rechunk concat_maps_top (S (depth_list (vs ++ rest)))).
  - intros ms1 ms2 _. apply concat_maps_rechunk.
  - apply vbounded_top.
Qed.

Lemma filter_id {A} (p : A -> bool) l : (forall x, In x l -> p x = true) -> filter p l = l.
Proof.
  induction l as [|a l IH]; cbn; intros H; [reflexivity|].
  rewrite (H a) by now left. rewrite IH; [reflexivity|]. intros; apply H; now right.
Qed.

Lemma concat_key_top_nonnil vs v :
  (forall x, In x vs -> is_nil x = false) -> concat_key concat_maps_top vs = Ok v -> vs <> [] -> is_nil v = false.
Proof.
  intros Hnn E Hne. unfold concat_key in E.
  rewrite filter_id in E by (intros x Hx; rewrite (Hnn x Hx); reflexivity).
  destruct vs as [|v0 r]; [congruence|].
  destruct (dyn_ty v0) as [t|] eqn:Et; [|discriminate].
  destruct (same_types t r) eqn:Hs; [|discriminate].
  assert (Hs0 : same_types t (v0 :: r) = true) by (rewrite (same_types_cons _ _ _ Et); exact Hs).
  pose proof (typed_ty concat_maps_top (S (depth_list (v0 :: r)))
                (fun ms1 ms2 _ => concat_maps_rechunk ms1 ms2) t (v0 :: r) v ltac:(discriminate) Hs0
                (vbounded_top (v0 :: r)) E) as Hty.
  destruct v; cbn in *; congruence.
Qed.

Definition nnm : list mval -> list mval := filter (fun v => negb (is_mnil v)).

Lemma nnm_cons_keep v rest : is_mnil v = false -> nnm (v :: rest) = v :: nnm rest.
Proof. intros H. unfold nnm. cbn [filter]. rewrite H. reflexivity. Qed.

Lemma nnm_head v0 r vs : nnm vs = v0 :: r -> is_mnil v0 = false.
Proof.
  intros E. assert (H : In v0 (nnm vs)) by (rewrite E; now left).
  apply filter_In in H. destruct H as [_ H]. destruct (is_mnil v0); [discriminate|reflexivity].
Qed.

Lemma nnm_all vs x : In x (nnm vs) -> is_mnil x = false.
Proof. intros H. apply filter_In in H. destruct H as [_ H]. destruct (is_mnil x); [discriminate|reflexivity]. Qed.

Lemma to_cval_nonnil x : is_mnil x = false -> is_msgkind x = false -> is_nil (to_cval x) = false.
Proof. destruct x as [| |c]; cbn; try discriminate. destruct c; cbn; congruence. Qed.

(* the per-key law *)
Lemma mkey_law vs rest :
  match concat_mkey vs with
  | Ok v => req (concat_mkey (v :: rest)) (concat_mkey (vs ++ rest))
  | _ => fails (concat_mkey (vs ++ rest))
  end.
Proof.
  unfold concat_mkey. rewrite filter_app. fold nnm. fold (nnm vs) (nnm rest).
  destruct (nnm vs) as [|v0 r] eqn:E.
  - (* nothing but nil values so far *)
    cbn [app]. change (filter (fun v => negb (is_mnil v)) (MVVal CNil :: rest)) with (nnm rest). apply req_refl.
  - pose proof (nnm_head v0 r vs E) as N0.
    assert (Nall : forall x, In x (v0 :: r) -> is_mnil x = false) by (intros x Hx; apply (nnm_all vs); rewrite E; exact Hx).
    cbn [app]. destruct (is_msgkind v0) eqn:K0.
    + (* message values *)
      change (v0 :: r ++ nnm rest) with ((v0 :: r) ++ nnm rest). rewrite forallb_app.
      destruct (forallb is_msgkind (v0 :: r)) eqn:Hall; cbn [andb]; [|reflexivity].
      destruct r as [|m2 r'].
      * fold nnm. rewrite (nnm_cons_keep v0 rest N0). cbn [app]. rewrite K0.
        change (v0 :: nnm rest) with ([v0] ++ nnm rest). rewrite forallb_app, Hall. cbn [andb app]. apply req_refl.
      * pose proof (msgs_rechunk (map to_omsg (v0 :: m2 :: r')) (map to_omsg (nnm rest))) as R.
        unfold msgs_rechunk_stmt in R. rewrite <- map_app in R.
        destruct (concat_msgs (map to_omsg (v0 :: m2 :: r'))) as [c| |] eqn:Ec; cbn [res_map].
        -- fold nnm. rewrite (nnm_cons_keep (MVMsg c) rest eq_refl). cbn [is_msgkind forallb andb].
           destruct (forallb is_msgkind (nnm rest)) eqn:Hr; [|reflexivity].
           destruct (nnm rest) as [|y nr].
           ++ rewrite !app_nil_r. cbn [app]. rewrite Ec. reflexivity.
           ++ cbn [app map to_omsg] in R |- *. apply req_res_map. exact R.
        -- destruct (forallb is_msgkind (nnm rest)); [|reflexivity].
           cbn [app]. apply fails_res_map. exact R.
        -- destruct (forallb is_msgkind (nnm rest)); [|reflexivity].
           cbn [app]. apply fails_res_map. exact R.
    + (* ordinary values *)
      change (v0 :: r ++ nnm rest) with ((v0 :: r) ++ nnm rest). rewrite forallb_app.
      destruct (forallb (fun v => negb (is_msgkind v)) (v0 :: r)) eqn:Hall; cbn [andb]; [|reflexivity].
      pose proof (concat_key_top_law (map to_cval (v0 :: r)) (map to_cval (nnm rest))) as R.
      rewrite <- map_app in R.
      destruct (concat_key concat_maps_top (map to_cval (v0 :: r))) as [c| |] eqn:Ec; cbn [res_map].
      * assert (Nc : is_nil c = false).
        { apply (concat_key_top_nonnil (map to_cval (v0 :: r)) c); [|exact Ec|discriminate].
          intros x Hx. apply in_map_iff in Hx. destruct Hx as [y [<- Hy]].
          apply to_cval_nonnil; [apply Nall, Hy|].
          rewrite forallb_forall in Hall. specialize (Hall y Hy). destruct (is_msgkind y); [discriminate|reflexivity]. }
        assert (Nm : is_mnil (MVVal c) = false) by (destruct c; cbn in *; congruence).
        fold nnm. rewrite (nnm_cons_keep (MVVal c) rest Nm). cbn [is_msgkind forallb negb andb].
        destruct (forallb (fun v => negb (is_msgkind v)) (nnm rest)); [|reflexivity].
        apply req_res_map. cbn [map to_cval]. exact R.
      * destruct (forallb (fun v => negb (is_msgkind v)) (nnm rest)); [|reflexivity].
        apply fails_res_map. exact R.
      * destruct (forallb (fun v => negb (is_msgkind v)) (nnm rest)); [|reflexivity].
        apply fails_res_map. exact R.
Qed.

Lemma concat_mkey_no_panic vs : concat_mkey vs <> Panic.
Proof.
  unfold concat_mkey. destruct (filter _ vs) as [|v0 r]; [discriminate|].
  destruct (is_msgkind v0).
  - destruct (forallb is_msgkind (v0 :: r)); [|discriminate].
    destruct r as [|m2 r']; [discriminate|].
    pose proof (concat_msgs_no_panic (map to_omsg (v0 :: m2 :: r'))) as H.
    destruct (concat_msgs _); cbn; congruence.
  - destruct (forallb _ (v0 :: r)); [|discriminate].
    pose proof (concat_key_no_panic concat_maps_top (map to_cval (v0 :: r))
                  (fun ms => concat_maps_no_panic (S (dmaps ms)) ms)) as H.
    destruct (concat_key _ _); cbn; congruence.
Qed.

(* concatMaps on maps with message values: any prefix *)
Theorem mmaps_rechunk xs ys : rechunk_ok concat_mmaps xs ys.
Proof. unfold concat_mmaps. apply kstep_rechunk. exact mkey_law. Qed.

Lemma concat_mmaps_no_panic ms : concat_mmaps ms <> Panic.
Proof. unfold concat_mmaps. apply kstep_no_panic. exact concat_mkey_no_panic. Qed.

Lemma mmap_stream_no_panic l : mmap_stream l <> Panic.
Proof.
  destruct l as [|x1 [|x2 l]]; cbn [mmap_stream]; try discriminate. apply concat_mmaps_no_panic.
Qed.

Theorem mmap_stream_rechunk_weak xs ys : xs <> [] -> rechunk_ok mmap_stream xs ys.
Proof.
  intros Hne. unfold rechunk_ok.
  destruct xs as [|x1 [|x2 l]]; [congruence| |].
  - cbn [mmap_stream]. apply req_refl.
  - pose proof (mmaps_rechunk (x1 :: x2 :: l) ys) as H. unfold rechunk_ok in H.
    change (mmap_stream (x1 :: x2 :: l)) with (concat_mmaps (x1 :: x2 :: l)).
    change (mmap_stream ((x1 :: x2 :: l) ++ ys)) with (concat_mmaps ((x1 :: x2 :: l) ++ ys)).
    destruct (concat_mmaps (x1 :: x2 :: l)) as [c| |] eqn:E; try exact H.
    destruct ys as [|y ys'].
    + rewrite app_nil_r. cbn [mmap_stream]. rewrite E. reflexivity.
    + exact H.
Qed.

Theorem mmap_stream_rechunk xs ys : xs <> [] -> rechunk_strict mmap_stream xs ys.
Proof.
  intros Hne. apply rechunk_strict_of; auto using mmap_stream_no_panic, mmap_stream_rechunk_weak.
Qed.

End User.
