(* Proofs/ConcatMsgSpec.v — closed-form description of every field of the message that
   ConcatMessages returns (Model/ConcatMsg.v: concat_msgs): role / name / tool-call id
   consistency, content join, last non-empty multi-content, response meta (last non-empty
   finish reason, component-wise maximum of the token usage and 0, log-probs appended),
   extras merged key by key. *)
From Eino Require Import Base.Util Model.Concat Model.ConcatMsg.
From Eino Require Import Proofs.Concat Proofs.ConcatRechunk Proofs.ConcatMsg.

Section User.
Context {U : UserFn} {L : UserLaw}.

(* ------------------------------------------------------------------ pick *)

Lemma str_empty_false s : str_empty s = false -> s <> EmptyString.
Proof. unfold str_empty. intros H E. subst. discriminate. Qed.

Lemma pick_from_spec l : forall cur r,
  pick_from cur l = Ok r <->
  (forall s, In s (cur :: l) -> s = EmptyString \/ s = r) /\ In r (cur :: l).
Proof.
  induction l as [|s l IH]; intros cur r; cbn [pick_from].
  - split.
    + intros H. inversion H; subst. split; [intros s [<- | []]; auto|now left].
    + intros [_ [<- | []]]. reflexivity.
  - destruct (str_empty s) eqn:Es.
    + apply str_empty_true in Es. subst s. rewrite IH. split.
      * intros [Ha Hi]. split.
        -- intros s [<- | [<- | Hs]]; [apply Ha; now left|now left|apply Ha; now right].
        -- destruct Hi as [<- | Hi]; [now left|right; now right].
      * intros [Ha Hi]. split.
        -- intros s [<- | Hs]; [apply Ha; now left|apply Ha; right; now right].
        -- destruct Hi as [<- | [<- | Hi]]; [now left| |now right].
           destruct (Ha cur (or_introl eq_refl)) as [-> | ->]; now left.
    + pose proof (str_empty_false s Es) as Ns.
      destruct (str_empty cur) eqn:Ec.
      * apply str_empty_true in Ec. subst cur. rewrite IH. split.
        -- intros [Ha Hi]. split.
           ++ intros x [<- | [<- | Hx]]; [now left|apply Ha; now left|apply Ha; now right].
           ++ right. exact Hi.
        -- intros [Ha Hi]. split.
           ++ intros x Hx. apply Ha. now right.
           ++ destruct Hi as [<- | Hi]; [|exact Hi].
              destruct (Ha s (or_intror (or_introl eq_refl))) as [E|E]; [congruence|]. subst. now left.
      * pose proof (str_empty_false cur Ec) as Nc.
        destruct (String.eqb cur s) eqn:E.
        -- apply String.eqb_eq in E. subst s. rewrite IH. split.
           ++ intros [Ha Hi]. split.
              ** intros x [<- | [<- | Hx]]; [apply Ha; now left|apply Ha; now left|apply Ha; now right].
              ** destruct Hi as [<- | Hi]; [now left|right; now right].
           ++ intros [Ha Hi]. split.
              ** intros x [<- | Hx]; [apply Ha; now left|apply Ha; right; now right].
              ** destruct Hi as [<- | [<- | Hi]]; [now left|now left|now right].
        -- apply String.eqb_neq in E. split; [discriminate|].
           intros [Ha _]. exfalso.
           destruct (Ha cur (or_introl eq_refl)) as [?|E1]; [congruence|].
           destruct (Ha s (or_intror (or_introl eq_refl))) as [?|E2]; congruence.
Qed.

(* pick succeeds with r iff every value is empty or r, and r is one of them (or empty) *)
Lemma pick_spec l r :
  pick l = Ok r <-> (forall s, In s l -> s = EmptyString \/ s = r) /\ (r = EmptyString \/ In r l).
Proof.
  unfold pick. rewrite pick_from_spec. split.
  - intros [Ha Hi]. split; [intros s Hs; apply Ha; now right|].
    destruct Hi as [<- | Hi]; [now left|now right].
  - intros [Ha Hi]. split.
    + intros s [<- | Hs]; [now left|apply Ha, Hs].
    + destruct Hi as [->|Hi]; [now left|now right].
Qed.

(* ------------------------------------------------------------------ last non-empty *)

Definition last_nonempty (l : list string) : string :=
  fold_left (fun acc s => if str_empty s then acc else s) l EmptyString.

Lemma concat_multi_spec l :
  concat_multi l = fold_left (fun acc x => match x with [] => acc | _ => x end) l [].
Proof. reflexivity. Qed.

(* ------------------------------------------------------------------ response meta *)

Fixpoint somes {A} (l : list (option A)) : list A :=
  match l with
  | [] => []
  | Some a :: l' => a :: somes l'
  | None :: l' => somes l'
  end.

Lemma somes_app {A} (a b : list (option A)) : somes (a ++ b) = somes a ++ somes b.
Proof. induction a as [|[x|] a IH]; cbn; congruence. Qed.

Definition umax_all (us : list usage) : usage := fold_left umax us zero_usage.

Definition usage_closed (us : list usage) : option usage :=
  match us with [] => None | _ => Some (umax_all us) end.

Definition lp_closed (ls : list (list string)) : option (list string) :=
  match ls with [] => None | _ => Some (List.concat ls) end.

Definition meta_of (xs : list rmeta) : rmeta :=
  mkMeta (last_nonempty (map rm_finish xs))
         (usage_closed (somes (map rm_usage xs)))
         (lp_closed (somes (map rm_logprobs xs))).

(* the merged meta: absent iff no chunk has one; otherwise built from the chunks that have one *)
Definition meta_closed (l : list (option rmeta)) : option rmeta :=
  match somes l with [] => None | xs => Some (meta_of xs) end.

Lemma meta_of_nil : meta_of [] = empty_meta.
Proof. reflexivity. Qed.

Lemma meta_closed_acc l : match meta_closed l with Some a => a | None => empty_meta end = meta_of (somes l).
Proof. unfold meta_closed. destruct (somes l); reflexivity. Qed.

Lemma usage_closed_acc us : match usage_closed us with Some a => a | None => zero_usage end = umax_all us.
Proof. destruct us; reflexivity. Qed.

Lemma lp_closed_acc ls : match lp_closed ls with Some a => a | None => [] end = List.concat ls.
Proof. destruct ls; reflexivity. Qed.

Lemma meta_of_snoc xs a :
  meta_of (xs ++ [a]) =
  mkMeta (if str_empty (rm_finish a) then rm_finish (meta_of xs) else rm_finish a)
         (match rm_usage a with
          | None => rm_usage (meta_of xs)
          | Some u => Some (umax (match rm_usage (meta_of xs) with Some au => au | None => zero_usage end) u)
          end)
         (match rm_logprobs a with
          | None => rm_logprobs (meta_of xs)
          | Some lp => Some ((match rm_logprobs (meta_of xs) with Some l => l | None => [] end) ++ lp)
          end).
Proof.
  unfold meta_of. cbn [rm_finish rm_usage rm_logprobs]. rewrite !map_app, !somes_app. cbn [map somes].
  f_equal.
  - unfold last_nonempty. rewrite fold_left_app. reflexivity.
  - destruct (rm_usage a) as [u|]; cbn [somes]; [|rewrite app_nil_r; reflexivity].
    rewrite usage_closed_acc. unfold usage_closed.
    destruct (somes (map rm_usage xs) ++ [u]) eqn:E; [destruct (somes (map rm_usage xs)); discriminate|].
    rewrite <- E. unfold umax_all. rewrite fold_left_app. reflexivity.
  - destruct (rm_logprobs a) as [lp|]; cbn [somes]; [|rewrite app_nil_r; reflexivity].
    rewrite lp_closed_acc. unfold lp_closed.
    destruct (somes (map rm_logprobs xs) ++ [lp]) eqn:E; [destruct (somes (map rm_logprobs xs)); discriminate|].
    rewrite <- E. rewrite concat_app. cbn. rewrite app_nil_r. reflexivity.
Qed.

Lemma meta_closed_snoc l x : meta_closed (l ++ [x]) = meta_step (meta_closed l) x.
Proof.
  destruct x as [a|].
  - unfold meta_step. rewrite meta_closed_acc.
    unfold meta_closed at 1. rewrite somes_app. cbn [somes].
    destruct (somes l ++ [a]) eqn:E; [destruct (somes l); discriminate|]. rewrite <- E.
    rewrite meta_of_snoc. reflexivity.
  - unfold meta_closed. rewrite somes_app. cbn. rewrite app_nil_r. reflexivity.
Qed.

Theorem concat_meta_closed l : concat_meta l = meta_closed l.
Proof.
  induction l as [|x l IH] using rev_ind; [reflexivity|].
  unfold concat_meta in *. rewrite fold_left_app. cbn [fold_left]. rewrite IH.
  symmetry. apply meta_closed_snoc.
Qed.

(* the usage is, component by component, the maximum of 0 and of the chunks' values *)
Lemma umax_all_from us : forall acc,
  fold_left umax us acc =
  mkUsage (fold_left Z.max (map u_prompt us) (u_prompt acc))
          (fold_left Z.max (map u_compl us) (u_compl acc))
          (fold_left Z.max (map u_total us) (u_total acc)).
Proof.
  induction us as [|u us IH]; intros acc; cbn; [destruct acc; reflexivity|].
  rewrite IH. reflexivity.
Qed.

Lemma umax_all_components us :
  umax_all us = mkUsage (fold_left Z.max (map u_prompt us) 0%Z)
                        (fold_left Z.max (map u_compl us) 0%Z)
                        (fold_left Z.max (map u_total us) 0%Z).
Proof. unfold umax_all. rewrite umax_all_from. reflexivity. Qed.

Lemma fold_max_ge l : forall acc z, (z = acc \/ In z l) -> (z <= fold_left Z.max l acc)%Z.
Proof.
  induction l as [|a l IH]; intros acc z H; cbn.
  - destruct H as [->|[]]. lia.
  - destruct H as [->|[->|H]].
    + transitivity (Z.max acc a); [lia|]. apply IH. now left.
    + transitivity (Z.max acc z); [lia|]. apply IH. now left.
    + apply IH. now right.
Qed.

Lemma fold_max_in l : forall acc, fold_left Z.max l acc = acc \/ In (fold_left Z.max l acc) l.
Proof.
  induction l as [|a l IH]; intros acc; cbn; [now left|].
  destruct (IH (Z.max acc a)) as [E|H]; [|right; now right].
  rewrite E. destruct (Z.max_spec acc a) as [[_ ->]|[_ ->]]; [right; now left|now left].
Qed.

(* ------------------------------------------------------------------ all fields *)

Definition fields_spec_stmt (l : list (option msg)) (r : msg) : Prop :=
  exists ms, all_some l = Some ms /\
    pick (map m_role ms) = Ok (m_role r) /\
    pick (map m_name ms) = Ok (m_name r) /\
    pick (map m_tcid ms) = Ok (m_tcid r) /\
    m_content r = concat_strings (map m_content ms) /\
    m_multi r = fold_left (fun acc x => match x with [] => acc | _ => x end) (map m_multi ms) [] /\
    m_meta r = meta_closed (map m_meta ms) /\
    concat_toolcalls (flat_map m_tcs ms) = Ok (m_tcs r) /\
    let ex := filter nonempty_map (map m_extra ms) in
    map fst (m_extra r) = keys_of ex /\
    forall k, In k (keys_of ex) ->
      exists v, concat_key concat_maps_top (vals_at k ex) = Ok v /\ alist_get k (m_extra r) = Some v.

Theorem fields_spec l r : concat_msgs l = Ok r -> fields_spec_stmt l r.
Proof.
  unfold concat_msgs, fields_spec_stmt. destruct (all_some l) as [ms|]; [|discriminate].
  intros H. exists ms. split; [reflexivity|].
  destruct (pick (map m_role ms)) as [role| |]; cbn [res_bind] in H; try discriminate.
  destruct (pick (map m_name ms)) as [name| |]; cbn [res_bind] in H; try discriminate.
  destruct (pick (map m_tcid ms)) as [tcid| |]; cbn [res_bind] in H; try discriminate.
  destruct (concat_toolcalls (flat_map m_tcs ms)) as [tcs| |]; cbn [res_bind] in H; try discriminate.
  destruct (concat_maps_top (filter nonempty_map (map m_extra ms))) as [ex| |] eqn:Ex; cbn [res_bind] in H; try discriminate.
  inversion H; subst r; clear H. cbn [m_role m_name m_tcid m_content m_multi m_meta m_tcs m_extra].
  repeat (split; [reflexivity|]).
  split; [apply concat_meta_closed|]. split; [reflexivity|].
  rewrite concat_maps_top_unfold in Ex. unfold concat_maps_step in Ex.
  apply mapM_pairs_inv in Ex. exact Ex.
Qed.

End User.
